import YaqsModel.Lemmas.Verdict
import Mathlib.LinearAlgebra.Matrix.Trace
import Mathlib.Data.Complex.Basic
import Mathlib.Algebra.Star.Basic

/-!
# C04 — the equivalence checker decides equivalence correctly in both directions

Property theorems only (helper lemmas live in `Lemmas/Verdict.lean`).

* Part A (`verdict_*`, `overlap_*`, `rounded_counterexample`) decides the *verdict*: for every modulus
  `t = |trace|`, every qubit count and every fidelity.  The `t` handed to the model by the correspondence
  check is the binary64 value the real `scalar_product` returned, as an exact rational.
* Part B (`zone_*`, `iterate_*`, `lin_*`) is about the integer/list logic of the MPO build: which gates of
  which circuit are consumed by which update.  For **all** circuit pairs it proves that the loop of `iterate`
  terminates, consumes every gate of either circuit exactly once in a wire-respecting order, and that — *if*
  every primitive tensor update is exact — the operator built is `U₁ · X · U₂ᴴ`.  The tensor numerics
  (`apply_gate`, `decompose_theta`, the long-range gate-MPO contraction) are **modelled, not verified**:
  they are only *tied* numerically against qiskit's `Operator` by the harness (`numeric` cases), and the
  agreement of the model's event list with the real `iterate` is a *trace tie* (`iter` cases).
-/
namespace Yaqs.Verdict

open Matrix

/-! ## Part A — the verdict -/

/-- **C04.1** the checker says "equivalent" exactly when the normalised overlap `t / 2^n` reaches the
    requested fidelity — for every modulus, qubit count and fidelity. -/
theorem verdict_iff (t : Rat) (n : Nat) (f : Rat) : verdict t n f = true ↔ f ≤ t / (2 : Rat) ^ n := by
  simp [verdict, not_lt]

example : verdict (399 / 100) 2 (99 / 100) = true ∧ verdict (399 / 100) 2 (999 / 1000) = false := by
  decide +kernel

/-- **C04.2** equal circuits (up to a global phase: `|trace| = 2^n`) are reported equivalent for every
    fidelity `f ≤ 1`. -/
theorem verdict_equal_circuits (t : Rat) (n : Nat) (f : Rat) (ht : t = (2 : Rat) ^ n) (hf : f ≤ 1) :
    verdict t n f = true := by
  rw [verdict_iff, ht]
  have h2 : (0 : Rat) < (2 : Rat) ^ n := by positivity
  rw [div_self (ne_of_gt h2)]
  exact hf

example : verdict 8 3 (1 - 1 / 10 ^ 13) = true := by decide +kernel

/-- **C04.3** an overlap below the fidelity is reported "not equivalent" — whatever the margin. -/
theorem verdict_below (t : Rat) (n : Nat) (f : Rat) (h : t / (2 : Rat) ^ n < f) : verdict t n f = false := by
  simp [verdict, h]

example : verdict (99 / 25) 2 (999 / 1000) = false := by decide +kernel

/-- **C04.4** monotone: a larger overlap or a smaller requested fidelity never turns "equivalent" into
    "not equivalent". -/
theorem verdict_monotone (t t' : Rat) (n : Nat) (f f' : Rat) (ht : t ≤ t') (hf : f' ≤ f)
    (h : verdict t n f = true) : verdict t' n f' = true := by
  rw [verdict_iff] at *
  have h2 : (0 : Rat) < (2 : Rat) ^ n := by positivity
  have : t / (2 : Rat) ^ n ≤ t' / (2 : Rat) ^ n := div_le_div_of_nonneg_right ht (le_of_lt h2)
  linarith

example : verdict 3 2 (1 / 2) = true := by decide +kernel

/-- **C04.5a** swapping the circuits conjugates the trace: `tr(Bᴴ A) = star (tr(Aᴴ B))`, over any star ring. -/
theorem overlap_conj {ι R : Type*} [Fintype ι] [DecidableEq ι] [CommSemiring R] [StarRing R]
    (A B : Matrix ι ι R) : trace (Bᴴ * A) = star (trace (Aᴴ * B)) := by
  rw [← trace_conjTranspose, conjTranspose_mul, conjTranspose_conjTranspose]

/-- **C04.5** the squared modulus of the overlap is the same in both argument orders (all square complex
    matrices, any size) … -/
theorem overlap_symm {ι : Type*} [Fintype ι] [DecidableEq ι] (A B : Matrix ι ι ℂ) :
    Complex.normSq (trace (Aᴴ * B)) = Complex.normSq (trace (Bᴴ * A)) := by
  rw [overlap_conj A B]
  exact (Complex.normSq_conj _).symm

example : Complex.normSq (trace ((!![1, 2; 3, 4] : Matrix (Fin 2) (Fin 2) ℂ)ᴴ * !![0, 1; 1, 0])) =
    Complex.normSq (trace ((!![0, 1; 1, 0] : Matrix (Fin 2) (Fin 2) ℂ)ᴴ * !![1, 2; 3, 4])) := overlap_symm _ _

/-- … **C04.5b** hence the verdict is the same when the two circuits are swapped: if `t₁`, `t₂` are the
    (non-negative) moduli of the two traces, the decisions coincide for every fidelity. -/
theorem verdict_swap {ι : Type*} [Fintype ι] [DecidableEq ι] (A B : Matrix ι ι ℂ) (t₁ t₂ : Rat) (n : Nat) (f : Rat)
    (h₁ : 0 ≤ t₁) (h₂ : 0 ≤ t₂)
    (e₁ : ((t₁ : ℝ)) ^ 2 = Complex.normSq (trace (Aᴴ * B)))
    (e₂ : ((t₂ : ℝ)) ^ 2 = Complex.normSq (trace (Bᴴ * A))) :
    verdict t₁ n f = verdict t₂ n f := by
  have hsq : ((t₁ : ℝ)) ^ 2 = ((t₂ : ℝ)) ^ 2 := by rw [e₁, e₂, overlap_symm]
  have h₁' : (0 : ℝ) ≤ (t₁ : ℝ) := by exact_mod_cast h₁
  have h₂' : (0 : ℝ) ≤ (t₂ : ℝ) := by exact_mod_cast h₂
  have : (t₁ : ℝ) = (t₂ : ℝ) := (sq_eq_sq₀ h₁' h₂').mp hsq
  have : t₁ = t₂ := by exact_mod_cast this
  rw [this]

example : verdict 2 1 (1 / 2) = verdict 2 1 (1 / 2) :=
  verdict_swap (1 : Matrix (Fin 2) (Fin 2) ℂ) 1 2 2 1 (1 / 2) (by norm_num) (by norm_num)
    (by simp [Matrix.trace_one]; norm_num) (by simp [Matrix.trace_one]; norm_num)

/-- **C04.2b** circuits equal up to a global phase have overlap modulus exactly `dim²`: if `A = c • B` with
    `B` unitary and `|c| = 1` then `|tr(Bᴴ A)|² = (dim)²` — so by `verdict_equal_circuits` they are reported
    equivalent for every `f ≤ 1`. -/
theorem overlap_equal_up_to_phase {ι : Type*} [Fintype ι] [DecidableEq ι] (B : Matrix ι ι ℂ) (c : ℂ)
    (hB : Bᴴ * B = 1) (hc : Complex.normSq c = 1) :
    Complex.normSq (trace (Bᴴ * (c • B))) = ((Fintype.card ι : ℝ)) ^ 2 := by
  rw [Matrix.mul_smul, hB, trace_smul, trace_one, smul_eq_mul, Complex.normSq_mul, hc, one_mul,
    Complex.normSq_natCast]
  ring

example : Complex.normSq (trace ((1 : Matrix (Fin 4) (Fin 4) ℂ)ᴴ * (Complex.I • 1))) = ((Fintype.card (Fin 4) : ℝ)) ^ 2 :=
  overlap_equal_up_to_phase 1 Complex.I (by simp) (by simp)

/-- **C04.6** (negation of the property for the code as found, D5): with `|trace|` rounded to one decimal,
    the 2-qubit pair of overlap `0.99` is reported equivalent at fidelity `0.999`; the repaired rule says no. -/
theorem rounded_counterexample :
    verdictRounded (99 / 25) 2 (999 / 1000) = true ∧ (99 / 25 : Rat) / 2 ^ 2 < 999 / 1000 ∧
      verdict (99 / 25) 2 (999 / 1000) = false := by
  decide +kernel

/-! ## Part B — the gate bookkeeping of the MPO build -/

/-- **C04.7** `get_temporal_zone` removes its gates in a wire-respecting order: every gate it moves into the
    zone has, at that moment, no earlier remaining gate on any of its wires (any cone, any circuit). -/
theorem zone_wire_respecting (cone : List Nat) (d : Dag) : Takes d (zone cone d).1 (zone cone d).2 :=
  zone_takes cone d

example : zone [1, 2] (mkDag [[0], [1, 2], [2, 3], [1], [2]]) =
    ([⟨1, [1, 2]⟩, ⟨3, [1]⟩], [⟨0, [0]⟩, ⟨2, [2, 3]⟩, ⟨4, [2]⟩]) := by decide +kernel

/-- **C04.8** (`iterate_consumes_all`) whenever the loop of `iterate` finishes, the gates it applied from
    circuit 1 (from the left) form a wire-respecting linearisation of *all* of circuit 1, and likewise the gates
    applied from circuit 2 (conjugated, from the right) — for all circuits, sizes and fuel.  *Tied*: that the
    real `iterate` produces the model's event list is checked by the `iter` trace tie on every run. -/
theorem iterate_consumes_all (n : Nat) (c1 c2 : Dag) (fuel : Nat) (evs : List Ev)
    (h : iterate n c1 c2 fuel = .done evs) : Lin c1 (consumed 1 evs) ∧ Lin c2 (consumed 2 evs) := by
  unfold iterate at h
  split at h
  · simp at h
  · exact loop_takes _ _ _ _ h

/-- **C04.8b** … in particular every gate of either circuit is consumed exactly once. -/
theorem iterate_each_once (n : Nat) (c1 c2 : Dag) (fuel : Nat) (evs : List Ev)
    (h : iterate n c1 c2 fuel = .done evs) : (consumed 1 evs).Perm c1 ∧ (consumed 2 evs).Perm c2 := by
  have := iterate_consumes_all n c1 c2 fuel evs h
  exact ⟨by simpa using this.1.perm, by simpa using this.2.perm⟩

example : (consumed 1 [Ev.lr 1 ⟨0, [0, 2]⟩, Ev.zone 1 0 [⟨1, [1]⟩], Ev.zone 2 0 [⟨0, [0]⟩], Ev.zone 1 1 [],
    Ev.zone 2 1 []]).Perm
    (mkDag [[0, 2], [1]]) :=
  (iterate_each_once 3 (mkDag [[0, 2], [1]]) (mkDag [[0]]) 3 _ (by decide +kernel)).1

/-- **C04.8c** every gate handed to `apply_gate` by a zone at sites `(m, m+1)` acts inside that pair (the
    assertions of `apply_gate` cannot fire), for all circuits. -/
theorem iterate_zone_sites (n : Nat) (c1 c2 : Dag) (fuel : Nat) (evs : List Ev)
    (h : iterate n c1 c2 fuel = .done evs) (c m : Nat) (gs : List Instr) (he : Ev.zone c m gs ∈ evs) :
    ∀ g ∈ gs, ∀ q ∈ g.qs, q = m ∨ q = m + 1 := by
  unfold iterate at h
  split at h
  · simp at h
  · exact loop_ok _ _ _ _ h _ he

example : ∀ g ∈ [(⟨1, [2, 1]⟩ : Instr)], ∀ q ∈ g.qs, q = 1 ∨ q = 1 + 1 :=
  iterate_zone_sites 3 (mkDag [[0, 2], [2, 1]]) (mkDag []) 2
    [.lr 1 ⟨0, [0, 2]⟩, .zone 1 0 [], .zone 2 0 [], .zone 1 1 [⟨1, [2, 1]⟩], .zone 2 1 []] (by decide +kernel)
    1 1 _ (by simp)

/-- **C04.9** (`iterate_terminates`) for circuits of one- and two-qubit gates on qubits `< n`, `n ≥ 2`, the
    `while` loop ends after at most `len c1 + len c2` rounds and the assertion of `apply_long_range_layer`
    ("Long-range gate MPO not found") never fires. -/
theorem iterate_terminates (n : Nat) (hn : 2 ≤ n) (c1 c2 : Dag) (h1 : WF n c1) (h2 : WF n c2) :
    ∃ evs, iterate n c1 c2 (c1.length + c2.length) = .done evs := by
  unfold iterate
  rw [if_neg (by omega)]
  exact loop_terminates n hn _ (fun m hm => mem_startIts n _ m hm) _ (c1, c2) h1 h2 (Nat.le_refl _)

example : iterate 5 (mkDag [[4, 1], [3, 2], [3], [4, 3]]) (mkDag [[4], [2, 1], [3, 4]]) 7 =
    .done [.lr 1 ⟨0, [4, 1]⟩, .zone 1 1 [], .zone 2 1 [⟨1, [2, 1]⟩], .zone 1 3 [], .zone 2 3 [⟨0, [4]⟩, ⟨2, [3, 4]⟩],
      .zone 1 1 [], .zone 2 1 [], .zone 1 3 [], .zone 2 3 [], .zone 1 0 [], .zone 2 0 [],
      .zone 1 2 [⟨1, [3, 2]⟩, ⟨2, [3]⟩], .zone 2 2 [],
      .zone 1 1 [], .zone 2 1 [], .zone 1 3 [⟨3, [4, 3]⟩], .zone 2 3 [], .zone 1 0 [], .zone 2 0 [],
      .zone 1 2 [], .zone 2 2 []] := by
  decide +kernel

example : WF 5 (mkDag [[4, 1], [3, 2], [3], [4, 3]]) := WF_of_wfb _ _ (by decide +kernel)

/-- **C04.10a** any wire-respecting linearisation multiplies to the circuit's operator, for every
    interpretation in which gates on disjoint wires commute. -/
theorem lin_product {M : Type*} [Monoid M] (sem : Instr → M)
    (hc : ∀ a b : Instr, disj a.qs b.qs = true → Commute (sem a) (sem b))
    (d r : Dag) (σ : List Instr) (h : Takes d σ r) : U sem d = U sem r * U sem σ := by
  induction h with
  | nil d => simp [U]
  | cons pre post g σ r hfree _ ih =>
    have hcomm : Commute (sem g) (U sem pre) := by
      unfold U
      apply Commute.list_prod_right
      intro x hx
      simp only [List.mem_reverse, List.mem_map] at hx
      obtain ⟨y, hy, rfl⟩ := hx
      exact (hc y g (hfree y hy)).symm
    have e1 : U sem (pre ++ g :: post) = U sem post * (sem g * U sem pre) := by
      rw [U_append]
      simp [U, mul_assoc]
    have e2 : U sem (g :: σ) = U sem σ * sem g := by simp [U]
    rw [e1, hcomm.eq, ← mul_assoc, ← U_append, ih, e2, mul_assoc]

example (sem : Instr → ℕ) (d r : Dag) (σ : List Instr) (h : Takes d σ r) : U sem d = U sem r * U sem σ :=
  lin_product sem (fun _ _ _ => Commute.all _ _) d r σ h

/-- **C04.10** (`iterate_result`, *modelled, not verified* for the tensor numerics) if every primitive update is
    exact — each consumed gate of circuit 1 multiplies the operator from the left, each consumed gate of
    circuit 2 multiplies its adjoint from the right — then, for all circuit pairs and any interpretation in
    which gates on disjoint wires commute, the operator built by `iterate` from `X` is `U₁ · X · U₂ᴴ`
    (`X = 1` in the checker: `U₁ U₂ᴴ`).  The numeric tie checks exactly this identity on the real code. -/
theorem iterate_result {M : Type*} [Monoid M] [StarMul M] (sem1 sem2 : Instr → M)
    (hc1 : ∀ a b : Instr, disj a.qs b.qs = true → Commute (sem1 a) (sem1 b))
    (hc2 : ∀ a b : Instr, disj a.qs b.qs = true → Commute (sem2 a) (sem2 b))
    (n : Nat) (c1 c2 : Dag) (fuel : Nat) (evs : List Ev) (h : iterate n c1 c2 fuel = .done evs) (X : M) :
    runEvs sem1 (fun g => star (sem2 g)) X evs = U sem1 c1 * X * star (U sem2 c2) := by
  obtain ⟨h1, h2⟩ := iterate_consumes_all n c1 c2 fuel evs h
  rw [runEvs_eq, star_U]
  have e1 := lin_product sem1 hc1 c1 [] _ h1
  have hc2' : ∀ a b : Instr, disj a.qs b.qs = true → Commute (star (sem2 a)) (star (sem2 b)) := by
    intro a b hab
    have := (hc2 a b hab).eq
    show star (sem2 a) * star (sem2 b) = star (sem2 b) * star (sem2 a)
    rw [← star_mul, ← star_mul, this]
  have e2 := lin_product_fwd (fun g => star (sem2 g)) hc2' c2 [] _ h2
  rw [e1, e2]
  simp [U]

example (sem1 sem2 : Instr → ℂ) (evs : List Ev)
    (h : iterate 3 (mkDag [[0, 2], [1]]) (mkDag [[0]]) 3 = .done evs) :
    runEvs sem1 (fun g => star (sem2 g)) 1 evs =
      U sem1 (mkDag [[0, 2], [1]]) * 1 * star (U sem2 (mkDag [[0]])) :=
  iterate_result sem1 sem2 (fun _ _ _ => Commute.all _ _) (fun _ _ _ => Commute.all _ _) 3 _ _ 3 evs h 1

end Yaqs.Verdict
