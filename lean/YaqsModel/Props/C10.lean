import YaqsModel.Lemmas.Mps
import YaqsModel.Lemmas.MpsBridge
import YaqsModel.Lemmas.MpsBridgeSvd

/-!
# C10 — canonicalisation and gauge moves never change the represented state

Property theorems only (helper lemmas: `Lemmas/Mps.lean`).  Setting: a site tensor is `σ → Matrix ι ι K`
over an arbitrary commutative ring `K`, one uniform bond index type `ι` (all bonds zero-padded to a common
dimension, justified by `c10_pad_chain`), the represented vector is `cfg ↦ chain ts cfg`.  Every theorem
holds for every chain length, every bond type, every position of the move and every configuration.

The numerical routines enter only through their documented spec (`A s = Q s * R`; same two-site block for
the SVD; `Qᴴ Q = 1`), which the correspondence check validates on every matrix of every run.

Forced hypothesis worth stating up front: the SVD centre shift is a gauge move under the **untruncated**
two-site spec.  The code calls `two_site_svd(threshold = 1e-12)`, which cuts singular values whose summed
squares stay below the *absolute* value `1e-12`; `c10_svd_truncation_error` says what that does to the
two-site block (Frobenius error² = discarded weight, `< 1e-12` by `c09_twosite_weight`), which is
negligible only if the block itself is not of that size — known finding `C10:svd-shift-absolute-threshold`.
-/

set_option linter.unusedSectionVars false

namespace Yaqs.Mps.Alg

open Matrix

variable {K : Type*} [CommRing K] {ι σ : Type*} [Fintype ι] [DecidableEq ι]

/-! ## the represented vector is unchanged -/

/-- **C10.1 (QR shift right)** `A' = Q`, `B' = R` contracted into the left bond of `B`
    (`"ij, ajc->aic"`) represents the same vector as `A, B` whenever `A s = Q s * R`. -/
theorem c10_shift_right_QR (pre post : List (Site σ ι K)) (Q A B : Site σ ι K) (R : Matrix ι ι K)
    (hA : ∀ s, A s = Q s * R) (cfg : List σ) (hlen : pre.length + 2 ≤ cfg.length) :
    chain (pre ++ Q :: (fun u => R * B u) :: post) cfg = chain (pre ++ A :: B :: post) cfg :=
  two_site_replace pre post A B Q _ (fun s t => by rw [← Matrix.mul_assoc, ← hA]) cfg hlen

/-- **C10.2 (SVD shift right, untruncated)** `A' = U`, `B' = diag(S) · V` represents the same vector whenever
    the two-site block factorises, `A s * B t = U s * (diag S * V t)`. -/
theorem c10_shift_right_SVD (pre post : List (Site σ ι K)) (U V A B : Site σ ι K) (S : ι → K)
    (h : ∀ s t, A s * B t = U s * (Matrix.diagonal S * V t)) (cfg : List σ) (hlen : pre.length + 2 ≤ cfg.length) :
    chain (pre ++ U :: (fun t => Matrix.diagonal S * V t) :: post) cfg = chain (pre ++ A :: B :: post) cfg :=
  two_site_replace pre post A B U _ (fun s t => (h s t).symm) cfg hlen

/-- **C10.2b (what truncation costs)** keeping only the singular values selected by `keep` changes the
    two-site block by a matrix whose squared Frobenius norm `tr(Eᴴ E)` is exactly the discarded weight. -/
theorem c10_svd_truncation_error [StarRing K] (U V : Matrix ι ι K) (sv : ι → K) (keep : ι → Prop) [DecidablePred keep]
    (hU : Uᴴ * U = 1) (hV : V * Vᴴ = 1) :
    Matrix.trace ((U * Matrix.diagonal sv * V - U * Matrix.diagonal (fun j => if keep j then sv j else 0) * V)ᴴ *
      (U * Matrix.diagonal sv * V - U * Matrix.diagonal (fun j => if keep j then sv j else 0) * V)) =
    ∑ j, if keep j then 0 else star (sv j) * sv j :=
  svd_truncation_error U V sv keep hU hV

/-- **C10.3 (flip)** the flipped network, read with the reversed configuration, gives the transposed chain:
    the same amplitudes. -/
theorem c10_flip_chain (ts : List (Site σ ι K)) (cfg : List σ) (h : cfg.length = ts.length) :
    chain (flip ts) cfg.reverse = (chain ts cfg)ᵀ :=
  flip_chain ts cfg h

/-- **C10.4 (shift left = flip ∘ shift right ∘ flip)**, for QR and SVD, at every site `0 < i < L`. -/
theorem c10_shift_left (d : Dec σ ι K) (useSvd : Bool) (i : Nat) (ts : List (Site σ ι K)) (cfg : List σ)
    (h0 : 0 < i) (hi : i < ts.length) (hc : cfg.length = ts.length) :
    chain (shiftLeft d useSvd i ts) cfg = chain ts cfg :=
  shiftLeft_chain d useSvd i ts cfg h0 hi hc

/-- **C10.4b** the left shift written out: `A' = A · L`, `B' = Q` whenever `B s = L * Q s`. -/
theorem c10_shift_left_explicit (pre post : List (Site σ ι K)) (Q A B : Site σ ι K) (Lm : Matrix ι ι K)
    (hB : ∀ s, B s = Lm * Q s) (cfg : List σ) (hlen : pre.length + 2 ≤ cfg.length) :
    chain (pre ++ (fun u => A u * Lm) :: Q :: post) cfg = chain (pre ++ A :: B :: post) cfg :=
  two_site_replace pre post A B _ Q (fun s t => by rw [Matrix.mul_assoc, ← hB]) cfg hlen

/-- **C10.5 (shift right as the code's function)** for QR and SVD, at every site that has a right neighbour. -/
theorem c10_shift_right (d : Dec σ ι K) (useSvd : Bool) (i : Nat) (ts : List (Site σ ι K)) (cfg : List σ)
    (hi : i + 1 < ts.length) (hc : cfg.length = ts.length) :
    chain (shiftRight d useSvd i ts) cfg = chain ts cfg :=
  shiftRight_chain d useSvd i ts cfg hi hc

/-- **C10.6 (padding)** zero-padding every bond to a larger index type pads the chain product with zero blocks;
    in particular every amplitude (an entry in the old block) is unchanged. -/
theorem c10_pad_chain {κ : Type*} [Fintype κ] [DecidableEq κ] (A : Site σ ι K) (ts : List (Site σ ι K)) (s : σ)
    (cfg : List σ) :
    chain ((A :: ts).map (padSite (κ := κ))) (s :: cfg) = Matrix.fromBlocks (chain (A :: ts) (s :: cfg)) 0 0 0 :=
  pad_chain A ts s cfg

theorem c10_pad_amp {κ : Type*} [Fintype κ] [DecidableEq κ] (A : Site σ ι K) (ts : List (Site σ ι K)) (s : σ)
    (cfg : List σ) (a b : ι) :
    chain ((A :: ts).map (padSite (κ := κ))) (s :: cfg) (Sum.inl a) (Sum.inl b) = chain (A :: ts) (s :: cfg) a b := by
  rw [pad_chain]; rfl

/-- **C10.7 (set_canonical_form)** the two sweeps (right sweep to `c`, flip, right sweep to `L-1-c`, flip) leave
    every amplitude unchanged — any length, any centre, QR or SVD. -/
theorem c10_set_canonical_form (d : Dec σ ι K) (useSvd : Bool) (c : Nat) (ts : List (Site σ ι K)) (cfg : List σ)
    (hcL : c < ts.length) (hc : cfg.length = ts.length) :
    chain (setCanonical d useSvd c ts) cfg = chain ts cfg :=
  setCanonical_chain d useSvd c ts cfg hcL hc

/-- **C10.8 (normalize, form "A")** the only change is the `R` factor of the last QR, which the code throws away:
    old chain = new chain · R.  (In the code `R` is 1×1: the vector is rescaled by that number.) -/
theorem c10_normalize_A (d : Dec σ ι K) (useSvd : Bool) (ts : List (Site σ ι K)) (hne : ts ≠ []) :
    ∃ A : Site σ ι K, ∀ cfg : List σ, cfg.length = ts.length →
      chain ts cfg = chain (normalize d useSvd false ts) cfg * (d.qr A).2 := by
  have hL : 0 < ts.length := List.length_pos_iff.mpr hne
  have hl : (setCanonical d useSvd (ts.length - 1) ts).length = ts.length := by simp
  have hne' : setCanonical d useSvd (ts.length - 1) ts ≠ [] := by
    intro h; rw [h] at hl; simp at hl; omega
  obtain ⟨pre, A, hpa⟩ := (List.eq_nil_or_concat _).resolve_left hne'
  rw [List.concat_eq_append] at hpa
  have hpl : pre.length = ts.length - 1 := by
    have := congrArg List.length hpa; simp [hl] at this; omega
  refine ⟨A, fun cfg hc => ?_⟩
  have h1 := setCanonical_chain d useSvd (ts.length - 1) ts cfg (by omega) hc
  simp only [normalize, Bool.false_eq_true, if_false]
  rw [← h1, hpa, ← hpl, shiftRight_last]
  exact last_site_factor pre A _ _ (d.qr_spec A) cfg (by omega)

/-- **C10.8b (normalize, form "B")** same on the flipped network: old chain = Rᵀ · new chain. -/
theorem c10_normalize_B (d : Dec σ ι K) (useSvd : Bool) (ts : List (Site σ ι K)) (hne : ts ≠ []) :
    ∃ A : Site σ ι K, ∀ cfg : List σ, cfg.length = ts.length →
      chain ts cfg = ((d.qr A).2)ᵀ * chain (normalize d useSvd true ts) cfg := by
  have hL : 0 < ts.length := List.length_pos_iff.mpr hne
  have hfl : (flip ts).length = ts.length := flip_length ts
  have hl : (setCanonical d useSvd (ts.length - 1) (flip ts)).length = ts.length := by simp
  have hne' : setCanonical d useSvd (ts.length - 1) (flip ts) ≠ [] := by
    intro h; rw [h] at hl; simp at hl; omega
  obtain ⟨pre, A, hpa⟩ := (List.eq_nil_or_concat _).resolve_left hne'
  rw [List.concat_eq_append] at hpa
  have hpl : pre.length = ts.length - 1 := by
    have := congrArg List.length hpa; simp [hl] at this; omega
  refine ⟨A, fun cfg hc => ?_⟩
  have h1 := setCanonical_chain d useSvd (ts.length - 1) (flip ts) cfg.reverse (by omega) (by simp [hc])
  simp only [normalize, if_true]
  rw [hpa, ← hpl, shiftRight_last]
  rw [flip_chain' _ _ (by simp; omega)]
  have h2 := last_site_factor pre A _ _ (d.qr_spec A) cfg.reverse (by simp; omega)
  rw [hpa, h2, flip_chain _ _ hc] at h1
  have := congrArg Matrix.transpose h1
  rw [Matrix.transpose_transpose, Matrix.transpose_mul] at this
  exact this.symm

/-- **C10.8d (pad_bond_dimension = zero padding followed by `normalize()`)** the padded and renormalised network
    represents the old vector up to the dropped factor: `fromBlocks (old chain) 0 0 0 = Rᵀ · new chain`. -/
theorem c10_pad_bond_dimension {κ : Type*} [Fintype κ] [DecidableEq κ] (d : Dec σ (ι ⊕ κ) K) (useSvd : Bool)
    (A0 : Site σ ι K) (ts : List (Site σ ι K)) :
    ∃ A : Site σ (ι ⊕ κ) K, ∀ (s : σ) (cfg : List σ), (s :: cfg).length = (A0 :: ts).length →
      Matrix.fromBlocks (chain (A0 :: ts) (s :: cfg)) 0 0 0 =
        ((d.qr A).2)ᵀ * chain (normalize d useSvd true ((A0 :: ts).map (padSite (κ := κ)))) (s :: cfg) := by
  obtain ⟨A, hA⟩ := c10_normalize_B d useSvd ((A0 :: ts).map (padSite (κ := κ))) (by simp)
  refine ⟨A, fun s cfg hlen => ?_⟩
  rw [← pad_chain]
  exact hA (s :: cfg) (by simpa using hlen)

/-- **C10.8c** amplitude form: when the column `i₀` of the dropped `R` is `r · e_{i₀}` (the code: `R` is the 1×1
    matrix `(r)`), every entry in column `i₀` of the chain is the new entry times the scalar `r`. -/
theorem c10_dropped_R_is_a_scalar (M R : Matrix ι ι K) (i0 a : ι) (hcol : ∀ j, j ≠ i0 → R j i0 = 0) :
    (M * R) a i0 = M a i0 * R i0 i0 := by
  rw [Matrix.mul_apply]
  exact Finset.sum_eq_single i0 (fun j _ hj => by rw [hcol j hj, mul_zero]) (fun h => absurd (Finset.mem_univ _) h)

/-! ## sequences of operations -/

/-- the operations that keep the vector; `flip` toggles the `flipped` flag of the network object -/
inductive Op where
  | shiftR (i : Nat) (useSvd : Bool)
  | shiftL (i : Nat) (useSvd : Bool)
  | setCanon (c : Nat) (useSvd : Bool)
  | flip

/-- an operation is applicable when its site exists (and has the neighbour the shift moves to) -/
def Op.ok (len : Nat) : Op → Prop
  | .shiftR i _ => i + 1 < len
  | .shiftL i _ => 0 < i ∧ i < len
  | .setCanon c _ => c < len
  | .flip => True

def applyOp (d : Dec σ ι K) : Op → Bool × List (Site σ ι K) → Bool × List (Site σ ι K)
  | .shiftR i u, (f, ts) => (f, shiftRight d u i ts)
  | .shiftL i u, (f, ts) => (f, shiftLeft d u i ts)
  | .setCanon c u, (f, ts) => (f, setCanonical d u c ts)
  | .flip, (f, ts) => (!f, flip ts)

/-- the vector a network object represents, taking its `flipped` flag into account -/
def vecOf (st : Bool × List (Site σ ι K)) (cfg : List σ) : Matrix ι ι K :=
  if st.1 then (chain st.2 cfg.reverse)ᵀ else chain st.2 cfg

/-- **C10.9 (histories)** every finite sequence of applicable gauge operations, in any order, with QR or SVD
    chosen per operation, leaves the represented vector unchanged. -/
theorem c10_op_sequence (d : Dec σ ι K) (ops : List Op) (st : Bool × List (Site σ ι K)) (cfg : List σ)
    (hok : ∀ o ∈ ops, o.ok st.2.length) (hc : cfg.length = st.2.length) :
    vecOf (ops.foldl (fun s o => applyOp d o s) st) cfg = vecOf st cfg ∧
      (ops.foldl (fun s o => applyOp d o s) st).2.length = st.2.length := by
  induction ops generalizing st with
  | nil => simp
  | cons o ops ih =>
    obtain ⟨f, ts⟩ := st
    simp only [List.foldl_cons]
    have ho : o.ok ts.length := hok o (by simp)
    have hstep : vecOf (applyOp d o (f, ts)) cfg = vecOf (f, ts) cfg ∧ (applyOp d o (f, ts)).2.length = ts.length := by
      have hcr : cfg.reverse.length = ts.length := by simpa using hc
      cases o with
      | shiftR i u =>
        refine ⟨?_, by simp [applyOp]⟩
        cases f
        · simpa [applyOp, vecOf] using shiftRight_chain d u i ts cfg ho hc
        · simpa [applyOp, vecOf] using congrArg Matrix.transpose (shiftRight_chain d u i ts cfg.reverse ho hcr)
      | shiftL i u =>
        refine ⟨?_, by simp [applyOp, shiftLeft]⟩
        cases f
        · simpa [applyOp, vecOf] using shiftLeft_chain d u i ts cfg ho.1 ho.2 hc
        · simpa [applyOp, vecOf] using congrArg Matrix.transpose (shiftLeft_chain d u i ts cfg.reverse ho.1 ho.2 hcr)
      | setCanon c u =>
        refine ⟨?_, by simp [applyOp]⟩
        cases f
        · simpa [applyOp, vecOf] using setCanonical_chain d u c ts cfg ho hc
        · simpa [applyOp, vecOf] using congrArg Matrix.transpose (setCanonical_chain d u c ts cfg.reverse ho hcr)
      | flip =>
        refine ⟨?_, by simp [applyOp]⟩
        cases f
        · simp only [applyOp, vecOf, Bool.not_false, if_true, Bool.false_eq_true, if_false]
          rw [flip_chain _ _ hc, Matrix.transpose_transpose]
        · simp only [applyOp, vecOf, Bool.not_true, Bool.false_eq_true, if_false, if_true]
          rw [flip_chain' _ _ hc]
    obtain ⟨h1, h2⟩ := hstep
    have := ih (applyOp d o (f, ts)) (fun o' ho' => by rw [h2]; exact hok o' (by simp [ho'])) (by rw [h2]; exact hc)
    exact ⟨by rw [this.1, h1], by rw [this.2, h2]⟩

/-! ## the folds are the call sequences observed on the code

`Model.Mps.setCanonEv / normalizeEv / shiftLeftEv` are the event lists that the correspondence check compares with
the calls the real methods make (`flip_network`, `right_qr` with / without contraction of `R`, `two_site_svd`).
Interpreting each event as the corresponding move gives exactly the functions the theorems above are about. -/

/-- **C10.14** `set_canonical_form`: event list = `setCanonical` -/
theorem c10_trace_set_canonical_form (d : Dec σ ι K) (dec : String) (hdec : dec = "QR" ∨ dec = "SVD") (c : Nat)
    (ts : List (Site σ ι K)) (hc : c < ts.length) :
    runEvs d (setCanonEv ts.length c dec) ts = setCanonical d (decide (dec = "SVD")) c ts :=
  setCanonEv_run d dec hdec c ts hc

/-- **C10.14b** `shift_orthogonality_center_left`: event list = `shiftLeft` -/
theorem c10_trace_shift_left (d : Dec σ ι K) (dec : String) (hdec : dec = "QR" ∨ dec = "SVD") (i : Nat)
    (ts : List (Site σ ι K)) (hi : i < ts.length) :
    runEvs d (shiftLeftEv ts.length i dec) ts = shiftLeft d (decide (dec = "SVD")) i ts :=
  shiftLeftEv_run d dec hdec i ts hi

/-- **C10.14c** `normalize`: event list = `normalize` (any `form` string; only `"B"` flips) -/
theorem c10_trace_normalize (d : Dec σ ι K) (dec : String) (hdec : dec = "QR" ∨ dec = "SVD") (form : String)
    (ts : List (Site σ ι K)) (hne : 0 < ts.length) :
    runEvs d (normalizeEv ts.length form dec) ts = normalize d (decide (dec = "SVD")) (decide (form = "B")) ts :=
  normalizeEv_run d dec hdec form ts hne

/-- **C10.14d** consequently the observed call sequence of `set_canonical_form` preserves every amplitude -/
theorem c10_trace_set_canonical_form_preserves (d : Dec σ ι K) (dec : String) (hdec : dec = "QR" ∨ dec = "SVD")
    (c : Nat) (ts : List (Site σ ι K)) (cfg : List σ) (hc : c < ts.length) (hcfg : cfg.length = ts.length) :
    chain (runEvs d (setCanonEv ts.length c dec) ts) cfg = chain ts cfg := by
  rw [setCanonEv_run d dec hdec c ts hc]
  exact setCanonical_chain d _ c ts cfg hc hcfg

/-! ## isometry conditions afterwards -/

section star
variable [StarRing K] [Fintype σ]

/-- **C10.10 (isometry of the shifted-over site)** `Qᴴ Q = 1` for the tall matrix gives `Σ_s Q_sᴴ Q_s = 1` for its
    reshape `(phys, left, new)` — the left test of `check_canonical_form`. -/
theorem c10_isometry_after_shift {κ : Type*} [Fintype κ] [DecidableEq κ] (Qm : Matrix (σ × ι) κ K)
    (h : Qmᴴ * Qm = 1) :
    ∑ s, (Matrix.of fun l k => Qm (s, l) k)ᴴ * (Matrix.of fun l k => Qm (s, l) k) = 1 :=
  reshape_isometry Qm h

/-- **C10.10b** the site a right shift moves over is left-isometric afterwards (QR and SVD). -/
theorem c10_shift_right_isometric (d : Dec σ ι K) (useSvd : Bool)
    (hq : ∀ A, LeftIso (d.qr A).1) (hs : ∀ A B, LeftIso (d.svd A B).1)
    (i : Nat) (ts : List (Site σ ι K)) (hi : i < ts.length) :
    ∃ X, (shiftRight d useSvd i ts)[i]? = some X ∧ LeftIso X :=
  shiftRight_getElem?_self d useSvd LeftIso hq hs i ts hi

/-- **C10.11 (mixed-canonical form)** after `set_canonical_form(c)` every site left of `c` is left-isometric and
    every site right of `c` is right-isometric. -/
theorem c10_set_canonical_form_isometries (d : Dec σ ι K) (useSvd : Bool)
    (hq : ∀ A, LeftIso (d.qr A).1) (hs : ∀ A B, LeftIso (d.svd A B).1)
    (c : Nat) (ts : List (Site σ ι K)) (hc : c < ts.length) :
    (∀ j, j < c → ∃ X, (setCanonical d useSvd c ts)[j]? = some X ∧ LeftIso X) ∧
    (∀ j, c < j → j < ts.length → ∃ X, (setCanonical d useSvd c ts)[j]? = some X ∧ RightIso X) := by
  refine ⟨fun j hj => setCanonical_left d useSvd LeftIso hq hs c ts hc j hj, fun j hj hjL => ?_⟩
  obtain ⟨X, hX, hg⟩ := setCanonical_right d useSvd LeftIso hq hs c ts j hj hjL
  exact ⟨X, hX, (leftIso_flipSite X).mp hg⟩

/-- **C10.11c (normalize, form "A")** afterwards *every* site is left-isometric … -/
theorem c10_normalize_A_isometries (d : Dec σ ι K) (useSvd : Bool)
    (hq : ∀ A, LeftIso (d.qr A).1) (hs : ∀ A B, LeftIso (d.svd A B).1)
    (ts : List (Site σ ι K)) (j : Nat) (hj : j < ts.length) :
    ∃ X, (normalize d useSvd false ts)[j]? = some X ∧ LeftIso X :=
  normalize_A_good d useSvd LeftIso hq hs ts j hj

/-- **C10.11d (normalize, form "B")** … and for form "B" every site is right-isometric. -/
theorem c10_normalize_B_isometries (d : Dec σ ι K) (useSvd : Bool)
    (hq : ∀ A, LeftIso (d.qr A).1) (hs : ∀ A B, LeftIso (d.svd A B).1)
    (ts : List (Site σ ι K)) (j : Nat) (hj : j < ts.length) :
    ∃ X, (normalize d useSvd true ts)[j]? = some X ∧ RightIso X := by
  have hB : normalize d useSvd true ts = flip (normalize d useSvd false (flip ts)) := by
    simp [normalize]
  have hlen : (normalize d useSvd false (flip ts)).length = ts.length := by simp [normalize]
  obtain ⟨Y, hY, hg⟩ := normalize_A_good d useSvd LeftIso hq hs (flip ts) (ts.length - 1 - j) (by simp; omega)
  refine ⟨flipSite Y, ?_, (leftIso_flipSite _).mp (by simpa using hg)⟩
  rw [hB, getElem?_flip _ j (by omega), hlen, hY]
  rfl

/-- **C10.11e (unit norm)** a chain whose sites are all left-isometric has norm one:
    `Σ_cfg (chain cfg)ᴴ (chain cfg) = 1`, the sum running over all configurations of the chain's length.
    With C10.11c: `normalize` really rescales to unit norm. -/
theorem c10_left_canonical_unit_norm (ts : List (Site σ ι K)) (h : ∀ A ∈ ts, LeftIso A) :
    sumCfg ts.length (fun cfg => (chain ts cfg)ᴴ * chain ts cfg) = 1 :=
  left_canonical_norm ts h

theorem c10_normalize_unit_norm (d : Dec σ ι K) (useSvd : Bool)
    (hq : ∀ A, LeftIso (d.qr A).1) (hs : ∀ A B, LeftIso (d.svd A B).1) (ts : List (Site σ ι K)) :
    sumCfg ts.length (fun cfg => (chain (normalize d useSvd false ts) cfg)ᴴ * chain (normalize d useSvd false ts) cfg) = 1 := by
  have hlen : (normalize d useSvd false ts).length = ts.length := by simp [normalize]
  rw [← hlen]
  refine left_canonical_norm _ (fun A hA => ?_)
  obtain ⟨j, hj⟩ := List.mem_iff_getElem?.mp hA
  have hjl : j < ts.length := by
    by_contra hcon
    rw [List.getElem?_eq_none (by omega)] at hj
    exact absurd hj (by simp)
  obtain ⟨X, hX, hg⟩ := normalize_A_good d useSvd LeftIso hq hs ts j hjl
  rw [hX] at hj
  cases hj
  exact hg

/-- **C10.11b** flipping exchanges the two isometry conditions (why the right sweep on the flipped network
    produces right-isometric tensors). -/
theorem c10_flip_exchanges_isometries (A : Site σ ι K) : LeftIso (flipSite A) ↔ RightIso A :=
  leftIso_flipSite A

end star

end Yaqs.Mps.Alg

/-! ## the canonical-form query -/

namespace Yaqs.Mps

/-- **C10.12 (canonical_query)** from the truth tables `a` ("site passes the left test") and `b` ("site passes
    the right test") `check_canonical_form` returns exactly the sites `i` such that all sites before `i` are
    left-isometric and all sites after `i` are right-isometric. -/
theorem c10_canonical_query (a b : List Bool) (hab : a.length = b.length) (i : Nat) :
    i ∈ checkCanonical a b ↔
      i < a.length ∧ (∀ j, j < i → a[j]? = some true) ∧ (∀ j, i < j → j < a.length → b[j]? = some true) := by
  unfold checkCanonical
  simp only [List.mem_filter, List.mem_range, Bool.and_eq_true, all_take_iff, all_drop_iff]
  constructor
  · rintro ⟨hi, h1, h2⟩
    exact ⟨hi, fun j hj => h1 j hj (by omega), fun j hj hjl => h2 j (by omega) (by omega)⟩
  · rintro ⟨hi, h1, h2⟩
    exact ⟨hi, fun j hj _ => h1 j hj, fun j hj hjl => h2 j (by omega) (by omega)⟩

/-- **C10.12b** the list is strictly increasing (no duplicates; `truncate` takes its first element, the
    smallest valid centre). -/
theorem c10_canonical_query_sorted (a b : List Bool) : (checkCanonical a b).Pairwise (· < ·) := by
  unfold checkCanonical
  exact List.Pairwise.filter _ List.pairwise_lt_range

/-- **C10.13 (the query reports the requested centre)** if the sites before `c` pass the left test and the sites
    after `c` pass the right test — which `c10_set_canonical_form_isometries` establishes — then `c` is in
    the returned list. -/
theorem c10_canonical_query_reports_centre (a b : List Bool) (hab : a.length = b.length) (c : Nat) (hc : c < a.length)
    (hl : ∀ j, j < c → a[j]? = some true) (hr : ∀ j, c < j → j < a.length → b[j]? = some true) :
    c ∈ checkCanonical a b :=
  (c10_canonical_query a b hab c).mpr ⟨hc, hl, hr⟩

/-- **C10.13b** and nothing else is reported unless it is a valid centre too: a site `i < c` is reported only if
    sites `i+1 … c` pass the right test as well. -/
theorem c10_canonical_query_no_false_centre (a b : List Bool) (hab : a.length = b.length) (i j : Nat)
    (hi : i ∈ checkCanonical a b) (hij : i < j) (hj : j < a.length) : b[j]? = some true :=
  ((c10_canonical_query a b hab i).mp hi).2.2 j hij hj

end Yaqs.Mps

/-! ## non-vacuity: concrete instances of the hypotheses -/

namespace Yaqs.Mps.Alg
open Matrix

/-- a genuine (non-trivial) QR-type factorisation over ℤ with 2×2 bonds and a two-level site -/
def exQ : Site (Fin 2) (Fin 2) ℤ := fun s => if s = 0 then !![1, 2; 0, 1] else !![0, 1; 1, 1]
def exR : Matrix (Fin 2) (Fin 2) ℤ := !![2, 1; 0, 3]
def exA : Site (Fin 2) (Fin 2) ℤ := fun s => if s = 0 then !![2, 7; 0, 3] else !![0, 3; 2, 4]
def exB : Site (Fin 2) (Fin 2) ℤ := fun s => if s = 0 then !![1, 1; 0, 2] else !![3, 0; 1, 1]

example : ∀ s, exA s = exQ s * exR := by decide

/-- instance of C10.1 on a three-site chain, and the two chains are really equal on a configuration -/
example : chain ([exB] ++ exQ :: (fun u => exR * exB u) :: [exA]) [1, 0, 1, 1] =
    chain ([exB] ++ exA :: exB :: [exA]) [1, 0, 1, 1] :=
  c10_shift_right_QR [exB] [exA] exQ exA exB exR (by decide) _ (by decide)

/-- a decomposition oracle exists (so `Dec` is inhabited): the trivial one … -/
def exDec : Dec (Fin 2) (Fin 2) ℤ where
  qr A := (A, 1)
  svd A B := (A, B)
  qr_spec A s := by simp
  svd_spec A B s t := rfl

/-- … and one whose first factors really are isometric: 1×1 bonds, one physical level, `K = ℚ`:
    `a = sign(a) · |a|` (for `K = ℂ` and general sizes existence is the QR / SVD theorem of linear algebra). -/
def exDecIso : Dec Unit Unit ℚ where
  qr A := (fun _ => Matrix.of fun _ _ => if A () () () < 0 then -1 else 1,
           Matrix.of fun _ _ => if A () () () < 0 then -(A () () ()) else A () () ())
  svd A B := (fun _ => 1, fun t => A () * B t)
  qr_spec A s := by
    ext i j
    by_cases h : A () () () < 0 <;> simp [Matrix.mul_apply, h]
  svd_spec A B s t := by simp

example : (∀ A, LeftIso (exDecIso.qr A).1) ∧ (∀ A B, LeftIso (exDecIso.svd A B).1) := by
  constructor
  · intro A
    unfold LeftIso
    ext i j
    by_cases h : A () () () < 0 <;> simp [exDecIso, Matrix.mul_apply, h]
  · intro A B
    unfold LeftIso
    simp [exDecIso]

/-- isometry conditions on concrete tensors (the ones the correspondence check builds its truth tables from):
    `exTT` passes both tests, `exTF` only the left one -/
def exTT : Site (Fin 2) (Fin 2) ℤ := fun s => if s = 0 then !![1, 0; 0, 0] else !![0, 0; 0, 1]
def exTF : Site (Fin 2) (Fin 2) ℤ := fun s => if s = 0 then !![1, 0; 0, 0] else !![0, 1; 0, 0]
example : LeftIso exTT := by unfold LeftIso; decide
example : RightIso exTT := by unfold RightIso; decide
example : LeftIso exTF := by unfold LeftIso; decide
example : ¬ RightIso exTF := by unfold RightIso; decide
/-- instance of C10.11e -/
example : sumCfg 2 (fun cfg => (chain [exTF, exTT] cfg)ᴴ * chain [exTF, exTT] cfg) = 1 :=
  c10_left_canonical_unit_norm [exTF, exTT] (by
    intro A hA
    simp only [List.mem_cons, List.mem_nil_iff, or_false] at hA
    rcases hA with rfl | rfl <;> (unfold LeftIso; decide))

/-- hypotheses of C10.2b: a unitary pair over ℤ (permutation matrices) and a spectrum with a discarded entry -/
example : ((!![0, 1; 1, 0] : Matrix (Fin 2) (Fin 2) ℤ)ᴴ * !![0, 1; 1, 0] = 1) ∧
    ((!![0, 1; 1, 0] : Matrix (Fin 2) (Fin 2) ℤ) * (!![0, 1; 1, 0] : Matrix (Fin 2) (Fin 2) ℤ)ᴴ = 1) := by
  constructor <;> decide

end Yaqs.Mps.Alg

namespace Yaqs.Mps

/-- truth tables: left-canonical up to site 1, right-canonical from site 2 → centres 1 and 2 -/
example : checkCanonical [true, true, false] [false, false, true] = [1, 2] := by decide
/-- nothing canonical → empty list (the code returns `[]`, not `[-1]` as its docstring says) -/
example : checkCanonical [false, false] [false, false] = [] := by decide
/-- product state of normalised sites: every site is a valid centre -/
example : checkCanonical [true, true, true] [true, true, true] = [0, 1, 2] := by decide

/-- the list model on concrete Gaussian rationals: a QR-type move (`Q`, `R` supplied) leaves the amplitude unchanged -/
def exT0 : Tensor := [[[⟨2, 2⟩, ⟨9, 1⟩]], [[⟨0, 1⟩, ⟨3, 0⟩]]]          -- shape (2,1,2); flattened = exQm · exRm
def exT1 : Tensor := [[[⟨1, 0⟩], [⟨0, 0⟩]], [[⟨3, 0⟩], [⟨1, 1⟩]]]       -- shape (2,2,1)
def exQm : Mat := [[⟨1, 0⟩, ⟨2, 0⟩], [⟨0, 0⟩, ⟨1, 0⟩]]                  -- (phys·left) × new = 2 × 2
def exRm : Mat := [[⟨2, 0⟩, ⟨3, 1⟩], [⟨0, 1⟩, ⟨3, 0⟩]]

example : matMul exQm exRm = flattenRows exT0 := by decide +kernel
example : ∀ cfg ∈ [[0, 0], [0, 1], [1, 0], [1, 1]],
    amp [(shiftRightQR exT0 exT1 exQm exRm).1, (shiftRightQR exT0 exT1 exQm exRm).2] cfg = amp [exT0, exT1] cfg := by
  decide +kernel
example : amp [exT0, exT1] [1, 1] = some ⟨3, 6⟩ := by decide +kernel

end Yaqs.Mps

/-! ## the theorems above, stated on the EXECUTABLE list model

`Lemmas/MpsBridge.lean` maps the list model the correspondence check runs against the real code
(`Tensor = List (List (List CRat))`, `amp`, `shiftRightQR`, `flip`, `padAll`) to the Matrix-valued site tensors of the
theorems above: `toMatrixChain n` zero-pads every bond into the uniform `Fin n`.  The corollaries below therefore talk
about exactly the functions the driver evaluates, for every chain length, every bond dimension and every tensor over
ℚ(i).  Well-shapedness is the decidable predicate `wellShapedChain n ts` (every tensor a `(phys, left, right)` block
with dimensions `≥ 1`, bonds `≤ n`, consecutive bonds equal, boundary bonds 1); a valid configuration is `cfgOK ts cfg`. -/

namespace Yaqs.Mps

/-- **C10.15 (`amp_eq_chain`: list model = Matrix model)** for every chain length and every well-shaped tensor list the
    amplitude `amp ts cfg` of the executable model (the entry of `MPS.to_vec`) is the `(0,0)` entry of the chain
    product of the zero-padded matrices — the quantity C10.1–C10.9 are about. -/
theorem c10_exec_amp_eq_chain (n : Nat) (hn : 0 < n) (ts : List Tensor) (cfg : List Nat)
    (hws : wellShapedChain n ts = true) (hcfg : cfgOK ts cfg = true) :
    amp ts cfg = some (Alg.chain (toMatrixChain n ts) cfg ⟨0, hn⟩ ⟨0, hn⟩) :=
  amp_eq_chain n hn ts cfg hws hcfg

/-- **C10.16 (executable QR shift)** for a well-shaped chain and QR factors of the right shape with `A = Q·R`
    entrywise (`matMul q r = flattenRows a`: the spec of `np.linalg.qr`, spec-tied on every run), every amplitude of
    the list model is unchanged by the executable `shiftRightQR` — at every position of every chain.
    Proof: bridge to the Matrix chain (`amp_shiftRightQR_eq_chain`, `shiftRightQR_bridge_left`), then C10.1. -/
theorem c10_exec_shift_preserves_amp (n : Nat) (hn : 0 < n) (pre post : List Tensor) (a b : Tensor) (q r : Mat)
    (hws : wellShapedChain n (pre ++ a :: b :: post) = true) (hqs : qrShaped n a q r = true)
    (hqr : matMul q r = flattenRows a) (cfg : List Nat) (hcfg : cfgOK (pre ++ a :: b :: post) cfg = true) :
    amp (pre ++ (shiftRightQR a b q r).1 :: (shiftRightQR a b q r).2 :: post) cfg =
      amp (pre ++ a :: b :: post) cfg := by
  obtain ⟨hall, -⟩ := (wellShapedChain_iff n _).mp hws
  obtain ⟨_, hkn, hq, hr⟩ := (qrShaped_iff n a q r).mp hqs
  have ha := (hall a (by simp)).1
  have hA : ∀ s, toSite n a s = toSite n (shiftRightQR a b q r).1 s * toMat n r := fun s =>
    shiftRightQR_bridge_left n a b q r ha hqr (fun row hrow => by rw [hq row hrow]; exact hkn)
      (fun row hrow => by
        rw [hr row hrow]
        cases r with
        | nil => simp at hrow
        | cons r0 r' => simp [ncols, hr r0 (by simp)]) s
  have hlen : (toMatrixChain n pre).length + 2 ≤ cfg.length := by
    have := cfgOK_length _ _ hcfg
    simp at this ⊢; omega
  rw [amp_shiftRightQR_eq_chain n hn pre post a b q r hws hqs hqr cfg hcfg, amp_eq_chain n hn _ cfg hws hcfg,
    Alg.c10_shift_right_QR (toMatrixChain n pre) (toMatrixChain n post) _ (toSite n a) (toSite n b) (toMat n r) hA cfg hlen]
  simp [toMatrixChain]

/-- the list-model example of above (`exT0 = exQm · exRm`) meets every hypothesis with `n = 2`, and the conclusion is
    the equality of two concrete amplitudes -/
example : wellShapedChain 2 ([] ++ exT0 :: exT1 :: []) = true ∧ qrShaped 2 exT0 exQm exRm = true ∧
    matMul exQm exRm = flattenRows exT0 ∧ cfgOK ([] ++ exT0 :: exT1 :: []) [1, 1] = true ∧
    amp [(shiftRightQR exT0 exT1 exQm exRm).1, (shiftRightQR exT0 exT1 exQm exRm).2] [1, 1] = some ⟨3, 6⟩ := by
  refine ⟨by decide +kernel, by decide +kernel, by decide +kernel, by decide +kernel, by decide +kernel⟩

/-- **C10.17 (executable flip)** for a well-shaped chain every amplitude of the list model is unchanged by the
    executable `flip` (`flip_network`), read with the reversed configuration.
    Proof: `flip_bridge` (list flip = `Alg.flip` on the padded matrices), then C10.3; the `(0,0)` entry of a transpose
    is the `(0,0)` entry. -/
theorem c10_exec_flip_preserves_amp (n : Nat) (hn : 0 < n) (ts : List Tensor) (cfg : List Nat)
    (hws : wellShapedChain n ts = true) (hcfg : cfgOK ts cfg = true) :
    amp (flip ts) cfg.reverse = amp ts cfg := by
  rw [amp_flip_eq_chain n hn ts cfg hws hcfg, amp_eq_chain n hn ts cfg hws hcfg,
    Alg.c10_flip_chain (toMatrixChain n ts) cfg (by simpa using cfgOK_length _ _ hcfg)]
  rfl

/-- **C10.18 (executable pad)** for a well-shaped chain, whenever the enlargement loop of `pad_bond_dimension` does not
    raise (`padAll ts target = some out`), every amplitude of the list model is unchanged by it — every length, every
    target.  (The final `normalize()` of the method is C10.8/C10.8d.)
    Proof: `pad_bridge` — as Matrix-valued site tensors over the uniform bond type the padded tensors *are* the old
    ones; `padTensor_bridge` identifies this with `Alg.padSite` of C10.6. -/
theorem c10_exec_pad_preserves_amp (n : Nat) (ts out : List Tensor) (target : Nat) (cfg : List Nat)
    (hpad : padAll ts target = some out) (hws : wellShapedChain n ts = true) (hcfg : cfgOK ts cfg = true) :
    amp out cfg = amp ts cfg := by
  rw [amp_padAll_eq_chain n ts out target cfg hpad hws hcfg,
    amp_eq_chain (n + target + 1) (Nat.succ_pos _) ts cfg (wellShapedChain_mono n _ (by omega) ts hws) hcfg]

/-- **C10.18b (`pad_bridge`, Matrix counterpart)** the executable `padTensor`, read in the enlarged uniform bond type
    `Fin (n + k) ≃ Fin n ⊕ Fin k`, is the `padSite` of C10.6 applied to the unpadded tensor read in `Fin n`. -/
theorem c10_exec_pad_is_padSite (n k : Nat) (t : Tensor) (lt rt : Nat) (ht : wellShaped t = true)
    (hl : leftDim t ≤ lt) (hr : rightDim t ≤ rt) (hln : leftDim t ≤ n) (hrn : rightDim t ≤ n) (s : Nat) :
    (toSite (n + k) (padTensor t lt rt) s).submatrix finSumFinEquiv finSumFinEquiv =
      Alg.padSite (κ := Fin k) (toSite n t) s :=
  padTensor_bridge n k t lt rt ht hl hr hln hrn s

/-- a three-site well-shaped chain (bonds 1-2-2-1): hypotheses of C10.17 / C10.18 hold, the padded chain really has
    larger bonds, and the flipped / padded amplitudes agree with the original one -/
def exT2 : Tensor := [[[⟨1, 0⟩, ⟨0, 2⟩], [⟨0, 0⟩, ⟨1, 1⟩]], [[⟨2, 0⟩, ⟨0, 0⟩], [⟨1, 0⟩, ⟨0, -1⟩]]]   -- shape (2,2,2)

example : wellShapedChain 2 [exT0, exT2, exT1] = true ∧ cfgOK [exT0, exT2, exT1] [1, 0, 1] = true ∧
    amp (flip [exT0, exT2, exT1]) [1, 0, 1] = amp [exT0, exT2, exT1] [1, 0, 1] ∧
    (padAll [exT0, exT2, exT1] 4).map (fun o => o.map (fun t => (leftDim t, rightDim t))) = some [(1, 2), (2, 2), (2, 1)] ∧
    (padAll [exT0, exT1] 4).map (fun o => o.map (fun t => (leftDim t, rightDim t))) = some [(1, 2), (2, 1)] ∧
    padAll [exT0, exT2, exT1] 1 = none := by
  refine ⟨by decide +kernel, by decide +kernel, by decide +kernel, by decide +kernel, by decide +kernel,
    by decide +kernel⟩

/-- a product state (all bonds 1) padded to target 2: the middle bonds really grow, the amplitude stays -/
def exP0 : Tensor := [[[⟨1, 0⟩]], [[⟨0, 2⟩]]]
example : wellShapedChain 1 [exP0, exP0, exP0, exP0] = true ∧
    (padAll [exP0, exP0, exP0, exP0] 2).map (fun o => o.map (fun t => (leftDim t, rightDim t)))
      = some [(1, 2), (2, 2), (2, 2), (2, 1)] ∧
    (padAll [exP0, exP0, exP0, exP0] 2).bind (fun o => amp o [1, 0, 1, 1]) = amp [exP0, exP0, exP0, exP0] [1, 0, 1, 1] ∧
    amp [exP0, exP0, exP0, exP0] [1, 0, 1, 1] = some ⟨0, -8⟩ := by
  refine ⟨by decide +kernel, by decide +kernel, by decide +kernel, by decide +kernel⟩

/-- **C10.19 (the executable moves keep a chain well-shaped)** so C10.16–C10.18 compose along any sequence of
    executable moves: the QR shift and the flip keep `wellShapedChain n`, the padding loop gives a chain that is
    well-shaped for the enlarged bound. -/
theorem c10_exec_moves_keep_wellShaped (n : Nat) :
    (∀ (pre post : List Tensor) (a b : Tensor) (q r : Mat),
      wellShapedChain n (pre ++ a :: b :: post) = true → qrShaped n a q r = true → matMul q r = flattenRows a →
      wellShapedChain n (pre ++ (shiftRightQR a b q r).1 :: (shiftRightQR a b q r).2 :: post) = true) ∧
    (∀ ts : List Tensor, wellShapedChain n ts = true → wellShapedChain n (flip ts) = true) ∧
    (∀ (ts out : List Tensor) (target : Nat), padAll ts target = some out → wellShapedChain n ts = true →
      wellShapedChain (n + target + 1) out = true) :=
  ⟨fun pre post a b q r h1 h2 h3 => shiftRightQR_wellShapedChain n pre post a b q r h1 h2 h3,
   fun ts h => flip_wellShapedChain n ts h,
   fun ts out target h1 h2 => padAll_wellShapedChain n ts out target h1 h2⟩

/-- **C10.20 (`to_vec` of the executable model)** the whole dense vector `toVec` (what the oracle of the check compares
    before / after on the real code) is unchanged by the executable QR shift and by the executable padding loop. -/
theorem c10_exec_shift_preserves_toVec (n : Nat) (hn : 0 < n) (pre post : List Tensor) (a b : Tensor) (q r : Mat)
    (hws : wellShapedChain n (pre ++ a :: b :: post) = true) (hqs : qrShaped n a q r = true)
    (hqr : matMul q r = flattenRows a) :
    toVec (pre ++ (shiftRightQR a b q r).1 :: (shiftRightQR a b q r).2 :: post) = toVec (pre ++ a :: b :: post) := by
  obtain ⟨hall, -⟩ := (wellShapedChain_iff n _).mp hws
  obtain ⟨hk1, _, hq, _⟩ := (qrShaped_iff n a q r).mp hqs
  refine toVec_congr _ _ ?_ (fun t ht => ((wellShaped_iff t).mp (hall t ht).1).1)
    (fun cfg hcfg => c10_exec_shift_preserves_amp n hn pre post a b q r hws hqs hqr cfg hcfg)
  have h1 := (shiftRightQR_shape_left a b q r (hall a (by simp)).1 hqr hk1 hq).2.2.2
  have h2 := (shiftRightQR_shape_right a b q r (hall b (by simp)).1 hk1).2.2.2
  simp [physDim, h1, h2]

theorem c10_exec_pad_preserves_toVec (n : Nat) (ts out : List Tensor) (target : Nat)
    (hpad : padAll ts target = some out) (hws : wellShapedChain n ts = true) : toVec out = toVec ts := by
  obtain ⟨hall, -⟩ := (wellShapedChain_iff n _).mp hws
  refine toVec_congr _ _ ?_ (fun t ht => ((wellShaped_iff t).mp (hall t ht).1).1)
    (fun cfg hcfg => c10_exec_pad_preserves_amp n ts out target cfg hpad hws hcfg)
  obtain ⟨hlen, hspec⟩ := padAll_go_spec target ts.length ts 0 out hpad
  apply List.ext_getElem
  · simp [hlen]
  · intro k h1 h2
    simp only [List.getElem_map]
    have hk : k < ts.length := by simpa using h2
    obtain ⟨e, _, _⟩ := hspec k hk (by simpa using h1)
    rw [e]
    simp [physDim, padTensor_eq]

example : toVec [exT0, exT1] = [some ⟨2, 2⟩, some ⟨0, 1⟩, some ⟨14, 16⟩, some ⟨3, 6⟩] ∧
    toVec [(shiftRightQR exT0 exT1 exQm exRm).1, (shiftRightQR exT0 exT1 exQm exRm).2] = toVec [exT0, exT1] := by
  refine ⟨by decide +kernel, by decide +kernel⟩

/-- the predicate really rejects: a chain whose bonds do not match, and a configuration out of range -/
example : wellShapedChain 2 [exT1, exT0] = false ∧ cfgOK [exT0, exT1] [2, 0] = false ∧ cfgOK [exT0, exT1] [0] = false := by
  refine ⟨by decide +kernel, by decide +kernel, by decide +kernel⟩

end Yaqs.Mps

/-! ## the rest of the executable list model: SVD shift, last-site QR, Gram tests, `truncate`

`Lemmas/MpsBridgeSvd.lean` extends the bridge to every remaining definition of `Model/Mps.lean` that the driver runs against
the real code: `thetaMat`, `twoSiteSVD` / `shiftRightSVD` (with the rank rule `Yaqs.Rank.keepTwoSite` of C09),
`shiftRightQRLast`, `gramLeft` / `gramRight` / `isLeftIso` / `isRightIso` / `checkCanonicalOf`, `truncateEv` (and the new
`truncateBonds` of `Model/MpsBonds.lean`).  The SVD enters as its spec on lists, `matMul u (diagMulRows s v) = thetaMat a b`
(`u · diag(s) · v = θ` entrywise, spec-tied on every call of `two_site_svd`), together with the decidable shape predicate
`svdShaped` (what `robust_svd(theta, full_matrices=False)` returns). -/

namespace Yaqs.Mps

open scoped Matrix

/-- **C10.21 (`thetaMat` is the merged two-site matrix)** step 1–2 of `two_site_svd`
    (`np.tensordot(a, b, axes=(2, 1)).reshape(phys_i·left, phys_j·right)`): for well-shaped tensors the executable
    `thetaMat a b` has `phys_i·left` rows of length `phys_j·right`, and its entry `[(s·left + l), (t·right + r)]` is
    `Σ_k a[s][l][k] · b[t][k][r]` (the sum over any range that covers the shared bond). -/
theorem c10_exec_theta (a b : Tensor) (ha : wellShaped a = true) (hb : wellShaped b = true) :
    (thetaMat a b).length = a.length * leftDim a ∧ (∀ row ∈ thetaMat a b, row.length = b.length * rightDim b) ∧
      ∀ s l t r n, s < a.length → l < leftDim a → t < b.length → r < rightDim b → min (rightDim a) (leftDim b) ≤ n →
        entry (thetaMat a b) (s * leftDim a + l) (t * rightDim b + r) =
          ∑ k ∈ Finset.range n, entry (a.getD s []) l k * entry (b.getD t []) k r :=
  ⟨(thetaMat_shape a b ha hb).1, (thetaMat_shape a b ha hb).2,
    fun s l t r n hs hl ht hr hn => entry_thetaMat a b ha hb s l t r hs hl ht hr n hn⟩

/-- **C10.21b (Matrix reading of `thetaMat`)** the two-site block `A s * B t` of the padded matrices (the object of
    C10.1/C10.2) is `thetaMat`, entry by entry, and vanishes outside the frame of the two tensors. -/
theorem c10_exec_theta_block (n : Nat) (a b : Tensor) (ha : wellShaped a = true) (hb : wellShaped b = true)
    (hra : rightDim a ≤ n) (s t : Nat) (i j : Fin n) :
    (toSite n a s * toSite n b t) i j =
      if s < a.length ∧ i.val < leftDim a ∧ t < b.length ∧ j.val < rightDim b then
        entry (thetaMat a b) (s * leftDim a + i.val) (t * rightDim b + j.val) else 0 :=
  block_entry n a b ha hb hra s t i j

/-- the merged matrix of a concrete pair: shape (3,1,3) · (3,3,1), a 3 × 3 matrix -/
def exSa : Tensor := [[[⟨2/3, 0⟩, ⟨-2/3, 2/3⟩, ⟨-1/15, 0⟩]], [[⟨1/3, 0⟩, ⟨-1/3, 4/3⟩, ⟨1/15, 0⟩]],
  [[⟨-2/3, 0⟩, ⟨2/3, 4/3⟩, ⟨-1/30, 0⟩]]]
def exSb : Tensor := [[[⟨1, 0⟩], [⟨0, 0⟩], [⟨0, 0⟩]], [[⟨1, 0⟩], [⟨1, 0⟩], [⟨0, 0⟩]], [[⟨0, 0⟩], [⟨0, 0⟩], [⟨1, 0⟩]]]
/-- SVD factors of `thetaMat exSa exSb` over ℚ(i): `exSu` orthogonal, `exSv` a signed / phased permutation -/
def exSu : Mat := [[⟨1/3, 0⟩, ⟨2/3, 0⟩, ⟨2/3, 0⟩], [⟨2/3, 0⟩, ⟨1/3, 0⟩, ⟨-2/3, 0⟩], [⟨2/3, 0⟩, ⟨-2/3, 0⟩, ⟨1/3, 0⟩]]
def exSs : List Rat := [2, 1, 1/10]
def exSv : Mat := [[⟨0, 0⟩, ⟨0, 1⟩, ⟨0, 0⟩], [⟨1, 0⟩, ⟨0, 0⟩, ⟨0, 0⟩], [⟨0, 0⟩, ⟨0, 0⟩, ⟨-1, 0⟩]]

example : wellShaped exSa = true ∧ wellShaped exSb = true ∧
    thetaMat exSa exSb = [[⟨2/3, 0⟩, ⟨0, 2/3⟩, ⟨-1/15, 0⟩], [⟨1/3, 0⟩, ⟨0, 4/3⟩, ⟨1/15, 0⟩], [⟨-2/3, 0⟩, ⟨0, 4/3⟩, ⟨-1/30, 0⟩]] ∧
    matMul exSu (diagMulRows exSs exSv) = thetaMat exSa exSb := by
  refine ⟨by decide +kernel, by decide +kernel, by decide +kernel, by decide +kernel⟩

/-- **C10.22 (executable two-site replacement)** the list-model form of the lemma behind C10.1/C10.2/C10.4b: inside any
    well-shaped chain, a pair `(a', b')` with the frame of `(a, b)` (`sameFrame`: same physical dimensions and outer
    bonds, a common inner bond `≤ n`) and the same merged matrix `thetaMat` gives a well-shaped chain with the same
    amplitudes and the same dense vector.  QR shift, SVD shift and every other exact two-site move are instances. -/
theorem c10_exec_two_site_replace (n : Nat) (hn : 0 < n) (pre post : List Tensor) (a b a' b' : Tensor)
    (hws : wellShapedChain n (pre ++ a :: b :: post) = true) (hf : sameFrame n a b a' b' = true)
    (hθ : thetaMat a' b' = thetaMat a b) :
    wellShapedChain n (pre ++ a' :: b' :: post) = true ∧
      (∀ cfg, cfgOK (pre ++ a :: b :: post) cfg = true →
        amp (pre ++ a' :: b' :: post) cfg = amp (pre ++ a :: b :: post) cfg) ∧
      toVec (pre ++ a' :: b' :: post) = toVec (pre ++ a :: b :: post) :=
  ⟨replace2_wellShapedChain n pre post a b a' b' hws hf,
    fun cfg hcfg => amp_replace2 n hn pre post a b a' b' hws hf hθ cfg hcfg,
    toVec_replace2 n hn pre post a b a' b' hws hf hθ⟩

/-- **C10.23 (what the executable SVD shift returns, for every kept rank)** steps 5–6 of `two_site_svd`
    (`u[:, :keep].reshape(phys_i, left, keep)`, `(diag(s[:keep]) @ v[:keep]).reshape(keep, phys_j, right).transpose(1,0,2)`):
    for SVD factors of the right shapes and any `1 ≤ keep ≤ len(s)` the new pair has the frame of the old pair with
    inner bond `keep`, and its merged matrix is the truncated product `u[:, :keep] · (diag(s) v)[:keep, :]`.
    In particular this holds for the rank `keepTwoSite s thr none` that `shiftRightSVD` uses. -/
theorem c10_exec_svd_block (n : Nat) (a b : Tensor) (u : Mat) (s : List Rat) (v : Mat) (keep : Nat)
    (ha : wellShaped a = true) (hb : wellShaped b = true) (hsh : svdShaped n a b u s v keep = true) :
    sameFrame n a b (twoSiteSVD a b u s v keep).1 (twoSiteSVD a b u s v keep).2 = true ∧
      rightDim (twoSiteSVD a b u s v keep).1 = keep ∧ leftDim (twoSiteSVD a b u s v keep).2 = keep ∧
      thetaMat (twoSiteSVD a b u s v keep).1 (twoSiteSVD a b u s v keep).2 =
        matMul (u.map (fun row => row.take keep)) ((diagMulRows s v).take keep) :=
  ⟨(twoSiteSVD_frame n a b u s v keep ha hb hsh).1, (twoSiteSVD_frame n a b u s v keep ha hb hsh).2.1,
    (twoSiteSVD_frame n a b u s v keep ha hb hsh).2.2, thetaMat_twoSiteSVD n a b u s v keep ha hb hsh⟩

/-- **C10.23b** the call made by the centre shift: `shiftRightSVD` is `twoSiteSVD` at the rank `keepTwoSite s thr none`
    of C09.4 (`two_site_svd(a, b, threshold, max_bond_dim=None)`), so C10.23 applies with that `keep`. -/
theorem c10_exec_shiftRightSVD_unfold (a b : Tensor) (u : Mat) (s : List Rat) (v : Mat) (thr : Rat) :
    shiftRightSVD a b u s v thr = twoSiteSVD a b u s v (Yaqs.Rank.keepTwoSite s thr none) := rfl

/-- **C10.24 (executable SVD shift, nothing discarded)** for a well-shaped chain, SVD factors of the right shapes with
    `u · diag(s) · v = thetaMat a b` entrywise (the spec of the SVD, spec-tied on every run) and a rank rule that keeps
    every singular value (`keepTwoSite s thr none = s.length`), the executable `shiftRightSVD` leaves every amplitude of
    the list model unchanged — at every position of every chain — and the chain stays well-shaped.
    Proof: C10.23 with `keep = len(s)` gives the merged matrix of the old pair, then C10.22. -/
theorem c10_exec_svd_shift_preserves_amp (n : Nat) (hn : 0 < n) (pre post : List Tensor) (a b : Tensor) (u : Mat)
    (s : List Rat) (v : Mat) (thr : Rat) (hws : wellShapedChain n (pre ++ a :: b :: post) = true)
    (hsh : svdShaped n a b u s v s.length = true) (hspec : matMul u (diagMulRows s v) = thetaMat a b)
    (hkeep : Yaqs.Rank.keepTwoSite s thr none = s.length) (cfg : List Nat)
    (hcfg : cfgOK (pre ++ a :: b :: post) cfg = true) :
    amp (pre ++ (shiftRightSVD a b u s v thr).1 :: (shiftRightSVD a b u s v thr).2 :: post) cfg =
      amp (pre ++ a :: b :: post) cfg := by
  obtain ⟨hall, -⟩ := (wellShapedChain_iff n _).mp hws
  have ha := (hall a (by simp)).1
  have hb := (hall b (by simp)).1
  rw [c10_exec_shiftRightSVD_unfold, hkeep]
  exact (c10_exec_two_site_replace n hn pre post a b _ _ hws (twoSiteSVD_frame n a b u s v s.length ha hb hsh).1
    (thetaMat_twoSiteSVD_full n a b u s v ha hb hsh hspec)).2.1 cfg hcfg

/-- **C10.24b** the same for the whole dense vector `toVec` (`MPS.to_vec`), and well-shapedness of the result -/
theorem c10_exec_svd_shift_preserves_toVec (n : Nat) (hn : 0 < n) (pre post : List Tensor) (a b : Tensor) (u : Mat)
    (s : List Rat) (v : Mat) (thr : Rat) (hws : wellShapedChain n (pre ++ a :: b :: post) = true)
    (hsh : svdShaped n a b u s v s.length = true) (hspec : matMul u (diagMulRows s v) = thetaMat a b)
    (hkeep : Yaqs.Rank.keepTwoSite s thr none = s.length) :
    toVec (pre ++ (shiftRightSVD a b u s v thr).1 :: (shiftRightSVD a b u s v thr).2 :: post) =
        toVec (pre ++ a :: b :: post) ∧
      wellShapedChain n (pre ++ (shiftRightSVD a b u s v thr).1 :: (shiftRightSVD a b u s v thr).2 :: post) = true := by
  obtain ⟨hall, -⟩ := (wellShapedChain_iff n _).mp hws
  have ha := (hall a (by simp)).1
  have hb := (hall b (by simp)).1
  rw [c10_exec_shiftRightSVD_unfold, hkeep]
  have h := c10_exec_two_site_replace n hn pre post a b _ _ hws (twoSiteSVD_frame n a b u s v s.length ha hb hsh).1
    (thetaMat_twoSiteSVD_full n a b u s v ha hb hsh hspec)
  exact ⟨h.2.2, h.1⟩

/-- **C10.24c (truncating SVD shift: shapes)** whatever rank `keep = keepTwoSite s thr none` the rule selects (as long as
    `1 ≤ keep ≤ len(s)` and it fits the bond bound), the chain after the executable `shiftRightSVD` is well-shaped, its
    physical dimensions are unchanged and the new bond has dimension `keep`. -/
theorem c10_exec_svd_shift_shape (n : Nat) (pre post : List Tensor) (a b : Tensor) (u : Mat) (s : List Rat) (v : Mat)
    (thr : Rat) (hws : wellShapedChain n (pre ++ a :: b :: post) = true)
    (hsh : svdShaped n a b u s v (Yaqs.Rank.keepTwoSite s thr none) = true) :
    wellShapedChain n (pre ++ (shiftRightSVD a b u s v thr).1 :: (shiftRightSVD a b u s v thr).2 :: post) = true ∧
      rightDim (shiftRightSVD a b u s v thr).1 = Yaqs.Rank.keepTwoSite s thr none ∧
      (pre ++ (shiftRightSVD a b u s v thr).1 :: (shiftRightSVD a b u s v thr).2 :: post).map physDim =
        (pre ++ a :: b :: post).map physDim := by
  obtain ⟨hall, -⟩ := (wellShapedChain_iff n _).mp hws
  have ha := (hall a (by simp)).1
  have hb := (hall b (by simp)).1
  obtain ⟨hf, hr, -⟩ := twoSiteSVD_frame n a b u s v _ ha hb hsh
  obtain ⟨_, _, h1, h2, -⟩ := (sameFrame_iff n a b _ _).mp hf
  exact ⟨replace2_wellShapedChain n pre post a b _ _ hws hf, hr, physDim_replace2 pre post a b _ _ h1 h2⟩

/-- **C10.24d (truncating SVD shift: what changes)** the list-model form of C10.2b / C09.6.  Read `u`, `v` as rectangular
    matrices `U : R × k`, `V : k × C` (`toRect`); from the SVD spec (`u · diag(s) · v = thetaMat a b`, `UᴴU = 1`,
    `VVᴴ = 1`) the merged matrix of the new pair differs from the old one by exactly the discarded weight:
    `‖θ(a,b) − θ(a',b')‖²_F = Σ_{x ≥ keep} s_x² = tailWeight s keep` — and for the rank `keepTwoSite s thr none` of the
    centre shift that weight is `< thr` (C09.4).  So the SVD shift is a gauge move up to an *absolute* error `thr = 1e-12`
    in the two-site block: known finding `C10:svd-shift-absolute-threshold`. -/
theorem c10_exec_svd_truncation_error (n : Nat) (a b : Tensor) (u : Mat) (s : List Rat) (v : Mat) (keep : Nat)
    (ha : wellShaped a = true) (hb : wellShaped b = true) (hsh : svdShaped n a b u s v keep = true)
    (hspec : matMul u (diagMulRows s v) = thetaMat a b)
    (hU : (toRect u.length s.length u)ᴴ * toRect u.length s.length u = 1)
    (hV : toRect s.length (b.length * rightDim b) v * (toRect s.length (b.length * rightDim b) v)ᴴ = 1) :
    Yaqs.Split.frobSq (toRect u.length (b.length * rightDim b) (thetaMat a b) -
        toRect u.length (b.length * rightDim b)
          (thetaMat (twoSiteSVD a b u s v keep).1 (twoSiteSVD a b u s v keep).2)) =
      CRat.ofRat (Yaqs.Rank.tailWeight s keep) := by
  rw [twoSiteSVD_frob n a b u s v keep ha hb hsh hspec hU hV, sum_dropped_eq_tailWeight]

theorem c10_exec_svd_shift_error_below_threshold (n : Nat) (a b : Tensor) (u : Mat) (s : List Rat) (v : Mat) (thr : Rat)
    (h0 : 0 < thr) (ha : wellShaped a = true) (hb : wellShaped b = true)
    (hsh : svdShaped n a b u s v (Yaqs.Rank.keepTwoSite s thr none) = true)
    (hspec : matMul u (diagMulRows s v) = thetaMat a b)
    (hU : (toRect u.length s.length u)ᴴ * toRect u.length s.length u = 1)
    (hV : toRect s.length (b.length * rightDim b) v * (toRect s.length (b.length * rightDim b) v)ᴴ = 1) :
    ∃ w : Rat, w < thr ∧ 0 ≤ w ∧
      Yaqs.Split.frobSq (toRect u.length (b.length * rightDim b) (thetaMat a b) -
        toRect u.length (b.length * rightDim b)
          (thetaMat (shiftRightSVD a b u s v thr).1 (shiftRightSVD a b u s v thr).2)) = CRat.ofRat w :=
  ⟨Yaqs.Rank.tailWeight s (Yaqs.Rank.keepTwoSite s thr none), Yaqs.Rank.c09_twosite_weight s thr h0,
    Yaqs.Rank.sqsum_nonneg _,
    c10_exec_svd_truncation_error n a b u s v _ ha hb hsh hspec hU hV⟩

/-- non-vacuity of C10.23–C10.24d on the rational pair above (physical dimension 3, chain of two sites, bonds 1-3-1):
    with threshold `1/200` nothing is discarded and the amplitudes are unchanged; with threshold `1/50` the rule keeps
    2 of the 3 singular values, the chain stays well-shaped with bond 2, an amplitude really changes, and the
    isometry hypotheses of C10.24d hold for the factors. -/
example : wellShapedChain 3 ([] ++ exSa :: exSb :: []) = true ∧ svdShaped 3 exSa exSb exSu exSs exSv exSs.length = true ∧
    matMul exSu (diagMulRows exSs exSv) = thetaMat exSa exSb ∧
    Yaqs.Rank.keepTwoSite exSs (1/200) none = exSs.length ∧ cfgOK ([] ++ exSa :: exSb :: []) [2, 1] = true ∧
    amp [(shiftRightSVD exSa exSb exSu exSs exSv (1/200)).1, (shiftRightSVD exSa exSb exSu exSs exSv (1/200)).2] [2, 1]
      = some ⟨0, 4/3⟩ ∧ amp [exSa, exSb] [2, 1] = some ⟨0, 4/3⟩ := by
  refine ⟨by decide +kernel, by decide +kernel, by decide +kernel, by decide +kernel, by decide +kernel,
    by decide +kernel, by decide +kernel⟩

example : Yaqs.Rank.keepTwoSite exSs (1/50) none = 2 ∧ svdShaped 3 exSa exSb exSu exSs exSv 2 = true ∧
    wellShapedChain 3 [(shiftRightSVD exSa exSb exSu exSs exSv (1/50)).1, (shiftRightSVD exSa exSb exSu exSs exSv (1/50)).2]
      = true ∧
    rightDim (shiftRightSVD exSa exSb exSu exSs exSv (1/50)).1 = 2 ∧
    amp [(shiftRightSVD exSa exSb exSu exSs exSv (1/50)).1, (shiftRightSVD exSa exSb exSu exSs exSv (1/50)).2] [2, 2]
      = some ⟨0, 0⟩ ∧ amp [exSa, exSb] [2, 2] = some ⟨-1/30, 0⟩ ∧ Yaqs.Rank.tailWeight exSs 2 = 1/100 := by
  refine ⟨by decide +kernel, by decide +kernel, by decide +kernel, by decide +kernel, by decide +kernel,
    by decide +kernel, by decide +kernel⟩

example : (toRect 3 3 exSu)ᴴ * toRect 3 3 exSu = 1 ∧ toRect 3 3 exSv * (toRect 3 3 exSv)ᴴ = 1 := by
  constructor <;> decide +kernel

/-- C10.22 / C10.23 on the same pair: the untruncated new pair has the frame and the merged matrix of the old one; the
    truncated one (keep 2) has the frame but another merged matrix, whose distance is the discarded weight `(1/10)²` -/
example : sameFrame 3 exSa exSb (twoSiteSVD exSa exSb exSu exSs exSv 3).1 (twoSiteSVD exSa exSb exSu exSs exSv 3).2 = true ∧
    thetaMat (twoSiteSVD exSa exSb exSu exSs exSv 3).1 (twoSiteSVD exSa exSb exSu exSs exSv 3).2 = thetaMat exSa exSb ∧
    sameFrame 3 exSa exSb (twoSiteSVD exSa exSb exSu exSs exSv 2).1 (twoSiteSVD exSa exSb exSu exSs exSv 2).2 = true ∧
    thetaMat (twoSiteSVD exSa exSb exSu exSs exSv 2).1 (twoSiteSVD exSa exSb exSu exSs exSv 2).2 ≠ thetaMat exSa exSb ∧
    Yaqs.Split.frobSq (toRect 3 3 (thetaMat exSa exSb) -
      toRect 3 3 (thetaMat (twoSiteSVD exSa exSb exSu exSs exSv 2).1 (twoSiteSVD exSa exSb exSu exSs exSv 2).2))
        = CRat.ofRat (1/100) := by
  refine ⟨by decide +kernel, by decide +kernel, by decide +kernel, by decide +kernel, by decide +kernel⟩

end Yaqs.Mps

namespace Yaqs.Mps

open scoped Matrix

/-- **C10.25 (executable QR shift at the last site: `R` is thrown away)** `shift_orthogonality_center_right(L-1)` /
    the last step of `normalize`: with `A = Q·R` entrywise at the last site of a well-shaped chain (`R` is then `1 × 1`:
    `r.length = 1`, and its rows have the length `rightDim a = 1`), the chain with `a` replaced by
    `shiftRightQRLast a q` is well-shaped and every old amplitude is the new amplitude times the number `r₀₀` —
    normalisation only rescales.  Proof: bridge, C10.8's `last_site_factor`, then C10.8c. -/
theorem c10_exec_qr_last (n : Nat) (hn : 0 < n) (pre : List Tensor) (a : Tensor) (q r : Mat)
    (hws : wellShapedChain n (pre ++ [a]) = true) (hqs : qrShaped n a q r = true) (hr1 : r.length = 1)
    (hqr : matMul q r = flattenRows a) (cfg : List Nat) (hcfg : cfgOK (pre ++ [a]) cfg = true) :
    wellShapedChain n (pre ++ [shiftRightQRLast a q]) = true ∧
      ∃ x, amp (pre ++ [shiftRightQRLast a q]) cfg = some x ∧ amp (pre ++ [a]) cfg = some (x * entry r 0 0) := by
  obtain ⟨hws', hcfg', hch⟩ := qrLast_chain n pre a q r hws hqs hr1 hqr cfg hcfg
  refine ⟨hws', _, amp_eq_chain n hn _ cfg hws' hcfg', ?_⟩
  rw [amp_eq_chain n hn _ cfg hws hcfg, hch,
    Alg.c10_dropped_R_is_a_scalar _ (toMat n r) ⟨0, hn⟩ ⟨0, hn⟩ (fun j hj => ?_)]
  · rfl
  · have : 1 ≤ j.val := by
      rcases j with ⟨j, hjn⟩
      cases j with
      | zero => exact absurd rfl hj
      | succ j => simp
    rw [toMat_apply, entry_of_le_rows r _ _ (by omega)]

/-- a last site `(2,2,1)` with `flatten = exLq · exLr`, `exLr` the `1 × 1` matrix `(2 + i)` -/
def exLa : Tensor := [[[⟨2, 1⟩], [⟨4, 2⟩]], [[⟨0, 0⟩], [⟨-1, 2⟩]]]
def exLq : Mat := [[⟨1, 0⟩], [⟨2, 0⟩], [⟨0, 0⟩], [⟨0, 1⟩]]
def exLr : Mat := [[⟨2, 1⟩]]

example : wellShapedChain 2 ([exT0] ++ [exLa]) = true ∧ qrShaped 2 exLa exLq exLr = true ∧ exLr.length = 1 ∧
    matMul exLq exLr = flattenRows exLa ∧ cfgOK ([exT0] ++ [exLa]) [1, 1] = true ∧
    amp [exT0, shiftRightQRLast exLa exLq] [1, 1] = some ⟨0, 3⟩ ∧
    amp [exT0, exLa] [1, 1] = some (⟨0, 3⟩ * entry exLr 0 0) := by
  refine ⟨by decide +kernel, by decide +kernel, by decide +kernel, by decide +kernel, by decide +kernel,
    by decide +kernel, by decide +kernel⟩

/-- **C10.26 (`gramLeft`, `gramRight` are the Gram matrices of the Matrix reading)** the two contractions of
    `check_canonical_form` (`"ijk, ijl->kl"` on `conj T, T` and `"ijk, ilk->jl"` on `T, conj T`): read in the uniform bond
    type `Fin n`, `gramLeft t = Σ_s T_sᴴ T_s` and `gramRight t = Σ_s T_s T_sᴴ` with `T_s = toSite n t s`. -/
theorem c10_exec_gram (n : Nat) (t : Tensor) (ht : wellShaped t = true) (hl : leftDim t ≤ n) (hr : rightDim t ≤ n) :
    toMat n (gramLeft t) = ∑ s : Fin t.length, (toSite n t s.val)ᴴ * toSite n t s.val ∧
      toMat n (gramRight t) = ∑ s : Fin t.length, toSite n t s.val * (toSite n t s.val)ᴴ :=
  ⟨toMat_gramLeft n t ht hl, toMat_gramRight n t ht hr⟩

/-- **C10.26b (the exact isometry tests)** `isLeftIso t` / `isRightIso t` (the model's exact version of
    `np.allclose(mat, eye)`) hold iff the Matrix Gram sums are the identity of the `rightDim` resp. `leftDim` block. -/
theorem c10_exec_iso_tests (n : Nat) (t : Tensor) (ht : wellShaped t = true) (hl : leftDim t ≤ n) (hr : rightDim t ≤ n) :
    (isLeftIso t = true ↔
      ∑ s : Fin t.length, (toSite n t s.val)ᴴ * toSite n t s.val = toMat n (identity (rightDim t))) ∧
    (isRightIso t = true ↔
      ∑ s : Fin t.length, toSite n t s.val * (toSite n t s.val)ᴴ = toMat n (identity (leftDim t))) :=
  ⟨isLeftIso_iff_matrix n t ht hl hr, isRightIso_iff_matrix n t ht hl hr⟩

/-- **C10.26c** when the bond fills the uniform type (`rightDim t = n` resp. `leftDim t = n`) these are literally the
    conditions `LeftIso` / `RightIso` of C10.10–C10.11 on the site `s ↦ toSite n t s`. -/
theorem c10_exec_iso_tests_full (n : Nat) (t : Tensor) (ht : wellShaped t = true) (hl : leftDim t ≤ n)
    (hr : rightDim t ≤ n) :
    (rightDim t = n → (isLeftIso t = true ↔ Alg.LeftIso (fun s : Fin t.length => toSite n t s.val))) ∧
    (leftDim t = n → (isRightIso t = true ↔ Alg.RightIso (fun s : Fin t.length => toSite n t s.val))) := by
  constructor
  · intro h
    rw [isLeftIso_iff_matrix n t ht hl hr, h, toMat_identity]
    rfl
  · intro h
    rw [isRightIso_iff_matrix n t ht hl hr, h, toMat_identity]
    rfl

/-- **C10.26d (`checkCanonicalOf`)** the exact `check_canonical_form` of the model is the truth-table function of
    C10.12 applied to the two exact tests, so it returns exactly the sites with a left-isometric prefix and a
    right-isometric suffix. -/
theorem c10_exec_check_canonical (ts : List Tensor) (i : Nat) :
    checkCanonicalOf ts = checkCanonical (ts.map isLeftIso) (ts.map isRightIso) ∧
      (i ∈ checkCanonicalOf ts ↔ i < ts.length ∧ (∀ j, j < i → ∀ t, ts[j]? = some t → isLeftIso t = true) ∧
        (∀ j, i < j → ∀ t, ts[j]? = some t → isRightIso t = true)) := by
  refine ⟨rfl, ?_⟩
  unfold checkCanonicalOf
  rw [c10_canonical_query _ _ (by simp) i]
  simp only [List.length_map, List.getElem?_map]
  constructor
  · rintro ⟨hi, h1, h2⟩
    refine ⟨hi, fun j hj t ht => ?_, fun j hj t ht => ?_⟩
    · have := h1 j hj
      rw [ht] at this
      simpa using this
    · have hjl : j < ts.length := by
        by_contra hcon
        rw [List.getElem?_eq_none (by omega)] at ht
        exact absurd ht (by simp)
      have := h2 j hj hjl
      rw [ht] at this
      simpa using this
  · rintro ⟨hi, h1, h2⟩
    refine ⟨hi, fun j hj => ?_, fun j hj hjl => ?_⟩
    · rw [List.getElem?_eq_getElem (by omega)]
      simpa using h1 j hj _ (List.getElem?_eq_getElem (by omega))
    · rw [List.getElem?_eq_getElem hjl]
      simpa using h2 j hj _ (List.getElem?_eq_getElem hjl)

/-- **C10.26e (after the executable QR shift the new site passes the left test)** list-model form of C10.10: the
    reshape `q.reshape(phys, left, k)` followed by the flattening inside `gramLeft` is the identity, so the Gram matrix
    of the new site is `QᴴQ`; with `QᴴQ = 1` (spec of `np.linalg.qr`, spec-tied) `isLeftIso` holds. -/
theorem c10_exec_shift_isLeftIso (a b : Tensor) (q r : Mat) (ha : wellShaped a = true)
    (hqr : matMul q r = flattenRows a) (hk : 1 ≤ r.length) (hq : ∀ row ∈ q, row.length = r.length)
    (hiso : matMul (transpose (conjMat q)) q = identity r.length) :
    gramLeft (shiftRightQR a b q r).1 = matMul (transpose (conjMat q)) q ∧ isLeftIso (shiftRightQR a b q r).1 = true := by
  obtain ⟨_, hal, _, _⟩ := (wellShaped_iff a).mp ha
  have hql : q.length = a.length * leftDim a := by
    rw [← length_flattenRows a ha, ← hqr, matMul_length]
  exact ⟨gramLeft_reshapeRows (leftDim a) a.length q hal hql, isLeftIso_shiftRightQR a b q r ha hqr hk hq hiso⟩

/-- left-isometric only / both / neither, as exact list tensors (the ones the `canonT` requests of the check use) -/
def exGTF : Tensor := [[[⟨1, 0⟩, ⟨0, 0⟩], [⟨0, 0⟩, ⟨0, 0⟩]], [[⟨0, 0⟩, ⟨1, 0⟩], [⟨0, 0⟩, ⟨0, 0⟩]]]
def exGTT : Tensor := [[[⟨1, 0⟩, ⟨0, 0⟩], [⟨0, 0⟩, ⟨0, 0⟩]], [[⟨0, 0⟩, ⟨0, 0⟩], [⟨0, 0⟩, ⟨1, 0⟩]]]
example : isLeftIso exGTF = true ∧ isRightIso exGTF = false ∧ isLeftIso exGTT = true ∧ isRightIso exGTT = true ∧
    isLeftIso exT2 = false ∧ gramLeft exT2 = [[⟨6, 0⟩, ⟨0, 1⟩], [⟨0, -1⟩, ⟨7, 0⟩]] ∧
    gramRight exT2 = [[⟨9, 0⟩, ⟨4, 2⟩], [⟨4, -2⟩, ⟨4, 0⟩]] ∧
    checkCanonicalOf [exGTF, exGTF, exGTT, exT2] = [3] ∧ checkCanonicalOf [exT2, exGTF, exT2] = [] ∧ checkCanonicalOf [exGTF, exGTF, exT2, exGTT] = [2] ∧
    checkCanonicalOf [exGTF, exGTT, exGTT] = [0, 1, 2] := by
  refine ⟨by decide +kernel, by decide +kernel, by decide +kernel, by decide +kernel, by decide +kernel, by decide +kernel,
    by decide +kernel, by decide +kernel, by decide +kernel, by decide +kernel, by decide +kernel⟩

/-- a `(3,1,3)` tensor `exGa = reshape(exSu · exGr)` with `exSuᴴ exSu = 1`: the hypotheses of C10.26e hold and the new
    site passes the exact left test, the old one does not -/
def exGr : Mat := [[⟨1, 0⟩, ⟨2, 1⟩, ⟨0, 0⟩], [⟨0, 0⟩, ⟨1, 0⟩, ⟨1, 0⟩], [⟨0, 0⟩, ⟨0, 0⟩, ⟨3, 0⟩]]
def exGa : Tensor := reshapeRows 1 (matMul exSu exGr)
example : wellShaped exGa = true ∧ matMul exSu exGr = flattenRows exGa ∧
    matMul (transpose (conjMat exSu)) exSu = identity exGr.length ∧
    isLeftIso (shiftRightQR exGa exSb exSu exGr).1 = true ∧ isLeftIso exGa = false := by
  refine ⟨by decide +kernel, by decide +kernel, by decide +kernel, by decide +kernel, by decide +kernel⟩

/-- **C10.27 (`truncate`: which bonds, how often)** the primitive calls of `MPS.truncate(threshold, max_bond_dim)` on a
    network whose first valid centre is `c`: nothing for one site; otherwise two-site SVDs with the caller's threshold at
    list positions `0 … c-1`, a flip, positions `0 … len-2-c` of the flipped network, a flip.  Every event is a flip or a
    two-site SVD at a position that has a right neighbour (a move of the form C10.23/C10.24), and replaying the flips
    (`truncateBonds`) the SVDs act on every bond `0 … len-2` of the original chain **exactly once**. -/
theorem c10_trace_truncate_bonds (len c : Nat) (hc : c < len) :
    (truncateBonds len c).Perm (List.range (len - 1)) ∧
      (∀ e ∈ truncateEv len c, e = Ev.flip ∨ ∃ i, e = Ev.svdT i ∧ i + 1 < len) ∧ truncateEv 1 c = [] :=
  ⟨truncateBonds_perm len c hc, truncateEv_events len c hc, rfl⟩

example : truncateEv 5 2 = [.svdT 0, .svdT 1, .flip, .svdT 0, .svdT 1, .flip] ∧ truncateBonds 5 2 = [0, 1, 3, 2] ∧
    truncateBonds 4 0 = [2, 1, 0] ∧ truncateBonds 4 3 = [0, 1, 2] ∧ truncateEv 1 0 = [] := by decide

/-- **C10.27c (`set_canonical_form` touches the same bonds)** replaying the flips of `setCanonEv` (`bondsOf`, `bondAt`):
    the two sweeps of `set_canonical_form(c, "QR" | "SVD")` run their two-site primitive on the bonds `truncate` visits, in
    the same order — `0 … c-1`, then `len-2 … c` — hence on every bond exactly once. -/
theorem c10_trace_set_canonical_bonds (len c : Nat) (dec : String) (hdec : dec = "QR" ∨ dec = "SVD") (hc : c < len) :
    setCanonBonds len c dec = truncateBonds len c ∧
      bondsOf len false (setCanonEv len c dec) = List.range c ++ (List.range (len - 1 - c)).map (bondAt len true) ∧
      (setCanonBonds len c dec).Perm (List.range (len - 1)) := by
  refine ⟨setCanonBonds_eq_truncateBonds len c dec hdec hc, ?_, ?_⟩
  · have := setCanonBonds_eq len c dec hdec hc
    unfold setCanonBonds at this
    rw [this]
    congr 1
  · rw [setCanonBonds_eq_truncateBonds len c dec hdec hc]
    exact truncateBonds_perm len c hc

example : setCanonBonds 5 2 "QR" = [0, 1, 3, 2] ∧ setCanonBonds 5 2 "SVD" = [0, 1, 3, 2] ∧ setCanonBonds 1 0 "QR" = [] ∧
    bondAt 5 true 0 = 3 := by decide

/-- **C10.27b (one event of `truncate` on the list model)** a two-site SVD event at list position `i` (`applyAt … i`:
    the tensors `i`, `i+1` are replaced by `shiftRightSVD` of them) is the move of C10.24: under the SVD spec for the
    pair found there, and when the rank rule discards nothing, the dense vector is unchanged and the chain stays
    well-shaped; when it discards, C10.24c/d say what changes. -/
theorem c10_exec_truncate_step (n : Nat) (hn : 0 < n) (ts : List Tensor) (i : Nat) (thr : Rat)
    (U V : Tensor → Tensor → Mat) (S : Tensor → Tensor → List Rat) (hws : wellShapedChain n ts = true)
    (hi : i + 1 < ts.length)
    (h : ∀ a b, ts[i]? = some a → ts[i + 1]? = some b →
      svdShaped n a b (U a b) (S a b) (V a b) (S a b).length = true ∧
        matMul (U a b) (diagMulRows (S a b) (V a b)) = thetaMat a b ∧
        Yaqs.Rank.keepTwoSite (S a b) thr none = (S a b).length) :
    toVec (applyAt (fun a b => shiftRightSVD a b (U a b) (S a b) (V a b) thr) i ts) = toVec ts ∧
      wellShapedChain n (applyAt (fun a b => shiftRightSVD a b (U a b) (S a b) (V a b) thr) i ts) = true := by
  obtain ⟨pre, a, b, post, e, _, h1, h2, hap⟩ :=
    applyAt_split (fun a b => shiftRightSVD a b (U a b) (S a b) (V a b) thr) i ts hi
  obtain ⟨hsh, hspec, hkeep⟩ := h a b h1 h2
  rw [hap]
  subst e
  exact c10_exec_svd_shift_preserves_toVec n hn pre post a b _ _ _ thr hws hsh hspec hkeep

/-- C10.27b on the rational pair: the event at position 0 of the two-site chain is `shiftRightSVD` of the pair, and with
    threshold `1/200` the dense vector is unchanged -/
example : applyAt (fun a b => shiftRightSVD a b exSu exSs exSv (1/200)) 0 [exSa, exSb] =
      [(shiftRightSVD exSa exSb exSu exSs exSv (1/200)).1, (shiftRightSVD exSa exSb exSu exSs exSv (1/200)).2] ∧
    toVec (applyAt (fun a b => shiftRightSVD a b exSu exSs exSv (1/200)) 0 [exSa, exSb]) = toVec [exSa, exSb] ∧
    toVec (applyAt (fun a b => shiftRightSVD a b exSu exSs exSv (1/50)) 0 [exSa, exSb]) ≠ toVec [exSa, exSb] := by
  refine ⟨by decide +kernel, by decide +kernel, by decide +kernel⟩

end Yaqs.Mps

namespace Yaqs.Mps.Alg

variable {K : Type*} [CommRing K] {ι σ : Type*} [Fintype ι] [DecidableEq ι]

/-- **C10.14e** `truncate`: event list = the two-sweep fold `setCanonical` run with the two-site SVD primitive at
    every step (same shape as `set_canonical_form(c, "SVD")`, but with the caller's threshold inside the primitive and
    without the QR fallback; the empty list for one site is the identity fold) -/
theorem c10_trace_truncate (d : Dec σ ι K) (c : Nat) (ts : List (Site σ ι K)) (hc : c < ts.length) :
    runEvs d (truncateEv ts.length c) ts = setCanonical d true c ts :=
  truncateEv_run d c ts hc

/-- **C10.14f** consequently, under the untruncated two-site spec (`Dec.svd_spec`) the observed call sequence of
    `truncate` preserves every amplitude; what a truncating call changes is C10.2b / C10.24d. -/
theorem c10_trace_truncate_preserves (d : Dec σ ι K) (c : Nat) (ts : List (Site σ ι K)) (cfg : List σ)
    (hc : c < ts.length) (hcfg : cfg.length = ts.length) :
    chain (runEvs d (truncateEv ts.length c) ts) cfg = chain ts cfg := by
  rw [truncateEv_run d c ts hc]
  exact setCanonical_chain d true c ts cfg hc hcfg

/-- instance of C10.14e/f on a three-site chain with the decomposition oracle `exDec` -/
example : runEvs exDec (truncateEv 3 1) [exA, exB, exA] = setCanonical exDec true 1 [exA, exB, exA] ∧
    chain (runEvs exDec (truncateEv 3 1) [exA, exB, exA]) [1, 0, 1] = chain [exA, exB, exA] [1, 0, 1] :=
  ⟨c10_trace_truncate exDec 1 _ (by decide), c10_trace_truncate_preserves exDec 1 _ _ (by decide) (by decide)⟩

end Yaqs.Mps.Alg
