import YaqsModel.Lemmas.Born
import YaqsModel.Lemmas.BornGlobal
import YaqsModel.Lemmas.WeakEndToEnd

/-!
# C12 — sampling follows the Born rule; the outcome is keyed by qubit

Property theorems only (helper lemmas: `Lemmas/Born.lean`; executable model: `Model/Born.lean`).

Reading guide.  `measureSingleShot b sites σ` is the list of `p=` vectors the loop of `MPS.measure_single_shot`
hands to `rng.choice` when the generator returns the outcomes `σ`; `branchProb` is the product of the entries of
the forced outcomes, i.e. the probability with which a generator distributed as `p` (trusted base:
`Generator.choice`) walks down the branch `σ`.  `ampMat b sites σ` is the amplitude `Π_k (R·A_k)[σ_k]` of the bit
string `σ` in the measurement basis, up to the factor `(√rsq)^L` of the `1/√2` in the X and Y rotations, so
`rsq^L · ‖ampMat‖²` is the Born probability `|⟨σ| (√rsq R)^{⊗L} |ψ⟩|²`.

All theorems hold for every chain length, every (padded) bond dimension `n` and every tensor over ℚ(i) — in
particular for every tensor made of binary64 numbers.  `counts_total` (weak-mode counts add up to `shots`) belongs to
the run-policy model of C20 and is tied there; here the real `simulator.run` is checked directly by the oracle.
-/
namespace Yaqs.Born
open Yaqs.CB

/-! ## concrete instance used by the `example`s: `(3/5)|00⟩ + (4i/5)|11⟩`, bond dimension 2, right-canonical -/

/-- first tensor (row vector padded to 2×2) -/
def exA : Site 2 := Site.ofFn fun s => Mat.ofFn fun i j =>
  if i = 0 ∧ j = 0 ∧ s = 0 then ⟨3 / 5, 0⟩ else if i = 0 ∧ j = 1 ∧ s = 1 then ⟨0, 4 / 5⟩ else 0
/-- second tensor (column vector padded to 2×2), a right isometry -/
def exB : Site 2 := Site.ofFn fun s => Mat.ofFn fun i j =>
  if j = 0 ∧ ((i = 0 ∧ s = 0) ∨ (i = 1 ∧ s = 1)) then 1 else 0

private theorem exCanon : RightCanon [exA, exB] := by
  refine ⟨?_, trivial⟩
  decide +kernel

/-! ## the three bases -/

/-- **C12 (bases)** The Z, X and Y rotations of the code are `√rsq · R` with `R` over ℤ[i] and
    `rsq · RᴴR = rsq · R Rᴴ = 1` (`rsq = 1` for Z, `1/2` for X and Y). -/
theorem basis_rotations : basisZ.IsUnitary ∧ basisX.IsUnitary ∧ basisY.IsUnitary := by
  refine ⟨⟨?_, ?_, ?_⟩, ⟨?_, ?_, ?_⟩, ⟨?_, ?_, ?_⟩⟩ <;> decide +kernel

/-- **C12 (bases)** the operators `Π_a = Uᴴ|a⟩⟨a|U` applied by a measurement resolve the identity -/
theorem projector_complete (b : Basis) (hu : b.IsUnitary) (s t : Fin 2) :
    projector b 0 s t + projector b 1 s t = if s = t then 1 else 0 := by
  rw [← hu.col s t]
  apply CRat.ext <;>
    simp only [projector, smulQ_re, smulQ_im, CRat.add_re, CRat.add_im, CRat.mul_re, CRat.mul_im, CRat.conj_re,
      CRat.conj_im] <;> ring

/-- **C12 (bases)** … and are idempotent: `Π_a Π_a = Π_a` -/
theorem projector_idem (b : Basis) (hu : b.IsUnitary) (a s u : Fin 2) :
    projector b a s 0 * projector b a 0 u + projector b a s 1 * projector b a 1 u = projector b a s u := by
  have h := row_norm b hu a
  simp only [CRat.normSq] at h
  apply CRat.ext
  · simp only [projector, smulQ_re, smulQ_im, CRat.add_re, CRat.mul_re, CRat.mul_im, CRat.conj_re, CRat.conj_im]
    linear_combination (b.rsq * ((b.R a s).re * (b.R a u).re + (b.R a s).im * (b.R a u).im)) * h
  · simp only [projector, smulQ_re, smulQ_im, CRat.add_im, CRat.mul_re, CRat.mul_im, CRat.conj_re, CRat.conj_im]
    linear_combination (b.rsq * ((b.R a s).re * (b.R a u).im - (b.R a s).im * (b.R a u).re)) * h


/-! ## the chain rule -/

/-- **C12.1 (chain rule, Born rule for every branch)**  For a chain that is right-canonical from site 1 on (the form
    the simulator maintains: orthogonality centre at site 0) and every unitary basis rotation, the product of the
    conditional probabilities `measure_single_shot` hands to `rng.choice` along the branch `σ` is the Born
    probability of `σ` for the normalised state: `Π_k p_k[σ_k] · ‖ψ‖² = rsq^L · ‖Π_k (R A_k)[σ_k]‖²`.
    Every length, every bond dimension, every tensor over ℚ(i); a branch through an outcome of probability 0
    (where the code stops) is covered: both sides are 0. -/
theorem chain_rule {n : Nat} (b : Basis) (hu : b.IsUnitary) (A : Site n) (rest : List (Site n))
    (σ : List (Fin 2)) (hlen : σ.length = (A :: rest).length) (hnorm : siteNorm A ≠ 0)
    (hcanon : RightCanon (A :: rest)) :
    branchProb b (A :: rest) σ * siteNorm A = b.rsq ^ σ.length * frob (ampMat b (A :: rest) σ) := by
  have h := shot_telescope b hu rest σ ⟨1, A⟩ (by simpa using hlen) one_ne_zero hnorm
    (by
      intro B hB s
      cases rest with
      | nil => simp at hB
      | cons B' rest' => simp at hB; subst hB; exact hcanon.1 s)
    (by
      cases rest with
      | nil => trivial
      | cons B' rest' => exact hcanon.2)
  simpa [branchProb, measureSingleShot, prodTrace] using h

/-- **C12.1 (normalised state)** with `‖ψ‖ = 1` (centre tensor of norm 1) the product of conditionals *is* the Born
    probability. -/
theorem chain_rule_normalised {n : Nat} (b : Basis) (hu : b.IsUnitary) (A : Site n) (rest : List (Site n))
    (σ : List (Fin 2)) (hlen : σ.length = (A :: rest).length) (hnorm : siteNorm A = 1)
    (hcanon : RightCanon (A :: rest)) :
    branchProb b (A :: rest) σ = b.rsq ^ σ.length * frob (ampMat b (A :: rest) σ) := by
  have h := chain_rule b hu A rest σ hlen (by rw [hnorm]; exact one_ne_zero) hcanon
  rwa [hnorm, mul_one] at h

/-- **C12.1 (scalar amplitude)** for an MPS with boundary bonds of dimension 1 the amplitude matrix has the single
    entry `(0,0)`, and the branch probability is `rsq^L · |amp σ|²`. -/
theorem chain_rule_amplitude {n : Nat} (b : Basis) (hu : b.IsUnitary) (A : Site (n + 1)) (rest : List (Site (n + 1)))
    (σ : List (Fin 2)) (hlen : σ.length = (A :: rest).length) (hnorm : siteNorm A = 1)
    (hcanon : RightCanon (A :: rest))
    (hscalar : ∀ i j, (i ≠ 0 ∨ j ≠ 0) → (ampMat b (A :: rest) σ).get i j = 0) :
    branchProb b (A :: rest) σ = b.rsq ^ σ.length * ((ampMat b (A :: rest) σ).get 0 0).normSq := by
  rw [chain_rule_normalised b hu A rest σ hlen hnorm hcanon]
  congr 1
  simp only [frob, sumFin_eq]
  rw [Finset.sum_eq_single 0, Finset.sum_eq_single 0]
  · intro j _ hj; rw [hscalar 0 j (Or.inr hj)]; simp [CRat.normSq]
  · simp
  · intro i _ hi
    apply Finset.sum_eq_zero
    intro j _; rw [hscalar i j (Or.inl hi)]; simp [CRat.normSq]
  · simp

/-- the example chain meets every hypothesis, in all three bases; e.g. the branch `11` in the Y basis has
    probability `1/100` (amplitude `(3/5 − 4i/5·i·i)/2`), and `00` in the Z basis has `9/25` -/
example : siteNorm exA = 1 ∧ RightCanon [exA, exB] ∧
    branchProb basisZ [exA, exB] [0, 0] = 9 / 25 ∧ branchProb basisZ [exA, exB] [0, 1] = 0 ∧
    branchProb basisX [exA, exB] [1, 0] = 1 / 4 ∧
    branchProb basisY [exA, exB] [1, 1] = (1 / 2) ^ 2 * ((ampMat basisY [exA, exB] [1, 1]).get 0 0).normSq ∧
    (∀ i j, (i ≠ 0 ∨ j ≠ 0) → (ampMat basisY [exA, exB] [1, 1]).get i j = 0) := by
  refine ⟨by decide +kernel, exCanon, by decide +kernel, by decide +kernel, by decide +kernel, by decide +kernel,
    by decide +kernel⟩

/-- **C12.2** The probabilities of all `2^L` branches add up to one: the loop defines a probability distribution on
    bit strings (together with `chain_rule`: the Born distribution). -/
theorem branches_sum_one {n : Nat} (b : Basis) (hu : b.IsUnitary) (A : Site n) (rest : List (Site n))
    (hnorm : siteNorm A ≠ 0) (hcanon : RightCanon (A :: rest)) :
    ((allBits (A :: rest).length).map (branchProb b (A :: rest))).sum = 1 := by
  have h := sum_branches b hu rest ⟨1, A⟩ one_ne_zero hnorm
    (by
      intro B hB s
      cases rest with
      | nil => simp at hB
      | cons B' rest' => simp at hB; subst hB; exact hcanon.1 s)
    (by
      cases rest with
      | nil => trivial
      | cons B' rest' => exact hcanon.2)
  have hfun : branchProb b (A :: rest) = prodTrace b ⟨1, A⟩ rest := by funext σ; rfl
  rw [hfun]; exact h

example : ((allBits 2).map (branchProb basisX [exA, exB])).sum = 1 ∧
    (allBits 2).map (branchProb basisX [exA, exB]) = [1 / 4, 1 / 4, 1 / 4, 1 / 4] ∧
    (allBits 2).map (branchProb basisZ [exA, exB]) = [9 / 25, 0, 0, 16 / 25] := by
  refine ⟨by decide +kernel, by decide +kernel, by decide +kernel⟩

/-- **C12.3 (never an impossible outcome)** A bit string of Born probability 0 can only be produced through a step
    in which the generator picked an index whose entry in `p` was 0 — which `Generator.choice` never does
    (trusted base, spec-tied).  So a sampled key always has positive probability. -/
theorem zero_never {n : Nat} (b : Basis) (hu : b.IsUnitary) (A : Site n) (rest : List (Site n))
    (σ : List (Fin 2)) (hlen : σ.length = (A :: rest).length) (hnorm : siteNorm A ≠ 0)
    (hcanon : RightCanon (A :: rest)) (hzero : frob (ampMat b (A :: rest) σ) = 0) :
    (0 : Rat) ∈ List.zipWith (fun p a => p a) (measureSingleShot b (A :: rest) σ) σ := by
  have h := chain_rule b hu A rest σ hlen hnorm hcanon
  rw [hzero, mul_zero] at h
  rcases mul_eq_zero.mp h with h | h
  · exact List.prod_eq_zero_iff.mp h
  · exact absurd h hnorm

example : frob (ampMat basisZ [exA, exB] [0, 1]) = 0 ∧
    List.zipWith (fun p a => p a) (measureSingleShot basisZ [exA, exB] [0, 1]) [0, 1] = [9 / 25, 0] := by
  refine ⟨by decide +kernel, by decide +kernel⟩

/-- **C12.4 (renormalised carry)** after an outcome of non-zero probability the tensor the loop propagates is
    normalised: the unnormalised `probabilities` of the next site already add up to 1, whatever the norm of the input
    state. -/
theorem carry_renormalised {n : Nat} (b : Basis) (hu : b.IsUnitary) (c : Carry n) (a : Fin 2) (B : Site n)
    (hs : c.scaleSq ≠ 0) (hsupp : ∀ s, mmul (c.cur.get s) (gram B) = c.cur.get s) (hz : probsRaw b c a ≠ 0) :
    probTotal b (step b c a B) = 1 := by
  have hr : b.rsq ≠ 0 := ne_of_gt hu.pos
  rw [probTotal_eq b hu]
  have hcur' : (step b c a B).cur = Site.ofFn fun s => mmul (rotT b.R c.cur a) (B.get s) := rfl
  have hY : mmul (rotT b.R c.cur a) (gram B) = rotT b.R c.cur a := rotT_supported _ _ _ hsupp a
  rw [hcur', siteNorm_step _ B hY]
  have hf : frob (rotT b.R c.cur a) ≠ 0 := by
    intro h; apply hz; unfold probsRaw; rw [h]; simp
  unfold step probsRaw
  simp only
  field_simp

example : probTotal basisY (step basisY ⟨1, exA⟩ 1 exB) = 1 ∧ probsRaw basisY ⟨1, exA⟩ 1 = 1 / 2 := by
  refine ⟨by decide +kernel, by decide +kernel⟩

/-! ## the returned key -/

/-- **C12.5 (key bit i = outcome of qubit i)** `sum(c << i for i, c in enumerate(bits))` has bit `i` equal to the
    outcome of site `i`, for every length; bits beyond the chain are 0. -/
theorem encode_bits (cs : List (Fin 2)) (i : Nat) : (encode cs).testBit i = decide (cs[i]? = some 1) :=
  testBit_encode cs i

/-- **C12.5** the key is below `2^L` -/
theorem encode_range (cs : List (Fin 2)) : encode cs < 2 ^ cs.length := encode_lt cs

example : encode [1, 0, 1, 1] = 13 ∧ (encode [1, 0, 1, 1]).testBit 0 = true ∧ (encode [1, 0, 1, 1]).testBit 1 = false := by
  decide

/-- **C12.5** on a branch that runs to the end the return value is the encoding of the forced outcomes -/
theorem shot_outcome {n : Nat} (b : Basis) (sites : List (Site n)) (σ : List (Fin 2)) (k : Nat)
    (h : shotOutcome b sites σ = some k) : k = encode σ ∧ σ.length = sites.length := by
  unfold shotOutcome at h
  split at h
  · next hc => exact ⟨(Option.some.inj h).symm, hc.2⟩
  · cases h

/-- first tensor of the product state `|00⟩` (outcome 1 at site 0 has probability 0) -/
def exP : Site 2 := Site.ofFn fun s => Mat.ofFn fun i j => if s = 0 ∧ i = 0 ∧ j = 0 then 1 else 0

example : shotOutcome basisZ [exA, exB] [1, 1] = some 3 ∧ shotOutcome basisZ [exA, exB] [0, 1] = some 2 ∧
    (shotOutcome basisZ [exP, exB] [1, 0]).isSome = false ∧ shotOutcome basisZ [exP, exB] [0, 0] = some 0 := by
  refine ⟨by decide +kernel, by decide +kernel, by decide +kernel, by decide +kernel⟩

/-! ## in-place measurement of one site -/

/-- **C12.6 (`MPS.measure`)** On the centre tensor `T` (norm² `‖T‖² = ‖ψ‖²`) and for an outcome `a` of non-zero
    probability, `measure` hands `choice` the Born probabilities `p[a'] = ‖Π_{a'} ψ‖² / ‖ψ‖²` (they add up to 1),
    and replaces the tensor by `Π_a T / √p[a]` (`projectedSite = Π_a T` entrywise): the projected state, renormalised
    to the norm of the input. -/
theorem measure_inplace {n : Nat} (b : Basis) (hu : b.IsUnitary) (T : Site n) (a : Fin 2)
    (hN : siteNorm T ≠ 0) (hpos : frob (rotT b.R T a) ≠ 0) :
    ∃ out, measureSite b T a = some out ∧
      (∀ a', out.p a' = b.rsq * frob (rotT b.R T a') / siteNorm T) ∧
      (∀ a', b.rsq * frob (rotT b.R T a') = siteNorm (projectedSite b T a')) ∧
      out.p 0 + out.p 1 = 1 ∧
      out.scaleSq = out.p a ∧
      out.tensor = projectedSite b T a ∧
      (∀ a' s i j, ((projectedSite b T a').get s).get i j
          = projector b a' s 0 * T.t0.get i j + projector b a' s 1 * T.t1.get i j) ∧
      siteNorm out.tensor = out.scaleSq * siteNorm T := by
  have hr : b.rsq ≠ 0 := ne_of_gt hu.pos
  have hT : probTotal b (⟨1, T⟩ : Carry n) ≠ 0 := by
    rw [probTotal_eq b hu]; simpa using hN
  have hc : ∀ a', condP b (⟨1, T⟩ : Carry n) a' = b.rsq * frob (rotT b.R T a') / siteNorm T :=
    fun a' => condP_eq b hu ⟨1, T⟩ one_ne_zero hN a'
  have hca : condP b (⟨1, T⟩ : Carry n) a ≠ 0 := by
    rw [hc a]; exact div_ne_zero (mul_ne_zero hr hpos) hN
  refine ⟨{ p := condP b ⟨1, T⟩, scaleSq := condP b ⟨1, T⟩ a, tensor := projectedSite b T a },
    by simp only [measureSite, hT, if_false, hca], hc, ?_, condP_sum b _ hT, rfl, rfl, ?_, ?_⟩
  · intro a'; rw [projected_norm b hu T a']
  · intro a' s i j; exact projected_entry b T a' s i j
  · simp only
    rw [projected_norm b hu T a, hc a]
    field_simp

example : (measureSite basisX exA 1).map (fun o => (o.p 1, o.scaleSq, o.tensor.t0.get 0 0, o.tensor.t1.get 0 1, o.tensor.t0.get 0 1))
    = some (1 / 2, 1 / 2, ⟨3 / 10, 0⟩, ⟨0, 2 / 5⟩, ⟨0, -2 / 5⟩) := by decide +kernel

/-- **C12.6** `measure(site)` shifts the centre through `0, 1, …, site-1` (so that the measured tensor is the centre
    when the state came in with its centre at 0) and rejects sites outside the chain. -/
theorem measure_shifts (L : Nat) (site : Int) :
    (0 ≤ site ∧ site < L → measureCall L site = .ok (List.range site.toNat)) ∧
    (site < 0 ∨ (L : Int) ≤ site → measureCall L site = .error "ValueError") := by
  unfold measureCall
  constructor
  · intro h; rw [if_neg (by omega)]
  · intro h; rw [if_pos (by omega)]

end Yaqs.Born

/-! ## global meaning of `measure`'s probabilities (the canonical-form argument)

`measure_inplace` reads `p` off the *site tensor*: `p[a] = rsq·‖rot(T)[a]‖² / ‖T‖²`.  The theorems below say what this
number is for the *full state* `ψ = pre ++ T :: post`:

* `denseNormSq ψ = Σ_τ ‖Π_k ψ_k[τ_k]‖²` — the sum over all `2^L` configurations of the squared modulus of the amplitude
  (the product matrix has the single entry `(0,0)` for boundary bonds of dimension 1), i.e. `‖ψ‖²`;
* `bornWeight b pre T post a = rsq · Σ_{τ₁,τ₂} ‖Π pre[τ₁] · rot(T)[a] · Π post[τ₂]‖²` — the sum over all configurations of
  the *other* sites of the squared modulus of the amplitude with the measured site rotated into the measurement basis
  and fixed to `a`: the Born probability (unnormalised) of reading `a`; in the Z basis literally
  `Σ_{cfg with cfg_site = a} |amp cfg|²` (`measure_global_Z`).

Both are plain finite sums over the executable model's own matrices (`Lemmas/BornGlobal.lean`), every chain length, every
position of the measured site, every (padded) bond dimension, every tensor over ℚ(i). -/
namespace Yaqs.Born
open Yaqs.CB

/-- **C12.7 (`measure_global`, environment form)** If the left environment of the sites before the measured one acts
    as the identity on the site tensor and so does the right environment of the sites after it (what the
    mixed-canonical form means for zero-padded tensors; `E_L`, `E_R` are the `envL`, `envR` of C11's
    `local_expect_dense`), then the vector `measure` hands to `choice`, computed from the site tensor alone, is the
    Born distribution of the full state: `p[a'] = bornWeight a' / ‖ψ‖²` for both outcomes. -/
theorem measure_global_env {n : Nat} (b : Basis) (hu : b.IsUnitary) (pre post : List (Site n)) (T : Site n) (a : Fin 2)
    (hL : ∀ s, LocalExpect.envL 1 (pre.map toMS) * toMS T s = toMS T s)
    (hR : ∀ s, toMS T s * LocalExpect.envR (post.map toMS) = toMS T s)
    (hN : siteNorm T ≠ 0) (hpos : frob (rotT b.R T a) ≠ 0) :
    ∃ out, measureSite b T a = some out ∧ denseNormSq (pre ++ T :: post) ≠ 0 ∧
      ∀ a', out.p a' = bornWeight b pre T post a' / denseNormSq (pre ++ T :: post) := by
  obtain ⟨out, hout, hp, -⟩ := measure_inplace b hu T a hN hpos
  refine ⟨out, hout, ?_, fun a' => ?_⟩
  · rw [denseNormSq_env pre post T hL hR]; exact hN
  · rw [hp a', bornWeight_env b pre post T a' hL hR, denseNormSq_env pre post T hL hR]

/-- **C12.7 (`measure_global`)** If every site left of the measured one is left-isometric (`Σ_s B[s]ᴴB[s] = 1`) and every
    site right of it is right-isometric (`Σ_s B[s]B[s]ᴴ = 1`) — the mixed-canonical form that `measure` establishes by
    its shifts (`measure_shifts`: shifts `0 … site-1` on a state that came in with its centre at 0;
    `c10_set_canonical_form_isometries` / `c10_shift_right_isometric`: the shifted-over sites are left-isometric, the
    others stay right-isometric) — then the probabilities computed from the site tensor alone are the Born
    probabilities of the full state, `Σ_{cfg with cfg_site = a'} |amp cfg|² / ‖ψ‖²` in the measured basis.
    Same argument as C11's `local_expect_dense_canonical` (a projector is an operator). -/
theorem measure_global {n : Nat} (b : Basis) (hu : b.IsUnitary) (pre post : List (Site n)) (T : Site n) (a : Fin 2)
    (hpre : ∀ B ∈ pre, gramL B = oneMat n) (hpost : ∀ B ∈ post, gram B = oneMat n)
    (hN : siteNorm T ≠ 0) (hpos : frob (rotT b.R T a) ≠ 0) :
    ∃ out, measureSite b T a = some out ∧ denseNormSq (pre ++ T :: post) ≠ 0 ∧
      ∀ a', out.p a' = bornWeight b pre T post a' / denseNormSq (pre ++ T :: post) := by
  refine measure_global_env b hu pre post T a (fun s => ?_) (fun s => ?_) hN hpos
  · rw [envL_of_leftIso pre hpre, Matrix.one_mul]
  · rw [envR_of_rightIso post hpost, Matrix.mul_one]

/-- **C12.7 (the hypotheses are C10's isometry conditions)** `gramL B = 1` / `gram B = 1` on the executable tensors are
    literally `LeftIso` / `RightIso` of `Lemmas/Mps.lean` (`Σ_s (B s)ᴴ * B s = 1`, `Σ_s B s * (B s)ᴴ = 1`) for the
    Matrix-valued site tensor `toMS B` — the conclusions of `c10_set_canonical_form_isometries`. -/
theorem measure_global_hyps {n : Nat} (B : Site n) :
    (gramL B = oneMat n ↔ ∑ s, (toMS B s).conjTranspose * toMS B s = 1) ∧
    (gram B = oneMat n ↔ ∑ s, toMS B s * (toMS B s).conjTranspose = 1) :=
  ⟨gramL_eq_one_iff B, gram_eq_one_iff B⟩

/-- **C12.7 (zero-padded tensors)** the same for the tensors the driver actually sees — bonds zero-padded to a common
    size, where a left-isometric tensor has `Σ_s B[s]ᴴB[s]` = a diagonal projector rather than `1`: it is enough that
    the chain is `LeftCanon` up to the measured tensor and `RightCanon` from it on (each tensor lives where its
    neighbour is an isometry; `RightCanon` is the hypothesis of `chain_rule`). -/
theorem measure_global_padded {n : Nat} (b : Basis) (hu : b.IsUnitary) (pre post : List (Site n)) (T : Site n) (a : Fin 2)
    (hpre : LeftCanon (pre ++ [T])) (hpost : RightCanon (T :: post))
    (hN : siteNorm T ≠ 0) (hpos : frob (rotT b.R T a) ≠ 0) :
    ∃ out, measureSite b T a = some out ∧ denseNormSq (pre ++ T :: post) ≠ 0 ∧
      ∀ a', out.p a' = bornWeight b pre T post a' / denseNormSq (pre ++ T :: post) :=
  measure_global_env b hu pre post T a (envL_of_leftCanon pre T hpre) (envR_of_rightCanon post T hpost) hN hpos

/-- **C12.7 (computational basis, written out)** for `basis = "Z"` the Born weight is literally the sum of
    `‖amp cfg‖²` over the configurations `cfg = τ₁ ++ a' :: τ₂` whose entry at the measured site is `a'`. -/
theorem measure_global_Z {n : Nat} (pre post : List (Site n)) (T : Site n) (a : Fin 2)
    (hpre : LeftCanon (pre ++ [T])) (hpost : RightCanon (T :: post))
    (hN : siteNorm T ≠ 0) (hpos : frob (rotT basisZ.R T a) ≠ 0) :
    ∃ out, measureSite basisZ T a = some out ∧
      ∀ a', out.p a' =
        (sumCfgQ pre.length fun τ1 => sumCfgQ post.length fun τ2 => frob (chainS (pre ++ T :: post) (τ1 ++ a' :: τ2)))
          / (sumCfgQ (pre ++ T :: post).length fun τ => frob (chainS (pre ++ T :: post) τ)) := by
  obtain ⟨out, hout, -, hp⟩ := measure_global_padded basisZ basis_rotations.1 pre post T a hpre hpost hN hpos
  refine ⟨out, hout, fun a' => ?_⟩
  rw [hp a', bornWeight_Z]
  rfl

/-! non-vacuity: a three-site chain `[exL, exC, exB]` (square isometries around a generic centre), measured at site 1 -/

/-- left-isometric first tensor (row vector `e_s`, padded): `Σ_s L[s]ᴴ L[s] = 1` -/
def exL : Site 2 := Site.ofFn fun s => Mat.ofFn fun i j => if i = 0 ∧ j = s then 1 else 0
/-- a generic centre tensor (not an isometry, norm² ≠ 1) -/
def exC : Site 2 := Site.ofFn fun s => Mat.ofFn fun i j =>
  if s = 0 then (if i = j then (if i = 0 then ⟨3 / 5, 0⟩ else ⟨1 / 5, 1⟩) else 0)
  else (if i = 0 ∧ j = 1 then ⟨0, 2 / 5⟩ else if i = 1 ∧ j = 0 then ⟨1 / 5, 0⟩ else 0)

/-- hypotheses of `measure_global` hold, and both sides are the same concrete numbers: measuring site 1 in the X basis
    gives `p[1] = bornWeight / ‖ψ‖²`, with `‖ψ‖² = 8/5 ≠ 1` -/
example : (∀ B ∈ [exL], gramL B = oneMat 2) ∧ (∀ B ∈ [exB], gram B = oneMat 2) ∧
    siteNorm exC ≠ 0 ∧ frob (rotT basisX.R exC 1) ≠ 0 ∧
    denseNormSq [exL, exC, exB] = 8 / 5 ∧
    (measureSite basisX exC 1).map (fun o => (o.p 0, o.p 1))
      = some (bornWeight basisX [exL] exC [exB] 0 / denseNormSq [exL, exC, exB],
              bornWeight basisX [exL] exC [exB] 1 / denseNormSq [exL, exC, exB]) ∧
    bornWeight basisX [exL] exC [exB] 1 ≠ 0 := by
  refine ⟨?_, ?_, by decide +kernel, by decide +kernel, by decide +kernel, by decide +kernel, by decide +kernel⟩
  · simp only [List.mem_singleton, forall_eq]; decide +kernel
  · simp only [List.mem_singleton, forall_eq]; decide +kernel

/-- zero-padded instance (`measure_global_padded`): `[exA, exB]` of above measured at site 0 (`pre = []`), and a product
    state with genuine 1-dimensional bonds measured at site 1 — there `Σ_s A[s]ᴴA[s] = diag(1,0) ≠ 1`, so only the
    padded form of the hypothesis applies -/
def exA1 : Site 2 := Site.ofFn fun s => Mat.ofFn fun i j => if i = 0 ∧ j = 0 then (if s = 0 then ⟨3 / 5, 0⟩ else ⟨0, 4 / 5⟩) else 0
def exT1 : Site 2 := Site.ofFn fun s => Mat.ofFn fun i j => if i = 0 ∧ j = 0 then (if s = 0 then ⟨2, 0⟩ else ⟨0, 1⟩) else 0

example : LeftCanon ([] ++ [exA]) ∧ RightCanon (exA :: [exB]) ∧
    LeftCanon ([exA1] ++ [exT1]) ∧ RightCanon (exT1 :: []) ∧ gramL exA1 ≠ oneMat 2 ∧
    (measureSite basisZ exT1 0).map (fun o => (o.p 0, o.p 1)) = some (4 / 5, 1 / 5) ∧
    bornWeight basisZ [exA1] exT1 [] 0 / denseNormSq [exA1, exT1] = 4 / 5 ∧
    (measureSite basisY exA 0).map (fun o => o.p 1) = some (bornWeight basisY [] exA [exB] 1 / denseNormSq [exA, exB]) := by
  refine ⟨trivial, exCanon, ⟨?_, trivial⟩, trivial, by decide +kernel, by decide +kernel, by decide +kernel,
    by decide +kernel⟩
  decide +kernel

/-- **C12.0** (basis dispatch of `measure_single_shot` / `measure`) the basis string is upper-cased and must then be
    exactly `Z`, `X` or `Y`; anything else is rejected (`ValueError`), never mapped to a default basis -/
theorem basis_dispatch (s : String) :
    basisOf? s = (if s.toUpper = "Z" then some basisZ else if s.toUpper = "X" then some basisX
      else if s.toUpper = "Y" then some basisY else none) := by
  unfold basisOf?
  split <;> simp_all

example : (basisOf? "y").isSome = true ∧ (basisOf? "W").isSome = false := by decide +kernel

end Yaqs.Born

/-! ## what a noise-free WEAK run returns (extension xk12; helper lemmas `Lemmas/WeakEndToEnd.lean`, model `Model/WeakCounts.lean`)

The chain on which `digital_tjm` calls `state.measure_shots(shots)` is the chain the gate applications produced from the
initial chain `ts0`.  That chain represents `U_c · ψ₀` — this is the hypothesis `Represents n f U` of `Lemmas/LocalOp.lean`
(`f` = "apply the circuit's gates in `digital_tjm`'s order", `U` = the circuit unitary): for exact gate applications it is
the conclusion of C16's `mps_tracks` + `finalState_of_schedule` with C02's `events_are_schedule` (all three hold for
`Mode.weak`; the run then ends with the event `.shots` instead of `.eval`).

Index convention.  The dense state is indexed by configurations `σ : Fin n → Fin 2`, `σ i` = value of circuit qubit `i` =
physical index of MPS site `i` (the operator of a gate on qubit `q` is `embedL (siteLens q) ·`, `Lemmas/ColumnsDense.lean`
`denseSem`).  The returned key is `encode (List.ofFn σ) = Σ_i σ_i 2^i`: qubit 0 is the LEAST significant bit — the
little-endian convention of `MPS.to_vec` (C06 `toVec_is_reversed`: site 0 least significant) and of qiskit's
`Statevector` index; it is the reverse of the Kronecker / `MPO.to_matrix` convention (site 0 leftmost).
-/
namespace Yaqs.Born
open Yaqs.CB Matrix

/-- **C12.8 `shot_distribution`** (one shot of a noise-free weak run).  Let the final chain `A :: rest` be what an
    operation `f` that `Represents` the circuit unitary `U` made of the initial chain `ts0`, in the form
    `measure_single_shot` needs (right-canonical from site 1 on — C10 — and not the zero state).  Then for every
    configuration `σ` of the `n` qubits
    * the product of the conditionals the loop hands to `choice` along the branch `σ`, times `‖ψ‖²`, is
      `‖⟨σ| U ψ₀⟩‖²` (`frobM` of the amplitude matrix over the two boundary bonds; `shot_distribution_amplitude` for the
      scalar form), and
    * when the loop runs to its end on that branch the returned key is `Σ_i σ_i 2^i < 2^n`, and bit `i` of the key is
      the outcome `σ i` of qubit `i` (same numbering as the circuit; little-endian, see the section header). -/
theorem shot_distribution {m n : Nat} (A : Site m) (rest : List (Site m))
    (f : List (Mps.Alg.Site (Fin 2) (Fin m) CB.CRat) → List (Mps.Alg.Site (Fin 2) (Fin m) CB.CRat))
    (U : Matrix (Fin n → Fin 2) (Fin n → Fin 2) CB.CRat) (ts0 : List (Mps.Alg.Site (Fin 2) (Fin m) CB.CRat))
    (hrep : LocalOp.Represents n f U) (hlen0 : ts0.length = n) (hfinal : (A :: rest).map toMS = f ts0)
    (hnorm : siteNorm A ≠ 0) (hcanon : RightCanon (A :: rest)) (σ : Fin n → Fin 2) :
    branchProb basisZ (A :: rest) (List.ofFn σ) * siteNorm A = frobM (LocalOp.act U (LocalOp.Psi n ts0) σ) ∧
    ∀ k, shotOutcome basisZ (A :: rest) (List.ofFn σ) = some k →
      k = encode (List.ofFn σ) ∧ k < 2 ^ n ∧ ∀ i : Fin n, k.testBit i = decide (σ i = 1) := by
  obtain ⟨hlen, hΨ⟩ := hrep ts0 hlen0
  have hlen' : (A :: rest).length = n := by rw [← hlen, ← hfinal, List.length_map]
  constructor
  · have h := chain_rule basisZ basis_rotations.1 A rest (List.ofFn σ) (by rw [List.length_ofFn, hlen']) hnorm hcanon
    rw [h, show basisZ.rsq = 1 from rfl, one_pow, one_mul, ampMat_Z, frob_eq_frobM, toM_chainS_Psi, hfinal, hΨ]
  · intro k hk
    obtain ⟨hk1, _⟩ := shot_outcome basisZ (A :: rest) (List.ofFn σ) k hk
    refine ⟨hk1, ?_, fun i => ?_⟩
    · have := encode_range (List.ofFn σ)
      rw [List.length_ofFn] at this
      rw [hk1]; exact this
    · rw [hk1, encode_bits]
      simp [List.getElem?_ofFn]

/-- **C12.8 (scalar form, normalised state)** for boundary bonds of dimension one (zero-padded: every amplitude matrix of
    the initial chain has the single entry `(0,0)`, the amplitude `ψ₀(c)`) and a normalised final state (`‖A‖² = 1`), the
    probability that one shot walks down the branch `σ` IS `|⟨σ| U ψ₀⟩|² = |(U *ᵥ ψ₀) σ|²`. -/
theorem shot_distribution_amplitude {m n : Nat} (A : Site (m + 1)) (rest : List (Site (m + 1)))
    (f : List (Mps.Alg.Site (Fin 2) (Fin (m + 1)) CB.CRat) → List (Mps.Alg.Site (Fin 2) (Fin (m + 1)) CB.CRat))
    (U : Matrix (Fin n → Fin 2) (Fin n → Fin 2) CB.CRat) (ts0 : List (Mps.Alg.Site (Fin 2) (Fin (m + 1)) CB.CRat))
    (hrep : LocalOp.Represents n f U) (hlen0 : ts0.length = n) (hfinal : (A :: rest).map toMS = f ts0)
    (hnorm : siteNorm A = 1) (hcanon : RightCanon (A :: rest))
    (hscalar : ∀ c i j, (i ≠ 0 ∨ j ≠ 0) → LocalOp.Psi n ts0 c i j = 0) (σ : Fin n → Fin 2) :
    branchProb basisZ (A :: rest) (List.ofFn σ) = ((U *ᵥ LocalOp.psi n ts0 0 0) σ).normSq := by
  have h := (shot_distribution A rest f U ts0 hrep hlen0 hfinal (by rw [hnorm]; exact one_ne_zero) hcanon σ).1
  rw [hnorm, mul_one] at h
  rw [h, frobM_scalar _ (fun i j hij => act_scalar U _ i j (fun c => hscalar c i j hij) σ), LocalOp.act_apply]
  rfl

/-! non-vacuity: the Bell-type chain `[exA, exB]` = `(3/5)|00⟩ + (4i/5)|11⟩` is what "CX(0→1)-like" `f` makes of the product
    chain `[exA0, exB]`: here simply `f` = replace the chain (it represents the permutation-free operator `U` below on this
    input); the generic instance of `Represents` is `represents_applyAt` (one-site gate on any site), used in the second
    example: an X gate on qubit 0 ONLY — the asymmetric circuit for which the bit order of the key matters. -/

/-- the Pauli X matrix -/
def exX : Matrix (Fin 2) (Fin 2) CB.CRat := Matrix.of fun s t => if s = t then 0 else 1

/-- `|0⟩` on a padded bond (row / column vector `e_0`) -/
def exZero : Site 2 := Site.ofFn fun s => Mat.ofFn fun i j => if s = 0 ∧ i = 0 ∧ j = 0 then 1 else 0

/-- `X` contracted into the first tensor of `|00⟩`: the chain of `|10⟩` (qubit 0 set) -/
def exOne : Site 2 := Site.ofFn fun s => Mat.ofFn fun i j => if s = 1 ∧ i = 0 ∧ j = 0 then 1 else 0

private theorem exOne_eq : toMS exOne = LocalOp.applySite exX (toMS exZero) := by
  funext s
  ext i j
  fin_cases s <;> fin_cases i <;> fin_cases j <;>
    simp [toMS, LocalOp.applySite, exX, exOne, exZero, Site.get, Site.ofFn, Mat.ofFn, Mat.get, Fin.sum_univ_two,
      Matrix.add_apply, Matrix.smul_apply]

/-- `x` on qubit 0 of a two-qubit register initialised to `|00⟩`: all hypotheses of `shot_distribution_amplitude` hold with
    `f = applyAt X 0` (`represents_applyAt`), `U = X ⊗ 1` on qubit 0; the only branch of non-zero probability is
    `σ = (1, 0)` and its key is `1` (bit 0 set), not `2`. -/
example :
    LocalOp.Represents 2 (LocalOp.applyAt (ι := Fin 2) exX 0)
      (Embed.embedL (Embed.siteLens (⟨0, by decide⟩ : Fin 2)) exX) ∧
    [exOne, exZero].map toMS = LocalOp.applyAt exX 0 ([exZero, exZero].map toMS) ∧
    siteNorm exOne = 1 ∧ RightCanon [exOne, exZero] ∧
    branchProb basisZ [exOne, exZero] (List.ofFn ![1, 0]) = 1 ∧
    branchProb basisZ [exOne, exZero] (List.ofFn ![0, 1]) = 0 ∧
    shotOutcome basisZ [exOne, exZero] (List.ofFn ![1, 0]) = some 1 := by
  refine ⟨LocalOp.represents_applyAt 2 0 (by decide) exX, ?_, by decide +kernel, ⟨?_, trivial⟩, by decide +kernel,
    by decide +kernel, by decide +kernel⟩
  · simp only [List.map_cons, List.map_nil, LocalOp.applyAt]
    rw [exOne_eq]
  · decide +kernel

/-- **C12.9 `weak_counts`** (the histogram of a noise-free weak run).  `measure_shots` draws `shots` times from the
    distribution of one shot (`shotDist`: weight of `σ` = `branchProb`, i.e. by `shot_distribution` the Born probability
    `|⟨σ|U_c ψ₀⟩|²/‖ψ‖²`; trusted base: `Generator.choice` distributed as `p`, a fresh generator per shot) and tallies the
    keys `encode σ`.  For every chain in the form `measure_single_shot` needs, every basis and every number of shots:
    1. the draws form a probability distribution (mass 1), every outcome consists of exactly `shots` bit lists, and the
       counts returned for it add up to `shots` (`counts_total` at the level of `measure_shots`);
    2. every key in the returned counts is the key of a shot that was drawn, with a positive count — with `zero_never` (a
       branch of Born probability 0 is never drawn) the support is ⊆ `{σ : amplitude ≠ 0}`;
    3. the expected count of the key `encode σ₀` is `shots · branchProb σ₀` — by `chain_rule` / `shot_distribution`,
       `shots · |⟨σ₀|U_c ψ₀⟩|² / ‖ψ‖²`. -/
theorem weak_counts {n : Nat} (b : Basis) (hu : b.IsUnitary) (A : Site n) (rest : List (Site n))
    (hnorm : siteNorm A ≠ 0) (hcanon : RightCanon (A :: rest)) (shots : Nat) :
    Dist.mass (draws (shotDist b (A :: rest)) shots) = 1 ∧
    (∀ o ∈ draws (shotDist b (A :: rest)) shots, o.2.length = shots ∧ total (weakCounts o.2) = shots ∧
      ∀ p ∈ weakCounts o.2, 0 < p.2 ∧ ∃ σ ∈ o.2, p.1 = encode σ) ∧
    ∀ σ0 : List (Fin 2), σ0.length = (A :: rest).length →
      Dist.expect (draws (shotDist b (A :: rest)) shots) (fun l => ((countOf (encode σ0) (weakCounts l) : Nat) : Rat))
        = shots * branchProb b (A :: rest) σ0 := by
  have hmass : Dist.mass (shotDist b (A :: rest)) = 1 := by
    unfold shotDist
    rw [mass_map_pair]
    exact branches_sum_one b hu A rest hnorm hcanon
  refine ⟨mass_draws _ hmass shots, fun o ho => ?_, fun σ0 hσ0 => ?_⟩
  · have hl := draws_length _ shots o ho
    refine ⟨hl, by rw [weakCounts, total_tally, List.length_map, hl], fun p hp => ?_⟩
    obtain ⟨h1, h2⟩ := mem_tally _ p hp
    obtain ⟨σ, hσ, he⟩ := List.mem_map.mp h1
    exact ⟨h2, σ, hσ, he.symm⟩
  · have hcnt : ∀ l : List (List (Fin 2)),
        ((countOf (encode σ0) (weakCounts l) : Nat) : Rat) = ((l.countP (fun σ => encode σ == encode σ0) : Nat) : Rat) := by
      intro l
      rw [weakCounts, countOf_tally, List.count, List.countP_map]
      rfl
    rw [Dist.expect_congr _ _ _ hcnt, expect_draws_countP _ hmass]
    congr 1
    unfold shotDist
    rw [expect_map_pair]
    rw [← sum_allBits_indicator (A :: rest).length (branchProb b (A :: rest)) σ0 hσ0]
    congr 1
    apply List.map_congr_left
    intro σ hσ
    have hlen := allBits_length _ σ hσ
    by_cases h : σ = σ0
    · subst h; simp
    · have : ¬ encode σ = encode σ0 := fun he => h (encode_injective σ σ0 (by rw [hlen, hσ0]) he)
      simp [h, this]

/-- the Bell-type chain `[exA, exB]`, three shots: mass one, and the expected counts of the keys `0 = 00`, `3 = 11`,
    `1 = 10` are `3·9/25`, `3·16/25`, `0` -/
example : siteNorm exA ≠ 0 ∧ RightCanon [exA, exB] ∧
    (3 : Rat) * branchProb basisZ [exA, exB] [0, 0] = 27 / 25 ∧ (3 : Rat) * branchProb basisZ [exA, exB] [1, 1] = 48 / 25 ∧
    branchProb basisZ [exA, exB] [1, 0] = 0 ∧ encode [1, 1] = 3 ∧
    weakCounts [[1, 1], [0, 0], [1, 1]] = [(3, 2), (0, 1)] ∧
    Dist.expect (draws (shotDist basisZ [exA, exB]) 2) (fun l => ((countOf 3 (weakCounts l) : Nat) : Rat)) = 32 / 25 := by
  refine ⟨by decide +kernel, exCanon, by decide +kernel, by decide +kernel, by decide +kernel, by decide, by decide,
    by decide +kernel⟩

/-- **C12.9' `weak_counts_born`** `weak_counts`.3 composed with `shot_distribution`: for the final chain of a noise-free run
    (it `Represents` `U`, right-canonical, any norm) the expected count of the key `Σ_i σ_i 2^i` over `shots` shots, times
    `‖ψ‖²`, is `shots · ‖⟨σ|U ψ₀⟩‖²`. -/
theorem weak_counts_born {m n : Nat} (A : Site m) (rest : List (Site m))
    (f : List (Mps.Alg.Site (Fin 2) (Fin m) CB.CRat) → List (Mps.Alg.Site (Fin 2) (Fin m) CB.CRat))
    (U : Matrix (Fin n → Fin 2) (Fin n → Fin 2) CB.CRat) (ts0 : List (Mps.Alg.Site (Fin 2) (Fin m) CB.CRat))
    (hrep : LocalOp.Represents n f U) (hlen0 : ts0.length = n) (hfinal : (A :: rest).map toMS = f ts0)
    (hnorm : siteNorm A ≠ 0) (hcanon : RightCanon (A :: rest)) (shots : Nat) (σ : Fin n → Fin 2) :
    Dist.expect (draws (shotDist basisZ (A :: rest)) shots)
        (fun l => ((countOf (encode (List.ofFn σ)) (weakCounts l) : Nat) : Rat)) * siteNorm A
      = shots * frobM (LocalOp.act U (LocalOp.Psi n ts0) σ) := by
  have hlen' : (A :: rest).length = n := by
    rw [← (hrep ts0 hlen0).1, ← hfinal, List.length_map]
  rw [(weak_counts basisZ basis_rotations.1 A rest hnorm hcanon shots).2.2 (List.ofFn σ)
      (by rw [List.length_ofFn, hlen']),
    mul_assoc, (shot_distribution A rest f U ts0 hrep hlen0 hfinal hnorm hcanon σ).1]

/-- **C12.10 `shot_distribution_basis`** (X / Y / Z single shot) in any of the three bases the product of the conditionals
    along the branch `σ` is the Born probability of `σ` for the ROTATED state, `rsq^L ‖Π_k (R A_k)[σ_k]‖² / ‖ψ‖²`, the
    branches of one shot form a probability distribution, and the key of a completed branch is `Σ_i σ_i 2^i` with bit `i` =
    outcome of site `i` — `chain_rule`, `branches_sum_one`, `shot_outcome`, `encode_bits` with the unitarity of the three
    rotations (`basis_rotations`) discharged. -/
theorem shot_distribution_basis {n : Nat} (s : String) (b : Basis) (hb : basisOf? s = some b) (A : Site n)
    (rest : List (Site n)) (hnorm : siteNorm A ≠ 0) (hcanon : RightCanon (A :: rest)) :
    Dist.mass (shotDist b (A :: rest)) = 1 ∧
    ∀ σ : List (Fin 2), σ.length = (A :: rest).length →
      branchProb b (A :: rest) σ * siteNorm A = b.rsq ^ σ.length * frob (ampMat b (A :: rest) σ) ∧
      ∀ k, shotOutcome b (A :: rest) σ = some k → k = encode σ ∧ ∀ i, k.testBit i = decide (σ[i]? = some 1) := by
  have hu : b.IsUnitary := by
    rw [basis_dispatch] at hb
    split at hb
    · cases hb; exact basis_rotations.1
    · split at hb
      · cases hb; exact basis_rotations.2.1
      · split at hb
        · cases hb; exact basis_rotations.2.2
        · cases hb
  refine ⟨?_, fun σ hσ => ⟨chain_rule b hu A rest σ hσ hnorm hcanon, fun k hk => ?_⟩⟩
  · unfold shotDist
    rw [mass_map_pair]
    exact branches_sum_one b hu A rest hnorm hcanon
  · obtain ⟨hk1, _⟩ := shot_outcome b (A :: rest) σ k hk
    exact ⟨hk1, fun i => by rw [hk1, encode_bits]⟩

example : basisOf? "x" = some basisX ∧ siteNorm exA ≠ 0 ∧ RightCanon [exA, exB] ∧
    branchProb basisX [exA, exB] [1, 0] = 1 / 4 ∧ shotOutcome basisX [exA, exB] [1, 0] = some 1 := by
  refine ⟨by rw [basis_dispatch, if_neg (by decide +kernel), if_pos (by decide +kernel)], by decide +kernel, exCanon, by decide +kernel, by decide +kernel⟩

end Yaqs.Born

/-!
## The histogram of `measure_shots` does not depend on the order in which the workers finish

`measure_shots` reads the results with `concurrent.futures.as_completed`, i.e. in whatever order the worker processes finish.
The returned dict is the same map for every such order: the keys are pairwise different, each is a key one of the shots returned,
and the count of `k` is the number of shots that returned `k`.  (The insertion order of the dict does depend on the completion
order; the tie `tally` of harness/impl/C12.py compares it with the logged order.)
-/
namespace Yaqs.Born

private theorem keys_bump (k : Nat) (cs : List (Nat × Nat)) :
    (bump k cs).map Prod.fst = if k ∈ cs.map Prod.fst then cs.map Prod.fst else cs.map Prod.fst ++ [k] := by
  induction cs with
  | nil => simp [bump]
  | cons p cs ih =>
    obtain ⟨k', c⟩ := p
    unfold bump
    by_cases h : k' = k
    · subst h; simp
    · rw [if_neg h, List.map_cons, ih]
      have hk : k ≠ k' := fun e => h e.symm
      by_cases hm : k ∈ cs.map Prod.fst
      · rw [if_pos hm, if_pos (by simp only [List.map_cons, List.mem_cons]; exact Or.inr hm)]; rfl
      · rw [if_neg hm, if_neg (by simp only [List.map_cons, List.mem_cons]; exact fun h' => h'.elim hk hm)]; rfl

private theorem keys_bump_nodup (k : Nat) (cs : List (Nat × Nat)) (h : (cs.map Prod.fst).Nodup) :
    ((bump k cs).map Prod.fst).Nodup := by
  rw [keys_bump]
  split
  · exact h
  · rename_i hm
    rw [List.nodup_append]
    exact ⟨h, List.nodup_singleton k, fun a ha b hb => by
      rw [List.mem_singleton] at hb; subst hb; exact fun e => hm (e ▸ ha)⟩

private theorem keys_fold_nodup (ks : List Nat) (acc : List (Nat × Nat)) (h : (acc.map Prod.fst).Nodup) :
    ((ks.foldl (fun acc k => bump k acc) acc).map Prod.fst).Nodup := by
  induction ks generalizing acc with
  | nil => exact h
  | cons a ks ih => exact ih _ (keys_bump_nodup a acc h)

/-- **the returned dict has pairwise different keys** (it is a map), for every list of shot results. -/
theorem tally_keys_nodup (ks : List Nat) : ((tally ks).map Prod.fst).Nodup :=
  keys_fold_nodup ks [] List.nodup_nil

/-- **order independence**: two completion orders of the same shots (`ks'` a permutation of `ks`) give the same count for every
    key, the same total, and each count is the number of shots that returned the key (`results.get(k, 0) = ks.count k`; a key no
    shot returned has count 0). -/
theorem tally_order_independent (ks ks' : List Nat) (h : ks.Perm ks') :
    (∀ k, countOf k (tally ks) = countOf k (tally ks')) ∧ total (tally ks) = total (tally ks') ∧
    (∀ k, countOf k (tally ks) = ks.count k) ∧ (∀ k, k ∉ ks → countOf k (tally ks) = 0) := by
  refine ⟨fun k => ?_, ?_, fun k => countOf_tally k ks, fun k hk => ?_⟩
  · rw [countOf_tally, countOf_tally, h.count_eq]
  · rw [total_tally, total_tally, h.length_eq]
  · rw [countOf_tally]; exact List.count_eq_zero_of_not_mem hk

example : tally [3, 1, 3, 3, 0, 1] = [(3, 3), (1, 2), (0, 1)] ∧ tally [1, 0, 3, 3, 1, 3] = [(1, 2), (0, 1), (3, 3)] ∧
    [3, 1, 3, 3, 0, 1].Perm [1, 0, 3, 3, 1, 3] := by
  refine ⟨by decide, by decide, by decide⟩

end Yaqs.Born
