import YaqsModel.Lemmas.Born
import YaqsModel.Lemmas.BornGlobal

/-!
# C12 — sampling follows the Born rule; the outcome is keyed by qubit

Property theorems only (helper lemmas: `Lemmas/Born.lean`; executable model: `Model/Born.lean`).

Reading guide.  `measureSingleShot b sites σ` is the list of `p=` vectors the loop of `MPS.measure_single_shot`
hands to `rng.choice` when the generator returns the outcomes `σ`; `branchProb` is the product of the entries of
the forced outcomes, i.e. the probability with which a generator distributed as `p` (trusted base:
`Generator.choice`) walks down the branch `σ`.  `ampMat b sites σ` is the amplitude `Π_k (R·A_k)[σ_k]` of the bit
string `σ` in the measurement basis, up to the factor `(√rsq)^L` of the `1/√2` in the X and Y rotations, so
`rsq^L · ‖ampMat‖²` is the Born probability `|⟨σ| (√rsq R)^{⊗L} |ψ⟩|²`.

All theorems hold for every chain length, every (padded) bond dimension `n` and every tensor over ℚ(i) — in
particular for every tensor made of binary64 numbers.  `counts_total` (weak-mode counts add up to `shots`) belongs to
the run-policy model of C20 and is tied there; here the real `simulator.run` is checked directly by the oracle.
-/
namespace Yaqs.Born
open Yaqs.CB

/-! ## concrete instance used by the `example`s: `(3/5)|00⟩ + (4i/5)|11⟩`, bond dimension 2, right-canonical -/

/-- first tensor (row vector padded to 2×2) -/
def exA : Site 2 := Site.ofFn fun s => Mat.ofFn fun i j =>
  if i = 0 ∧ j = 0 ∧ s = 0 then ⟨3 / 5, 0⟩ else if i = 0 ∧ j = 1 ∧ s = 1 then ⟨0, 4 / 5⟩ else 0
/-- second tensor (column vector padded to 2×2), a right isometry -/
def exB : Site 2 := Site.ofFn fun s => Mat.ofFn fun i j =>
  if j = 0 ∧ ((i = 0 ∧ s = 0) ∨ (i = 1 ∧ s = 1)) then 1 else 0

private theorem exCanon : RightCanon [exA, exB] := by
  refine ⟨?_, trivial⟩
  decide +kernel

/-! ## the three bases -/

/-- **C12 (bases)** The Z, X and Y rotations of the code are `√rsq · R` with `R` over ℤ[i] and
    `rsq · RᴴR = rsq · R Rᴴ = 1` (`rsq = 1` for Z, `1/2` for X and Y). -/
theorem basis_rotations : basisZ.IsUnitary ∧ basisX.IsUnitary ∧ basisY.IsUnitary := by
  refine ⟨⟨?_, ?_, ?_⟩, ⟨?_, ?_, ?_⟩, ⟨?_, ?_, ?_⟩⟩ <;> decide +kernel

/-- **C12 (bases)** the operators `Π_a = Uᴴ|a⟩⟨a|U` applied by a measurement resolve the identity -/
theorem projector_complete (b : Basis) (hu : b.IsUnitary) (s t : Fin 2) :
    projector b 0 s t + projector b 1 s t = if s = t then 1 else 0 := by
  rw [← hu.col s t]
  apply CRat.ext <;>
    simp only [projector, smulQ_re, smulQ_im, CRat.add_re, CRat.add_im, CRat.mul_re, CRat.mul_im, CRat.conj_re,
      CRat.conj_im] <;> ring

/-- **C12 (bases)** … and are idempotent: `Π_a Π_a = Π_a` -/
theorem projector_idem (b : Basis) (hu : b.IsUnitary) (a s u : Fin 2) :
    projector b a s 0 * projector b a 0 u + projector b a s 1 * projector b a 1 u = projector b a s u := by
  have h := row_norm b hu a
  simp only [CRat.normSq] at h
  apply CRat.ext
  · simp only [projector, smulQ_re, smulQ_im, CRat.add_re, CRat.mul_re, CRat.mul_im, CRat.conj_re, CRat.conj_im]
    linear_combination (b.rsq * ((b.R a s).re * (b.R a u).re + (b.R a s).im * (b.R a u).im)) * h
  · simp only [projector, smulQ_re, smulQ_im, CRat.add_im, CRat.mul_re, CRat.mul_im, CRat.conj_re, CRat.conj_im]
    linear_combination (b.rsq * ((b.R a s).re * (b.R a u).im - (b.R a s).im * (b.R a u).re)) * h


/-! ## the chain rule -/

/-- **C12.1 (chain rule, Born rule for every branch)**  For a chain that is right-canonical from site 1 on (the form
    the simulator maintains: orthogonality centre at site 0) and every unitary basis rotation, the product of the
    conditional probabilities `measure_single_shot` hands to `rng.choice` along the branch `σ` is the Born
    probability of `σ` for the normalised state: `Π_k p_k[σ_k] · ‖ψ‖² = rsq^L · ‖Π_k (R A_k)[σ_k]‖²`.
    Every length, every bond dimension, every tensor over ℚ(i); a branch through an outcome of probability 0
    (where the code stops) is covered: both sides are 0. -/
theorem chain_rule {n : Nat} (b : Basis) (hu : b.IsUnitary) (A : Site n) (rest : List (Site n))
    (σ : List (Fin 2)) (hlen : σ.length = (A :: rest).length) (hnorm : siteNorm A ≠ 0)
    (hcanon : RightCanon (A :: rest)) :
    branchProb b (A :: rest) σ * siteNorm A = b.rsq ^ σ.length * frob (ampMat b (A :: rest) σ) := by
  have h := shot_telescope b hu rest σ ⟨1, A⟩ (by simpa using hlen) one_ne_zero hnorm
    (by
      intro B hB s
      cases rest with
      | nil => simp at hB
      | cons B' rest' => simp at hB; subst hB; exact hcanon.1 s)
    (by
      cases rest with
      | nil => trivial
      | cons B' rest' => exact hcanon.2)
  simpa [branchProb, measureSingleShot, prodTrace] using h

/-- **C12.1 (normalised state)** with `‖ψ‖ = 1` (centre tensor of norm 1) the product of conditionals *is* the Born
    probability. -/
theorem chain_rule_normalised {n : Nat} (b : Basis) (hu : b.IsUnitary) (A : Site n) (rest : List (Site n))
    (σ : List (Fin 2)) (hlen : σ.length = (A :: rest).length) (hnorm : siteNorm A = 1)
    (hcanon : RightCanon (A :: rest)) :
    branchProb b (A :: rest) σ = b.rsq ^ σ.length * frob (ampMat b (A :: rest) σ) := by
  have h := chain_rule b hu A rest σ hlen (by rw [hnorm]; exact one_ne_zero) hcanon
  rwa [hnorm, mul_one] at h

/-- **C12.1 (scalar amplitude)** for an MPS with boundary bonds of dimension 1 the amplitude matrix has the single
    entry `(0,0)`, and the branch probability is `rsq^L · |amp σ|²`. -/
theorem chain_rule_amplitude {n : Nat} (b : Basis) (hu : b.IsUnitary) (A : Site (n + 1)) (rest : List (Site (n + 1)))
    (σ : List (Fin 2)) (hlen : σ.length = (A :: rest).length) (hnorm : siteNorm A = 1)
    (hcanon : RightCanon (A :: rest))
    (hscalar : ∀ i j, (i ≠ 0 ∨ j ≠ 0) → (ampMat b (A :: rest) σ).get i j = 0) :
    branchProb b (A :: rest) σ = b.rsq ^ σ.length * ((ampMat b (A :: rest) σ).get 0 0).normSq := by
  rw [chain_rule_normalised b hu A rest σ hlen hnorm hcanon]
  congr 1
  simp only [frob, sumFin_eq]
  rw [Finset.sum_eq_single 0, Finset.sum_eq_single 0]
  · intro j _ hj; rw [hscalar 0 j (Or.inr hj)]; simp [CRat.normSq]
  · simp
  · intro i _ hi
    apply Finset.sum_eq_zero
    intro j _; rw [hscalar i j (Or.inl hi)]; simp [CRat.normSq]
  · simp

/-- the example chain meets every hypothesis, in all three bases; e.g. the branch `11` in the Y basis has
    probability `1/100` (amplitude `(3/5 − 4i/5·i·i)/2`), and `00` in the Z basis has `9/25` -/
example : siteNorm exA = 1 ∧ RightCanon [exA, exB] ∧
    branchProb basisZ [exA, exB] [0, 0] = 9 / 25 ∧ branchProb basisZ [exA, exB] [0, 1] = 0 ∧
    branchProb basisX [exA, exB] [1, 0] = 1 / 4 ∧
    branchProb basisY [exA, exB] [1, 1] = (1 / 2) ^ 2 * ((ampMat basisY [exA, exB] [1, 1]).get 0 0).normSq ∧
    (∀ i j, (i ≠ 0 ∨ j ≠ 0) → (ampMat basisY [exA, exB] [1, 1]).get i j = 0) := by
  refine ⟨by decide +kernel, exCanon, by decide +kernel, by decide +kernel, by decide +kernel, by decide +kernel,
    by decide +kernel⟩

/-- **C12.2** The probabilities of all `2^L` branches add up to one: the loop defines a probability distribution on
    bit strings (together with `chain_rule`: the Born distribution). -/
theorem branches_sum_one {n : Nat} (b : Basis) (hu : b.IsUnitary) (A : Site n) (rest : List (Site n))
    (hnorm : siteNorm A ≠ 0) (hcanon : RightCanon (A :: rest)) :
    ((allBits (A :: rest).length).map (branchProb b (A :: rest))).sum = 1 := by
  have h := sum_branches b hu rest ⟨1, A⟩ one_ne_zero hnorm
    (by
      intro B hB s
      cases rest with
      | nil => simp at hB
      | cons B' rest' => simp at hB; subst hB; exact hcanon.1 s)
    (by
      cases rest with
      | nil => trivial
      | cons B' rest' => exact hcanon.2)
  have hfun : branchProb b (A :: rest) = prodTrace b ⟨1, A⟩ rest := by funext σ; rfl
  rw [hfun]; exact h

example : ((allBits 2).map (branchProb basisX [exA, exB])).sum = 1 ∧
    (allBits 2).map (branchProb basisX [exA, exB]) = [1 / 4, 1 / 4, 1 / 4, 1 / 4] ∧
    (allBits 2).map (branchProb basisZ [exA, exB]) = [9 / 25, 0, 0, 16 / 25] := by
  refine ⟨by decide +kernel, by decide +kernel, by decide +kernel⟩

/-- **C12.3 (never an impossible outcome)** A bit string of Born probability 0 can only be produced through a step
    in which the generator picked an index whose entry in `p` was 0 — which `Generator.choice` never does
    (trusted base, spec-tied).  So a sampled key always has positive probability. -/
theorem zero_never {n : Nat} (b : Basis) (hu : b.IsUnitary) (A : Site n) (rest : List (Site n))
    (σ : List (Fin 2)) (hlen : σ.length = (A :: rest).length) (hnorm : siteNorm A ≠ 0)
    (hcanon : RightCanon (A :: rest)) (hzero : frob (ampMat b (A :: rest) σ) = 0) :
    (0 : Rat) ∈ List.zipWith (fun p a => p a) (measureSingleShot b (A :: rest) σ) σ := by
  have h := chain_rule b hu A rest σ hlen hnorm hcanon
  rw [hzero, mul_zero] at h
  rcases mul_eq_zero.mp h with h | h
  · exact List.prod_eq_zero_iff.mp h
  · exact absurd h hnorm

example : frob (ampMat basisZ [exA, exB] [0, 1]) = 0 ∧
    List.zipWith (fun p a => p a) (measureSingleShot basisZ [exA, exB] [0, 1]) [0, 1] = [9 / 25, 0] := by
  refine ⟨by decide +kernel, by decide +kernel⟩

/-- **C12.4 (renormalised carry)** after an outcome of non-zero probability the tensor the loop propagates is
    normalised: the unnormalised `probabilities` of the next site already add up to 1, whatever the norm of the input
    state. -/
theorem carry_renormalised {n : Nat} (b : Basis) (hu : b.IsUnitary) (c : Carry n) (a : Fin 2) (B : Site n)
    (hs : c.scaleSq ≠ 0) (hsupp : ∀ s, mmul (c.cur.get s) (gram B) = c.cur.get s) (hz : probsRaw b c a ≠ 0) :
    probTotal b (step b c a B) = 1 := by
  have hr : b.rsq ≠ 0 := ne_of_gt hu.pos
  rw [probTotal_eq b hu]
  have hcur' : (step b c a B).cur = Site.ofFn fun s => mmul (rotT b.R c.cur a) (B.get s) := rfl
  have hY : mmul (rotT b.R c.cur a) (gram B) = rotT b.R c.cur a := rotT_supported _ _ _ hsupp a
  rw [hcur', siteNorm_step _ B hY]
  have hf : frob (rotT b.R c.cur a) ≠ 0 := by
    intro h; apply hz; unfold probsRaw; rw [h]; simp
  unfold step probsRaw
  simp only
  field_simp

example : probTotal basisY (step basisY ⟨1, exA⟩ 1 exB) = 1 ∧ probsRaw basisY ⟨1, exA⟩ 1 = 1 / 2 := by
  refine ⟨by decide +kernel, by decide +kernel⟩

/-! ## the returned key -/

/-- **C12.5 (key bit i = outcome of qubit i)** `sum(c << i for i, c in enumerate(bits))` has bit `i` equal to the
    outcome of site `i`, for every length; bits beyond the chain are 0. -/
theorem encode_bits (cs : List (Fin 2)) (i : Nat) : (encode cs).testBit i = decide (cs[i]? = some 1) :=
  testBit_encode cs i

/-- **C12.5** the key is below `2^L` -/
theorem encode_range (cs : List (Fin 2)) : encode cs < 2 ^ cs.length := encode_lt cs

example : encode [1, 0, 1, 1] = 13 ∧ (encode [1, 0, 1, 1]).testBit 0 = true ∧ (encode [1, 0, 1, 1]).testBit 1 = false := by
  decide

/-- **C12.5** on a branch that runs to the end the return value is the encoding of the forced outcomes -/
theorem shot_outcome {n : Nat} (b : Basis) (sites : List (Site n)) (σ : List (Fin 2)) (k : Nat)
    (h : shotOutcome b sites σ = some k) : k = encode σ ∧ σ.length = sites.length := by
  unfold shotOutcome at h
  split at h
  · next hc => exact ⟨(Option.some.inj h).symm, hc.2⟩
  · cases h

/-- first tensor of the product state `|00⟩` (outcome 1 at site 0 has probability 0) -/
def exP : Site 2 := Site.ofFn fun s => Mat.ofFn fun i j => if s = 0 ∧ i = 0 ∧ j = 0 then 1 else 0

example : shotOutcome basisZ [exA, exB] [1, 1] = some 3 ∧ shotOutcome basisZ [exA, exB] [0, 1] = some 2 ∧
    (shotOutcome basisZ [exP, exB] [1, 0]).isSome = false ∧ shotOutcome basisZ [exP, exB] [0, 0] = some 0 := by
  refine ⟨by decide +kernel, by decide +kernel, by decide +kernel, by decide +kernel⟩

/-! ## in-place measurement of one site -/

/-- **C12.6 (`MPS.measure`)** On the centre tensor `T` (norm² `‖T‖² = ‖ψ‖²`) and for an outcome `a` of non-zero
    probability, `measure` hands `choice` the Born probabilities `p[a'] = ‖Π_{a'} ψ‖² / ‖ψ‖²` (they add up to 1),
    and replaces the tensor by `Π_a T / √p[a]` (`projectedSite = Π_a T` entrywise): the projected state, renormalised
    to the norm of the input. -/
theorem measure_inplace {n : Nat} (b : Basis) (hu : b.IsUnitary) (T : Site n) (a : Fin 2)
    (hN : siteNorm T ≠ 0) (hpos : frob (rotT b.R T a) ≠ 0) :
    ∃ out, measureSite b T a = some out ∧
      (∀ a', out.p a' = b.rsq * frob (rotT b.R T a') / siteNorm T) ∧
      (∀ a', b.rsq * frob (rotT b.R T a') = siteNorm (projectedSite b T a')) ∧
      out.p 0 + out.p 1 = 1 ∧
      out.scaleSq = out.p a ∧
      out.tensor = projectedSite b T a ∧
      (∀ a' s i j, ((projectedSite b T a').get s).get i j
          = projector b a' s 0 * T.t0.get i j + projector b a' s 1 * T.t1.get i j) ∧
      siteNorm out.tensor = out.scaleSq * siteNorm T := by
  have hr : b.rsq ≠ 0 := ne_of_gt hu.pos
  have hT : probTotal b (⟨1, T⟩ : Carry n) ≠ 0 := by
    rw [probTotal_eq b hu]; simpa using hN
  have hc : ∀ a', condP b (⟨1, T⟩ : Carry n) a' = b.rsq * frob (rotT b.R T a') / siteNorm T :=
    fun a' => condP_eq b hu ⟨1, T⟩ one_ne_zero hN a'
  have hca : condP b (⟨1, T⟩ : Carry n) a ≠ 0 := by
    rw [hc a]; exact div_ne_zero (mul_ne_zero hr hpos) hN
  refine ⟨{ p := condP b ⟨1, T⟩, scaleSq := condP b ⟨1, T⟩ a, tensor := projectedSite b T a },
    by simp only [measureSite, hT, if_false, hca], hc, ?_, condP_sum b _ hT, rfl, rfl, ?_, ?_⟩
  · intro a'; rw [projected_norm b hu T a']
  · intro a' s i j; exact projected_entry b T a' s i j
  · simp only
    rw [projected_norm b hu T a, hc a]
    field_simp

example : (measureSite basisX exA 1).map (fun o => (o.p 1, o.scaleSq, o.tensor.t0.get 0 0, o.tensor.t1.get 0 1, o.tensor.t0.get 0 1))
    = some (1 / 2, 1 / 2, ⟨3 / 10, 0⟩, ⟨0, 2 / 5⟩, ⟨0, -2 / 5⟩) := by decide +kernel

/-- **C12.6** `measure(site)` shifts the centre through `0, 1, …, site-1` (so that the measured tensor is the centre
    when the state came in with its centre at 0) and rejects sites outside the chain. -/
theorem measure_shifts (L : Nat) (site : Int) :
    (0 ≤ site ∧ site < L → measureCall L site = .ok (List.range site.toNat)) ∧
    (site < 0 ∨ (L : Int) ≤ site → measureCall L site = .error "ValueError") := by
  unfold measureCall
  constructor
  · intro h; rw [if_neg (by omega)]
  · intro h; rw [if_pos (by omega)]

end Yaqs.Born

/-! ## global meaning of `measure`'s probabilities (the canonical-form argument)

`measure_inplace` reads `p` off the *site tensor*: `p[a] = rsq·‖rot(T)[a]‖² / ‖T‖²`.  The theorems below say what this
number is for the *full state* `ψ = pre ++ T :: post`:

* `denseNormSq ψ = Σ_τ ‖Π_k ψ_k[τ_k]‖²` — the sum over all `2^L` configurations of the squared modulus of the amplitude
  (the product matrix has the single entry `(0,0)` for boundary bonds of dimension 1), i.e. `‖ψ‖²`;
* `bornWeight b pre T post a = rsq · Σ_{τ₁,τ₂} ‖Π pre[τ₁] · rot(T)[a] · Π post[τ₂]‖²` — the sum over all configurations of
  the *other* sites of the squared modulus of the amplitude with the measured site rotated into the measurement basis
  and fixed to `a`: the Born probability (unnormalised) of reading `a`; in the Z basis literally
  `Σ_{cfg with cfg_site = a} |amp cfg|²` (`measure_global_Z`).

Both are plain finite sums over the executable model's own matrices (`Lemmas/BornGlobal.lean`), every chain length, every
position of the measured site, every (padded) bond dimension, every tensor over ℚ(i). -/
namespace Yaqs.Born
open Yaqs.CB

/-- **C12.7 (`measure_global`, environment form)** If the left environment of the sites before the measured one acts
    as the identity on the site tensor and so does the right environment of the sites after it (what the
    mixed-canonical form means for zero-padded tensors; `E_L`, `E_R` are the `envL`, `envR` of C11's
    `local_expect_dense`), then the vector `measure` hands to `choice`, computed from the site tensor alone, is the
    Born distribution of the full state: `p[a'] = bornWeight a' / ‖ψ‖²` for both outcomes. -/
theorem measure_global_env {n : Nat} (b : Basis) (hu : b.IsUnitary) (pre post : List (Site n)) (T : Site n) (a : Fin 2)
    (hL : ∀ s, LocalExpect.envL 1 (pre.map toMS) * toMS T s = toMS T s)
    (hR : ∀ s, toMS T s * LocalExpect.envR (post.map toMS) = toMS T s)
    (hN : siteNorm T ≠ 0) (hpos : frob (rotT b.R T a) ≠ 0) :
    ∃ out, measureSite b T a = some out ∧ denseNormSq (pre ++ T :: post) ≠ 0 ∧
      ∀ a', out.p a' = bornWeight b pre T post a' / denseNormSq (pre ++ T :: post) := by
  obtain ⟨out, hout, hp, -⟩ := measure_inplace b hu T a hN hpos
  refine ⟨out, hout, ?_, fun a' => ?_⟩
  · rw [denseNormSq_env pre post T hL hR]; exact hN
  · rw [hp a', bornWeight_env b pre post T a' hL hR, denseNormSq_env pre post T hL hR]

/-- **C12.7 (`measure_global`)** If every site left of the measured one is left-isometric (`Σ_s B[s]ᴴB[s] = 1`) and every
    site right of it is right-isometric (`Σ_s B[s]B[s]ᴴ = 1`) — the mixed-canonical form that `measure` establishes by
    its shifts (`measure_shifts`: shifts `0 … site-1` on a state that came in with its centre at 0;
    `c10_set_canonical_form_isometries` / `c10_shift_right_isometric`: the shifted-over sites are left-isometric, the
    others stay right-isometric) — then the probabilities computed from the site tensor alone are the Born
    probabilities of the full state, `Σ_{cfg with cfg_site = a'} |amp cfg|² / ‖ψ‖²` in the measured basis.
    Same argument as C11's `local_expect_dense_canonical` (a projector is an operator). -/
theorem measure_global {n : Nat} (b : Basis) (hu : b.IsUnitary) (pre post : List (Site n)) (T : Site n) (a : Fin 2)
    (hpre : ∀ B ∈ pre, gramL B = oneMat n) (hpost : ∀ B ∈ post, gram B = oneMat n)
    (hN : siteNorm T ≠ 0) (hpos : frob (rotT b.R T a) ≠ 0) :
    ∃ out, measureSite b T a = some out ∧ denseNormSq (pre ++ T :: post) ≠ 0 ∧
      ∀ a', out.p a' = bornWeight b pre T post a' / denseNormSq (pre ++ T :: post) := by
  refine measure_global_env b hu pre post T a (fun s => ?_) (fun s => ?_) hN hpos
  · rw [envL_of_leftIso pre hpre, Matrix.one_mul]
  · rw [envR_of_rightIso post hpost, Matrix.mul_one]

/-- **C12.7 (the hypotheses are C10's isometry conditions)** `gramL B = 1` / `gram B = 1` on the executable tensors are
    literally `LeftIso` / `RightIso` of `Lemmas/Mps.lean` (`Σ_s (B s)ᴴ * B s = 1`, `Σ_s B s * (B s)ᴴ = 1`) for the
    Matrix-valued site tensor `toMS B` — the conclusions of `c10_set_canonical_form_isometries`. -/
theorem measure_global_hyps {n : Nat} (B : Site n) :
    (gramL B = oneMat n ↔ ∑ s, (toMS B s).conjTranspose * toMS B s = 1) ∧
    (gram B = oneMat n ↔ ∑ s, toMS B s * (toMS B s).conjTranspose = 1) :=
  ⟨gramL_eq_one_iff B, gram_eq_one_iff B⟩

/-- **C12.7 (zero-padded tensors)** the same for the tensors the driver actually sees — bonds zero-padded to a common
    size, where a left-isometric tensor has `Σ_s B[s]ᴴB[s]` = a diagonal projector rather than `1`: it is enough that
    the chain is `LeftCanon` up to the measured tensor and `RightCanon` from it on (each tensor lives where its
    neighbour is an isometry; `RightCanon` is the hypothesis of `chain_rule`). -/
theorem measure_global_padded {n : Nat} (b : Basis) (hu : b.IsUnitary) (pre post : List (Site n)) (T : Site n) (a : Fin 2)
    (hpre : LeftCanon (pre ++ [T])) (hpost : RightCanon (T :: post))
    (hN : siteNorm T ≠ 0) (hpos : frob (rotT b.R T a) ≠ 0) :
    ∃ out, measureSite b T a = some out ∧ denseNormSq (pre ++ T :: post) ≠ 0 ∧
      ∀ a', out.p a' = bornWeight b pre T post a' / denseNormSq (pre ++ T :: post) :=
  measure_global_env b hu pre post T a (envL_of_leftCanon pre T hpre) (envR_of_rightCanon post T hpost) hN hpos

/-- **C12.7 (computational basis, written out)** for `basis = "Z"` the Born weight is literally the sum of
    `‖amp cfg‖²` over the configurations `cfg = τ₁ ++ a' :: τ₂` whose entry at the measured site is `a'`. -/
theorem measure_global_Z {n : Nat} (pre post : List (Site n)) (T : Site n) (a : Fin 2)
    (hpre : LeftCanon (pre ++ [T])) (hpost : RightCanon (T :: post))
    (hN : siteNorm T ≠ 0) (hpos : frob (rotT basisZ.R T a) ≠ 0) :
    ∃ out, measureSite basisZ T a = some out ∧
      ∀ a', out.p a' =
        (sumCfgQ pre.length fun τ1 => sumCfgQ post.length fun τ2 => frob (chainS (pre ++ T :: post) (τ1 ++ a' :: τ2)))
          / (sumCfgQ (pre ++ T :: post).length fun τ => frob (chainS (pre ++ T :: post) τ)) := by
  obtain ⟨out, hout, -, hp⟩ := measure_global_padded basisZ basis_rotations.1 pre post T a hpre hpost hN hpos
  refine ⟨out, hout, fun a' => ?_⟩
  rw [hp a', bornWeight_Z]
  rfl

/-! non-vacuity: a three-site chain `[exL, exC, exB]` (square isometries around a generic centre), measured at site 1 -/

/-- left-isometric first tensor (row vector `e_s`, padded): `Σ_s L[s]ᴴ L[s] = 1` -/
def exL : Site 2 := Site.ofFn fun s => Mat.ofFn fun i j => if i = 0 ∧ j = s then 1 else 0
/-- a generic centre tensor (not an isometry, norm² ≠ 1) -/
def exC : Site 2 := Site.ofFn fun s => Mat.ofFn fun i j =>
  if s = 0 then (if i = j then (if i = 0 then ⟨3 / 5, 0⟩ else ⟨1 / 5, 1⟩) else 0)
  else (if i = 0 ∧ j = 1 then ⟨0, 2 / 5⟩ else if i = 1 ∧ j = 0 then ⟨1 / 5, 0⟩ else 0)

/-- hypotheses of `measure_global` hold, and both sides are the same concrete numbers: measuring site 1 in the X basis
    gives `p[1] = bornWeight / ‖ψ‖²`, with `‖ψ‖² = 8/5 ≠ 1` -/
example : (∀ B ∈ [exL], gramL B = oneMat 2) ∧ (∀ B ∈ [exB], gram B = oneMat 2) ∧
    siteNorm exC ≠ 0 ∧ frob (rotT basisX.R exC 1) ≠ 0 ∧
    denseNormSq [exL, exC, exB] = 8 / 5 ∧
    (measureSite basisX exC 1).map (fun o => (o.p 0, o.p 1))
      = some (bornWeight basisX [exL] exC [exB] 0 / denseNormSq [exL, exC, exB],
              bornWeight basisX [exL] exC [exB] 1 / denseNormSq [exL, exC, exB]) ∧
    bornWeight basisX [exL] exC [exB] 1 ≠ 0 := by
  refine ⟨?_, ?_, by decide +kernel, by decide +kernel, by decide +kernel, by decide +kernel, by decide +kernel⟩
  · simp only [List.mem_singleton, forall_eq]; decide +kernel
  · simp only [List.mem_singleton, forall_eq]; decide +kernel

/-- zero-padded instance (`measure_global_padded`): `[exA, exB]` of above measured at site 0 (`pre = []`), and a product
    state with genuine 1-dimensional bonds measured at site 1 — there `Σ_s A[s]ᴴA[s] = diag(1,0) ≠ 1`, so only the
    padded form of the hypothesis applies -/
def exA1 : Site 2 := Site.ofFn fun s => Mat.ofFn fun i j => if i = 0 ∧ j = 0 then (if s = 0 then ⟨3 / 5, 0⟩ else ⟨0, 4 / 5⟩) else 0
def exT1 : Site 2 := Site.ofFn fun s => Mat.ofFn fun i j => if i = 0 ∧ j = 0 then (if s = 0 then ⟨2, 0⟩ else ⟨0, 1⟩) else 0

example : LeftCanon ([] ++ [exA]) ∧ RightCanon (exA :: [exB]) ∧
    LeftCanon ([exA1] ++ [exT1]) ∧ RightCanon (exT1 :: []) ∧ gramL exA1 ≠ oneMat 2 ∧
    (measureSite basisZ exT1 0).map (fun o => (o.p 0, o.p 1)) = some (4 / 5, 1 / 5) ∧
    bornWeight basisZ [exA1] exT1 [] 0 / denseNormSq [exA1, exT1] = 4 / 5 ∧
    (measureSite basisY exA 0).map (fun o => o.p 1) = some (bornWeight basisY [] exA [exB] 1 / denseNormSq [exA, exB]) := by
  refine ⟨trivial, exCanon, ⟨?_, trivial⟩, trivial, by decide +kernel, by decide +kernel, by decide +kernel,
    by decide +kernel⟩
  decide +kernel

/-- **C12.0** (basis dispatch of `measure_single_shot` / `measure`) the basis string is upper-cased and must then be
    exactly `Z`, `X` or `Y`; anything else is rejected (`ValueError`), never mapped to a default basis -/
theorem basis_dispatch (s : String) :
    basisOf? s = (if s.toUpper = "Z" then some basisZ else if s.toUpper = "X" then some basisX
      else if s.toUpper = "Y" then some basisY else none) := by
  unfold basisOf?
  split <;> simp_all

example : (basisOf? "y").isSome = true ∧ (basisOf? "W").isSome = false := by decide +kernel

end Yaqs.Born
