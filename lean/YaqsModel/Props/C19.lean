import YaqsModel.Lemmas.Krylov
import YaqsModel.Lemmas.Heff
import YaqsModel.Lemmas.LanczosH
import YaqsModel.Lemmas.KrylovPoly
import YaqsModel.Lemmas.KrylovBound
import YaqsModel.Lemmas.KrylovShift
import YaqsModel.Lemmas.LanczosRefine
import YaqsModel.Lemmas.HeffBlocks
import Mathlib.Algebra.Star.Rat
import Mathlib.Tactic.LinearCombination
import Mathlib.LinearAlgebra.Matrix.Notation
import Mathlib.Tactic.FinCases
import Mathlib.Tactic.NormNum

/-!
# C19 — Krylov / Arnoldi matrix exponential: exit logic, norm preservation, exactness on invariant subspaces

Property theorems only (helper lemmas live in `Lemmas/Krylov.lean`).

* `exit_logic`, `exit_zero_start`, `exit_mmax_zero`, `arnoldi_exit_logic` are about the executable model
  `Model/Krylov.lean` of the control flow of `expm_krylov` / `expm_arnoldi`; they quantify over *all* iteration
  caps, thresholds and all sequences `β`, `φ` of residual norms and error-estimate factors.
* `krylov_isometry`, `arnoldi_norm`, `invariant_exact*`, `c19_partial` are about the returned vector
  `nrm • V (Q diag(d) Qᴴ) e₁`, over Mathlib matrices on arbitrary finite index types.
-/
namespace Yaqs.Krylov

open Matrix

/-! ## 1. exit logic -/

/-- **C19.1** (Lanczos loop of `expm_krylov`, `vec_norm ≠ 0`, `m_max ≥ 1`).  The loop leaves at the *first*
    iteration `j ≤ m_max - 2` at which `β j < eps_cut` (breakdown) or `j ≥ 1 ∧ β j * φ j < tol` (converged), with
    subspace size `k = j + 1`; breakdown has priority.  If no iteration stops it runs to `k = m_max`.
    Every index of the array `beta` (length `m_max - 1`) read or written is `≤ m_max - 2`: `beta[m_max - 1]` is never
    touched, the array is never over-run.  `1 ≤ k ≤ m_max`. -/
theorem exit_logic (mMax : Nat) (epsCut tol : Rat) (β φ : Nat → Rat) (e : Exit)
    (h : lanczosExit false mMax epsCut tol β φ = some e) :
    ((∃ j, lanczosStops mMax epsCut tol β φ j ∧ (∀ i, i < j → ¬ lanczosStops mMax epsCut tol β φ i) ∧
        e.k = j + 1 ∧ (e.kind = .breakdown ↔ β j < epsCut) ∧ (e.kind = .converged ↔ ¬ β j < epsCut))
      ∨ ((∀ j, ¬ lanczosStops mMax epsCut tol β φ j) ∧ e.k = mMax ∧ e.kind = .exhausted))
    ∧ (∀ i ∈ e.reads ++ e.writes, i + 1 < mMax)
    ∧ 1 ≤ e.k ∧ e.k ≤ mMax := by
  unfold lanczosExit at h
  simp only [Bool.false_eq_true, if_false] at h
  by_cases hm : mMax = 0
  · simp [hm] at h
  · rw [if_neg hm] at h
    have he : e = lanczosLoop mMax epsCut tol β φ mMax 0 [] [] 0 := (Option.some.inj h).symm
    have hspec := lanczosLoop_spec mMax epsCut tol β φ (by omega) mMax 0 [] [] 0 rfl
      (by intro i hi; cases hi) (by intro i hi; cases hi) (by intro i hi; omega)
    rw [← he] at hspec
    obtain ⟨h1, hr, hw, hk1, hk2⟩ := hspec
    refine ⟨h1, ?_, hk1, hk2⟩
    intro i hi
    rcases List.mem_append.mp hi with h | h
    · exact hr i h
    · exact hw i h

/-- **C19.1** a zero input vector is returned as is: no iteration, no eigendecomposition, in both routines -/
theorem exit_zero_start (m : Nat) (e t : Rat) (β φ : Nat → Rat) :
    lanczosExit true m e t β φ = some ⟨.zero, 0, false, 0, [], []⟩ ∧
    arnoldiExit true m e t β φ = some ⟨.zero, 0, false, 0, [], []⟩ := ⟨rfl, rfl⟩

/-- **C19.1** `max_lanczos_iterations = 0` with a non-zero vector is an error (`np.zeros(-1)`), not a result -/
theorem exit_mmax_zero (e t : Rat) (β φ : Nat → Rat) : lanczosExit false 0 e t β φ = none := rfl

/-- **C19.1** `max_arnoldi_iterations = 0` with a non-zero vector is an error (`IndexError`), not a result -/
theorem arnoldi_mmax_zero (e t : Rat) (η φ : Nat → Rat) : arnoldiExit false 0 e t η φ = none := rfl

/-- **C19.1** (Arnoldi loop of `expm_arnoldi`).  The loop leaves at the first iteration `j < m_max` with
    `η j < 1e-12` (breakdown) or `j ≥ 1 ∧ η j * φ j < tol` (converged), `k = j + 1`; otherwise `k = m_max`.
    `k ≤ m_max`, and every column of `v` written has index `≤ m_max` (`v` has `m_max + 1` columns). -/
theorem arnoldi_exit_logic (mMax : Nat) (thr tol : Rat) (η φ : Nat → Rat) (e : Exit)
    (h : arnoldiExit false mMax thr tol η φ = some e) :
    ((∃ j, arnoldiStops mMax thr tol η φ j ∧ (∀ i, i < j → ¬ arnoldiStops mMax thr tol η φ i) ∧
        e.k = j + 1 ∧ (e.kind = .breakdown ↔ η j < thr) ∧ (e.kind = .converged ↔ ¬ η j < thr))
      ∨ ((∀ j, ¬ arnoldiStops mMax thr tol η φ j) ∧ e.k = mMax ∧ e.kind = .exhausted))
    ∧ e.k ≤ mMax ∧ (∀ c ∈ e.writes, c ≤ mMax) := by
  have hspec := arnoldiLoop_spec mMax thr tol η φ mMax 0 [] 0 rfl
    (by intro i hi; cases hi) (by intro i hi; omega)
  have he : e = arnoldiLoop mMax thr tol η φ mMax 0 [] 0 := by
    unfold arnoldiExit at h
    simp only [Bool.false_eq_true, if_false] at h
    split at h
    · cases h
    · exact (Option.some.inj h).symm
  rw [← he] at hspec
  exact ⟨hspec.1, hspec.2.1, hspec.2.2.1⟩

/-! non-vacuity of `exit_logic` / `arnoldi_exit_logic`: all three kinds of exit occur, and `lanczosStops` is
    satisfiable / refutable -/

/-- breakdown at `j = 2` (`k = 3`): `β 2 = 1/2000 < 1/1000` -/
example : lanczosExit false 5 (1/1000) (1/100) (fun j => if j = 2 then 1/2000 else 1) (fun _ => 1) =
    some ⟨.breakdown, 3, true, 2, [0, 0, 1, 1, 0, 1], [0, 1, 2]⟩ := by decide +kernel
example : lanczosStops 5 (1/1000) (1/100) (fun j => if j = 2 then 1/2000 else 1) (fun _ => 1) 2 := by
  unfold lanczosStops; decide +kernel

/-- converged at `j = 2` (`k = 3`): `β 2 * φ 2 = 1/200 < 1/100` while `β 2 = 1 ≥ eps_cut` -/
example : lanczosExit false 5 (1/1000) (1/100) (fun _ => 1) (fun j => if j = 2 then 1/200 else 1) =
    some ⟨.converged, 3, false, 2, [0, 0, 1, 1, 0, 1, 2], [0, 1, 2]⟩ := by decide +kernel

/-- exhausted: nothing stops, `k = m_max = 5`, the eigendecomposition of the last error check is reused;
    `beta[4]` is neither read nor written -/
example : lanczosExit false 5 (1/1000) (1/100) (fun _ => 1) (fun _ => 1) =
    some ⟨.exhausted, 5, false, 4, [0, 0, 1, 1, 0, 1, 2, 2, 0, 1, 2, 3, 3, 0, 1, 2, 3], [0, 1, 2, 3]⟩ := by
  decide +kernel

/-- `m_max = 1`: a single iteration, fresh eigendecomposition of the 1×1 problem, `beta` (length 0) untouched -/
example : lanczosExit false 1 (1/1000) (1/100) (fun _ => 0) (fun _ => 0) =
    some ⟨.exhausted, 1, true, 1, [], []⟩ := by decide +kernel

example : arnoldiExit false 5 (1/1000) (1/100) (fun j => if j = 2 then 1/2000 else 1) (fun _ => 1) =
    some ⟨.breakdown, 3, true, 2, [], [1, 2]⟩ := by decide +kernel
example : arnoldiExit false 5 (1/1000) (1/100) (fun _ => 1) (fun j => if j = 2 then 1/200 else 1) =
    some ⟨.converged, 3, false, 2, [], [1, 2, 3]⟩ := by decide +kernel
example : arnoldiExit false 3 (1/1000) (1/100) (fun _ => 1) (fun _ => 1) =
    some ⟨.exhausted, 3, true, 3, [], [1, 2, 3]⟩ := by decide +kernel

/-! ## 2. norm preservation -/

/-- **C19.2** the spectral factors `e^{-i·dt·λ}` have modulus one for every real `dt·λ` — either sign of `dt`.
    (Makes the hypothesis `hd` of `krylov_isometry` non-vacuous for every real spectrum.) -/
theorem unit_modulus_exp (t : ℝ) :
    star (Complex.exp (-(t : ℂ) * Complex.I)) * Complex.exp (-(t : ℂ) * Complex.I) = 1 := by
  have h : star (Complex.exp (-(t : ℂ) * Complex.I)) = Complex.exp ((t : ℂ) * Complex.I) := by
    change (starRingEnd ℂ) _ = _
    rw [← Complex.exp_conj]
    congr 1
    simp
  rw [h, ← Complex.exp_add]
  simp

/-- **C19.2** (Arnoldi / generic reconstruction) a basis with orthonormal columns is an isometry of the small
    problem: `‖V x‖² = ‖x‖²` for every coefficient vector `x`. -/
theorem arnoldi_norm {n k : Type*} [Fintype n] [Fintype k] [DecidableEq k]
    (V : Matrix n k ℂ) (hV : Vᴴ * V = 1) (x : k → ℂ) :
    star (V *ᵥ x) ⬝ᵥ (V *ᵥ x) = star x ⬝ᵥ x :=
  gram_mulVec V hV x

/-- **C19.2** (Lanczos reconstruction) with orthonormal Lanczos vectors `V`, unitary eigenvector matrix `Q`,
    unit-modulus spectral factors `d` and a unit start vector `e`, the returned vector
    `y = nrm • V (Q diag(d) Qᴴ) e` satisfies `‖y‖² = nrm²` — for either sign of `dt`. -/
theorem krylov_isometry {n k : Type*} [Fintype n] [Fintype k] [DecidableEq k]
    (V : Matrix n k ℂ) (hV : Vᴴ * V = 1) (Q : Matrix k k ℂ) (hQ : Qᴴ * Q = 1)
    (d : k → ℂ) (hd : ∀ i, star (d i) * d i = 1) (e : k → ℂ) (he : star e ⬝ᵥ e = 1) (nrm : ℝ) :
    star ((nrm : ℂ) • (V *ᵥ ((Q * diagonal d * Qᴴ) *ᵥ e))) ⬝ᵥ ((nrm : ℂ) • (V *ᵥ ((Q * diagonal d * Qᴴ) *ᵥ e)))
      = (nrm : ℂ) ^ 2 := by
  rw [smul_norm_sq, gram_mulVec V hV, gram_mulVec _ (spectral_unitary Q hQ d hd), he, mul_one]

/-- **C19.2** (optional restatement) the same with the Euclidean norm: `‖y‖₂ = |nrm|` (`nrm` is a norm in the
    code, hence `= nrm`) -/
theorem krylov_isometry_norm {n k : Type*} [Fintype n] [Fintype k] [DecidableEq k]
    (V : Matrix n k ℂ) (hV : Vᴴ * V = 1) (Q : Matrix k k ℂ) (hQ : Qᴴ * Q = 1)
    (d : k → ℂ) (hd : ∀ i, star (d i) * d i = 1) (e : k → ℂ) (he : star e ⬝ᵥ e = 1) (nrm : ℝ) :
    ‖(WithLp.toLp 2 ((nrm : ℂ) • (V *ᵥ ((Q * diagonal d * Qᴴ) *ᵥ e))) : EuclideanSpace ℂ n)‖ = |nrm| :=
  norm_of_dot _ nrm (krylov_isometry V hV Q hQ d hd e he nrm)

/-- non-vacuity of the hypotheses of `krylov_isometry` / `arnoldi_norm`: a 3×2 basis with orthonormal columns, a
    unitary (non-diagonal) `Q`, unit-modulus non-real factors and the first unit vector -/
example : ∃ (V : Matrix (Fin 3) (Fin 2) ℂ) (Q : Matrix (Fin 2) (Fin 2) ℂ) (d e : Fin 2 → ℂ),
    Vᴴ * V = 1 ∧ Qᴴ * Q = 1 ∧ (∀ i, star (d i) * d i = 1) ∧ star e ⬝ᵥ e = 1 := by
  refine ⟨!![1, 0; 0, 1; 0, 0], !![0, 1; 1, 0], ![Complex.I, -1], ![1, 0], ?_, ?_, ?_, ?_⟩
  · ext i j; fin_cases i <;> fin_cases j <;> simp [Matrix.mul_apply, Fin.sum_univ_succ]
  · ext i j; fin_cases i <;> fin_cases j <;> simp [Matrix.mul_apply, Fin.sum_univ_succ]
  · intro i; fin_cases i <;> simp
  · simp [dotProduct, Fin.sum_univ_succ]

/-- `unit_modulus_exp` feeds `hd`: for every real spectrum `lam` and every real `dt` (positive or negative) -/
example (k : Type) (lam : k → ℝ) (dt : ℝ) :
    ∀ i, star (Complex.exp (-((dt * lam i : ℝ) : ℂ) * Complex.I)) *
      Complex.exp (-((dt * lam i : ℝ) : ℂ) * Complex.I) = 1 :=
  fun i => unit_modulus_exp (dt * lam i)

/-! ## 3. exactness on an invariant subspace -/

/-- **C19.3** if the Krylov space is invariant (`A V = V T`, the situation after a breakdown), every polynomial
    of `A` is reproduced by the same polynomial of the small matrix `T`. -/
theorem invariant_exact {n k K : Type*} [Fintype n] [Fintype k] [DecidableEq n] [DecidableEq k] [CommRing K]
    (A : Matrix n n K) (T : Matrix k k K) (V : Matrix n k K) (h : A * V = V * T) (p : Polynomial K) :
    (Polynomial.aeval A p) * V = V * (Polynomial.aeval T p) :=
  aeval_intertwine A T V h p

/-- **C19.3** vector form: `p(A) (c • V e) = c • V (p(T) e)` -/
theorem invariant_exact_vec {n k K : Type*} [Fintype n] [Fintype k] [DecidableEq n] [DecidableEq k] [CommRing K]
    (A : Matrix n n K) (T : Matrix k k K) (V : Matrix n k K) (h : A * V = V * T) (p : Polynomial K)
    (c : K) (e : k → K) :
    (Polynomial.aeval A p) *ᵥ (c • (V *ᵥ e)) = c • (V *ᵥ ((Polynomial.aeval T p) *ᵥ e)) := by
  rw [mulVec_smul, mulVec_mulVec, aeval_intertwine A T V h p, ← mulVec_mulVec]

/-- **C19.3** the same for explicit partial sums `∑_{m<N} c_m A^m` (e.g. the Taylor sums of `exp(-i dt A)`) -/
theorem invariant_exact_powers {n k K : Type*} [Fintype n] [Fintype k] [DecidableEq n] [DecidableEq k]
    [CommRing K] (A : Matrix n n K) (T : Matrix k k K) (V : Matrix n k K) (h : A * V = V * T)
    (c : ℕ → K) (N : ℕ) :
    (∑ m ∈ Finset.range N, c m • A ^ m) * V = V * (∑ m ∈ Finset.range N, c m • T ^ m) := by
  rw [Matrix.sum_mul, Matrix.mul_sum]
  refine Finset.sum_congr rfl (fun i _ => ?_)
  rw [Matrix.smul_mul, Matrix.mul_smul, pow_intertwine A T V h]

/-- non-vacuity of `A V = V T`: a 2-dimensional invariant subspace of a symmetric 3×3 matrix (what an exact
    breakdown at `k = 2` produces), on which `A²` does not vanish -/
example : ∃ (A : Matrix (Fin 3) (Fin 3) ℚ) (T : Matrix (Fin 2) (Fin 2) ℚ) (V : Matrix (Fin 3) (Fin 2) ℚ),
    A * V = V * T ∧ Aᵀ = A ∧ A * A * V ≠ 0 := by
  refine ⟨!![2, 1, 0; 1, 3, 0; 0, 0, 5], !![2, 1; 1, 3], !![1, 0; 0, 1; 0, 0], ?_, ?_, ?_⟩ <;> decide +kernel

/-! ## 4. what is proved about the reconstruction -/

/-
  FULL PROPERTY C19 (cited, not formalised).  For Hermitian `A` with spectrum in an interval of length `4ρ`,
  `v ≠ 0`, `τ = |dt|`, `V_m` the orthonormal Lanczos basis of `K_m(A, v)`, `T_m = V_mᴴ A V_m`:

      ‖ exp(-i·dt·A) v − ‖v‖ · V_m exp(-i·dt·T_m) e₁ ‖  ≤  12 · exp(−(ρτ)² / m) · (e·ρτ / m)^m · ‖v‖     for m ≥ 2ρτ

  (Hochbruck & Lubich, "On Krylov subspace approximations to the matrix exponential operator", SIAM J. Numer.
   Anal. 34 (1997), Theorem 4 — the skew-Hermitian case `-i·A`; superlinear decay sets in once `m ≥ 2ρτ`.  The
   design note quotes the bound in the abbreviated form `12 e^{-ρ²/(4m)}…`; the constants are to be taken from the
   paper, they are not used by any theorem below.)
  The a-posteriori estimate `err ≈ β_m · |[exp(-i·dt·T_m)]_{m,1}|` the loop tests against `tol` is the leading term
  of the residual expansion (Saad 1992; Sect. 6 of the reference above).

  Formalised below (`c19_partial`): the two structural facts that bound rests on and that the implementation
  can violate independently of rounding —
    (a) exactness: on an invariant Krylov space (`A V = V T`, i.e. after a breakdown `β_k = 0`, or `k = dim`)
        every polynomial of `A` — in particular every Taylor partial sum of `exp(-i·dt·A)` — applied to
        `v = nrm • V e` equals `nrm • V p(T) e`, and with `T = Q diag(λ) Qᴴ` this is the code's formula
        `nrm • V Q diag(p(λ)) Qᴴ e`;  norms are carried over exactly: `‖p(A) v‖² = nrm² ‖p(T) e‖²`;
    (b) unitarity: the returned vector `nrm • V Q diag(d) Qᴴ e`, `|d_i| = 1`, has squared norm `nrm²`
        whatever `k`, `dt` (either sign) and the quality of the approximation.
  Not formalised: the limit `p → exp` (needs analysis of the matrix exponential series in both spaces) and the
  approximation bound for a non-invariant Krylov space.
-/

/-- **C19 (partial)** exactness on an invariant subspace for every polynomial, in the spectral form the code
    evaluates, together with norm preservation of the returned vector. -/
theorem c19_partial {n k : Type*} [Fintype n] [Fintype k] [DecidableEq n] [DecidableEq k]
    (A : Matrix n n ℂ) (T : Matrix k k ℂ) (V : Matrix n k ℂ) (Q : Matrix k k ℂ) (d : k → ℂ) (e : k → ℂ) (nrm : ℝ)
    (hV : Vᴴ * V = 1) (hAV : A * V = V * T) (hQ : Qᴴ * Q = 1)
    (hd : ∀ i, star (d i) * d i = 1) (he : star e ⬝ᵥ e = 1) :
    -- (a) every polynomial of `A` applied to `v = nrm • V e` is reproduced by the small problem
    (∀ p : Polynomial ℂ,
        (Polynomial.aeval A p) *ᵥ ((nrm : ℂ) • (V *ᵥ e)) = (nrm : ℂ) • (V *ᵥ ((Polynomial.aeval T p) *ᵥ e))) ∧
    -- (a') … which, for `T = Q diag(λ) Qᴴ`, is the formula of `_compute_krylov_result` with `p(λ)` for `e^{-i dt λ}`
    (∀ lam : k → ℂ, T = Q * diagonal lam * Qᴴ → ∀ p : Polynomial ℂ,
        (Polynomial.aeval A p) *ᵥ ((nrm : ℂ) • (V *ᵥ e)) =
          (nrm : ℂ) • (V *ᵥ ((Q * diagonal (fun i => p.eval (lam i)) * Qᴴ) *ᵥ e))) ∧
    -- (a'') norms are carried over exactly
    (∀ p : Polynomial ℂ,
        star ((Polynomial.aeval A p) *ᵥ ((nrm : ℂ) • (V *ᵥ e))) ⬝ᵥ ((Polynomial.aeval A p) *ᵥ ((nrm : ℂ) • (V *ᵥ e)))
          = (nrm : ℂ) ^ 2 * (star ((Polynomial.aeval T p) *ᵥ e) ⬝ᵥ ((Polynomial.aeval T p) *ᵥ e))) ∧
    -- (b) the returned vector has squared norm `nrm²`
    star ((nrm : ℂ) • (V *ᵥ ((Q * diagonal d * Qᴴ) *ᵥ e))) ⬝ᵥ ((nrm : ℂ) • (V *ᵥ ((Q * diagonal d * Qᴴ) *ᵥ e)))
      = (nrm : ℂ) ^ 2 := by
  refine ⟨fun p => invariant_exact_vec A T V hAV p _ e, ?_, ?_, krylov_isometry V hV Q hQ d hd e he nrm⟩
  · intro lam hT p
    rw [invariant_exact_vec A T V hAV p _ e, hT, aeval_spectral Q Qᴴ hQ lam p]
  · intro p
    rw [invariant_exact_vec A T V hAV p _ e, smul_norm_sq, gram_mulVec V hV]

/-- non-vacuity of the joint hypotheses of `c19_partial` (orthonormal `V`, `A V = V T`, `T = Q diag(λ) Qᴴ` with a
    rotation `Q`, unit-modulus `d`, unit `e`) -/
example : ∃ (A : Matrix (Fin 3) (Fin 3) ℂ) (T : Matrix (Fin 2) (Fin 2) ℂ) (V : Matrix (Fin 3) (Fin 2) ℂ)
    (Q : Matrix (Fin 2) (Fin 2) ℂ) (lam d e : Fin 2 → ℂ),
    Vᴴ * V = 1 ∧ A * V = V * T ∧ Qᴴ * Q = 1 ∧ T = Q * diagonal lam * Qᴴ ∧ (∀ i, star (d i) * d i = 1) ∧
    star e ⬝ᵥ e = 1 := by
  refine ⟨!![16, 12, 0; 12, 9, 0; 0, 0, 5], !![16, 12; 12, 9], !![1, 0; 0, 1; 0, 0], !![3/5, 4/5; -4/5, 3/5], ![0, 25],
    ![Complex.I, -1], ![1, 0], ?_, ?_, ?_, ?_, ?_, ?_⟩
  · ext i j; fin_cases i <;> fin_cases j <;> simp [Matrix.mul_apply, Fin.sum_univ_succ]
  · ext i j; fin_cases i <;> fin_cases j <;> simp [Matrix.mul_apply, Fin.sum_univ_succ]
  · ext i j; fin_cases i <;> fin_cases j <;> simp [Matrix.mul_apply, Fin.sum_univ_succ, map_ofNat] <;> norm_num
  · ext i j; fin_cases i <;> fin_cases j <;>
      simp [Matrix.mul_apply, Fin.sum_univ_succ, Matrix.vecMul_diagonal, map_ofNat] <;> norm_num
  · intro i; fin_cases i <;> simp
  · simp [dotProduct, Fin.sum_univ_succ]

/-! ## 5. the three-term recurrence (exact arithmetic) -/

/-- **C19.5** for a symmetric `A` over any field, the vectors of the unnormalised Lanczos recurrence
    `u_{j+1} = A u_j − a_j u_j − b_j u_{j-1}` (`u_{-1} = 0`), `a_j = ⟨u_j, A u_j⟩ / ⟨u_j, u_j⟩`,
    `b_j = ⟨u_j, u_j⟩ / ⟨u_{j-1}, u_{j-1}⟩` — the recurrence of `lanczosRat` in the model — are pairwise
    orthogonal up to and including the first vector with `⟨u_m, u_m⟩ = 0` (no re-orthogonalisation needed in exact
    arithmetic), hence `⟨u_i, A u_j⟩ = 0` for `|i − j| > 1`: the projected matrix is tridiagonal. -/
theorem lanczos_tridiagonal {n K : Type*} [Fintype n] [Field K] (A : Matrix n n K) (hA : Aᵀ = A)
    (u : ℕ → n → K) (a b : ℕ → K) (m : ℕ)
    (h0 : u 1 = A *ᵥ u 0 - a 0 • u 0)
    (hrec : ∀ j, u (j + 2) = A *ᵥ u (j + 1) - a (j + 1) • u (j + 1) - b (j + 1) • u j)
    (hne : ∀ j, j < m → u j ⬝ᵥ u j ≠ 0)
    (ha : ∀ j, j < m → a j = (u j ⬝ᵥ A *ᵥ u j) / (u j ⬝ᵥ u j))
    (hb : ∀ j, j + 1 < m → b (j + 1) = (u (j + 1) ⬝ᵥ u (j + 1)) / (u j ⬝ᵥ u j)) :
    (∀ i j, i ≠ j → i ≤ m → j ≤ m → u i ⬝ᵥ u j = 0) ∧
    (∀ i j, i + 1 < j → j ≤ m → u i ⬝ᵥ A *ᵥ u j = 0 ∧ u j ⬝ᵥ A *ᵥ u i = 0) := by
  have orth : ∀ i j, i < j → j ≤ m → u i ⬝ᵥ u j = 0 := by
    apply lanczos_orth_mul A hA u a b m h0 hrec
    · intro j hj; rw [ha j hj, div_mul_cancel₀ _ (hne j hj)]
    · intro j hj; rw [hb j hj, div_mul_cancel₀ _ (hne j (by omega))]
  have tri : ∀ i j, i + 1 < j → j ≤ m → u i ⬝ᵥ A *ᵥ u j = 0 := by
    intro i j hij hj
    rw [dot_symm_mulVec A hA, lanczos_Au A u a b h0 hrec i, add_dotProduct, add_dotProduct, smul_dotProduct,
      smul_dotProduct, orth (i + 1) j hij hj, orth i j (by omega) hj]
    cases i with
    | zero => simp [shiftVec]
    | succ i => simp only [shiftVec]; rw [orth i j (by omega) hj]; simp
  refine ⟨?_, fun i j hij hj => ⟨tri i j hij hj, ?_⟩⟩
  · intro i j hij hi hj
    rcases Nat.lt_or_gt_of_ne hij with h | h
    · exact orth i j h hj
    · rw [dotProduct_comm]; exact orth j i h hi
  · rw [dot_symm_mulVec A hA, dotProduct_comm]; exact tri i j hij hj

/-- non-vacuity: `A = [[2,1],[1,3]]`, `u₀ = e₁` gives `a = (2, 3)`, `b₁ = 1`, `u₁ = e₂`, `u₂ = 0` (`m = 2`), and the
    executable recurrence of the model computes exactly these coefficients -/
example : ∃ (A : Matrix (Fin 2) (Fin 2) ℚ) (u : ℕ → Fin 2 → ℚ) (a b : ℕ → ℚ),
    Aᵀ = A ∧ u 1 = A *ᵥ u 0 - a 0 • u 0 ∧
    (∀ j, u (j + 2) = A *ᵥ u (j + 1) - a (j + 1) • u (j + 1) - b (j + 1) • u j) ∧
    (∀ j, j < 2 → u j ⬝ᵥ u j ≠ 0) ∧ (∀ j, j < 2 → a j = (u j ⬝ᵥ A *ᵥ u j) / (u j ⬝ᵥ u j)) ∧
    (∀ j, j + 1 < 2 → b (j + 1) = (u (j + 1) ⬝ᵥ u (j + 1)) / (u j ⬝ᵥ u j)) := by
  refine ⟨!![2, 1; 1, 3], fun j => match j with | 0 => ![1, 0] | 1 => ![0, 1] | _ => 0,
    fun j => match j with | 0 => 2 | 1 => 3 | _ => 0, fun j => match j with | 1 => 1 | _ => 0,
    by decide +kernel, by decide +kernel, ?_, ?_, ?_, ?_⟩
  · intro j
    match j with
    | 0 => decide +kernel
    | 1 => simp
    | j + 2 => simp
  · intro j hj
    match j with
    | 0 => decide +kernel
    | 1 => decide +kernel
  · intro j hj
    match j with
    | 0 => decide +kernel
    | 1 => decide +kernel
  · intro j hj
    match j with
    | 0 => decide +kernel

example : (lanczosRat [[2, 1], [1, 3]] [1, 0] 2).alpha = [2, 3] ∧
    (lanczosRat [[2, 1], [1, 3]] [1, 0] 2).betaSq = [1, 0] ∧
    (lanczosRat [[2, 1], [1, 3]] [1, 0] 2).us = [[1, 0], [0, 1]] := by decide +kernel

end Yaqs.Krylov


/-! ## 6. the local effective Hamiltonian: dense builders = matrix-free projectors (x19 extension)

  Index-level model `Model/Heff.lean` of `tdvp.py` (`project_site`, `project_bond`, `build_dense_heff_site`,
  `build_dense_heff_bond`, `update_left_environment`, `update_right_environment`, the size switch of
  `_evolve_local_tensor_krylov`) and of the two kernels of `tdvp_numba.py`.  All statements are over an arbitrary
  commutative semiring `K` (so in particular over ℂ and over the Gaussian rationals the driver computes with) and
  over all dimensions — non-square environments and different in/out physical dimensions included. -/
namespace Yaqs.Heff

open Finset

/-- **C19.6 `flatten_bij`** the row-major flattening `(i, j, k) ↦ (i·d1 + j)·d2 + k` the model uses for
    `reshape(-1)` / `reshape(shape)` is a bijection between `{i<d0} × {j<d1} × {k<d2}` and `{n < d0·d1·d2}` with inverse
    `n ↦ (n / (d1·d2), n / d2 % d1, n % d2)`; likewise for two legs. -/
theorem flatten_bij (d0 d1 d2 : ℕ) :
    (∀ i j k, i < d0 → j < d1 → k < d2 →
        flat3 d1 d2 i j k < d0 * d1 * d2 ∧ unflat3 d1 d2 (flat3 d1 d2 i j k) = (i, j, k)) ∧
    (∀ n, n < d0 * d1 * d2 →
        ((unflat3 d1 d2 n).1 < d0 ∧ (unflat3 d1 d2 n).2.1 < d1 ∧ (unflat3 d1 d2 n).2.2 < d2) ∧
        flat3 d1 d2 (unflat3 d1 d2 n).1 (unflat3 d1 d2 n).2.1 (unflat3 d1 d2 n).2.2 = n) ∧
    (∀ i j, i < d0 → j < d1 → flat2 d1 i j < d0 * d1 ∧ unflat2 d1 (flat2 d1 i j) = (i, j)) ∧
    (∀ n, n < d0 * d1 →
        ((unflat2 d1 n).1 < d0 ∧ (unflat2 d1 n).2 < d1) ∧ flat2 d1 (unflat2 d1 n).1 (unflat2 d1 n).2 = n) :=
  ⟨fun i j k hi hj hk => ⟨flat3_lt d0 d1 d2 i j k hi hj hk, unflat3_flat3 d1 d2 i j k hj hk⟩,
   fun n hn => ⟨unflat3_lt d0 d1 d2 n hn, flat3_unflat3 d1 d2 n⟩,
   fun i j hi hj => ⟨flat2_lt d0 d1 i j hi hj, unflat2_flat2 d1 i j hj⟩,
   fun n hn => ⟨unflat2_lt d0 d1 n hn, flat2_unflat2 d1 n⟩⟩

example : unflat3 3 2 (flat3 3 2 4 2 1) = (4, 2, 1) ∧ flat3 3 2 4 2 1 = 29 ∧ unflat2 5 (flat2 5 3 4) = (3, 4) := by
  decide

/-- **C19.6 `reshape_pairs`** `h6.reshape(o·A·B, p·a·b)` keeps the row-major linear index: the entry `[o,A,B,p,a,b]` of
    the 6-leg einsum result is the entry `[flat(o,A,B), flat(p,a,b)]` of the matrix — the pairing `denseHeffSite` uses;
    likewise `h4.reshape(p·w, u·v)`. -/
theorem reshape_pairs (d : SiteDims) (e : BondDims) :
    (∀ o A' B p a b, flat6 d.aa d.bb d.p d.a d.b o A' B p a b =
        flat2 (d.p * d.a * d.b) (flat3 d.aa d.bb o A' B) (flat3 d.a d.b p a b)) ∧
    (∀ p w u v, flat4 e.w e.u e.v p w u v = flat2 (e.u * e.v) (flat2 e.w p w) (flat2 e.v u v)) := by
  constructor
  · intro o A' B p a b; unfold flat6 flat2 flat3; ring
  · intro p w u v; unfold flat4 flat2; ring

example : flat6 2 3 2 2 3 1 1 2 1 0 2 = flat2 (2 * 2 * 3) (flat3 2 3 1 1 2) (flat3 2 3 1 0 2) := by decide

/-- **C19.6 `dense_eq_free_site`** (clause "the dense and matrix-free constructions of the local effective Hamiltonian
    give the same answer", single-site problem).  For every ket `X` of shape `(p, a, b)`:
    `(build_dense_heff_site(L, R, W) @ X.reshape(-1)).reshape(o, A, B) = project_site(L, R, W, X)`, entry by entry. -/
theorem dense_eq_free_site {K : Type*} [CommSemiring K] (d : SiteDims) (L R : ℕ → ℕ → ℕ → K)
    (W : ℕ → ℕ → ℕ → ℕ → K) (X : ℕ → ℕ → ℕ → K) (o A' B : ℕ) (hA : A' < d.aa) (hB : B < d.bb) :
    unflattenV3 d.aa d.bb (matVec (d.p * d.a * d.b) (denseHeffSite d L R W) (flattenT3 d.a d.b X)) o A' B =
      projectSite d L R W X o A' B :=
  dense_matVec_site d L R W X o A' B hA hB

/-- **C19.6 `dense_eq_free_bond`** the same for the zero-site problem:
    `(build_dense_heff_bond(L, R) @ C.reshape(-1)).reshape(p, w) = project_bond(L, R, C)`. -/
theorem dense_eq_free_bond {K : Type*} [CommSemiring K] (d : BondDims) (L R : ℕ → ℕ → ℕ → K) (C : ℕ → ℕ → K)
    (p w : ℕ) (hw : w < d.w) :
    unflattenV2 d.w (matVec (d.u * d.v) (denseHeffBond d L R) (flattenT2 d.v C)) p w = projectBond d L R C p w :=
  dense_matVec_bond d L R C p w hw

/-- a concrete non-square instance over ℚ(i): the dense matrix is not zero and the identity holds by evaluation -/
example :
    let d : SiteDims := ⟨2, 2, 1, 2, 2, 1, 2, 1⟩
    let L : ℕ → ℕ → ℕ → CRat := fun a l A => ⟨(a + 2 * l + A : ℕ), (A : ℕ)⟩
    let R : ℕ → ℕ → ℕ → CRat := fun b r B => ⟨(b + 1 : ℕ), (r + B : ℕ)⟩
    let W : ℕ → ℕ → ℕ → ℕ → CRat := fun o p l r => ⟨(o + 2 * p : ℕ), (l + r : ℕ)⟩
    let X : ℕ → ℕ → ℕ → CRat := fun p a b => ⟨(1 + p + a : ℕ), (b : ℕ)⟩
    denseHeffSite d L R W 3 2 = ⟨11, 9⟩ ∧ projectSite d L R W X 1 1 0 = ⟨47, 97⟩ ∧
    unflattenV3 d.aa d.bb (matVec (d.p * d.a * d.b) (denseHeffSite d L R W) (flattenT3 d.a d.b X)) 1 1 0 =
      projectSite d L R W X 1 1 0 := by
  decide +kernel

/-- **C19.6 `numba_eq_einsum`** the compiled kernels (`build_dense_heff_site_numba`: two-stage contraction, index
    arithmetic `o_aa // a_out`, `p_a_b // (a_in·b_in)`, …; `build_dense_heff_bond_numba`) produce the matrix of the einsum
    builders, entry by entry — same contraction, same flattening. -/
theorem numba_eq_einsum {K : Type*} [CommSemiring K] (d : SiteDims) (e : BondDims) (L R : ℕ → ℕ → ℕ → K)
    (W : ℕ → ℕ → ℕ → ℕ → K) (row col : ℕ) :
    denseHeffSiteNumba d L R W row col = denseHeffSite d L R W row col ∧
    denseHeffBondNumba e L R row col = denseHeffBond e L R row col :=
  ⟨numba_site_eq d L R W row col, numba_bond_eq e L R row col⟩

/-- **C19.6 `size_switch_invisible`** (`_evolve_local_tensor_krylov`, `if n_loc <= dense_threshold`): the operator
    handed to `expm_krylov` is the same linear map on both sides of the switch — for any two thresholds and every input
    vector the two `apply_effective_operator` closures agree on every output row; so `DENSE_THRESHOLD` only selects
    how the product is computed. -/
theorem size_switch_invisible {K : Type*} [CommSemiring K] (thr thr' : ℕ) (d : SiteDims) (e : BondDims)
    (L R : ℕ → ℕ → ℕ → K) (W : ℕ → ℕ → ℕ → ℕ → K) (x : ℕ → K) :
    (∀ row, row < d.o * d.aa * d.bb → applyEffSite thr d L R W x row = applyEffSite thr' d L R W x row) ∧
    (∀ row, row < e.pp * e.w → applyEffBond thr e L R x row = applyEffBond thr' e L R x row) := by
  constructor
  · intro row hrow
    have h := free_eq_dense_site d L R W x row hrow
    unfold applyEffSite
    split <;> split <;> simp only [h]
  · intro row hrow
    have h := free_eq_dense_bond e L R x row hrow
    unfold applyEffBond
    split <;> split <;> simp only [h]

/-- both sides of the switch are reachable: 8 entries with threshold 8 is dense, with threshold 7 matrix-free -/
example : useDense (2 * 2 * 2) 8 = true ∧ useDense (2 * 2 * 2) 7 = false ∧ useDense 128 denseThreshold = true ∧
    useDense 129 denseThreshold = false := by decide

/-- **C19.6 `heff_hermitian`** (the hypothesis "Hermitian local generator" of `krylov_isometry` and of C05's norm
    budget, single-site problem).  If the MPO tensor and the two environments are conjugate-symmetric up to invertible
    gauge matrices on the two MPO bonds —
    `W[o,p,l,r]* = Σ_{l',r'} G_l[l,l']·W[p,o,l',r']·G_r⁻¹[r',r]`, `L[A,l,a]* = Σ_{l'} L[a,l',A]·G_l⁻¹[l',l]`,
    `R[B,r,b]* = Σ_{r'} G_r[r,r']·R[b,r',B]` (`G = 1`: every operator-valued MPO entry Hermitian; the SVD-compressed
    MPOs of `from_pauli_sum` need a general `G`) — and ket and bra legs have equal dimensions, then the matrix built by
    `build_dense_heff_site` is Hermitian. -/
theorem heff_hermitian {K : Type*} [CommSemiring K] [StarRing K] (d : SiteDims) (ha : d.a = d.aa) (hb : d.b = d.bb)
    (Gl Gli Gr Gri : ℕ → ℕ → K) (hl : GaugeInv d.l Gl Gli) (hr : GaugeInv d.r Gr Gri)
    (L R : ℕ → ℕ → ℕ → K) (W : ℕ → ℕ → ℕ → ℕ → K)
    (hW : OpHermG d.l d.r Gl Gri W) (hL : LeftHermG d.l Gli L) (hR : RightHermG d.r Gr R) (row col : ℕ) :
    star (denseHeffSite d L R W row col) = denseHeffSite d L R W col row := by
  unfold denseHeffSite
  rw [h6_herm d Gl Gli Gr Gri hl hr L R W hW hL hR, ha, hb]

/-- **C19.6 `heff_bond_hermitian`** the same for `build_dense_heff_bond`: both blocks sit on the same MPO bond, the left one
    conjugate-symmetric with `G⁻¹`, the right one with `G`. -/
theorem heff_bond_hermitian {K : Type*} [CommSemiring K] [StarRing K] (e : BondDims) (hu : e.u = e.pp) (hvw : e.v = e.w)
    (G Gi : ℕ → ℕ → K) (hm : GaugeInv e.m G Gi) (L R : ℕ → ℕ → ℕ → K)
    (hL : LeftHermG e.m Gi L) (hR : RightHermG e.m G R) (row col : ℕ) :
    star (denseHeffBond e L R row col) = denseHeffBond e L R col row := by
  have _ := hu
  unfold denseHeffBond
  rw [h4_herm e G Gi hm L R hL hR, hvw]

/-- **C19.6 `env_update_hermitian`** `update_left_environment` / `update_right_environment` called — as every sweep
    does — with the same tensor for ket and bra carry the conjugate symmetry of a block from one MPO bond to the next
    (from gauge `G_l` to `G_r` and back), and the boundary blocks `identity[i, a, i] = 1` have it for the trivial gauge. -/
theorem env_update_hermitian {K : Type*} [CommSemiring K] [StarRing K] (d : SiteDims)
    (hop : d.o = d.p) (ha : d.a = d.aa) (hb : d.b = d.bb) (Gl Gli Gr Gri : ℕ → ℕ → K)
    (hl : GaugeInv d.l Gl Gli) (hr : GaugeInv d.r Gr Gri)
    (W : ℕ → ℕ → ℕ → ℕ → K) (hW : OpHermG d.l d.r Gl Gri W) (ket : ℕ → ℕ → ℕ → K) :
    (∀ L, LeftHermG d.l Gli L → LeftHermG d.r Gri (updateLeft star d L W ket ket)) ∧
    (∀ R, RightHermG d.r Gr R → RightHermG d.l Gl (updateRight star d R W ket ket)) ∧
    LeftHermG 1 gaugeOne (idEnv : ℕ → ℕ → ℕ → K) ∧ RightHermG 1 gaugeOne (idEnv : ℕ → ℕ → ℕ → K) :=
  ⟨fun L hL => updateLeft_herm d hop ha Gl Gli Gri hl W hW L hL ket,
   fun R hR => updateRight_herm d hop hb Gl Gr Gri hr W hW R hR ket,
   idEnv_leftHerm 1 gaugeOne (by intro l hl; simp [gaugeOne]; omega),
   idEnv_rightHerm 1 gaugeOne (by intro r hr; simp [gaugeOne]; omega)⟩

/-- **C19.6 `heff_hermitian_chain`** for an MPS/MPO chain `ls ++ s :: rs` of any length whose MPO tensors are Hermitian up
    to bond gauges `g` (with unit row/column sums on the two outer bonds — `[[1]]` for an open chain): with the left
    block built site by site by `update_left_environment` from the identity boundary over `ls`, and the right block
    by `update_right_environment` (as `initialize_right_environments` does) over `rs` — all with the current MPS tensors
    as ket and bra — the dense effective Hamiltonian of site `s` is Hermitian. -/
theorem heff_hermitian_chain {K : Type*} [CommSemiring K] [StarRing K] (g : BondGauge K)
    (hg : ∀ k, GaugeInv (g.bd k) (g.G k) (g.Gi k)) (ls rs : List (Site K)) (s : Site K)
    (hchain : ChainHerm g 0 (ls ++ s :: rs))
    (hb0 : ∀ l, l < g.bd 0 → ∑ l' ∈ range (g.bd 0), g.Gi 0 l' l = 1)
    (hbn : ∀ r, r < g.bd (ls.length + 1 + rs.length) →
      ∑ r' ∈ range (g.bd (ls.length + 1 + rs.length)), g.G (ls.length + 1 + rs.length) r r' = 1)
    (row col : ℕ) :
    star (denseHeffSite s.d (leftEnvChain star idEnv ls) (rightEnvChain star idEnv rs) s.W row col) =
      denseHeffSite s.d (leftEnvChain star idEnv ls) (rightEnvChain star idEnv rs) s.W col row := by
  obtain ⟨hls, hs, hrs⟩ : ChainHerm g 0 ls ∧ HermSiteG g (0 + ls.length) s ∧ ChainHerm g (0 + ls.length + 1) rs := by
    have := (chainHerm_append g ls (s :: rs) 0).mp hchain
    exact ⟨this.1, this.2.1, this.2.2⟩
  obtain ⟨_, ha, hb, hl, hr, hW⟩ := hs
  have hL := leftEnvChain_herm g hg ls 0 hls idEnv (idEnv_leftHerm _ _ hb0)
  have hR := rightEnvChain_herm g hg rs (0 + ls.length + 1) hrs idEnv
    (idEnv_rightHerm _ _ (by simpa [Nat.add_assoc] using hbn))
  exact heff_hermitian s.d ha hb (g.G (0 + ls.length)) (g.Gi (0 + ls.length)) (g.G (0 + ls.length + 1))
    (g.Gi (0 + ls.length + 1)) (hl ▸ hg _) (hr ▸ hg _) _ _ s.W (hl ▸ hr ▸ hW) (hl ▸ hL) (hr ▸ hR) row col

/-- **C19.6 `heff_bond_hermitian_chain`** the zero-site problem between the sites `ls` and `rs` of such a chain
    (`update_bond(left_blocks[i+1], right_blocks[i], …)`). -/
theorem heff_bond_hermitian_chain {K : Type*} [CommSemiring K] [StarRing K] (g : BondGauge K)
    (hg : ∀ k, GaugeInv (g.bd k) (g.G k) (g.Gi k)) (ls rs : List (Site K)) (e : BondDims)
    (hvw : e.v = e.w) (hm : e.m = g.bd ls.length)
    (hchain : ChainHerm g 0 (ls ++ rs))
    (hb0 : ∀ l, l < g.bd 0 → ∑ l' ∈ range (g.bd 0), g.Gi 0 l' l = 1)
    (hbn : ∀ r, r < g.bd (ls.length + rs.length) →
      ∑ r' ∈ range (g.bd (ls.length + rs.length)), g.G (ls.length + rs.length) r r' = 1)
    (row col : ℕ) :
    star (denseHeffBond e (leftEnvChain star idEnv ls) (rightEnvChain star idEnv rs) row col) =
      denseHeffBond e (leftEnvChain star idEnv ls) (rightEnvChain star idEnv rs) col row := by
  obtain ⟨hls, hrs⟩ := (chainHerm_append g ls rs 0).mp hchain
  have hL := leftEnvChain_herm g hg ls 0 hls idEnv (idEnv_leftHerm _ _ hb0)
  have hR := rightEnvChain_herm g hg rs (0 + ls.length) hrs idEnv (idEnv_rightHerm _ _ (by simpa using hbn))
  simp only [Nat.zero_add] at hL hR
  unfold denseHeffBond
  rw [h4_herm e (g.G ls.length) (g.Gi ls.length) (hm ▸ hg _) _ _ (hm ▸ hL) (hm ▸ hR), hvw]

/-- **C19.6 `env_update_assoc`** the environment contractions are associative.
    (i) Updating site by site over `xs ++ ys` is updating over the block `xs` and then over the block `ys` (left), resp.
        `ys` then `xs` (right) — `left_blocks[i+1]` depends on the sites to its left only through `left_blocks[i]`.
    (ii) For a chain `s :: rest` with matching bond dimensions, absorbing it into the left block `L0` and pairing with any
        right block `F` (`Σ E[i,j,k]·F[i,j,k]`) equals pairing `L0` with `F` after absorbing the chain from the right: the
        site-by-site left contraction (`update_left_environment`) and the site-by-site right contraction
        (`update_right_environment`) evaluate the same network.
    (iii) Hence the value `⟨left_blocks[k], right_blocks[k-1]⟩` of the network `⟨ψ|H|ψ⟩` cut at bond `k` is the same for
        every `k`: it always equals the boundary block paired with the chain fully contracted from the right. -/
theorem env_update_assoc {K : Type*} [CommSemiring K] (cj : K → K) :
    (∀ (L0 : ℕ → ℕ → ℕ → K) (xs ys : List (Site K)),
        leftEnvChain cj L0 (xs ++ ys) = leftEnvChain cj (leftEnvChain cj L0 xs) ys) ∧
    (∀ (R0 : ℕ → ℕ → ℕ → K) (xs ys : List (Site K)),
        rightEnvChain cj R0 (xs ++ ys) = rightEnvChain cj (rightEnvChain cj R0 ys) xs) ∧
    (∀ (s : Site K) (rest : List (Site K)), ChainDims (s :: rest) → ∀ (L0 F : ℕ → ℕ → ℕ → K),
        pair3 (lastSite s rest).d.b (lastSite s rest).d.r (lastSite s rest).d.bb (leftEnvChain cj L0 (s :: rest)) F =
          pair3 s.d.a s.d.l s.d.aa L0 (rightEnvChain cj F (s :: rest))) ∧
    (∀ (s : Site K) (rest ys : List (Site K)), ChainDims (s :: rest) → ∀ (L0 R0 : ℕ → ℕ → ℕ → K),
        pair3 (lastSite s rest).d.b (lastSite s rest).d.r (lastSite s rest).d.bb
            (leftEnvChain cj L0 (s :: rest)) (rightEnvChain cj R0 ys) =
          pair3 s.d.a s.d.l s.d.aa L0 (rightEnvChain cj R0 ((s :: rest) ++ ys))) := by
  refine ⟨leftEnvChain_append cj, rightEnvChain_append cj, fun s rest hd L0 F => env_pair_chain cj s rest hd L0 F, ?_⟩
  intro s rest ys hd L0 R0
  rw [rightEnvChain_append cj R0 (s :: rest) ys]
  exact env_pair_chain cj s rest hd L0 _

/-- a concrete two-site chain over ℚ(i) with bond dimensions 1–2–1 (MPO bonds 1–2–1): the left and the right
    contraction give the same non-zero number -/
example :
    let s1 : Site CRat := ⟨⟨2, 2, 1, 1, 2, 2, 1, 2⟩, fun p a b => ⟨(p + b + 1 : ℕ), (a + b : ℕ)⟩,
      fun o p _ r => ⟨(o + p + r : ℕ), (o : ℤ) - p⟩⟩
    let s2 : Site CRat := ⟨⟨2, 2, 2, 2, 1, 1, 2, 1⟩, fun p a b => ⟨(p + 2 * a : ℕ), (1 + b : ℕ)⟩,
      fun o p l _ => ⟨(o + p + l : ℕ), (p : ℤ) - o⟩⟩
    ChainDims [s1, s2] ∧
    pair3 1 1 1 (leftEnvChain CRat.conj idEnv [s1, s2]) idEnv = pair3 1 1 1 idEnv (rightEnvChain CRat.conj idEnv [s1, s2]) ∧
    pair3 1 1 1 (leftEnvChain CRat.conj idEnv [s1, s2]) idEnv ≠ 0 := by
  intro s1 s2
  refine ⟨⟨rfl, rfl, rfl, trivial⟩, ?_, ?_⟩ <;> decide +kernel

/-- non-vacuity of the hypotheses: a genuinely complex MPO tensor that is Hermitian entry by entry (entries
    `(o+p) + i(o-p)`, identity gauge) and a three-site chain of it meeting `ChainHerm` with the boundary conditions -/
example : ∃ (g : BondGauge CRat) (s : Site CRat), (∀ k, GaugeInv (g.bd k) (g.G k) (g.Gi k)) ∧
    ChainHerm g 0 ([s] ++ s :: [s]) ∧ s.W 0 1 0 0 ≠ s.W 1 0 0 0 ∧
    (∀ l, l < g.bd 0 → ∑ l' ∈ range (g.bd 0), g.Gi 0 l' l = 1) ∧
    (∀ r, r < g.bd 3 → ∑ r' ∈ range (g.bd 3), g.G 3 r r' = 1) := by
  refine ⟨⟨fun _ => 1, fun _ => gaugeOne, fun _ => gaugeOne⟩,
    ⟨⟨2, 2, 2, 2, 2, 2, 1, 1⟩, fun p a b => ⟨(p : ℚ) + a, (b : ℚ)⟩, fun o p _ _ => ⟨(o : ℚ) + p, (o : ℚ) - p⟩⟩,
    fun _ => gaugeInv_one 1, ?_, by decide +kernel, ?_, ?_⟩
  · have hs : ∀ k, HermSiteG (⟨fun _ => 1, fun _ => gaugeOne, fun _ => gaugeOne⟩ : BondGauge CRat) k
        ⟨⟨2, 2, 2, 2, 2, 2, 1, 1⟩, fun p a b => ⟨(p : ℚ) + a, (b : ℚ)⟩, fun o p _ _ => ⟨(o : ℚ) + p, (o : ℚ) - p⟩⟩ := by
      intro k
      refine ⟨rfl, rfl, rfl, rfl, rfl, ?_⟩
      intro o p l r hl hr
      change l < 1 at hl
      change r < 1 at hr
      have hl0 : l = 0 := by omega
      have hr0 : r = 0 := by omega
      subst hl0 hr0
      simp only [Finset.range_one, Finset.sum_singleton, gaugeOne, if_true, one_mul, mul_one]
      apply CRat.ext <;> simp
      ring
    exact ⟨hs 0, hs 1, hs 2, trivial⟩
  · intro l hl
    change l < 1 at hl
    have hl0 : l = 0 := by omega
    subst hl0
    simp [gaugeOne]
  · intro r hr
    change r < 1 at hr
    have hr0 : r = 0 := by omega
    subst hr0
    simp [gaugeOne]

/-- a non-identity gauge: `G = G⁻¹ = diag(1, −1)` on a bond of dimension 2 makes an MPO tensor with an anti-Hermitian
    off-diagonal entry (`W[·,·,0,1]* = −W[·,·,0,1]ᵀ`, as SVD compression produces them) meet `OpHermG`, while it is not
    Hermitian entry by entry -/
example : ∃ (G : ℕ → ℕ → CRat) (W : ℕ → ℕ → ℕ → ℕ → CRat), GaugeInv 2 G G ∧ OpHermG 2 2 G G W ∧
    ¬ OpHermG 2 2 gaugeOne gaugeOne W := by
  refine ⟨fun i j => if i = j then (if i = 1 then -1 else 1) else 0,
    fun o p l r => if l = r then ⟨(o : ℚ) + p, (o : ℚ) - p⟩ else if l = 0 ∧ r = 1 then ⟨(o : ℚ) - p, (o : ℚ) + p⟩ else 0,
    ?_, ?_, ?_⟩
  · intro i j hi hj
    have hi' : i = 0 ∨ i = 1 := by omega
    have hj' : j = 0 ∨ j = 1 := by omega
    rcases hi' with h | h <;> rcases hj' with h' | h' <;> subst h h' <;> decide +kernel
  · intro o p l r hl hr
    have hl' : l = 0 ∨ l = 1 := by omega
    have hr' : r = 0 ∨ r = 1 := by omega
    rcases hl' with h | h <;> rcases hr' with h' | h' <;> subst h h' <;>
      simp [Finset.sum_range_succ] <;> apply CRat.ext <;> simp <;> ring
  · intro h
    have := h 1 0 0 1 (by omega) (by omega)
    revert this
    simp [Finset.sum_range_succ, gaugeOne]
    decide +kernel

end Yaqs.Heff


/-! ## 7. the Lanczos iteration of `expm_krylov`: `Vᴴ V = 1` and `Vᴴ A V = T` (x19 extension)

  `expm_krylov` runs the plain three-term recurrence — `w = A v_j`, `alpha[j] = Re⟨v_j, w⟩`, `w −= alpha[j] v_j`,
  `w −= beta[j-1] v_{j-1}`, `beta[j] = ‖w‖`, `v_{j+1} = w / beta[j]` — **without** re-orthogonalisation (neither the pure
  Python branch nor `lanczos_numba.orthogonalize_step` projects against earlier vectors).  `LanczosRun A v α β m`
  (`Lemmas/LanczosH.lean`) states exactly these relations for the `m` vectors built before an exit; in exact arithmetic
  they already force orthonormality.  (In floating point orthogonality degrades as Ritz values converge; the spec tie
  `basis` of the harness measures it on every run.) -/
namespace Yaqs.Krylov

open Matrix

/-- **C19.5 `lanczos_projection`** (full form of `lanczos_tridiagonal`).  For a Hermitian `A` over any field with an
    involution (ℂ, or ℝ/ℚ with the trivial one), real `alpha`, `beta`, and `m` vectors produced by the recurrence of
    `expm_krylov` without breakdown (`beta[j] ≠ 0` for `j < m-1`): the matrix `V = [v_0 … v_{m-1}]` has orthonormal
    columns and `Vᴴ A V` is the tridiagonal matrix with `alpha` on the diagonal and `beta` beside it — the matrix the
    code hands to `eigh_tridiagonal`.  This discharges the hypothesis `hV` of `krylov_isometry` in exact arithmetic. -/
theorem lanczos_projection {n K : Type*} [Fintype n] [Field K] [StarRing K] (A : Matrix n n K) (hA : Aᴴ = A)
    (v : ℕ → n → K) (α β : ℕ → K) (m : ℕ) (h : LanczosRun A v α β m) :
    (Matrix.of fun (x : n) (i : Fin m) => v i x)ᴴ * (Matrix.of fun (x : n) (i : Fin m) => v i x) = 1 ∧
    (Matrix.of fun (x : n) (i : Fin m) => v i x)ᴴ * A * (Matrix.of fun (x : n) (i : Fin m) => v i x) =
      Matrix.of fun (i j : Fin m) => tri α β i j := by
  constructor
  · ext i j
    have e := lanczosH_orthonormal A hA v α β m h i j i.2 j.2
    rw [Matrix.mul_apply, Matrix.one_apply]
    simp only [Matrix.conjTranspose_apply, Matrix.of_apply, Fin.ext_iff]
    exact e
  · ext i j
    have e := lanczosH_tri A hA v α β m h i j i.2 j.2
    rw [Matrix.mul_assoc, Matrix.mul_apply]
    simp only [Matrix.conjTranspose_apply, Matrix.of_apply]
    exact e

/-- entrywise form, and the diagonal entries `⟨v_j, A v_j⟩` are real — so taking `.real` in
    `alpha[j] = np.vdot(vj, w).real` discards nothing for a Hermitian operator -/
theorem lanczos_entries {n K : Type*} [Fintype n] [Field K] [StarRing K] (A : Matrix n n K) (hA : Aᴴ = A)
    (v : ℕ → n → K) (α β : ℕ → K) (m : ℕ) (h : LanczosRun A v α β m) :
    (∀ i j, i < m → j < m → ip (v i) (v j) = if i = j then 1 else 0) ∧
    (∀ i j, i < m → j < m → ip (v i) (A *ᵥ v j) = tri α β i j) ∧
    (∀ x : n → K, star (ip x (A *ᵥ x)) = ip x (A *ᵥ x)) :=
  ⟨lanczosH_orthonormal A hA v α β m h, lanczosH_tri A hA v α β m h,
   fun x => by rw [← ip_conj, ip_herm A hA]⟩

/-- non-vacuity: `A = [[2,1],[1,3]]`, `v₀ = e₁`, `v₁ = e₂`, `alpha = (2, 3)`, `beta₀ = 1` is a run with `m = 2` -/
example : LanczosRun (!![2, 1; 1, 3] : Matrix (Fin 2) (Fin 2) ℚ)
    (fun j => match j with | 0 => ![1, 0] | 1 => ![0, 1] | _ => 0)
    (fun j => match j with | 0 => 2 | 1 => 3 | _ => 0) (fun j => match j with | 0 => 1 | _ => 0) 2 where
  first := fun _ => by decide +kernel
  step := fun j hj => by omega
  alpha := fun j hj => by
    match j with
    | 0 => decide +kernel
    | 1 => decide +kernel
  unit := fun j hj => by
    match j with
    | 0 => decide +kernel
    | 1 => decide +kernel
  nobreak := fun j hj => by
    match j with
    | 0 => decide +kernel
  alpha_real := fun _ => rfl
  beta_real := fun _ => rfl

/-- non-vacuity over ℂ with a genuinely complex Hermitian matrix: `A = [[2, i], [−i, 3]]`, `v₀ = e₁`, `v₁ = −i e₂` -/
example : (!![2, Complex.I; -Complex.I, 3] : Matrix (Fin 2) (Fin 2) ℂ)ᴴ = !![2, Complex.I; -Complex.I, 3] ∧
    LanczosRun (!![2, Complex.I; -Complex.I, 3] : Matrix (Fin 2) (Fin 2) ℂ)
      (fun j => match j with | 0 => ![1, 0] | 1 => ![0, -Complex.I] | _ => 0)
      (fun j => match j with | 0 => 2 | 1 => 3 | _ => 0) (fun j => match j with | 0 => 1 | _ => 0) 2 := by
  refine ⟨?_, ⟨?_, ?_, ?_, ?_, ?_, ?_, ?_⟩⟩
  · ext i j; fin_cases i <;> fin_cases j <;> simp [Matrix.conjTranspose_apply]
  · intro _; ext i; fin_cases i <;> simp
  · intro j hj; omega
  · intro j hj
    match j with
    | 0 => simp [ip, Matrix.mulVec, dotProduct, Fin.sum_univ_succ]
    | 1 =>
      simp [ip, Matrix.mulVec, dotProduct, Fin.sum_univ_succ]
      linear_combination (3 : ℂ) * Complex.I_mul_I
  · intro j hj
    match j with
    | 0 => simp [ip, dotProduct, Fin.sum_univ_succ]
    | 1 => simp [ip, dotProduct, Fin.sum_univ_succ]
  · intro j hj
    match j with
    | 0 => simp
  · intro j
    match j with
    | 0 => simp
    | 1 => simp
    | j + 2 => simp
  · intro j
    match j with
    | 0 => simp
    | j + 1 => simp

end Yaqs.Krylov


/-! ## 8. polynomial exactness of the Krylov basis and an a-priori accuracy bound (xp19 extension)

  The accuracy clause of the property ("returns `exp(-i dt A) v` to high accuracy … whenever the spectral width times `|dt|`
  is moderate") was only cited (Hochbruck–Lubich).  This section proves a genuine — weaker, but explicit — a-priori bound:

  * `krylov_poly_exact`: the `m` Lanczos vectors of `expm_krylov` reproduce `p(A) v` exactly for every polynomial of degree
    `< m` through the reconstruction the code uses (`V p(T) e₁`); `arnoldi_poly_exact` the same for `expm_arnoldi`.
  * `krylov_error_identity` / `krylov_error_bound`: subtracting the Taylor polynomial of degree `m − 1` on both sides leaves the two
    Taylor remainders, each bounded by the tail `tail_m(x) = Σ_{j ≥ m} x^j / j!` of the exponential series:
        `‖exp(−iτA) vec − ‖vec‖ · V exp(−iτT) e₁‖₂ ≤ ‖vec‖ · (tail_m(|τ|‖A‖₂) + tail_m(|τ|‖T‖₂)) ≤ 2 ‖vec‖ · tail_m(|τ|‖A‖₂)`.
  * `krylov_error_bound_code`: the same for the spectral formula `V Q diag(e^{−iτλ}) Qᴴ e₁` of `_compute_krylov_result`.
  * `krylov_error_default`: `|τ|‖A‖₂ ≤ 2`, `m = 25` (the default `max_lanczos_iterations`): error `≤ 4·10⁻¹⁷ ‖vec‖`.
  * `lanczos_shift_invariant` / `krylov_error_bound_shift` / `krylov_error_default_width`: the loop and the error are invariant under real shifts
    `A ↦ A − c·1`, so `‖A‖` may be replaced by `‖A − c·1‖` for any real `c` — half the spectral width for the midpoint.
  * `arnoldi_error_bound`: the same two-remainder argument for `expm_arnoldi` (any matrix).

  Still cited, not proved: the sharper Hochbruck–Lubich bound (decay governed by a *quarter* of the spectral width instead of
  `‖A‖`), and everything about rounding (loss of orthogonality in floating point). -/
namespace Yaqs.Krylov

open Matrix
open scoped Matrix.Norms.L2Operator

/-- **C19.8 `krylov_poly_exact`** (accuracy clause, exact part).  For the `m` vectors of a run of the Lanczos loop of `expm_krylov`
    (`LanczosRun`: the three-term recurrence `A v_j = β_{j-1} v_{j-1} + α_j v_j + β_j v_{j+1}`, `j + 1 < m`) over any field with an
    involution and **every polynomial `p` of degree `< m`**: `p(A) (c • v_0) = c • V p(T) e₁` with `V = [v_0 … v_{m-1}]` and `T` the
    tridiagonal matrix of `alpha`, `beta` the code hands to `eigh_tridiagonal` — so if `f = p`, the reconstruction of
    `_compute_krylov_result` is exact.  Only the recurrence is used: neither `Aᴴ = A` nor orthogonality of the vectors
    (in floating point the recurrence holds to rounding error even after orthogonality is lost). -/
theorem krylov_poly_exact {n K : Type*} [Fintype n] [DecidableEq n] [Field K] [StarRing K] (A : Matrix n n K)
    (v : ℕ → n → K) (α β : ℕ → K) (m : ℕ) (h : LanczosRun A v α β m) (p : Polynomial K) (hp : p.natDegree < m) (c : K) :
    (Polynomial.aeval A p) *ᵥ (c • v 0) =
      c • ((Matrix.of fun (x : n) (i : Fin m) => v i x) *ᵥ
        ((Polynomial.aeval (Matrix.of fun (i j : Fin m) => tri α β i j) p) *ᵥ
          Pi.single (⟨0, Nat.lt_of_le_of_lt (Nat.zero_le _) hp⟩ : Fin m) (1 : K))) := by
  have hm : 0 < m := Nat.lt_of_le_of_lt (Nat.zero_le _) hp
  have key := krylov_aeval A (basisMat v m) (triMat α β m) (triMat_hess α β m) (lanczos_col A v α β m h) hm p hp
  rw [basisMat_single] at key
  rw [mulVec_smul, key]
  rfl

/-- **C19.8 `krylov_powers_exact`** the same for explicit sums `Σ_{k<N} c_k A^k`, `N ≤ m` — the Taylor partial sums of
    `exp(-i dt A)` up to degree `m − 1` are reproduced exactly by the small problem. -/
theorem krylov_powers_exact {n K : Type*} [Fintype n] [DecidableEq n] [Field K] [StarRing K] (A : Matrix n n K)
    (v : ℕ → n → K) (α β : ℕ → K) (m : ℕ) (hm : 0 < m) (h : LanczosRun A v α β m) (c : ℕ → K) (N : ℕ) (hN : N ≤ m) :
    (∑ k ∈ Finset.range N, c k • A ^ k) *ᵥ v 0 =
      (Matrix.of fun (x : n) (i : Fin m) => v i x) *ᵥ
        ((∑ k ∈ Finset.range N, c k • (Matrix.of fun (i j : Fin m) => tri α β i j) ^ k) *ᵥ
          Pi.single (⟨0, hm⟩ : Fin m) (1 : K)) := by
  have key := krylov_powers A (basisMat v m) (triMat α β m) (triMat_hess α β m) (lanczos_col A v α β m h) hm c N hN
  rw [basisMat_single] at key
  exact key

/-- **C19.8 `arnoldi_poly_exact`** (Arnoldi analogue, `expm_arnoldi`): if `A v_j = Σ_{i ≤ j+1} h[i,j] v_i` for `j + 1 < m` (what modified
    Gram–Schmidt produces), then `p(A) (c • v_0) = c • V p(H) e₁` for every polynomial of degree `< m`, `H = h[:m, :m]` upper
    Hessenberg — for any matrix `A`, Hermitian or not. -/
theorem arnoldi_poly_exact {n K : Type*} [Fintype n] [DecidableEq n] [CommRing K] (A : Matrix n n K)
    (v : ℕ → n → K) (hh : ℕ → ℕ → K) (m : ℕ) (h : ArnoldiRun A v hh m) (p : Polynomial K) (hp : p.natDegree < m) (c : K) :
    (Polynomial.aeval A p) *ᵥ (c • v 0) =
      c • ((Matrix.of fun (x : n) (i : Fin m) => v i x) *ᵥ
        ((Polynomial.aeval (Matrix.of fun (i j : Fin m) => if (i : ℕ) ≤ (j : ℕ) + 1 then hh i j else 0) p) *ᵥ
          Pi.single (⟨0, Nat.lt_of_le_of_lt (Nat.zero_le _) hp⟩ : Fin m) (1 : K))) := by
  have hm : 0 < m := Nat.lt_of_le_of_lt (Nat.zero_le _) hp
  have key := krylov_aeval A (Matrix.of fun (x : n) (i : Fin m) => v i x) (hessMat hh m) (hessMat_hess hh m)
    (arnoldi_col A v hh m h) hm p hp
  have h0 : (Matrix.of fun (x : n) (i : Fin m) => v i x) *ᵥ Pi.single (⟨0, hm⟩ : Fin m) (1 : K) = v 0 := by
    rw [mulVec_single_one]; rfl
  rw [h0] at key
  rw [mulVec_smul, key]
  rfl

/-- non-vacuity and sharpness: for `A = [[2,1],[1,3]]`, `v₀ = e₁` (the run of section 7 with `m = 2`) the degree-1 polynomial `X` is
    reproduced (`A v₀ = V T e₁ = (2, 1)`), while with `m = 1` vectors (`V = [e₁]`, `T = [2]`) the same polynomial — degree `= m` — is not:
    `A v₀ = (2, 1) ≠ (2, 0) = V T e₁`.  The bound `natDegree p < m` cannot be relaxed. -/
example :
    ((!![2, 1; 1, 3] : Matrix (Fin 2) (Fin 2) ℚ) *ᵥ ![1, 0] =
      (!![1, 0; 0, 1] : Matrix (Fin 2) (Fin 2) ℚ) *ᵥ ((!![2, 1; 1, 3] : Matrix (Fin 2) (Fin 2) ℚ) *ᵥ ![1, 0])) ∧
    ((!![2, 1; 1, 3] : Matrix (Fin 2) (Fin 2) ℚ) *ᵥ ![1, 0] ≠
      (!![1; 0] : Matrix (Fin 2) (Fin 1) ℚ) *ᵥ ((!![2] : Matrix (Fin 1) (Fin 1) ℚ) *ᵥ ![1])) := by
  constructor <;> decide +kernel

/-- an `ArnoldiRun` exists for a non-symmetric matrix: `A = [[1,2],[3,4]]`, `v₀ = e₁`, `v₁ = e₂`, `h = [[1, 2], [3, 4]]`, `m = 2` -/
example : ArnoldiRun (!![1, 2; 3, 4] : Matrix (Fin 2) (Fin 2) ℚ)
    (fun j => match j with | 0 => ![1, 0] | 1 => ![0, 1] | _ => 0)
    (fun i j => match i, j with | 0, 0 => 1 | 1, 0 => 3 | 0, 1 => 2 | 1, 1 => 4 | _, _ => 0) 2 where
  step := fun j hj => by
    match j with
    | 0 => decide +kernel

/-- **C19.8 `exp_tail_closed_form`** the tail `tail_m(x) = Σ_{j ≥ m} x^j / j!` the bounds below are stated with: it equals
    `e^x − Σ_{j<m} x^j / j!`, is non-negative and monotone on `x ≥ 0`, and is at most `x^m / m! · e^x` — for moderate `x` and `m = 25` it
    is tiny (`tail_25(2) ≤ 2·10⁻¹⁷`). -/
theorem exp_tail_closed_form (m : ℕ) (x : ℝ) (hx : 0 ≤ x) :
    expTail m x = Real.exp x - ∑ j ∈ Finset.range m, x ^ j / (j.factorial : ℝ) ∧
    0 ≤ expTail m x ∧ (∀ y, x ≤ y → expTail m x ≤ expTail m y) ∧
    expTail m x ≤ x ^ m / (m.factorial : ℝ) * Real.exp x ∧
    (x ≤ 2 → expTail 25 x ≤ 2 / 10 ^ 17) :=
  ⟨expTail_eq m x, expTail_nonneg m hx, fun _ hy => expTail_mono m hx hy, expTail_le m hx, expTail_25_2 hx⟩

/-- **C19.8 `krylov_error_identity`** (the algebraic error identity).  For a Lanczos run with `m ≥ 1` vectors over ℂ and every complex
    step `z` (the code: `z = −i·dt`): the error of the Krylov approximation is the difference of the two Taylor remainders of order
    `m` — `exp(zA) v₀ − V exp(zT) e₁ = R_m(zA) v₀ − V R_m(zT) e₁`, `R_m(X) = exp X − Σ_{j<m} X^j / j!` — because the Taylor polynomials
    agree (`krylov_powers_exact`). -/
theorem krylov_error_identity {n : Type*} [Fintype n] [DecidableEq n] (A : Matrix n n ℂ) (hA : Aᴴ = A)
    (v : ℕ → n → ℂ) (α β : ℕ → ℂ) (m : ℕ) (hm : 0 < m) (h : LanczosRun A v α β m) (z : ℂ) :
    NormedSpace.exp (z • A) *ᵥ v 0 -
        (Matrix.of fun (x : n) (i : Fin m) => v i x) *ᵥ
          (NormedSpace.exp (z • (Matrix.of fun (i j : Fin m) => tri α β i j)) *ᵥ Pi.single (⟨0, hm⟩ : Fin m) (1 : ℂ)) =
      (NormedSpace.exp (z • A) - ∑ j ∈ Finset.range m, ((j.factorial : ℂ)⁻¹) • (z • A) ^ j) *ᵥ v 0 -
        (Matrix.of fun (x : n) (i : Fin m) => v i x) *ᵥ
          ((NormedSpace.exp (z • (Matrix.of fun (i j : Fin m) => tri α β i j)) -
            ∑ j ∈ Finset.range m, ((j.factorial : ℂ)⁻¹) • (z • (Matrix.of fun (i j : Fin m) => tri α β i j)) ^ j) *ᵥ
              Pi.single (⟨0, hm⟩ : Fin m) (1 : ℂ)) := by
  have key := (krylov_exp_bound A (basisMat v m) (triMat α β m) (triMat_hess α β m) (lanczos_col A v α β m h) hm
    (basis_gram A hA v α β m h) z).1
  rw [basisMat_single] at key
  exact key

/-- **C19.8 `krylov_error_bound`** (accuracy clause — a genuine a-priori bound).  Hermitian `A`, a run of the Lanczos loop of
    `expm_krylov` with `m ≥ 1` vectors started from `vec = nrm • v₀` (`v₀` unit, `nrm = ‖vec‖`), real `τ = dt` of either sign.  In the
    Euclidean norm, with `‖·‖` the spectral norm:
      (1) `‖exp(−iτA) vec − nrm • V exp(−iτT) e₁‖ ≤ |nrm| · (tail_m(|τ|‖A‖) + tail_m(|τ|‖T‖))`,
      (2) `‖T‖ ≤ ‖A‖`,
      (3) hence `… ≤ |nrm| · 2 · tail_m(|τ|‖A‖)` — a bound in terms of the input alone: whenever `|τ|·‖A‖` is moderate and `m` is the
          default 25, the error is far below rounding (`krylov_error_default`).
    Weaker than Hochbruck–Lubich (which has `ρ = width/4` in place of `‖A‖`), but of the shape the property asks for. -/
theorem krylov_error_bound {n : Type*} [Fintype n] [DecidableEq n] (A : Matrix n n ℂ) (hA : Aᴴ = A)
    (v : ℕ → n → ℂ) (α β : ℕ → ℂ) (m : ℕ) (hm : 0 < m) (h : LanczosRun A v α β m) (τ nrm : ℝ) :
    ‖(WithLp.toLp 2
        (NormedSpace.exp ((-(Complex.I * (τ : ℂ))) • A) *ᵥ ((nrm : ℂ) • v 0) -
          (nrm : ℂ) • ((Matrix.of fun (x : n) (i : Fin m) => v i x) *ᵥ
            (NormedSpace.exp ((-(Complex.I * (τ : ℂ))) • (Matrix.of fun (i j : Fin m) => tri α β i j)) *ᵥ
              Pi.single (⟨0, hm⟩ : Fin m) (1 : ℂ)))) : EuclideanSpace ℂ n)‖ ≤
        |nrm| * (expTail m (|τ| * ‖A‖) + expTail m (|τ| * ‖(Matrix.of fun (i j : Fin m) => tri α β i j : Matrix _ _ ℂ)‖)) ∧
    ‖(Matrix.of fun (i j : Fin m) => tri α β i j : Matrix _ _ ℂ)‖ ≤ ‖A‖ ∧
    ‖(WithLp.toLp 2
        (NormedSpace.exp ((-(Complex.I * (τ : ℂ))) • A) *ᵥ ((nrm : ℂ) • v 0) -
          (nrm : ℂ) • ((Matrix.of fun (x : n) (i : Fin m) => v i x) *ᵥ
            (NormedSpace.exp ((-(Complex.I * (τ : ℂ))) • (Matrix.of fun (i j : Fin m) => tri α β i j)) *ᵥ
              Pi.single (⟨0, hm⟩ : Fin m) (1 : ℂ)))) : EuclideanSpace ℂ n)‖ ≤
        |nrm| * (2 * expTail m (|τ| * ‖A‖)) := by
  have h1 := lanczos_exp_bound A hA v α β m hm h (-(Complex.I * (τ : ℂ))) (nrm : ℂ)
  have h2 := lanczos_exp_bound' A hA v α β m hm h (-(Complex.I * (τ : ℂ))) (nrm : ℂ)
  rw [norm_neg_I_mul, Complex.norm_real, Real.norm_eq_abs] at h1 h2
  exact ⟨h1, triMat_norm_le A hA v α β m h, h2⟩

/-- **C19.8 `krylov_error_bound_code`** the same bound for the vector `_compute_krylov_result` actually returns:
    `nrm • V (Q diag(e^{−iτλ}) Qᴴ) e₁` with `T = Q diag(λ) Qᴴ`, `Q` unitary (the output of `eigh_tridiagonal`; spec-tied each run). -/
theorem krylov_error_bound_code {n : Type*} [Fintype n] [DecidableEq n] (A : Matrix n n ℂ) (hA : Aᴴ = A)
    (v : ℕ → n → ℂ) (α β : ℕ → ℂ) (m : ℕ) (hm : 0 < m) (h : LanczosRun A v α β m) (τ nrm : ℝ)
    (Q : Matrix (Fin m) (Fin m) ℂ) (lam : Fin m → ℂ) (hQ : Qᴴ * Q = 1)
    (hT : (Matrix.of fun (i j : Fin m) => tri α β i j) = Q * diagonal lam * Qᴴ) :
    ‖(WithLp.toLp 2
        (NormedSpace.exp ((-(Complex.I * (τ : ℂ))) • A) *ᵥ ((nrm : ℂ) • v 0) -
          (nrm : ℂ) • ((Matrix.of fun (x : n) (i : Fin m) => v i x) *ᵥ
            ((Q * diagonal (fun i => Complex.exp (-(Complex.I * (τ : ℂ)) * lam i)) * Qᴴ) *ᵥ
              Pi.single (⟨0, hm⟩ : Fin m) (1 : ℂ)))) : EuclideanSpace ℂ n)‖ ≤
        |nrm| * (2 * expTail m (|τ| * ‖A‖)) := by
  have h3 := (krylov_error_bound A hA v α β m hm h τ nrm).2.2
  rw [hT, exp_spectral Q hQ lam] at h3
  exact h3

/-- **C19.8 `krylov_error_default`** (numeric instance of the accuracy clause).  With the default `max_lanczos_iterations = 25` vectors
    and `|dt|·‖A‖₂ ≤ 2` the Krylov approximation differs from `exp(−i dt A) vec` by at most `4·10⁻¹⁷ ‖vec‖` — below binary64 rounding. -/
theorem krylov_error_default {n : Type*} [Fintype n] [DecidableEq n] (A : Matrix n n ℂ) (hA : Aᴴ = A)
    (v : ℕ → n → ℂ) (α β : ℕ → ℂ) (h : LanczosRun A v α β 25) (τ nrm : ℝ) (hτ : |τ| * ‖A‖ ≤ 2) :
    ‖(WithLp.toLp 2
        (NormedSpace.exp ((-(Complex.I * (τ : ℂ))) • A) *ᵥ ((nrm : ℂ) • v 0) -
          (nrm : ℂ) • ((Matrix.of fun (x : n) (i : Fin 25) => v i x) *ᵥ
            (NormedSpace.exp ((-(Complex.I * (τ : ℂ))) • (Matrix.of fun (i j : Fin 25) => tri α β i j)) *ᵥ
              Pi.single (⟨0, by norm_num⟩ : Fin 25) (1 : ℂ)))) : EuclideanSpace ℂ n)‖ ≤ |nrm| * (4 / 10 ^ 17) := by
  refine (krylov_error_bound A hA v α β 25 (by norm_num) h τ nrm).2.2.trans ?_
  refine mul_le_mul_of_nonneg_left ?_ (abs_nonneg _)
  have := expTail_25_2 (mul_nonneg (abs_nonneg τ) (norm_nonneg A)) hτ
  linarith

/-- **C19.8 `arnoldi_error_bound`** (Arnoldi analogue, any matrix `A`).  Orthonormal `V = [v_0 … v_{m-1}]`, `H = Vᴴ A V` upper Hessenberg with
    `A V = V H` on all columns but the last (the relations `expm_arnoldi` builds): for every complex step `z`
    `‖exp(zA) (c • v₀) − c • V exp(zH) e₁‖ ≤ |c| · 2 · tail_m(|z|‖A‖)`. -/
theorem arnoldi_error_bound {n : Type*} [Fintype n] [DecidableEq n] {m : ℕ} (A : Matrix n n ℂ) (V : Matrix n (Fin m) ℂ)
    (H : Matrix (Fin m) (Fin m) ℂ) (hm : 0 < m) (hV : Vᴴ * V = 1) (hH : H = Vᴴ * A * V)
    (hess : ∀ i j : Fin m, (j : ℕ) + 1 < (i : ℕ) → H i j = 0)
    (hcol : ∀ j : Fin m, (j : ℕ) + 1 < m → ∀ r, (A * V) r j = (V * H) r j) (z c : ℂ) :
    ‖(WithLp.toLp 2
        (NormedSpace.exp (z • A) *ᵥ (c • (V *ᵥ Pi.single (⟨0, hm⟩ : Fin m) (1 : ℂ))) -
          c • (V *ᵥ (NormedSpace.exp (z • H) *ᵥ Pi.single (⟨0, hm⟩ : Fin m) (1 : ℂ)))) : EuclideanSpace ℂ n)‖ ≤
      ‖c‖ * (2 * expTail m (‖z‖ * ‖A‖)) := by
  have hb := (krylov_exp_bound A V H hess hcol hm hV z).2
  have hHA : ‖H‖ ≤ ‖A‖ := by rw [hH]; exact l2norm_proj_le A V hV
  have hmono := expTail_mono m (mul_nonneg (norm_nonneg z) (norm_nonneg H)) (mul_le_mul_of_nonneg_left hHA (norm_nonneg z))
  have he : enorm (NormedSpace.exp (z • A) *ᵥ (c • (V *ᵥ Pi.single (⟨0, hm⟩ : Fin m) (1 : ℂ))) -
      c • (V *ᵥ (NormedSpace.exp (z • H) *ᵥ Pi.single (⟨0, hm⟩ : Fin m) (1 : ℂ)))) ≤
      ‖c‖ * (2 * expTail m (‖z‖ * ‖A‖)) := by
    rw [mulVec_smul, ← smul_sub, enorm_smul]
    refine mul_le_mul_of_nonneg_left ?_ (norm_nonneg c)
    linarith
  exact he

/-- **C19.8 `lanczos_shift_invariant`** the Lanczos loop does not see a real shift of the operator: the run for `A − c·1` (`c` real) has the
    same vectors and the same `beta`, and `alpha − c` — over any field with an involution. -/
theorem lanczos_shift_invariant {n K : Type*} [Fintype n] [DecidableEq n] [Field K] [StarRing K] (A : Matrix n n K)
    (v : ℕ → n → K) (α β : ℕ → K) (m : ℕ) (h : LanczosRun A v α β m) (c : K) (hc : star c = c) :
    LanczosRun (A - c • (1 : Matrix n n K)) v (fun j => α j - c) β m ∧
    (Matrix.of fun (i j : Fin m) => tri (fun j => α j - c) β i j) =
      (Matrix.of fun (i j : Fin m) => tri α β i j) - c • (1 : Matrix (Fin m) (Fin m) K) :=
  ⟨lanczosRun_shift A v α β m h c hc, triMat_shift α β m c⟩

/-- **C19.8 `krylov_error_bound_shift`** (accuracy clause in terms of the spectral *width*).  Both `exp(−iτA) vec` and the Krylov
    approximation pick up the same unit-modulus phase when `A` is shifted by a real multiple of the identity, so the bound of
    `krylov_error_bound` holds with `‖A − c·1‖` for **every real `c`**:
        `‖exp(−iτA) vec − nrm • V exp(−iτT) e₁‖ ≤ |nrm| · 2 · tail_m(|τ| · ‖A − c·1‖)`.
    For `c` the midpoint of the spectrum, `‖A − c·1‖` is half the spectral width: the error is small "whenever the spectral width times `|dt|` is
    moderate", wherever the spectrum sits. -/
theorem krylov_error_bound_shift {n : Type*} [Fintype n] [DecidableEq n] (A : Matrix n n ℂ) (hA : Aᴴ = A)
    (v : ℕ → n → ℂ) (α β : ℕ → ℂ) (m : ℕ) (hm : 0 < m) (h : LanczosRun A v α β m) (τ nrm c : ℝ) :
    ‖(WithLp.toLp 2
        (NormedSpace.exp ((-(Complex.I * (τ : ℂ))) • A) *ᵥ ((nrm : ℂ) • v 0) -
          (nrm : ℂ) • ((Matrix.of fun (x : n) (i : Fin m) => v i x) *ᵥ
            (NormedSpace.exp ((-(Complex.I * (τ : ℂ))) • (Matrix.of fun (i j : Fin m) => tri α β i j)) *ᵥ
              Pi.single (⟨0, hm⟩ : Fin m) (1 : ℂ)))) : EuclideanSpace ℂ n)‖ ≤
        |nrm| * (2 * expTail m (|τ| * ‖A - (c : ℂ) • (1 : Matrix n n ℂ)‖)) := by
  have h1 := lanczos_exp_bound_shift A hA v α β m hm h τ c (nrm : ℂ)
  rw [Complex.norm_real, Real.norm_eq_abs] at h1
  exact h1

/-- **C19.8 `krylov_error_default_width`** numeric instance: 25 vectors and `|dt| · ‖A − c·1‖₂ ≤ 2` for some real `c` (spectral width
    times `|dt|` at most 4): error at most `4·10⁻¹⁷ ‖vec‖`. -/
theorem krylov_error_default_width {n : Type*} [Fintype n] [DecidableEq n] (A : Matrix n n ℂ) (hA : Aᴴ = A)
    (v : ℕ → n → ℂ) (α β : ℕ → ℂ) (h : LanczosRun A v α β 25) (τ nrm c : ℝ)
    (hτ : |τ| * ‖A - (c : ℂ) • (1 : Matrix n n ℂ)‖ ≤ 2) :
    ‖(WithLp.toLp 2
        (NormedSpace.exp ((-(Complex.I * (τ : ℂ))) • A) *ᵥ ((nrm : ℂ) • v 0) -
          (nrm : ℂ) • ((Matrix.of fun (x : n) (i : Fin 25) => v i x) *ᵥ
            (NormedSpace.exp ((-(Complex.I * (τ : ℂ))) • (Matrix.of fun (i j : Fin 25) => tri α β i j)) *ᵥ
              Pi.single (⟨0, by norm_num⟩ : Fin 25) (1 : ℂ)))) : EuclideanSpace ℂ n)‖ ≤ |nrm| * (4 / 10 ^ 17) := by
  refine (krylov_error_bound_shift A hA v α β 25 (by norm_num) h τ nrm c).trans ?_
  refine mul_le_mul_of_nonneg_left ?_ (abs_nonneg _)
  have := expTail_25_2 (mul_nonneg (abs_nonneg τ) (norm_nonneg _)) hτ
  linarith

/-- non-vacuity of the hypotheses of `krylov_error_bound`: a one-vector run (`A = [[2, i], [−i, 3]]`, `m = 1`: `V = [e₁]`, `T = [2]`, the
    result is `e^{−2iτ} e₁`) has error at most `2·tail_1(|τ|‖A‖) = 2(e^{|τ|‖A‖} − 1)` for every real `τ` -/
example (τ : ℝ) :
    ‖(WithLp.toLp 2
        (NormedSpace.exp ((-(Complex.I * (τ : ℂ))) • (!![2, Complex.I; -Complex.I, 3] : Matrix (Fin 2) (Fin 2) ℂ)) *ᵥ
            (((1 : ℝ) : ℂ) • ![1, 0]) -
          ((1 : ℝ) : ℂ) • ((Matrix.of fun (x : Fin 2) (_ : Fin 1) => (![1, 0] : Fin 2 → ℂ) x) *ᵥ
            (NormedSpace.exp ((-(Complex.I * (τ : ℂ))) •
                (Matrix.of fun (i j : Fin 1) => tri (fun _ => (2 : ℂ)) (fun _ => (0 : ℂ)) i j)) *ᵥ
              Pi.single (⟨0, Nat.one_pos⟩ : Fin 1) (1 : ℂ)))) : EuclideanSpace ℂ (Fin 2))‖ ≤
      |(1 : ℝ)| * (2 * expTail 1 (|τ| * ‖(!![2, Complex.I; -Complex.I, 3] : Matrix (Fin 2) (Fin 2) ℂ)‖)) := by
  have hA : (!![2, Complex.I; -Complex.I, 3] : Matrix (Fin 2) (Fin 2) ℂ)ᴴ = !![2, Complex.I; -Complex.I, 3] := by
    ext i j; fin_cases i <;> fin_cases j <;> simp [Matrix.conjTranspose_apply]
  have hrun : LanczosRun (!![2, Complex.I; -Complex.I, 3] : Matrix (Fin 2) (Fin 2) ℂ) (fun _ => ![1, 0])
      (fun _ => (2 : ℂ)) (fun _ => (0 : ℂ)) 1 := by
    refine ⟨fun h => absurd h (by omega), fun j hj => absurd hj (by omega), ?_, ?_, fun j hj => absurd hj (by omega), ?_, ?_⟩
    · intro j _; simp [ip, Matrix.mulVec, dotProduct, Fin.sum_univ_succ]
    · intro j _; simp [ip, dotProduct, Fin.sum_univ_succ]
    · intro j; simp
    · intro j; simp
  exact (krylov_error_bound _ hA _ _ _ 1 Nat.one_pos hrun τ 1).2.2

/-- … and the two-vector complex Hermitian run of section 7 (`v₀ = e₁`, `v₁ = −i e₂`, `alpha = (2, 3)`, `beta₀ = 1`) meets the hypotheses
    with `m = 2`: degree-1 polynomials are exact and the error is at most `2·tail_2(|τ|‖A‖)` -/
example (τ : ℝ) : ∃ (v : ℕ → Fin 2 → ℂ) (α β : ℕ → ℂ),
    v 0 = ![1, 0] ∧ LanczosRun (!![2, Complex.I; -Complex.I, 3] : Matrix (Fin 2) (Fin 2) ℂ) v α β 2 ∧
    ‖(WithLp.toLp 2
        (NormedSpace.exp ((-(Complex.I * (τ : ℂ))) • (!![2, Complex.I; -Complex.I, 3] : Matrix (Fin 2) (Fin 2) ℂ)) *ᵥ
            (((1 : ℝ) : ℂ) • v 0) -
          ((1 : ℝ) : ℂ) • ((Matrix.of fun (x : Fin 2) (i : Fin 2) => v i x) *ᵥ
            (NormedSpace.exp ((-(Complex.I * (τ : ℂ))) • (Matrix.of fun (i j : Fin 2) => tri α β i j)) *ᵥ
              Pi.single (⟨0, Nat.two_pos⟩ : Fin 2) (1 : ℂ)))) : EuclideanSpace ℂ (Fin 2))‖ ≤
      |(1 : ℝ)| * (2 * expTail 2 (|τ| * ‖(!![2, Complex.I; -Complex.I, 3] : Matrix (Fin 2) (Fin 2) ℂ)‖)) ∧
    -- … and, by `krylov_error_bound_shift`, with the norm of the operator shifted by any real `c` (e.g. `c = 5/2`, the midpoint)
    ∀ c : ℝ, ‖(WithLp.toLp 2
        (NormedSpace.exp ((-(Complex.I * (τ : ℂ))) • (!![2, Complex.I; -Complex.I, 3] : Matrix (Fin 2) (Fin 2) ℂ)) *ᵥ
            (((1 : ℝ) : ℂ) • v 0) -
          ((1 : ℝ) : ℂ) • ((Matrix.of fun (x : Fin 2) (i : Fin 2) => v i x) *ᵥ
            (NormedSpace.exp ((-(Complex.I * (τ : ℂ))) • (Matrix.of fun (i j : Fin 2) => tri α β i j)) *ᵥ
              Pi.single (⟨0, Nat.two_pos⟩ : Fin 2) (1 : ℂ)))) : EuclideanSpace ℂ (Fin 2))‖ ≤
      |(1 : ℝ)| * (2 * expTail 2 (|τ| * ‖(!![2, Complex.I; -Complex.I, 3] : Matrix (Fin 2) (Fin 2) ℂ) -
        (c : ℂ) • (1 : Matrix (Fin 2) (Fin 2) ℂ)‖)) := by
  have hA : (!![2, Complex.I; -Complex.I, 3] : Matrix (Fin 2) (Fin 2) ℂ)ᴴ = !![2, Complex.I; -Complex.I, 3] := by
    ext i j; fin_cases i <;> fin_cases j <;> simp [Matrix.conjTranspose_apply]
  have hrun : LanczosRun (!![2, Complex.I; -Complex.I, 3] : Matrix (Fin 2) (Fin 2) ℂ)
      (fun j => match j with | 0 => ![1, 0] | 1 => ![0, -Complex.I] | _ => 0)
      (fun j => match j with | 0 => 2 | 1 => 3 | _ => 0) (fun j => match j with | 0 => 1 | _ => 0) 2 := by
    refine ⟨?_, ?_, ?_, ?_, ?_, ?_, ?_⟩
    · intro _; ext i; fin_cases i <;> simp
    · intro j hj; omega
    · intro j hj
      match j with
      | 0 => simp [ip, Matrix.mulVec, dotProduct, Fin.sum_univ_succ]
      | 1 =>
        simp [ip, Matrix.mulVec, dotProduct, Fin.sum_univ_succ]
        linear_combination (3 : ℂ) * Complex.I_mul_I
    · intro j hj
      match j with
      | 0 => simp [ip, dotProduct, Fin.sum_univ_succ]
      | 1 => simp [ip, dotProduct, Fin.sum_univ_succ]
    · intro j hj
      match j with
      | 0 => simp
    · intro j
      match j with
      | 0 => simp
      | 1 => simp
      | j + 2 => simp
    · intro j
      match j with
      | 0 => simp
      | j + 1 => simp
  exact ⟨_, _, _, rfl, hrun, (krylov_error_bound _ hA _ _ _ 2 Nat.two_pos hrun τ 1).2.2,
    fun c => krylov_error_bound_shift _ hA _ _ _ 2 Nat.two_pos hrun τ 1 c⟩

end Yaqs.Krylov


/-! ## 9. the executable recurrences of the driver refine the relational specification (xp19 extension)

  `Driver/Krylov.lean` answers the requests `lanczosc` / `lanczosrat` (value ties `ratc` / `rat` of the harness: `alpha_j`, `beta_j²` of the
  real `expm_krylov` run on dyadic matrices) with `lanczosC` (`Model/LanczosH.lean`) and `lanczosRat` (`Model/Krylov.lean`).  The theorems of
  sections 5, 7 and 8 are about the relation `LanczosRun`.  This section links the two: what the executable loop returns *are* the
  coefficients of a `LanczosRun` for the matrix and the start vector it was given. -/
namespace Yaqs.Krylov

open Matrix

/-- **C19.9 `lanczosC_is_run`** (refinement).  Let `a` be an `n × n` list matrix over ℚ(i) that is Hermitian entry by entry, `v` a start
    vector of length `n`, and suppose `lanczosC a v m` ran `m` steps without an exact breakdown (it returned `m` values `alpha`).  Then,
    over ℂ, there is a run of the Lanczos loop of `expm_krylov` (`LanczosRun`) for the same matrix with `m` vectors, whose first vector
    is `v` normalised, whose `α_j` are the returned `alpha[j]` and whose `β_j²` are the returned `betaSq[j]` (`j < m`).  Hence everything
    proved about a `LanczosRun` — `lanczos_projection`, `krylov_poly_exact`, `krylov_error_bound` — holds for the numbers the driver prints
    (and which the harness compares with `alpha`, `beta**2` of the real run). -/
theorem lanczosC_is_run (n : ℕ) (a : List (List CRat)) (v : List CRat) (m : ℕ)
    (ha : a.length = n) (hrows : ∀ row ∈ a, row.length = n) (hv : v.length = n)
    (hherm : ∀ i j, i < n → j < n → (a.getD i []).getD j 0 = CRat.conj ((a.getD j []).getD i 0))
    (hlen : (lanczosC a v m).alpha.length = m) :
    ∃ (vv : ℕ → Fin n → ℂ) (α β : ℕ → ℂ),
      (toMat n a)ᴴ = toMat n a ∧ LanczosRun (toMat n a) vv α β m ∧
      (0 < m → ∃ s : ℝ, 0 < s ∧ (s : ℂ) • vv 0 = toVec n v) ∧
      (∀ j, j < m → α j = (((lanczosC a v m).alpha.getD j 0 : ℚ) : ℂ)) ∧
      (∀ j, j < m → β j ^ 2 = (((lanczosC a v m).betaSq.getD j 0 : ℚ) : ℂ)) :=
  lanczosC_run_exists n a v m ha hrows hv hherm hlen

/-- **C19.9 `lanczosC_loop_spec`** (the loop itself).  `lanczosCLoop` started from any accumulator state is the iteration of one step
    function `stepC` (the loop body: `w = A u`, `a = Re⟨u, w⟩ / N`, `w −= a u`, `w −= (N / N_prev) u_prev`): if it returns `m` values, no
    `N_j = ⟨u_j, u_j⟩` vanished, `alpha[i] = Re⟨u_i, A u_i⟩ / N_i` and `betaSq[i] = N_{i+1} / N_i` along that iteration; and it returns
    fewer than `m` values exactly when it met an exact breakdown `N_j = 0`. -/
theorem lanczosC_loop_spec (a : List (List CRat)) (m : ℕ) (st : LState)
    (hlen : (lanczosCLoop a m st.1 st.2).alpha.length = m) :
    (∀ i, i < m → nUOf (iterC a i st) ≠ 0) ∧
    (∀ i, i < m → (lanczosCLoop a m st.1 st.2).alpha.getD i 0 = ajOf a (iterC a i st)) ∧
    (∀ i, i < m → (lanczosCLoop a m st.1 st.2).betaSq.getD i 0 = nUOf (iterC a (i + 1) st) / nUOf (iterC a i st)) :=
  lanczosCLoop_spec a m st hlen

/-- **C19.9 `lanczosRat_is_lanczosC`** the real-symmetric recurrence `lanczosRat` (request `lanczosrat`) returns exactly the coefficients
    `lanczosC` returns on the same data embedded into ℚ(i) — so `lanczosC_is_run` covers it too (a real symmetric matrix is Hermitian). -/
theorem lanczosRat_is_lanczosC (a : List (List Rat)) (v : List Rat) (m : ℕ) :
    (lanczosRat a v m).alpha = (lanczosC (a.map (fun row => row.map CRat.ofRat)) (v.map CRat.ofRat) m).alpha ∧
    (lanczosRat a v m).betaSq = (lanczosC (a.map (fun row => row.map CRat.ofRat)) (v.map CRat.ofRat) m).betaSq :=
  lanczosRat_eq_lanczosC a v m

/-- non-vacuity: the hypotheses of `lanczosC_is_run` hold for `A = [[2, i], [−i, 3]]`, `v = (1, 0)`, `m = 2` (the run of section 7), and the
    model returns `alpha = (2, 3)`, `betaSq = (1, 0)`; an exact breakdown (`v` an eigenvector of `diag(2, 3)`) returns fewer values -/
example :
    let a : List (List CRat) := [[⟨2, 0⟩, ⟨0, 1⟩], [⟨0, -1⟩, ⟨3, 0⟩]]
    let v : List CRat := [⟨1, 0⟩, ⟨0, 0⟩]
    a.length = 2 ∧ (∀ row ∈ a, row.length = 2) ∧ v.length = 2 ∧
    (∀ i j, i < 2 → j < 2 → (a.getD i []).getD j 0 = CRat.conj ((a.getD j []).getD i 0)) ∧
    (lanczosC a v 2).alpha.length = 2 ∧ (lanczosC a v 2).alpha = [2, 3] ∧ (lanczosC a v 2).betaSq = [1, 0] ∧
    (lanczosC [[⟨2, 0⟩, ⟨0, 0⟩], [⟨0, 0⟩, ⟨3, 0⟩]] v 2).alpha.length = 1 := by
  intro a v
  refine ⟨rfl, by decide +kernel, rfl, ?_, by decide +kernel, by decide +kernel, by decide +kernel, by decide +kernel⟩
  intro i j hi hj
  match i, j, hi, hj with
  | 0, 0, _, _ => decide +kernel
  | 0, 1, _, _ => decide +kernel
  | 1, 0, _, _ => decide +kernel
  | 1, 1, _, _ => decide +kernel

example : (lanczosRat [[2, 1], [1, 3]] [1, 0] 2).alpha =
    (lanczosC [[⟨2, 0⟩, ⟨1, 0⟩], [⟨1, 0⟩, ⟨3, 0⟩]] [⟨1, 0⟩, ⟨0, 0⟩] 2).alpha := by decide +kernel

end Yaqs.Krylov


/-! ## 10. the materialising loop of the driver computes `rightEnvChain` (xp19 extension)

  `Driver/Krylov.lean` answers `rightchain` requests (value tie `heff-right-chain`: every entry of every block of the real
  `initialize_right_environments`) with `rightBlocksLoop`, which — like numpy — stores each block as a row-major array and computes the
  next block from what it reads back.  `env_update_assoc` and `heff_hermitian_chain` are about the function-level `rightEnvChain`. -/
namespace Yaqs.Heff

/-- **C19.10 `rightBlocksLoop_is_rightEnvChain`** (refinement).  For a chain `s :: rest` whose neighbouring bond dimensions match, the first
    block `rightBlocksLoop` returns is the row-major array of `rightEnvChain` over the sites to the right of `s` (identity boundary), with
    the shape `initialize_right_environments` gives it, and the remaining blocks are those of the chain `rest` — so, by induction, block `i`
    is `rightEnvChain` over `sites[i+1:]` for every `i`.  Reading an entry of that array back gives the entry of the function. -/
theorem rightBlocksLoop_is_rightEnvChain (s : Site CRat) (rest : List (Site CRat)) (hd : ChainDims (s :: rest)) :
    rightBlocksLoop (s :: rest) =
      (blockShape s rest,
        (entries3 (blockShape s rest).1 (blockShape s rest).2.1 (blockShape s rest).2.2
          (rightEnvChain CRat.conj idEnv rest)).toArray) :: rightBlocksLoop rest ∧
    (∀ b r B, b < (blockShape s rest).1 → r < (blockShape s rest).2.1 → B < (blockShape s rest).2.2 →
      ofFlat3 (blockShape s rest).2.1 (blockShape s rest).2.2
        (entries3 (blockShape s rest).1 (blockShape s rest).2.1 (blockShape s rest).2.2
          (rightEnvChain CRat.conj idEnv rest)).toArray b r B = rightEnvChain CRat.conj idEnv rest b r B) :=
  ⟨rightBlocksLoop_spec rest s hd, fun b r B hb hr hB => ofFlat3_entries3 _ _ _ _ b r B hb hr hB⟩

/-- non-vacuity: the two-site chain of section 6 (bond dimensions 1–2–1, MPO bonds 1–2–1) has matching dimensions; the loop returns two
    blocks, the first of shape `(2, 2, 2)` with a non-zero entry -/
example :
    let s1 : Site CRat := ⟨⟨2, 2, 1, 1, 2, 2, 1, 2⟩, fun p a b => ⟨(p + b + 1 : ℕ), (a + b : ℕ)⟩,
      fun o p _ r => ⟨(o + p + r : ℕ), (o : ℤ) - p⟩⟩
    let s2 : Site CRat := ⟨⟨2, 2, 2, 2, 1, 1, 2, 1⟩, fun p a b => ⟨(p + 2 * a : ℕ), (1 + b : ℕ)⟩,
      fun o p l _ => ⟨(o + p + l : ℕ), (p : ℤ) - o⟩⟩
    ChainDims [s1, s2] ∧ (rightBlocksLoop [s1, s2]).length = 2 ∧ blockShape s1 [s2] = (2, 2, 2) ∧
    ((rightBlocksLoop [s1, s2]).map fun x => x.2.size) = [8, 1] := by
  intro s1 s2
  refine ⟨⟨rfl, rfl, rfl, trivial⟩, ?_, rfl, ?_⟩ <;> decide +kernel

/-- **C19.10 `driver_io_conventions`** the remaining conventions of `Driver/Krylov.lean` for tensors that travel as row-major entry lists:
    (1) a matrix printed by `entries2` and read back by `ofFlat2` is the same matrix on its index range (as `entries3` / `ofFlat3` above);
    (2) `ofFlat4` reads `W[i,j,k,m]` at the row-major position `((i·d1 + j)·d2 + k)·d3 + m`, which lies inside an array of `d0·d1·d2·d3` entries;
    (3) applying a matrix to the one-hot vector of the `onehot:<col>` requests extracts column `col` (numpy's reshape convention is probed
        by comparing the projector on `e_col` with that column). -/
theorem driver_io_conventions :
    (∀ (d0 d1 : ℕ) (t : ℕ → ℕ → CRat) (i j : ℕ), i < d0 → j < d1 → ofFlat2 d1 (entries2 d0 d1 t).toArray i j = t i j) ∧
    (∀ (d0 d1 d2 d3 : ℕ) (xs : Array CRat) (i j k m : ℕ), i < d0 → j < d1 → k < d2 → m < d3 →
      ofFlat4 d1 d2 d3 xs i j k m = xs.getD (((i * d1 + j) * d2 + k) * d3 + m) 0 ∧
      ((i * d1 + j) * d2 + k) * d3 + m < d0 * d1 * d2 * d3) ∧
    (∀ (n : ℕ) (M : ℕ → ℕ → CRat) (col row : ℕ), col < n → matVec n M (oneHot col) row = M row col) :=
  ⟨fun d0 d1 t i j hi hj => ofFlat2_entries2 d0 d1 t i j hi hj,
   fun d0 d1 d2 d3 _ i j k m hi hj hk hm => ⟨rfl, flat4_lt d0 d1 d2 d3 i j k m hi hj hk hm⟩,
   fun n M col row hc => matVec_oneHot n M col row hc⟩

example : matVec 3 (fun r c => (⟨(r + 2 * c : ℕ), 1⟩ : CRat)) (oneHot 2) 1 = ⟨5, 1⟩ ∧
    ofFlat2 2 (entries2 2 2 fun i j => (⟨(i : ℕ), (j : ℕ)⟩ : CRat)).toArray 1 0 = ⟨1, 0⟩ := by decide +kernel

end Yaqs.Heff

/-!
## The write list of the Lanczos loop (tied by the `lanczosw` request)

`exit_logic` bounds the indices of `beta` that are touched; this says exactly which ones are written: the loop has written
`beta[0], …, beta[min(k, m_max − 1) − 1]` when it leaves with subspace size `k` — every off-diagonal entry of the `k × k`
tridiagonal matrix handed to `eigh_tridiagonal` (`beta[:k-1]`) has been written before it is read, and nothing beyond the array.
The correspondence check compares this list with the entries of the real `beta` array that are non-zero after the call.
-/
namespace Yaqs.Krylov

private theorem writes_loop (mMax : Nat) (epsCut tol : Rat) (β φ : Nat → Rat) :
    ∀ (n j : Nat) (rd wr : List Nat) (ns : Nat), n + j = mMax → wr = List.range (min j (mMax - 1)) →
      (lanczosLoop mMax epsCut tol β φ n j rd wr ns).writes
        = List.range (min (lanczosLoop mMax epsCut tol β φ n j rd wr ns).k (mMax - 1)) := by
  intro n
  induction n with
  | zero =>
    intro j rd wr ns hnj hwr
    have hj : j = mMax := by omega
    subst hj
    rw [lanczosLoop]
    split <;> simpa using hwr
  | succ n ih =>
    intro j rd wr ns hnj hwr
    have hwr1 : (if j < mMax - 1 then wr ++ [j] else wr) = List.range (min (j + 1) (mMax - 1)) := by
      split
      · rename_i h
        rw [hwr, Nat.min_eq_left (by omega), Nat.min_eq_left (by omega), List.range_succ]
      · rename_i h
        rw [hwr, Nat.min_eq_right (by omega), Nat.min_eq_right (by omega)]
    simp only [lanczosLoop]
    rw [hwr1]
    split_ifs <;> first | rfl | exact ih (j + 1) _ _ _ (by omega) rfl

/-- **C19.1b `lanczos_writes_prefix`** the entries of `beta` written by the Lanczos loop of `expm_krylov` are exactly
    `0, …, min(k, m_max − 1) − 1`, in this order, for every exit (`k` = subspace size): in particular all of `beta[:k-1]`,
    which the tridiagonal eigen-solver reads, has been written, and `beta[m_max − 1]` (outside the array) never is. -/
theorem lanczos_writes_prefix (mMax : Nat) (epsCut tol : Rat) (β φ : Nat → Rat) (e : Exit)
    (h : lanczosExit false mMax epsCut tol β φ = some e) :
    e.writes = List.range (min e.k (mMax - 1)) ∧ (∀ i, i + 1 < e.k → i ∈ e.writes) := by
  unfold lanczosExit at h
  simp only [Bool.false_eq_true, if_false] at h
  by_cases hm : mMax = 0
  · simp [hm] at h
  · rw [if_neg hm] at h
    have he : e = lanczosLoop mMax epsCut tol β φ mMax 0 [] [] 0 := (Option.some.inj h).symm
    have hw := writes_loop mMax epsCut tol β φ mMax 0 [] [] 0 rfl (by simp)
    rw [← he] at hw
    have hk := (exit_logic mMax epsCut tol β φ e (by unfold lanczosExit; simp [hm, he])).2.2
    refine ⟨hw, fun i hi => ?_⟩
    rw [hw, List.mem_range]
    omega

example : (lanczosExit false 4 (1 / 1000) (1 / 100) (fun _ => 1) (fun _ => 1)).map (·.writes) = some [0, 1, 2] := by
  decide +kernel

private theorem reads_loop (mMax : Nat) (epsCut tol : Rat) (β φ : Nat → Rat) :
    ∀ (n j : Nat) (rd wr : List Nat) (ns : Nat), n + j = mMax → (∀ i ∈ rd, i < min j (mMax - 1)) →
      ∀ i ∈ (lanczosLoop mMax epsCut tol β φ n j rd wr ns).reads,
        i < min (lanczosLoop mMax epsCut tol β φ n j rd wr ns).k (mMax - 1) := by
  intro n
  induction n with
  | zero =>
    intro j rd wr ns hnj hrd
    have hj : j = mMax := by omega
    subst hj
    rw [lanczosLoop]
    split
    · exact hrd
    · rename_i h
      intro i hi
      have hm : j ≤ 1 := by omega
      simp only [List.mem_append] at hi
      rcases hi with hi | hi
      · exact hrd i hi
      · have := mem_slice hi; omega
  | succ n ih =>
    intro j rd wr ns hnj hrd
    have hjm : j < mMax := by omega
    have hrd1 : ∀ i ∈ (if j > 0 then rd ++ [j - 1] else rd), i < min (j + 1) (mMax - 1) := by
      intro i hi
      split at hi
      · rcases List.mem_append.mp hi with h | h
        · have := hrd i h; omega
        · have := List.mem_singleton.mp h; omega
      · have := hrd i hi; omega
    have hsl : ∀ i ∈ slice (j + 1), i < min (j + 1) (mMax - 1) := by
      intro i hi
      have := mem_slice hi; omega
    simp only [lanczosLoop]
    generalize (if j > 0 then rd ++ [j - 1] else rd) = rd1 at hrd1 ⊢
    have fin2 : ∀ i ∈ rd1 ++ slice (j + 1), i < min (j + 1) (mMax - 1) := by
      intro i hi
      rcases List.mem_append.mp hi with h | h
      · exact hrd1 i h
      · exact hsl i h
    have fin3 : j < mMax - 1 → ∀ i ∈ rd1 ++ slice (j + 1) ++ [j], i < min (j + 1) (mMax - 1) := by
      intro hj i hi
      rcases List.mem_append.mp hi with h | h
      · exact fin2 i h
      · have := List.mem_singleton.mp h; omega
    split_ifs <;> first
      | exact fin2
      | exact fin3 (by assumption)
      | exact ih (j + 1) _ _ _ (by omega) fin2
      | exact ih (j + 1) _ _ _ (by omega) (fin3 (by assumption))
      | exact ih (j + 1) _ _ _ (by omega) hrd1

/-- **C19.1c `lanczos_reads_written`** no uninitialised read: every index of `beta` the Lanczos loop of `expm_krylov` reads
    (`beta[j-1]` in the three-term recurrence, the slice `beta[:k-1]` handed to the eigen-solver, `beta[j]` in the error estimate)
    lies below `min(k, m_max − 1)`, i.e. is one of the entries the loop has written (`lanczos_writes_prefix`). -/
theorem lanczos_reads_written (mMax : Nat) (epsCut tol : Rat) (β φ : Nat → Rat) (e : Exit)
    (h : lanczosExit false mMax epsCut tol β φ = some e) :
    ∀ i ∈ e.reads, i ∈ e.writes := by
  have hw := (lanczos_writes_prefix mMax epsCut tol β φ e h).1
  unfold lanczosExit at h
  simp only [Bool.false_eq_true, if_false] at h
  by_cases hm : mMax = 0
  · simp [hm] at h
  · rw [if_neg hm] at h
    have he : e = lanczosLoop mMax epsCut tol β φ mMax 0 [] [] 0 := (Option.some.inj h).symm
    have hr := reads_loop mMax epsCut tol β φ mMax 0 [] [] 0 rfl (by simp)
    rw [← he] at hr
    intro i hi
    rw [hw, List.mem_range]
    exact hr i hi

example : (lanczosExit false 4 (1 / 1000) (1 / 100) (fun _ => 1) (fun _ => 1)).map
      (fun e => e.reads.all (fun i => e.writes.contains i)) = some true ∧
    (lanczosExit false 4 (1 / 1000) (1 / 100) (fun _ => 1) (fun _ => 1)).map (fun e => decide (e.reads.length > 3)) = some true := by
  refine ⟨by decide +kernel, by decide +kernel⟩

end Yaqs.Krylov

