import YaqsModel.Lemmas.Krylov
import Mathlib.LinearAlgebra.Matrix.Notation
import Mathlib.Tactic.FinCases
import Mathlib.Tactic.NormNum

/-!
# C19 — Krylov / Arnoldi matrix exponential: exit logic, norm preservation, exactness on invariant subspaces

Property theorems only (helper lemmas live in `Lemmas/Krylov.lean`).

* `exit_logic`, `exit_zero_start`, `exit_mmax_zero`, `arnoldi_exit_logic` are about the executable model
  `Model/Krylov.lean` of the control flow of `expm_krylov` / `expm_arnoldi`; they quantify over *all* iteration
  caps, thresholds and all sequences `β`, `φ` of residual norms and error-estimate factors.
* `krylov_isometry`, `arnoldi_norm`, `invariant_exact*`, `c19_partial` are about the returned vector
  `nrm • V (Q diag(d) Qᴴ) e₁`, over Mathlib matrices on arbitrary finite index types.
-/
namespace Yaqs.Krylov

open Matrix

/-! ## 1. exit logic -/

/-- **C19.1** (Lanczos loop of `expm_krylov`, `vec_norm ≠ 0`, `m_max ≥ 1`).  The loop leaves at the *first*
    iteration `j ≤ m_max - 2` at which `β j < eps_cut` (breakdown) or `j ≥ 1 ∧ β j * φ j < tol` (converged), with
    subspace size `k = j + 1`; breakdown has priority.  If no iteration stops it runs to `k = m_max`.
    Every index of the array `beta` (length `m_max - 1`) read or written is `≤ m_max - 2`: `beta[m_max - 1]` is never
    touched, the array is never over-run.  `1 ≤ k ≤ m_max`. -/
theorem exit_logic (mMax : Nat) (epsCut tol : Rat) (β φ : Nat → Rat) (e : Exit)
    (h : lanczosExit false mMax epsCut tol β φ = some e) :
    ((∃ j, lanczosStops mMax epsCut tol β φ j ∧ (∀ i, i < j → ¬ lanczosStops mMax epsCut tol β φ i) ∧
        e.k = j + 1 ∧ (e.kind = .breakdown ↔ β j < epsCut) ∧ (e.kind = .converged ↔ ¬ β j < epsCut))
      ∨ ((∀ j, ¬ lanczosStops mMax epsCut tol β φ j) ∧ e.k = mMax ∧ e.kind = .exhausted))
    ∧ (∀ i ∈ e.reads ++ e.writes, i + 1 < mMax)
    ∧ 1 ≤ e.k ∧ e.k ≤ mMax := by
  unfold lanczosExit at h
  simp only [Bool.false_eq_true, if_false] at h
  by_cases hm : mMax = 0
  · simp [hm] at h
  · rw [if_neg hm] at h
    have he : e = lanczosLoop mMax epsCut tol β φ mMax 0 [] [] 0 := (Option.some.inj h).symm
    have hspec := lanczosLoop_spec mMax epsCut tol β φ (by omega) mMax 0 [] [] 0 rfl
      (by intro i hi; cases hi) (by intro i hi; cases hi) (by intro i hi; omega)
    rw [← he] at hspec
    obtain ⟨h1, hr, hw, hk1, hk2⟩ := hspec
    refine ⟨h1, ?_, hk1, hk2⟩
    intro i hi
    rcases List.mem_append.mp hi with h | h
    · exact hr i h
    · exact hw i h

/-- **C19.1** a zero input vector is returned as is: no iteration, no eigendecomposition, in both routines -/
theorem exit_zero_start (m : Nat) (e t : Rat) (β φ : Nat → Rat) :
    lanczosExit true m e t β φ = some ⟨.zero, 0, false, 0, [], []⟩ ∧
    arnoldiExit true m e t β φ = some ⟨.zero, 0, false, 0, [], []⟩ := ⟨rfl, rfl⟩

/-- **C19.1** `max_lanczos_iterations = 0` with a non-zero vector is an error (`np.zeros(-1)`), not a result -/
theorem exit_mmax_zero (e t : Rat) (β φ : Nat → Rat) : lanczosExit false 0 e t β φ = none := rfl

/-- **C19.1** `max_arnoldi_iterations = 0` with a non-zero vector is an error (`IndexError`), not a result -/
theorem arnoldi_mmax_zero (e t : Rat) (η φ : Nat → Rat) : arnoldiExit false 0 e t η φ = none := rfl

/-- **C19.1** (Arnoldi loop of `expm_arnoldi`).  The loop leaves at the first iteration `j < m_max` with
    `η j < 1e-12` (breakdown) or `j ≥ 1 ∧ η j * φ j < tol` (converged), `k = j + 1`; otherwise `k = m_max`.
    `k ≤ m_max`, and every column of `v` written has index `≤ m_max` (`v` has `m_max + 1` columns). -/
theorem arnoldi_exit_logic (mMax : Nat) (thr tol : Rat) (η φ : Nat → Rat) (e : Exit)
    (h : arnoldiExit false mMax thr tol η φ = some e) :
    ((∃ j, arnoldiStops mMax thr tol η φ j ∧ (∀ i, i < j → ¬ arnoldiStops mMax thr tol η φ i) ∧
        e.k = j + 1 ∧ (e.kind = .breakdown ↔ η j < thr) ∧ (e.kind = .converged ↔ ¬ η j < thr))
      ∨ ((∀ j, ¬ arnoldiStops mMax thr tol η φ j) ∧ e.k = mMax ∧ e.kind = .exhausted))
    ∧ e.k ≤ mMax ∧ (∀ c ∈ e.writes, c ≤ mMax) := by
  have hspec := arnoldiLoop_spec mMax thr tol η φ mMax 0 [] 0 rfl
    (by intro i hi; cases hi) (by intro i hi; omega)
  have he : e = arnoldiLoop mMax thr tol η φ mMax 0 [] 0 := by
    unfold arnoldiExit at h
    simp only [Bool.false_eq_true, if_false] at h
    split at h
    · cases h
    · exact (Option.some.inj h).symm
  rw [← he] at hspec
  exact ⟨hspec.1, hspec.2.1, hspec.2.2.1⟩

/-! non-vacuity of `exit_logic` / `arnoldi_exit_logic`: all three kinds of exit occur, and `lanczosStops` is
    satisfiable / refutable -/

/-- breakdown at `j = 2` (`k = 3`): `β 2 = 1/2000 < 1/1000` -/
example : lanczosExit false 5 (1/1000) (1/100) (fun j => if j = 2 then 1/2000 else 1) (fun _ => 1) =
    some ⟨.breakdown, 3, true, 2, [0, 0, 1, 1, 0, 1], [0, 1, 2]⟩ := by decide +kernel
example : lanczosStops 5 (1/1000) (1/100) (fun j => if j = 2 then 1/2000 else 1) (fun _ => 1) 2 := by
  unfold lanczosStops; decide +kernel

/-- converged at `j = 2` (`k = 3`): `β 2 * φ 2 = 1/200 < 1/100` while `β 2 = 1 ≥ eps_cut` -/
example : lanczosExit false 5 (1/1000) (1/100) (fun _ => 1) (fun j => if j = 2 then 1/200 else 1) =
    some ⟨.converged, 3, false, 2, [0, 0, 1, 1, 0, 1, 2], [0, 1, 2]⟩ := by decide +kernel

/-- exhausted: nothing stops, `k = m_max = 5`, the eigendecomposition of the last error check is reused;
    `beta[4]` is neither read nor written -/
example : lanczosExit false 5 (1/1000) (1/100) (fun _ => 1) (fun _ => 1) =
    some ⟨.exhausted, 5, false, 4, [0, 0, 1, 1, 0, 1, 2, 2, 0, 1, 2, 3, 3, 0, 1, 2, 3], [0, 1, 2, 3]⟩ := by
  decide +kernel

/-- `m_max = 1`: a single iteration, fresh eigendecomposition of the 1×1 problem, `beta` (length 0) untouched -/
example : lanczosExit false 1 (1/1000) (1/100) (fun _ => 0) (fun _ => 0) =
    some ⟨.exhausted, 1, true, 1, [], []⟩ := by decide +kernel

example : arnoldiExit false 5 (1/1000) (1/100) (fun j => if j = 2 then 1/2000 else 1) (fun _ => 1) =
    some ⟨.breakdown, 3, true, 2, [], [1, 2]⟩ := by decide +kernel
example : arnoldiExit false 5 (1/1000) (1/100) (fun _ => 1) (fun j => if j = 2 then 1/200 else 1) =
    some ⟨.converged, 3, false, 2, [], [1, 2, 3]⟩ := by decide +kernel
example : arnoldiExit false 3 (1/1000) (1/100) (fun _ => 1) (fun _ => 1) =
    some ⟨.exhausted, 3, true, 3, [], [1, 2, 3]⟩ := by decide +kernel

/-! ## 2. norm preservation -/

/-- **C19.2** the spectral factors `e^{-i·dt·λ}` have modulus one for every real `dt·λ` — either sign of `dt`.
    (Makes the hypothesis `hd` of `krylov_isometry` non-vacuous for every real spectrum.) -/
theorem unit_modulus_exp (t : ℝ) :
    star (Complex.exp (-(t : ℂ) * Complex.I)) * Complex.exp (-(t : ℂ) * Complex.I) = 1 := by
  have h : star (Complex.exp (-(t : ℂ) * Complex.I)) = Complex.exp ((t : ℂ) * Complex.I) := by
    change (starRingEnd ℂ) _ = _
    rw [← Complex.exp_conj]
    congr 1
    simp
  rw [h, ← Complex.exp_add]
  simp

/-- **C19.2** (Arnoldi / generic reconstruction) a basis with orthonormal columns is an isometry of the small
    problem: `‖V x‖² = ‖x‖²` for every coefficient vector `x`. -/
theorem arnoldi_norm {n k : Type*} [Fintype n] [Fintype k] [DecidableEq k]
    (V : Matrix n k ℂ) (hV : Vᴴ * V = 1) (x : k → ℂ) :
    star (V *ᵥ x) ⬝ᵥ (V *ᵥ x) = star x ⬝ᵥ x :=
  gram_mulVec V hV x

/-- **C19.2** (Lanczos reconstruction) with orthonormal Lanczos vectors `V`, unitary eigenvector matrix `Q`,
    unit-modulus spectral factors `d` and a unit start vector `e`, the returned vector
    `y = nrm • V (Q diag(d) Qᴴ) e` satisfies `‖y‖² = nrm²` — for either sign of `dt`. -/
theorem krylov_isometry {n k : Type*} [Fintype n] [Fintype k] [DecidableEq k]
    (V : Matrix n k ℂ) (hV : Vᴴ * V = 1) (Q : Matrix k k ℂ) (hQ : Qᴴ * Q = 1)
    (d : k → ℂ) (hd : ∀ i, star (d i) * d i = 1) (e : k → ℂ) (he : star e ⬝ᵥ e = 1) (nrm : ℝ) :
    star ((nrm : ℂ) • (V *ᵥ ((Q * diagonal d * Qᴴ) *ᵥ e))) ⬝ᵥ ((nrm : ℂ) • (V *ᵥ ((Q * diagonal d * Qᴴ) *ᵥ e)))
      = (nrm : ℂ) ^ 2 := by
  rw [smul_norm_sq, gram_mulVec V hV, gram_mulVec _ (spectral_unitary Q hQ d hd), he, mul_one]

/-- **C19.2** (optional restatement) the same with the Euclidean norm: `‖y‖₂ = |nrm|` (`nrm` is a norm in the
    code, hence `= nrm`) -/
theorem krylov_isometry_norm {n k : Type*} [Fintype n] [Fintype k] [DecidableEq k]
    (V : Matrix n k ℂ) (hV : Vᴴ * V = 1) (Q : Matrix k k ℂ) (hQ : Qᴴ * Q = 1)
    (d : k → ℂ) (hd : ∀ i, star (d i) * d i = 1) (e : k → ℂ) (he : star e ⬝ᵥ e = 1) (nrm : ℝ) :
    ‖(WithLp.toLp 2 ((nrm : ℂ) • (V *ᵥ ((Q * diagonal d * Qᴴ) *ᵥ e))) : EuclideanSpace ℂ n)‖ = |nrm| :=
  norm_of_dot _ nrm (krylov_isometry V hV Q hQ d hd e he nrm)

/-- non-vacuity of the hypotheses of `krylov_isometry` / `arnoldi_norm`: a 3×2 basis with orthonormal columns, a
    unitary (non-diagonal) `Q`, unit-modulus non-real factors and the first unit vector -/
example : ∃ (V : Matrix (Fin 3) (Fin 2) ℂ) (Q : Matrix (Fin 2) (Fin 2) ℂ) (d e : Fin 2 → ℂ),
    Vᴴ * V = 1 ∧ Qᴴ * Q = 1 ∧ (∀ i, star (d i) * d i = 1) ∧ star e ⬝ᵥ e = 1 := by
  refine ⟨!![1, 0; 0, 1; 0, 0], !![0, 1; 1, 0], ![Complex.I, -1], ![1, 0], ?_, ?_, ?_, ?_⟩
  · ext i j; fin_cases i <;> fin_cases j <;> simp [Matrix.mul_apply, Fin.sum_univ_succ]
  · ext i j; fin_cases i <;> fin_cases j <;> simp [Matrix.mul_apply, Fin.sum_univ_succ]
  · intro i; fin_cases i <;> simp
  · simp [dotProduct, Fin.sum_univ_succ]

/-- `unit_modulus_exp` feeds `hd`: for every real spectrum `lam` and every real `dt` (positive or negative) -/
example (k : Type) (lam : k → ℝ) (dt : ℝ) :
    ∀ i, star (Complex.exp (-((dt * lam i : ℝ) : ℂ) * Complex.I)) *
      Complex.exp (-((dt * lam i : ℝ) : ℂ) * Complex.I) = 1 :=
  fun i => unit_modulus_exp (dt * lam i)

/-! ## 3. exactness on an invariant subspace -/

/-- **C19.3** if the Krylov space is invariant (`A V = V T`, the situation after a breakdown), every polynomial
    of `A` is reproduced by the same polynomial of the small matrix `T`. -/
theorem invariant_exact {n k K : Type*} [Fintype n] [Fintype k] [DecidableEq n] [DecidableEq k] [CommRing K]
    (A : Matrix n n K) (T : Matrix k k K) (V : Matrix n k K) (h : A * V = V * T) (p : Polynomial K) :
    (Polynomial.aeval A p) * V = V * (Polynomial.aeval T p) :=
  aeval_intertwine A T V h p

/-- **C19.3** vector form: `p(A) (c • V e) = c • V (p(T) e)` -/
theorem invariant_exact_vec {n k K : Type*} [Fintype n] [Fintype k] [DecidableEq n] [DecidableEq k] [CommRing K]
    (A : Matrix n n K) (T : Matrix k k K) (V : Matrix n k K) (h : A * V = V * T) (p : Polynomial K)
    (c : K) (e : k → K) :
    (Polynomial.aeval A p) *ᵥ (c • (V *ᵥ e)) = c • (V *ᵥ ((Polynomial.aeval T p) *ᵥ e)) := by
  rw [mulVec_smul, mulVec_mulVec, aeval_intertwine A T V h p, ← mulVec_mulVec]

/-- **C19.3** the same for explicit partial sums `∑_{m<N} c_m A^m` (e.g. the Taylor sums of `exp(-i dt A)`) -/
theorem invariant_exact_powers {n k K : Type*} [Fintype n] [Fintype k] [DecidableEq n] [DecidableEq k]
    [CommRing K] (A : Matrix n n K) (T : Matrix k k K) (V : Matrix n k K) (h : A * V = V * T)
    (c : ℕ → K) (N : ℕ) :
    (∑ m ∈ Finset.range N, c m • A ^ m) * V = V * (∑ m ∈ Finset.range N, c m • T ^ m) := by
  rw [Matrix.sum_mul, Matrix.mul_sum]
  refine Finset.sum_congr rfl (fun i _ => ?_)
  rw [Matrix.smul_mul, Matrix.mul_smul, pow_intertwine A T V h]

/-- non-vacuity of `A V = V T`: a 2-dimensional invariant subspace of a symmetric 3×3 matrix (what an exact
    breakdown at `k = 2` produces), on which `A²` does not vanish -/
example : ∃ (A : Matrix (Fin 3) (Fin 3) ℚ) (T : Matrix (Fin 2) (Fin 2) ℚ) (V : Matrix (Fin 3) (Fin 2) ℚ),
    A * V = V * T ∧ Aᵀ = A ∧ A * A * V ≠ 0 := by
  refine ⟨!![2, 1, 0; 1, 3, 0; 0, 0, 5], !![2, 1; 1, 3], !![1, 0; 0, 1; 0, 0], ?_, ?_, ?_⟩ <;> decide +kernel

/-! ## 4. what is proved about the reconstruction -/

/-
  FULL PROPERTY C19 (cited, not formalised).  For Hermitian `A` with spectrum in an interval of length `4ρ`,
  `v ≠ 0`, `τ = |dt|`, `V_m` the orthonormal Lanczos basis of `K_m(A, v)`, `T_m = V_mᴴ A V_m`:

      ‖ exp(-i·dt·A) v − ‖v‖ · V_m exp(-i·dt·T_m) e₁ ‖  ≤  12 · exp(−(ρτ)² / m) · (e·ρτ / m)^m · ‖v‖     for m ≥ 2ρτ

  (Hochbruck & Lubich, "On Krylov subspace approximations to the matrix exponential operator", SIAM J. Numer.
   Anal. 34 (1997), Theorem 4 — the skew-Hermitian case `-i·A`; superlinear decay sets in once `m ≥ 2ρτ`.  The
   design note quotes the bound in the abbreviated form `12 e^{-ρ²/(4m)}…`; the constants are to be taken from the
   paper, they are not used by any theorem below.)
  The a-posteriori estimate `err ≈ β_m · |[exp(-i·dt·T_m)]_{m,1}|` the loop tests against `tol` is the leading term
  of the residual expansion (Saad 1992; Sect. 6 of the reference above).

  Formalised below (`c19_partial`): the two structural facts that bound rests on and that the implementation
  can violate independently of rounding —
    (a) exactness: on an invariant Krylov space (`A V = V T`, i.e. after a breakdown `β_k = 0`, or `k = dim`)
        every polynomial of `A` — in particular every Taylor partial sum of `exp(-i·dt·A)` — applied to
        `v = nrm • V e` equals `nrm • V p(T) e`, and with `T = Q diag(λ) Qᴴ` this is the code's formula
        `nrm • V Q diag(p(λ)) Qᴴ e`;  norms are carried over exactly: `‖p(A) v‖² = nrm² ‖p(T) e‖²`;
    (b) unitarity: the returned vector `nrm • V Q diag(d) Qᴴ e`, `|d_i| = 1`, has squared norm `nrm²`
        whatever `k`, `dt` (either sign) and the quality of the approximation.
  Not formalised: the limit `p → exp` (needs analysis of the matrix exponential series in both spaces) and the
  approximation bound for a non-invariant Krylov space.
-/

/-- **C19 (partial)** exactness on an invariant subspace for every polynomial, in the spectral form the code
    evaluates, together with norm preservation of the returned vector. -/
theorem c19_partial {n k : Type*} [Fintype n] [Fintype k] [DecidableEq n] [DecidableEq k]
    (A : Matrix n n ℂ) (T : Matrix k k ℂ) (V : Matrix n k ℂ) (Q : Matrix k k ℂ) (d : k → ℂ) (e : k → ℂ) (nrm : ℝ)
    (hV : Vᴴ * V = 1) (hAV : A * V = V * T) (hQ : Qᴴ * Q = 1)
    (hd : ∀ i, star (d i) * d i = 1) (he : star e ⬝ᵥ e = 1) :
    -- (a) every polynomial of `A` applied to `v = nrm • V e` is reproduced by the small problem
    (∀ p : Polynomial ℂ,
        (Polynomial.aeval A p) *ᵥ ((nrm : ℂ) • (V *ᵥ e)) = (nrm : ℂ) • (V *ᵥ ((Polynomial.aeval T p) *ᵥ e))) ∧
    -- (a') … which, for `T = Q diag(λ) Qᴴ`, is the formula of `_compute_krylov_result` with `p(λ)` for `e^{-i dt λ}`
    (∀ lam : k → ℂ, T = Q * diagonal lam * Qᴴ → ∀ p : Polynomial ℂ,
        (Polynomial.aeval A p) *ᵥ ((nrm : ℂ) • (V *ᵥ e)) =
          (nrm : ℂ) • (V *ᵥ ((Q * diagonal (fun i => p.eval (lam i)) * Qᴴ) *ᵥ e))) ∧
    -- (a'') norms are carried over exactly
    (∀ p : Polynomial ℂ,
        star ((Polynomial.aeval A p) *ᵥ ((nrm : ℂ) • (V *ᵥ e))) ⬝ᵥ ((Polynomial.aeval A p) *ᵥ ((nrm : ℂ) • (V *ᵥ e)))
          = (nrm : ℂ) ^ 2 * (star ((Polynomial.aeval T p) *ᵥ e) ⬝ᵥ ((Polynomial.aeval T p) *ᵥ e))) ∧
    -- (b) the returned vector has squared norm `nrm²`
    star ((nrm : ℂ) • (V *ᵥ ((Q * diagonal d * Qᴴ) *ᵥ e))) ⬝ᵥ ((nrm : ℂ) • (V *ᵥ ((Q * diagonal d * Qᴴ) *ᵥ e)))
      = (nrm : ℂ) ^ 2 := by
  refine ⟨fun p => invariant_exact_vec A T V hAV p _ e, ?_, ?_, krylov_isometry V hV Q hQ d hd e he nrm⟩
  · intro lam hT p
    rw [invariant_exact_vec A T V hAV p _ e, hT, aeval_spectral Q Qᴴ hQ lam p]
  · intro p
    rw [invariant_exact_vec A T V hAV p _ e, smul_norm_sq, gram_mulVec V hV]

/-- non-vacuity of the joint hypotheses of `c19_partial` (orthonormal `V`, `A V = V T`, `T = Q diag(λ) Qᴴ` with a
    rotation `Q`, unit-modulus `d`, unit `e`) -/
example : ∃ (A : Matrix (Fin 3) (Fin 3) ℂ) (T : Matrix (Fin 2) (Fin 2) ℂ) (V : Matrix (Fin 3) (Fin 2) ℂ)
    (Q : Matrix (Fin 2) (Fin 2) ℂ) (lam d e : Fin 2 → ℂ),
    Vᴴ * V = 1 ∧ A * V = V * T ∧ Qᴴ * Q = 1 ∧ T = Q * diagonal lam * Qᴴ ∧ (∀ i, star (d i) * d i = 1) ∧
    star e ⬝ᵥ e = 1 := by
  refine ⟨!![16, 12, 0; 12, 9, 0; 0, 0, 5], !![16, 12; 12, 9], !![1, 0; 0, 1; 0, 0], !![3/5, 4/5; -4/5, 3/5], ![0, 25],
    ![Complex.I, -1], ![1, 0], ?_, ?_, ?_, ?_, ?_, ?_⟩
  · ext i j; fin_cases i <;> fin_cases j <;> simp [Matrix.mul_apply, Fin.sum_univ_succ]
  · ext i j; fin_cases i <;> fin_cases j <;> simp [Matrix.mul_apply, Fin.sum_univ_succ]
  · ext i j; fin_cases i <;> fin_cases j <;> simp [Matrix.mul_apply, Fin.sum_univ_succ, map_ofNat] <;> norm_num
  · ext i j; fin_cases i <;> fin_cases j <;>
      simp [Matrix.mul_apply, Fin.sum_univ_succ, Matrix.vecMul_diagonal, map_ofNat] <;> norm_num
  · intro i; fin_cases i <;> simp
  · simp [dotProduct, Fin.sum_univ_succ]

/-! ## 5. the three-term recurrence (exact arithmetic) -/

/-- **C19.5** for a symmetric `A` over any field, the vectors of the unnormalised Lanczos recurrence
    `u_{j+1} = A u_j − a_j u_j − b_j u_{j-1}` (`u_{-1} = 0`), `a_j = ⟨u_j, A u_j⟩ / ⟨u_j, u_j⟩`,
    `b_j = ⟨u_j, u_j⟩ / ⟨u_{j-1}, u_{j-1}⟩` — the recurrence of `lanczosRat` in the model — are pairwise
    orthogonal up to and including the first vector with `⟨u_m, u_m⟩ = 0` (no re-orthogonalisation needed in exact
    arithmetic), hence `⟨u_i, A u_j⟩ = 0` for `|i − j| > 1`: the projected matrix is tridiagonal. -/
theorem lanczos_tridiagonal {n K : Type*} [Fintype n] [Field K] (A : Matrix n n K) (hA : Aᵀ = A)
    (u : ℕ → n → K) (a b : ℕ → K) (m : ℕ)
    (h0 : u 1 = A *ᵥ u 0 - a 0 • u 0)
    (hrec : ∀ j, u (j + 2) = A *ᵥ u (j + 1) - a (j + 1) • u (j + 1) - b (j + 1) • u j)
    (hne : ∀ j, j < m → u j ⬝ᵥ u j ≠ 0)
    (ha : ∀ j, j < m → a j = (u j ⬝ᵥ A *ᵥ u j) / (u j ⬝ᵥ u j))
    (hb : ∀ j, j + 1 < m → b (j + 1) = (u (j + 1) ⬝ᵥ u (j + 1)) / (u j ⬝ᵥ u j)) :
    (∀ i j, i ≠ j → i ≤ m → j ≤ m → u i ⬝ᵥ u j = 0) ∧
    (∀ i j, i + 1 < j → j ≤ m → u i ⬝ᵥ A *ᵥ u j = 0 ∧ u j ⬝ᵥ A *ᵥ u i = 0) := by
  have orth : ∀ i j, i < j → j ≤ m → u i ⬝ᵥ u j = 0 := by
    apply lanczos_orth_mul A hA u a b m h0 hrec
    · intro j hj; rw [ha j hj, div_mul_cancel₀ _ (hne j hj)]
    · intro j hj; rw [hb j hj, div_mul_cancel₀ _ (hne j (by omega))]
  have tri : ∀ i j, i + 1 < j → j ≤ m → u i ⬝ᵥ A *ᵥ u j = 0 := by
    intro i j hij hj
    rw [dot_symm_mulVec A hA, lanczos_Au A u a b h0 hrec i, add_dotProduct, add_dotProduct, smul_dotProduct,
      smul_dotProduct, orth (i + 1) j hij hj, orth i j (by omega) hj]
    cases i with
    | zero => simp [shiftVec]
    | succ i => simp only [shiftVec]; rw [orth i j (by omega) hj]; simp
  refine ⟨?_, fun i j hij hj => ⟨tri i j hij hj, ?_⟩⟩
  · intro i j hij hi hj
    rcases Nat.lt_or_gt_of_ne hij with h | h
    · exact orth i j h hj
    · rw [dotProduct_comm]; exact orth j i h hi
  · rw [dot_symm_mulVec A hA, dotProduct_comm]; exact tri i j hij hj

/-- non-vacuity: `A = [[2,1],[1,3]]`, `u₀ = e₁` gives `a = (2, 3)`, `b₁ = 1`, `u₁ = e₂`, `u₂ = 0` (`m = 2`), and the
    executable recurrence of the model computes exactly these coefficients -/
example : ∃ (A : Matrix (Fin 2) (Fin 2) ℚ) (u : ℕ → Fin 2 → ℚ) (a b : ℕ → ℚ),
    Aᵀ = A ∧ u 1 = A *ᵥ u 0 - a 0 • u 0 ∧
    (∀ j, u (j + 2) = A *ᵥ u (j + 1) - a (j + 1) • u (j + 1) - b (j + 1) • u j) ∧
    (∀ j, j < 2 → u j ⬝ᵥ u j ≠ 0) ∧ (∀ j, j < 2 → a j = (u j ⬝ᵥ A *ᵥ u j) / (u j ⬝ᵥ u j)) ∧
    (∀ j, j + 1 < 2 → b (j + 1) = (u (j + 1) ⬝ᵥ u (j + 1)) / (u j ⬝ᵥ u j)) := by
  refine ⟨!![2, 1; 1, 3], fun j => match j with | 0 => ![1, 0] | 1 => ![0, 1] | _ => 0,
    fun j => match j with | 0 => 2 | 1 => 3 | _ => 0, fun j => match j with | 1 => 1 | _ => 0,
    by decide +kernel, by decide +kernel, ?_, ?_, ?_, ?_⟩
  · intro j
    match j with
    | 0 => decide +kernel
    | 1 => simp
    | j + 2 => simp
  · intro j hj
    match j with
    | 0 => decide +kernel
    | 1 => decide +kernel
  · intro j hj
    match j with
    | 0 => decide +kernel
    | 1 => decide +kernel
  · intro j hj
    match j with
    | 0 => decide +kernel

example : (lanczosRat [[2, 1], [1, 3]] [1, 0] 2).alpha = [2, 3] ∧
    (lanczosRat [[2, 1], [1, 3]] [1, 0] 2).betaSq = [1, 0] ∧
    (lanczosRat [[2, 1], [1, 3]] [1, 0] 2).us = [[1, 0], [0, 1]] := by decide +kernel

end Yaqs.Krylov
