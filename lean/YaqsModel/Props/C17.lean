import YaqsModel.Lemmas.Tomo
import YaqsModel.Lemmas.TomoWeights
import YaqsModel.Lemmas.TomoField
import YaqsModel.Lemmas.TomoComb
import YaqsModel.Lemmas.TomoCombExec
import Mathlib.Analysis.Normed.Group.Basic
import Mathlib.LinearAlgebra.LinearIndependent.Defs
import Mathlib.LinearAlgebra.Span.Defs

/-!
# C17 — a reconstructed process tensor predicts held-out interventions exactly

Property theorems only (helper lemmas: `Lemmas/TomoRing.lean`, `Lemmas/Tomo.lean`, `Lemmas/TomoWeights.lean`).

Full statement (kept visible; **not** proved as such):
  *for noise-free dynamics, every Hamiltonian, chain length and list of segment durations, the tensor returned by
  `tomography.run` satisfies `predict_final_state(A_1,…,A_k) = Tr_env[U_k (A_k⊗id) … U_1 (A_1⊗id)(|0…0⟩⟨0…0|) …]`
  for all completely positive single-qubit maps `A_t`, for both back-ends.*

What is proved (`c17_partial`): **if** the output component is a multilinear function `comb` of the Choi matrices of
the `k` interventions (quantum combs are — physics, cited in DESIGN §3, hypothesis here) **and** the stored table holds
`comb` on the sixteen probe maps (`htab`; this is what `weights_step` / `weights_sequence` give when every segment is
simulated exactly — back-end exactness is a numerical fact, measured by the correspondence oracle, not a theorem),
**then** the contraction performed by `predict_final_state` returns `comb (J_1,…,J_k)` for *all* 4×4 matrices `J_t`
(not only Choi matrices of CP maps, not only the probes), for every `k`.  Everything else in this file is proved
without hypotheses: the probes are informationally complete, the dual frame of the code is the unique solution of its
defining equations, the code's Choi convention is consistent between `get_choi_basis` and the builder inside
`predict_final_state`, and the contraction order matches the slot order.

Extension (second half of this file, C17.5–C17.9): for the model of exact dynamics the property text talks about — joint
operators on site 0 ⊗ environment, interventions acting through their Choi matrices in the code's convention, arbitrary
segment matrices, partial trace, in the worker's order of operations — multilinearity is a **theorem**
(`physComb_multilinear`), so `c17_exact_dynamics` (ℚ(i), executable), `c17_exact_dynamics_complex` (ℂ) and
`c17_exact_dynamics_cp` (Kraus operators) have only the table hypothesis left.
-/

open Matrix

namespace Yaqs.Tomo
open Yaqs CRatT

abbrev Mat2 := Matrix (Fin 2) (Fin 2) CRatT
abbrev Mat4 := Matrix (Fin 4) (Fin 4) CRatT

/-! ## the probes -/

/-- **C17.1a** `get_basis_states`: the four preparation density matrices / measurement effects; they contain only
    `0, 1, 1/2, ±i/2` -/
theorem basis_table :
    rho 0 = mk2 1 0 0 0 ∧ rho 1 = mk2 0 0 0 1 ∧ rho 2 = mk2 half half half half ∧
      rho 3 = mk2 half ⟨0, -1/2⟩ halfI half := by
  refine ⟨?_, ?_, ?_, ?_⟩ <;> (funext i j; revert i j; decide +kernel)

/-- **C17.1b** each probe is a pure state: Hermitian, trace one, idempotent -/
theorem basis_pure_states : ∀ p : Fin 4,
    (∀ i j : Fin 2, rho p i j = conj (rho p j i)) ∧ rho p 0 0 + rho p 1 1 = 1 ∧
      (∀ i j : Fin 2, fsum 2 (fun l => rho p i l * rho p l j) = rho p i j) := by
  decide +kernel

/-- **C17.1c** the single-qubit dual frame of the model satisfies its defining equations -/
theorem dual_biorthogonal_single (p q : Fin 4) :
    trace ((toMat (dual1 p))ᴴ * toMat (rho q)) = if p = q then 1 else 0 := by
  have h : ∀ p q : Fin 4, hsInner (dual1 p) (rho q) = if p = q then 1 else 0 := by decide +kernel
  exact (hsInner_eq_trace (toMat (dual1 p)) (toMat (rho q))).symm.trans (h p q)

/-- **C17.1d** (`basis_independent`) the four density matrices are linearly independent over ℚ(i) -/
theorem basis_independent : LinearIndependent CRatT (fun p : Fin 4 => toMat (rho p)) := by
  rw [Fintype.linearIndependent_iff]
  intro g hg p
  have := frame_coeff_unique (fun q => toMat (rho q)) (fun q => toMat (dual1 q)) dual_biorthogonal_single g p
  rw [← this, hg, Matrix.mul_zero, trace_zero]

/-- the 4×4 matrix whose columns are the vectorised probes (`frame_matrix` for `dim = 2`) -/
def vecRho : Mat4 := fun x p => rho p (hi x) (lo x)
/-- conjugated vectorised duals as rows -/
def vecDual : Mat4 := fun p x => conj (dual1 p (hi x) (lo x))

/-- **C17.1e** its determinant over ℚ(i) is a unit (in particular non-zero): informational completeness -/
theorem basis_det_isUnit : IsUnit (Matrix.det vecRho) := by
  have h : ∀ p q : Fin 4, fsum 4 (fun x => vecDual p x * vecRho x q) = if p = q then 1 else 0 := by
    decide +kernel
  apply Matrix.isUnit_det_of_left_inverse (B := vecDual)
  apply Matrix.ext
  intro p q
  rw [Matrix.mul_apply, Matrix.one_apply, ← fsum_eq_sum]
  exact h p q

theorem basis_det_ne_zero : Matrix.det vecRho ≠ 0 := by
  have : Nontrivial CRatT := ⟨⟨0, 1, by decide⟩⟩
  exact basis_det_isUnit.ne_zero

/-! ## the Choi basis and its dual frame -/

/-- **C17.2a** `choi_indices`: `alpha = 4·p + m` -/
theorem choiIdx_spec (a : Fin 16) : a.val = 4 * (choiIdx a).1.val + (choiIdx a).2.val := by
  simp only [choiIdx]; omega

/-- **C17.2b** (`choi_of_basis_map`) in the convention of the builder inside `predict_final_state`
    (`J = Σ_ij A(|i⟩⟨j|) ⊗ |i⟩⟨j|`) the Choi matrix of `σ ↦ Tr(E σ)·P` is `P ⊗ Eᵀ` — for **all** `E`, `P` -/
theorem choi_of_basis_map (E P : M2) : choiOf (basisMap E P) = kron2 P (transpose2 E) := by
  funext r c
  rw [choiOf_apply, basisMap_unit]
  simp only [kron2, transpose2]
  ring

/-- … hence the code's basis element `B_{4p+m} = kron(ρ_p, E_mᵀ)` is the Choi matrix of its probe map -/
theorem choi_of_probe (a : Fin 16) :
    choiOf (basisMap (eff (choiIdx a).2) (rho (choiIdx a).1)) = choiB a := by
  rw [choi_of_basis_map]; rfl

/-- **C17.2c** the builder inverts `mapOfChoi`: a map handed over as a Choi matrix in the code's convention is read
    back as that matrix (this is how the correspondence check and the oracle pass interventions) -/
theorem choi_roundtrip (J : M4) : choiOf (mapOfChoi J) = J := by
  funext r c
  rw [choiOf_apply, mapOfChoi_unit]
  congr 1 <;> (apply Fin.ext; simp only [hi, lo]; omega)

/-- **C17.2d** (`dual_biorthogonal`) the model's dual frame satisfies the defining equations
    `Tr(D_aᴴ B_b) = δ_ab` (the code checks the same 256 numbers at 1e-10 inside `run`) -/
theorem dual_biorthogonal (a b : Fin 16) :
    trace ((toMat (choiD a))ᴴ * toMat (choiB b)) = if a = b then 1 else 0 := by
  have h : ∀ a b : Fin 16, hsInner (choiD a) (choiB b) = if a = b then 1 else 0 := by decide +kernel
  exact (hsInner_eq_trace (toMat (choiD a)) (toMat (choiB b))).symm.trans (h a b)

/-- **C17.2e** (`dual_expansion`) linear algebra, any commutative star ring, any size: a family `B` with as many
    members as matrix entries and a biorthogonal family `D` reconstruct **every** matrix:
    `J = Σ_a Tr(D_aᴴ J) B_a` (left inverse = right inverse for square matrices) -/
theorem dual_expansion {K ι n : Type*} [CommRing K] [StarRing K] [Fintype ι] [DecidableEq ι] [Fintype n]
    [DecidableEq n] (B D : ι → Matrix n n K) (hcard : Fintype.card ι = Fintype.card (n × n))
    (hbi : ∀ a b, trace ((D a)ᴴ * B b) = if a = b then 1 else 0) (J : Matrix n n K) :
    J = ∑ a, trace ((D a)ᴴ * J) • B a :=
  frame_expansion B D hcard hbi J

/-- **C17.2f** the defining equations have exactly one solution, so modelling them (instead of `numpy.linalg.pinv`)
    loses nothing: whatever the code computes, if it passes its own sanity check exactly it is `choiD` -/
theorem dual_frame_unique (D' : Fin 16 → Mat4)
    (h : ∀ a b, trace ((D' a)ᴴ * toMat (choiB b)) = if a = b then 1 else 0) :
    D' = fun a => toMat (choiD a) :=
  dual_unique (fun b => toMat (choiB b)) (fun a => toMat (choiD a)) D' (by simp) dual_biorthogonal h

/-- **C17.2g** for the code's frame: every 4×4 matrix is the combination of the sixteen basis matrices with the
    coefficients `c_a = Tr(D_aᴴ J)` that `predict_final_state` computes -/
theorem dual_expansion_model (J : Mat4) : J = ∑ a, coeffs J a • toMat (choiB a) := by
  have := dual_expansion (fun b => toMat (choiB b)) (fun a => toMat (choiD a)) (by simp) dual_biorthogonal J
  have hc : ∀ a, coeffs J a = trace ((toMat (choiD a))ᴴ * J) := fun a => hsInner_eq_trace (toMat (choiD a)) J
  simp only [hc]
  exact this

/-- **C17.2h** the sixteen Choi matrices are linearly independent … -/
theorem choi_basis_independent : LinearIndependent CRatT (fun a : Fin 16 => toMat (choiB a)) := by
  rw [Fintype.linearIndependent_iff]
  intro g hg a
  have := frame_coeff_unique (fun b => toMat (choiB b)) (fun b => toMat (choiD b)) dual_biorthogonal g a
  rw [← this, hg, Matrix.mul_zero, trace_zero]

/-- … and span all 4×4 matrices: they form a basis -/
theorem choi_basis_spans (J : Mat4) : J ∈ Submodule.span CRatT (Set.range fun a : Fin 16 => toMat (choiB a)) := by
  rw [dual_expansion_model J]
  exact Submodule.sum_mem _ fun a _ => Submodule.smul_mem _ _ (Submodule.subset_span ⟨a, rfl⟩)

/-! ## the contraction of `predict_final_state` -/

/-- **C17.3a** the loop `for step in reversed(range(k)): tensordot(result, c[step], ([-1],[0]))` computes
    `Σ_{a_0…a_{k-1}} T[a_0,…,a_{k-1}] · Π_t c_t[a_t]`: axis `t` of the table meets the coefficients of slot `t`,
    for every `k` -/
theorem predict_contraction_order (k : Nat) (t : TensK k) (cs : Fin k → Fin 16 → CRatT) :
    predict k t cs = ∑ r : Fin k → Fin 16, (∏ i, cs i (r i)) * entry k t r :=
  predict_eq_sum k t cs

/-- **C17.3a'** storage layout: entry `[a_0,…,a_{k-1}]` of output component `o` sits at the C-order flat index
    `((o·16 + a_0)·16 + a_1)…` of `self.tensor` (what `to_linear_map_matrix` reshapes) -/
theorem tensor_layout (arr : Array CRatT) (k o : Nat) (r : Fin k → Fin 16) :
    entry k (ofFlat arr k o) r = arr.getD (flatIdx k o r) 0 :=
  entry_ofFlat arr k o r

/-- **C17.3b** (`predict_multilinear`) for any multilinear `T` on any ℚ(i)-module and any family `B`: contracting the
    table `T(B_{a_1},…,B_{a_k})` with coefficient vectors in the code's order is `T` on the expanded arguments -/
theorem predict_multilinear {V : Type*} [AddCommGroup V] [Module CRatT V] {k : Nat}
    (T : MultilinearMap CRatT (fun _ : Fin k => V) CRatT) (B : Fin 16 → V) (tens : TensK k)
    (htab : ∀ r : Fin k → Fin 16, entry k tens r = T (fun t => B (r t))) (c : Fin k → Fin 16 → CRatT) :
    predict k tens c = T (fun t => ∑ a, c t a • B a) :=
  predict_table T B tens htab c

/-! ## branch weights -/

/-- **C17.4a** (`weights`, one step, the executable model of `_reprepare_site_zero[_vector]_forced`, any environment
    dimension, any state): probability × re-prepared state = `(A_{p,m} ⊗ id)(|ψ⟩⟨ψ|)`, the unnormalised comb entry.
    In the window `0 < prob ≤ 1e-15` the code skips the normalisation (and the worker abandons the branch). -/
theorem weights_step (d : Nat) (m p : Fin 4) (ψ : Fin 2 → Fin d → CRatT)
    (h : prob d m ψ = 0 ∨ thr15 < prob d m ψ) (x y : Fin 2 × Fin d) :
    rsmul (prob d m ψ) (reprepDensity d m p ψ x y) = applyBasisMap d m p (outer d ψ) x y :=
  reprep_weight d m p ψ h x y

/-- the probability is the Born probability `⟨ψ| E_m ⊗ 1 |ψ⟩ = Tr[(A_{p,m} ⊗ id)(|ψ⟩⟨ψ|)]`-part: it is the
    `ρ_p`-independent factor, i.e. the trace over the environment of `⟨m|ρ|m⟩` -/
theorem prob_eq_born (d : Nat) (m : Fin 4) (ψ : Fin 2 → Fin d → CRatT) :
    ofRat (prob d m ψ) = ∑ c : Fin d, fsum 2 (fun t => fsum 2 (fun t' => eff m t' t * (ψ t c * conj (ψ t' c)))) := by
  unfold prob
  rw [fsum_eq_sum, Finset.mul_sum, ofRat_sum]
  refine Finset.sum_congr rfl fun c _ => ?_
  rw [← env_outer, mul_conj_self, rsmul_eq_mul, ofRat_mul]

/-- **C17.4b** (`weights`, whole sequence, every `k`) abstractly over the state space: with `K_t` the probe
    operators, `U_t` the segment evolutions (any linear maps), `nsq` a definite squared norm and `q` a quadratic
    read-out, the worker's `weight · q(final normalised state)` equals `q(U_k K_k … U_1 K_1 ψ₀)` — the
    unnormalised comb entry; dead branches (`p = 0`) included -/
theorem weights_sequence {V W : Type*} [AddCommGroup V] [Module ℝ V] [AddCommGroup W] [Module ℝ W]
    (nsq : V → ℝ) (q : V → W) (hq : ∀ (r : ℝ) (v : V), q (r • v) = r ^ 2 • q v)
    (hn0 : ∀ v, 0 ≤ nsq v) (hdef : ∀ v, nsq v = 0 → v = 0)
    (steps : List ((V →ₗ[ℝ] V) × (V →ₗ[ℝ] V))) (ψ₀ : V) :
    (workerRun nsq steps (1, ψ₀)).1 • q (workerRun nsq steps (1, ψ₀)).2 = q (rawRun steps ψ₀) := by
  have := workerRun_invariant nsq q hq hn0 hdef steps 1 ψ₀ 1 zero_le_one (by norm_num)
  simpa using this

/-- **C17.4c** the weight bookkeeping with the `< 1e-15` break: a sequence that is not abandoned returns the product
    of all its projection probabilities after exactly `k` re-preparations -/
theorem weights_walk_alive (ps : List Rat) (w : Rat) (n : Nat) (h : seqWalk ps 1 0 = (w, n, false)) :
    w = weightProd ps ∧ n = ps.length := by
  have := seqWalk_alive ps 1 0 w n h
  simpa using this

/-- … and an abandoned one returns the product up to the break, which is below `1e-15` -/
theorem weights_walk_dead (ps : List Rat) (w : Rat) (n : Nat) (h : seqWalk ps 1 0 = (w, n, true)) :
    w < thr15 ∧ n ≤ ps.length ∧ w = weightProd (ps.take n) := by
  have := seqWalk_dead ps 1 0 w n h
  simpa using this

/-! ## the property -/

/-- **C17 (partial)** Let `comb` be multilinear in the Choi matrices of the `k` interventions (hypothesis: physics of
    quantum combs) and let the stored table hold `comb` on the probe maps (hypothesis: exact segment simulation +
    `weights_*`).  Then for **every** choice of 4×4 matrices `J_0,…,J_{k-1}` — Choi matrices of held-out CP maps in
    particular — `predict_final_state`'s dual-frame contraction returns `comb (J_0,…,J_{k-1})`; every `k`. -/
theorem c17_partial {k : Nat} (comb : MultilinearMap CRatT (fun _ : Fin k => Mat4) CRatT) (tens : TensK k)
    (htab : ∀ r : Fin k → Fin 16, entry k tens r = comb (fun t => toMat (choiB (r t))))
    (J : Fin k → Mat4) :
    predict k tens (fun t => coeffs (J t)) = comb J := by
  rw [predict_multilinear comb (fun a => toMat (choiB a)) tens htab]
  congr 1
  funext t
  exact (dual_expansion_model (J t)).symm

/-- the table hypothesis is satisfiable for every comb (non-vacuity of `htab`): tabulating the comb on the probes and
    predicting reproduces the comb everywhere -/
theorem c17_partial_tabulated {k : Nat} (comb : MultilinearMap CRatT (fun _ : Fin k => Mat4) CRatT)
    (J : Fin k → Mat4) :
    predict k (tabulate k (fun r => comb (fun t => toMat (choiB (r t))))) (fun t => coeffs (J t)) = comb J :=
  c17_partial comb _ (fun r => entry_tabulate k _ r) J

/-- **C17 (partial), over ℂ** the same statement for complex-valued combs and arbitrary complex 4×4 matrices `J_t`
    (Choi matrices of arbitrary CP maps): the sum that `predict_final_state` evaluates
    (`predict_contraction_order`), with the code's duals and basis embedded into ℂ, equals the comb.
    Hypotheses as in `c17_partial`: `comb` multilinear (physics), the table holds `comb` on the probes. -/
theorem c17_partial_complex {k : Nat} (comb : MultilinearMap ℂ (fun _ : Fin k => Matrix (Fin 4) (Fin 4) ℂ) ℂ)
    (table : (Fin k → Fin 16) → ℂ)
    (htab : ∀ r, table r = comb (fun t => (toMat (choiB (r t))).map toComplex))
    (J : Fin k → Matrix (Fin 4) (Fin 4) ℂ) :
    ∑ r : Fin k → Fin 16, (∏ t, trace (((toMat (choiD (r t))).map toComplex)ᴴ * J t)) * table r = comb J := by
  simp only [htab]
  exact predict_sum_field toComplex toComplex_star (fun b => toMat (choiB b)) (fun a => toMat (choiD a)) (by simp)
    dual_biorthogonal comb J

/-! ## non-vacuity: concrete instances -/

/-- `weights_sequence` applies to every normed space with `nsq = ‖·‖²` … -/
example {V W : Type*} [NormedAddCommGroup V] [Module ℝ V] [AddCommGroup W] [Module ℝ W] (q : V → W)
    (hq : ∀ (r : ℝ) (v : V), q (r • v) = r ^ 2 • q v) (steps : List ((V →ₗ[ℝ] V) × (V →ₗ[ℝ] V))) (ψ₀ : V) :
    (workerRun (fun v => ‖v‖ ^ 2) steps (1, ψ₀)).1 • q (workerRun (fun v => ‖v‖ ^ 2) steps (1, ψ₀)).2 =
      q (rawRun steps ψ₀) :=
  weights_sequence _ q hq (fun v => sq_nonneg ‖v‖) (fun _ h => norm_eq_zero.mp ((pow_eq_zero_iff two_ne_zero).mp h))
    steps ψ₀

/-- … e.g. `V = W = ℝ`, `q v = v²` (a quadratic read-out exists) -/
example (r v : ℝ) : (fun x : ℝ => x ^ 2) (r • v) = r ^ 2 • (fun x : ℝ => x ^ 2) v := by
  simp [mul_pow]


/-- a concrete held-out intervention: the identity channel has Choi matrix `Σ_ij |i⟩⟨j| ⊗ |i⟩⟨j|`, which is none of the
    probes, and its dual coefficients are not one-hot -/
example : choiOf (fun σ => σ) = (fun r c => if (r.val = 0 ∨ r.val = 3) ∧ (c.val = 0 ∨ c.val = 3) then 1 else 0) := by
  funext r c; revert r c; decide +kernel

example : coeffs (choiOf (fun σ => σ)) 0 = 2 ∧ coeffs (choiOf (fun σ => σ)) 1 = 1 ∧
    coeffs (choiOf (fun σ => σ)) 2 = -1 ∧ coeffs (choiOf (fun σ => σ)) 11 = 0 := by decide +kernel

/-- the probes reproduce themselves: one-hot coefficients (`test_dual_extracts_one_hot_for_basis_maps`) -/
example : ∀ a b : Fin 16, coeffs (choiB a) b = if b = a then 1 else 0 := by decide +kernel

/-- a dead and a live branch on a two-site state `|0⟩⊗|1⟩`: projecting on `|1⟩` has probability 0, on `|+⟩` 1/2 -/
example : prob 2 1 (fun s c => if s.val = 0 ∧ c.val = 1 then 1 else 0) = 0 ∧
    prob 2 2 (fun s c => if s.val = 0 ∧ c.val = 1 then 1 else 0) = 1/2 := by decide +kernel

/-- the weight walk: `[1/2, 1/4]` survives with weight `1/8`; `[1/2, 0, 1/3]` is abandoned after two steps -/
example : seqWalk [1/2, 1/4] 1 0 = (1/8, 2, false) ∧ seqWalk [1/2, 0, 1/3] 1 0 = (0, 2, true) := by decide +kernel

/-- a one-slot table and a two-slot table contracted in the code's order (slot 0 ↔ axis 0, slot 1 ↔ axis 1) -/
example : predict 2 (fun a b => if a.val = 1 ∧ b.val = 2 then (1 : CRatT) else 0)
    (fun t a => if t.val = 0 then (if a.val = 1 then 3 else 0) else (if a.val = 2 then 5 else 7)) = 15 := by
  decide +kernel

/-- a multilinear comb for every `k`: `comb (J_1,…,J_k) = Tr(J_1 ⋯ J_k)` — `c17_partial_tabulated` applies to it -/
noncomputable example (k : Nat) : MultilinearMap CRatT (fun _ : Fin k => Mat4) CRatT :=
  (Matrix.traceLinearMap (Fin 4) CRatT CRatT).compMultilinearMap (MultilinearMap.mkPiAlgebraFin CRatT k Mat4)

/-! ## extension: the exact comb is multilinear — `c17_partial` without the physics hypothesis

`Model/TomoComb.lean` / `Lemmas/TomoComb.lean` define the object the property text talks about, in the order of
operations of `_tomography_sequence_worker` (for `k` interventions there are `k` segments; in every slot **first** the
intervention on site 0, **then** the evolution of the whole chain; no evolution before the first intervention):

  `physComb k U X₀ J o = ( Tr_env[ U_{k-1} (A_{J_{k-1}}⊗id)( … U_0 (A_{J_0}⊗id)(X₀) U_0ᴴ … ) U_{k-1}ᴴ ] )_o`

for arbitrary joint matrices `U_t` (unitarity is not needed), an arbitrary joint operator `X₀` (the all-zeros product
state in particular) and interventions given by their Choi matrices `J_t` in the code's convention
(`J = Σ_ij A(|i⟩⟨j|) ⊗ |i⟩⟨j|`, `applyChoi`).  It is proved to be multilinear in `(J_0,…,J_{k-1})`, so the hypothesis
"`comb` is multilinear" of `c17_partial` is discharged for the exact dynamics.  What remains a hypothesis in
`c17_exact_dynamics` is only `htab`: the stored table holds the exact comb on the sixteen probe maps — i.e. "the
simulator's segments are the exact evolution" together with `weights_step` / `weights_sequence`; this is a numerical fact
about the back-ends, measured on every run (kinds `comb-exact`, `comb-real`, `heldout-entries` of `harness/impl/C17.py`). -/

section ExactComb
variable {K : Type*} [CommRing K] [StarRing K] {e : Type*} [Fintype e] [DecidableEq e]

omit [StarRing K] [Fintype e] [DecidableEq e] in
/-- **C17.5a** (`applyChoi_linear`) the action `(A_J ⊗ id)(X)` is linear in the Choi matrix `J` … -/
theorem applyChoi_linear (c : K) (J J' : Matrix (Fin 4) (Fin 4) K) (X : Joint K e) :
    applyChoi (c • J + J') X = c • applyChoi J X + applyChoi J' X := by
  rw [applyChoi_add_left, applyChoi_smul_left]

omit [StarRing K] [Fintype e] [DecidableEq e] in
/-- … and in the operator `X` it acts on -/
theorem applyChoi_linear_right (c : K) (J : Matrix (Fin 4) (Fin 4) K) (X X' : Joint K e) :
    applyChoi J (c • X + X') = c • applyChoi J X + applyChoi J X' := by
  rw [applyChoi_add_right, applyChoi_smul_right]

omit [StarRing K] [Fintype e] [DecidableEq e] in
/-- **C17.5b** `applyChoi J` is "the map with Choi matrix `J`, on site 0, identity on the environment": on product
    operators `σ ⊗ τ` it returns `A_J(σ) ⊗ τ` with `A_J(σ)[a,b] = Σ_ij J[2a+i, 2b+j] σ[i,j]` (product operators span, so
    together with `applyChoi_linear_right` this determines `applyChoi J`) -/
theorem applyChoi_on_products (J : Matrix (Fin 4) (Fin 4) K) (σ : Matrix (Fin 2) (Fin 2) K) (τ : Matrix e e K) :
    applyChoi J (kronJoint σ τ) = kronJoint (Matrix.of fun a b => ∑ i, ∑ j, J (idx4 a i) (idx4 b j) * σ i j) τ :=
  applyChoi_kronJoint J σ τ

/-- **C17.5c** (CP-map corollary, one Kraus operator) the map whose Choi matrix in the code's convention is
    `vec(A) vec(A)ᴴ` (row-major `vec`) acts as `X ↦ (A⊗1) X (A⊗1)ᴴ` -/
theorem applyChoi_single_kraus (A : Matrix (Fin 2) (Fin 2) K) (X : Joint K e) :
    applyChoi (vecMulVec (rowVec A) (star (rowVec A))) X = liftSite A * X * (liftSite A)ᴴ :=
  applyChoi_vecMulVec A X

/-- **C17.5d** (CP-map corollary) for Kraus operators `{A_n}`: `applyChoi` of the Choi matrix `Σ_n vec(A_n) vec(A_n)ᴴ`
    is `X ↦ Σ_n (A_n⊗1) X (A_n⊗1)ᴴ` — "any completely positive intervention" of the property text is an `applyChoi` -/
theorem applyChoi_cp {ν : Type*} [Fintype ν] (A : ν → Matrix (Fin 2) (Fin 2) K) (X : Joint K e) :
    applyChoi (krausChoi A) X = ∑ n, liftSite (A n) * X * (liftSite (A n))ᴴ :=
  applyChoi_krausChoi A X

omit [DecidableEq e] in
/-- **C17.6a** order of operations, first slot: intervention `J_0` on the initial operator, then segment `U_0`, then the
    remaining slots (`for step_i, duration in enumerate(timesteps): <reprepare>; <evolve>`) -/
theorem physComb_first_slot (k : Nat) (U : Fin (k + 1) → Joint K e) (J : Fin (k + 1) → Matrix (Fin 4) (Fin 4) K)
    (X : Joint K e) :
    physState (k + 1) U J X = physState k (Fin.tail U) (Fin.tail J) (U 0 * applyChoi (J 0) X * (U 0)ᴴ) := rfl

omit [DecidableEq e] in
/-- **C17.6b** order of operations, last slot: the final state is `U_k (A_{J_k}⊗id)(state after k slots) U_kᴴ` — the last
    thing that happens is a segment, not an intervention -/
theorem physComb_last_slot (k : Nat) (U : Fin (k + 1) → Joint K e) (J : Fin (k + 1) → Matrix (Fin 4) (Fin 4) K)
    (X : Joint K e) :
    physState (k + 1) U J X =
      U (Fin.last k) * applyChoi (J (Fin.last k)) (physState k (Fin.init U) (Fin.init J) X) * (U (Fin.last k))ᴴ :=
  physState_snoc k U J X

omit [DecidableEq e] in
/-- **C17.6c** (`physComb_multilinear`) for every `k`, all segment matrices and every initial operator, each output
    component of the exact comb is a multilinear function of the Choi matrices of the `k` interventions -/
theorem physComb_multilinear (k : Nat) (U : Fin k → Joint K e) (X0 : Joint K e) (o : Fin 4) :
    ∃ M : MultilinearMap K (fun _ : Fin k => Matrix (Fin 4) (Fin 4) K) K, ∀ J, M J = physComb k U X0 J o :=
  ⟨physCombML k U X0 o, fun _ => rfl⟩

omit [DecidableEq e] in
/-- **C17.6d** with interventions given by Kraus operators the comb is the Choi-free expression
    `Tr_env[ U_{k-1} Σ_n (A_{k-1,n}⊗1)( … )(A_{k-1,n}⊗1)ᴴ U_{k-1}ᴴ ]` -/
theorem physComb_cp {ν : Type*} [Fintype ν] [DecidableEq e] (k : Nat) (U : Fin k → Joint K e)
    (A : Fin k → ν → Matrix (Fin 2) (Fin 2) K) (X0 : Joint K e) (o : Fin 4) :
    physComb k U X0 (fun t => krausChoi (A t)) o = ptrace (krausState k U A X0) (hi o) (lo o) := by
  rw [physComb, physState_kraus]

omit [DecidableEq e] in
/-- **C17.7a** (`c17_exact_dynamics`, any commutative star ring `K ⊇ ℚ(i)`, e.g. ℂ) for every `k`, all joint matrices
    `U_t`, every initial joint operator `X₀` and **all** 4×4 matrices `J_t`: if the table holds the exact comb on the
    16^k probe sequences, then the sum evaluated by `predict_final_state` (`predict_contraction_order`), with the code's
    basis and duals embedded into `K`, is the exact comb at `(J_0,…,J_{k-1})`.  No multilinearity hypothesis. -/
theorem c17_exact_dynamics_ring (φ : CRatT →+* K) (hφ : ∀ z, φ (star z) = star (φ z)) {k : Nat}
    (U : Fin k → Joint K e) (X0 : Joint K e) (o : Fin 4) (table : (Fin k → Fin 16) → K)
    (htab : ∀ r, table r = physComb k U X0 (fun t => (toMat (choiB (r t))).map φ) o)
    (J : Fin k → Matrix (Fin 4) (Fin 4) K) :
    ∑ r : Fin k → Fin 16, (∏ t, trace (((toMat (choiD (r t))).map φ)ᴴ * J t)) * table r = physComb k U X0 J o := by
  simp only [htab]
  exact predict_sum_field φ hφ (fun b => toMat (choiB b)) (fun a => toMat (choiD a)) (by simp) dual_biorthogonal
    (physCombML k U X0 o) J

end ExactComb

/-- **C17.7b** (`c17_exact_dynamics`, over ℂ) complex segment matrices (the unitaries `exp(-i H t)` of any Hamiltonian
    in particular), any complex initial operator (the all-zeros state in particular), any complex `J_t` -/
theorem c17_exact_dynamics_complex {e : Type*} [Fintype e] {k : Nat} (U : Fin k → Joint ℂ e) (X0 : Joint ℂ e) (o : Fin 4)
    (table : (Fin k → Fin 16) → ℂ)
    (htab : ∀ r, table r = physComb k U X0 (fun t => (toMat (choiB (r t))).map toComplex) o)
    (J : Fin k → Matrix (Fin 4) (Fin 4) ℂ) :
    ∑ r : Fin k → Fin 16, (∏ t, trace (((toMat (choiD (r t))).map toComplex)ᴴ * J t)) * table r =
      physComb k U X0 J o :=
  c17_exact_dynamics_ring toComplex toComplex_star U X0 o table htab J

/-- **C17.7c** (over ℂ, "any completely positive intervention") with held-out interventions given by Kraus operators the
    prediction is `Tr_env` of the state obtained by applying `Σ_n (A_{t,n}⊗1) · (A_{t,n}⊗1)ᴴ` and the segments in turn -/
theorem c17_exact_dynamics_cp {e ν : Type*} [Fintype e] [DecidableEq e] [Fintype ν] {k : Nat} (U : Fin k → Joint ℂ e)
    (X0 : Joint ℂ e) (o : Fin 4) (table : (Fin k → Fin 16) → ℂ)
    (htab : ∀ r, table r = physComb k U X0 (fun t => (toMat (choiB (r t))).map toComplex) o)
    (A : Fin k → ν → Matrix (Fin 2) (Fin 2) ℂ) :
    ∑ r : Fin k → Fin 16, (∏ t, trace (((toMat (choiD (r t))).map toComplex)ᴴ * krausChoi (A t))) * table r =
      ptrace (krausState k U A X0) (hi o) (lo o) := by
  rw [c17_exact_dynamics_complex U X0 o table htab, physComb_cp]

/-- **C17.7d** (`c17_exact_dynamics`, executable form over ℚ(i)) the same for the executable objects: `predict` (the loop
    of `predict_final_state`) on a table that holds the executable comb `physCombE` on the probes returns `physCombE` on
    every `(J_0,…,J_{k-1})`; every `k`, every environment dimension `d`, all `U_t`, `X₀` -/
theorem c17_exact_dynamics {k d : Nat} (U : Fin k → JointE d) (X0 : JointE d) (o : Fin 4) (tens : TensK k)
    (htab : ∀ r : Fin k → Fin 16, entry k tens r = physCombE d (List.ofFn fun t => (U t, choiB (r t))) X0 o)
    (J : Fin k → M4) :
    predict k tens (fun t => coeffs (J t)) = physCombE d (List.ofFn fun t => (U t, J t)) X0 o := by
  rw [physCombE_ofFn, ← physCombML_apply]
  refine c17_partial (physCombML k (fun t => toJoint (U t)) (toJoint X0) o) tens (fun r => ?_) (fun t => toMat (J t))
  rw [htab r, physCombE_ofFn, physCombML_apply]

/-- the table hypothesis of `c17_exact_dynamics` is satisfiable for every `k`, `d`, `U`, `X₀` (non-vacuity): tabulating
    the exact comb on the probes and predicting reproduces the exact comb everywhere -/
theorem c17_exact_dynamics_tabulated {k d : Nat} (U : Fin k → JointE d) (X0 : JointE d) (o : Fin 4) (J : Fin k → M4) :
    predict k (tabulate k fun r => physCombE d (List.ofFn fun t => (U t, choiB (r t))) X0 o) (fun t => coeffs (J t)) =
      physCombE d (List.ofFn fun t => (U t, J t)) X0 o :=
  c17_exact_dynamics U X0 o _ (fun r => entry_tabulate k _ r) J

/-! ### the executable comb is the comb of the theorems; links to the older model objects -/

/-- **C17.8a** the executable comb (ℚ(i), `fsum`) is the matrix-level `physComb` -/
theorem physCombE_is_physComb (k d : Nat) (U : Fin k → JointE d) (J : Fin k → M4) (X : JointE d) (o : Fin 4) :
    physCombE d (List.ofFn fun t => (U t, J t)) X o =
      physComb k (fun t => toJoint (U t)) (toJoint X) (fun t => toMat (J t)) o :=
  physCombE_ofFn k d U J X o

/-- **C17.8b** what the driver runs (`comb` request: every intermediate operator stored as data) equals `physCombE` -/
theorem driver_comb_is_physCombE (d : Nat) (segs : List (JointE d × M4)) (X0 : JointE d) (o : Fin 4) :
    physCombT d (segs.map fun s => (tabJ d s.1, s.2)) (tabJ d X0) o = physCombE d segs X0 o :=
  physCombT_eq d segs X0 o

/-- **C17.8c** the executable `applyChoiE` (`applychoi` request) is `applyChoi` -/
theorem applyChoiE_is_applyChoi (d : Nat) (J : M4) (X : JointE d) :
    toJoint (applyChoiE d J X) = applyChoi (toMat J) (toJoint X) :=
  applyChoiE_eq d J X

/-- **C17.8d** on products the executable action goes through `mapOfChoi J`, the inverse of the builder inside
    `predict_final_state` (`choi_roundtrip`): `applyChoiE` uses the code's Choi convention -/
theorem applyChoi_via_mapOfChoi (d : Nat) (J : M4) (σ : M2) (τ : Fin d → Fin d → CRatT) :
    applyChoiE d J (fun x y => σ x.1 y.1 * τ x.2 y.2) = fun x y => mapOfChoi J σ x.1 y.1 * τ x.2 y.2 :=
  applyChoiE_product d J σ τ

/-- **C17.8e** (`applyChoi_of_probe`) for the probe `a = 4p+m` the action is the measure-and-prepare map
    `ρ ↦ Tr_site0(E_m ρ) ⊗ ρ_p` of `weights_step` … -/
theorem applyChoi_of_probe (d : Nat) (a : Fin 16) (X : JointE d) :
    applyChoiE d (choiB a) X = applyBasisMap d (choiIdx a).2 (choiIdx a).1 X :=
  applyChoiE_probe d a X

/-- … hence one forced re-preparation of the real worker (probability × re-prepared state) is `applyChoi` of the
    probe's Choi matrix on `|ψ⟩⟨ψ|` — the link between `weights_step` and the table hypothesis `htab` -/
theorem probe_step_is_applyChoi (d : Nat) (a : Fin 16) (ψ : Fin 2 → Fin d → CRatT)
    (h : prob d (choiIdx a).2 ψ = 0 ∨ thr15 < prob d (choiIdx a).2 ψ) (x y : Fin 2 × Fin d) :
    rsmul (prob d (choiIdx a).2 ψ) (reprepDensity d (choiIdx a).2 (choiIdx a).1 ψ x y) =
      applyChoiE d (choiB a) (outer d ψ) x y := by
  rw [applyChoi_of_probe]
  exact weights_step d (choiIdx a).2 (choiIdx a).1 ψ h x y

/-- **C17.8f** the builder inside `predict_final_state` turns a map given by Kraus operators into `Σ_n vec(A_n) vec(A_n)ᴴ`
    (so `applyChoi_cp` is about the matrix the real code computes) … -/
theorem builder_on_kraus {ν : Type*} [Fintype ν] (A : ν → Matrix (Fin 2) (Fin 2) CRatT) :
    choiOf (fun σ a b => ∑ n, (A n * toMat σ * (A n)ᴴ) a b) = krausChoi A :=
  choiOf_kraus A

/-- … and the executable `krausChoiE` (`krauschoi` request) is that matrix -/
theorem krausChoiE_is_krausChoi (n : Nat) (A : Fin n → M2) :
    toMat (krausChoiE (List.ofFn A)) = krausChoi (fun i => toMat (A i)) :=
  krausChoiE_ofFn n A

/-! ### pure states: what the worker's vector-level run has to do with the table hypothesis -/

/-- **C17.9a** (any commutative star ring) from a pure initial state, with one Kraus operator `A_t` per slot (the probes
    are of that kind), the state of the exact comb stays pure and is `|φ⟩⟨φ|` for the vector-level run
    `φ = U_{k-1}(A_{k-1}⊗1) … U_0 (A_0⊗1) ψ₀` — the un-normalised sequence `rawRun` that `weights_sequence` shows the
    worker's `weight × final state` to be equal to -/
theorem physComb_pure {K : Type*} [CommRing K] [StarRing K] {e : Type*} [Fintype e] [DecidableEq e] (k : Nat)
    (U : Fin k → Joint K e) (A : Fin k → Matrix (Fin 2) (Fin 2) K) (ψ : Fin 2 × e → K) :
    physState k U (fun t => vecMulVec (rowVec (A t)) (star (rowVec (A t)))) (vecMulVec ψ (star ψ)) =
      vecMulVec (pureRun k U A ψ) (star (pureRun k U A ψ)) :=
  physState_pure k U A ψ

/-- **C17.9b** every probe Choi matrix of the code is rank one: `B_{4p+m} = scale_p·scale_m · vec(A) vec(A)ᴴ` with
    `A = |vec_p⟩⟨vec_m|` (the projection-and-re-preparation operator of `_reprepare_site_zero[_vector]_forced`) -/
theorem probe_choi_rank_one (a : Fin 16) :
    toMat (choiB a) =
      ofRat (probeScale a) • vecMulVec (rowVec (toMat (probeOp a))) (star (rowVec (toMat (probeOp a)))) :=
  choiB_rank_one a

/-- **C17.9c** (what `htab` asks of an exact simulator) for every probe sequence `r`, every `k`, `d`, `U_t` and pure
    initial state `ψ₀`: the exact comb on the probes is `Π_t scale(r_t) · Tr_env |φ_r⟩⟨φ_r|` with `φ_r` the vector-level run
    of the probe operators.  Together with `weights_sequence` (worker's `weight × reduced final state` = the quadratic
    read-out of that run) the table hypothesis of `c17_exact_dynamics` is reduced to "each segment call returns
    `U_t ψ`" — the numerical fact about the back-ends that the kinds `comb-real*` / `heldout-entries` measure, and
    that `comb-exact*` makes true by construction. -/
theorem table_entry_of_exact_worker (k d : Nat) (U : Fin k → JointE d) (ψ0 : Fin 2 × Fin d → CRatT)
    (r : Fin k → Fin 16) (o : Fin 4) :
    physComb k (fun t => toJoint (U t)) (vecMulVec ψ0 (star ψ0)) (fun t => toMat (choiB (r t))) o =
      (∏ t, ofRat (probeScale (r t))) *
        ptrace (vecMulVec (pureRun k (fun t => toJoint (U t)) (fun t => toMat (probeOp (r t))) ψ0)
          (star (pureRun k (fun t => toJoint (U t)) (fun t => toMat (probeOp (r t))) ψ0))) (hi o) (lo o) :=
  physComb_probes_pure k d U ψ0 r o

/-- the probe operators are not trivial: probe 6 = prepare `|1⟩`, project on `x+`: `A = |1⟩(⟨0|+⟨1|)`, scale `1/2` -/
example : probeOp 6 = mk2 0 0 1 1 ∧ probeScale 6 = 1/2 := by
  constructor
  · funext i j; revert i j; decide +kernel
  · decide +kernel

/-! ### non-vacuity: a concrete two-site chain (`d = 2`) -/

/-- a unitary over ℚ(i) on two qubits that moves the environment into site 0: `(R ⊗ 1)·SWAP` with
    `R = [[3/5, 4i/5], [4i/5, 3/5]]` -/
def exU : JointE 2 := fun x y => mk2 ⟨3/5, 0⟩ ⟨0, 4/5⟩ ⟨0, 4/5⟩ ⟨3/5, 0⟩ x.1 y.2 * (if x.2 = y.1 then 1 else 0)

/-- the all-zeros state `|00⟩⟨00|` -/
def exZero : JointE 2 := fun x y => if x.1.val = 0 ∧ x.2.val = 0 ∧ y.1.val = 0 ∧ y.2.val = 0 then 1 else 0

/-- `exU` is unitary: `U 1 Uᴴ = 1` -/
example : evolveE 2 exU (fun x y => if x = y then 1 else 0) = fun x y => if x = y then 1 else 0 := by
  funext x y; revert x y; decide +kernel

/-- one slot, identity intervention: the reduced state of site 0 after the segment is `R|0⟩⟨0|Rᴴ` -/
example : (fun o => physCombE 2 [(exU, choiOf fun σ => σ)] exZero o) =
    fun o => if o.val = 0 then ⟨9/25, 0⟩ else if o.val = 1 then ⟨0, -12/25⟩ else if o.val = 2 then ⟨0, 12/25⟩
      else ⟨16/25, 0⟩ := by
  funext o; revert o; decide +kernel

/-- two slots: memory — the state prepared by the first intervention (probe 4 = prepare `|1⟩`, measure `|0⟩`) comes
    back to site 0 after the second segment although the second intervention (probe 0) re-prepares `|0⟩` -/
example : physCombT 2 [(tabJ 2 exU, choiB 0), (tabJ 2 exU, choiB 0)] (tabJ 2 exZero) 3 ≠
    physCombT 2 [(tabJ 2 exU, choiB 4), (tabJ 2 exU, choiB 0)] (tabJ 2 exZero) 3 := by
  decide +kernel

/-- `c17_exact_dynamics` at work on that chain: the table of the sixteen probe runs, contracted with the dual
    coefficients of the (held-out) identity channel, gives the component `9/25` computed directly above -/
example : predict 1 (tabulate 1 fun r => physCombE 2 (List.ofFn fun t : Fin 1 => (exU, choiB (r t))) exZero 0)
    (fun _ => coeffs (choiOf fun σ => σ)) = ⟨9/25, 0⟩ :=
  (c17_exact_dynamics_tabulated (k := 1) (d := 2) (fun _ => exU) exZero 0 (fun _ => choiOf fun σ => σ)).trans
    (by decide +kernel)

/-- a non-unitary Kraus pair (amplitude damping with `γ = 16/25`): its Choi matrix in the code's convention -/
example : krausChoiE [mk2 1 0 0 ⟨3/5, 0⟩, mk2 0 ⟨4/5, 0⟩ 0 0] =
    fun r c => if r.val = 0 ∧ c.val = 0 then 1 else if (r.val = 0 ∧ c.val = 3) ∨ (r.val = 3 ∧ c.val = 0) then ⟨3/5, 0⟩
      else if r.val = 3 ∧ c.val = 3 then ⟨9/25, 0⟩ else if r.val = 1 ∧ c.val = 1 then ⟨16/25, 0⟩ else 0 := by
  funext r c; revert r c; decide +kernel

/-- **C17.4e** (what the worker tie compares) for the probabilities observed along one probe sequence and `k` segments,
    `expectedCalls` is the weight the worker must return and the number of re-preparations it must have made: the full
    product after exactly `k` re-preparations when no partial product falls below `1e-15` (and `k` probabilities were seen),
    otherwise the partial product at the break — which is below `1e-15` — after the re-preparations up to and including it -/
theorem expected_calls_spec (k : Nat) (probs : List Rat) :
    (∀ w n, seqWalk probs 1 0 = (w, n, false) → expectedCalls k probs = (weightProd probs, k)) ∧
    (∀ w n, seqWalk probs 1 0 = (w, n, true) →
      expectedCalls k probs = (w, n) ∧ w < thr15 ∧ n ≤ probs.length ∧ w = weightProd (probs.take n)) := by
  constructor
  · intro w n h
    obtain ⟨hw, _⟩ := weights_walk_alive probs w n h
    simp [expectedCalls, h, hw]
  · intro w n h
    obtain ⟨h1, h2, h3⟩ := weights_walk_dead probs w n h
    exact ⟨by simp [expectedCalls, h], h1, h2, h3⟩

/-- the row-major reading of a flat `(2d)×(2d)` array as a joint operator (numpy `reshape(2, d, 2, d)`), as the `comb` and
    `applychoi` requests use it: entry `[(s,c),(s',c')]` is the array entry at `(s·d + c)·2d + (s'·d + c')` -/
theorem jointOfFlat_entry (d : Nat) (arr : Array CRatT) (s s' : Fin 2) (c c' : Fin d) :
    jointOfFlat d arr (s, c) (s', c') = arr.getD ((s.val * d + c.val) * (2 * d) + (s'.val * d + c'.val)) 0 := rfl

end Yaqs.Tomo
