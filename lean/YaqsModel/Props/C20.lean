import YaqsModel.Lemmas.Params

/-!
# C20 — a run depends only on its own arguments

Property theorems only (helpers in `Lemmas/Params.lean`).  `history p args` is the sequence of outcomes of
consecutive `simulator.run` calls on ONE parameter object `p` (class strong / weak / analog), the k-th call made
with `args[k]` = (noise model, what its trajectories compute).  The theorems quantify over every object, every
history length and every choice of noise models and back-ends — including histories in which some calls are refused
(`get_state` with a stochastic run; `shots = 0`): an exception is caught by the caller and the object lives on.  The
pairing `(history p args).zip args` reads "the k-th run together with its own arguments".

`expected p a` is what the caller asked for: one trajectory if the noise model is absent / all-zero (or the solver is
Lindblad), otherwise `num_traj` as constructed (strong, analog) resp. `shots` (weak).

Partial by nature (DESIGN §8): *independence* of the randomness of different trajectories is outside any model — the
back-end is a function here.  It is checked on the real code by trace (one unseeded `default_rng()` per trajectory
inside the back-end) and by a duplicate search over real serial and fork-pool runs.  That the circuit, Hamiltonian and
noise model objects are not written to is a trace property of the real code (deep comparison before/after), not a
theorem about this model.
-/
namespace Yaqs.Params

/-- everything the checks below need about one history, by induction over its length -/
private theorem history_master (q : Obj) : ∀ (args : List Arg) (p : Obj), SameArgs p q →
    ∀ oa ∈ (history p args).zip args,
      SameArgs oa.1.obj q ∧
      (Accepts q oa.2 → oa.1.err = none ∧ oa.1.executed = List.range (expected q oa.2) ∧
        delivered oa.1 = delivered (runObj q oa.2)) ∧
      (¬ Accepts q oa.2 → oa.1.err ≠ none)
  | [], _, _ => by simp [history, historyG]
  | a :: rest, p, hpq => by
    have hunf : history p (a :: rest) = runObj p a :: history (runObj p a).obj rest := by
      simp [history, historyG]
    rw [hunf]
    have hsq : SameArgs (runObj p a).obj q := (runObj_sameArgs p a).trans hpq
    intro oa hoa
    simp only [List.zip_cons_cons, List.mem_cons] at hoa
    rcases hoa with rfl | hoa
    · refine ⟨hsq, ?_, ?_⟩
      · intro haq
        have hacc : Accepts p a := (accepts_congr hpq a).mpr haq
        obtain ⟨herr, hex, _, _, _⟩ := runObj_accepts p a hacc
        exact ⟨herr, by rw [hex, expected_congr hpq a], (runObj_congr hpq a hacc).2.2⟩
      · intro hnq
        exact runObj_rejects p a (fun h => hnq ((accepts_congr hpq a).mp h))
    · exact history_master q rest (runObj p a).obj hsq oa hoa

/-- **C20.1 `executed_count`** For every history of runs on one object — whatever ran before, including calls that
    were refused — the k-th run, if it is a call the code accepts (`Accepts`: no final state from a stochastic run, at
    least one shot on the one-shot path), raises nothing and hands exactly the trajectories `0, …, n-1` to the back-end,
    where `n = 1` if that call is noise-free (or Lindblad) and otherwise the number requested *at construction*
    (`num_traj`, resp. `shots` in weak mode); a call that is not accepted raises. -/
theorem executed_count (p : Obj) (args : List Arg) :
    ∀ oa ∈ (history p args).zip args,
      (Accepts p oa.2 → oa.1.err = none ∧ oa.1.executed = List.range (expected p oa.2)) ∧
      (¬ Accepts p oa.2 → oa.1.err ≠ none) := by
  intro oa hoa
  obtain ⟨_, h1, h2⟩ := history_master p args p (SameArgs.refl p) oa hoa
  exact ⟨fun h => ⟨(h1 h).1, (h1 h).2.1⟩, h2⟩

/-- **C20.1b** an object with `get_state = False` and (weak mode) `shots > 0` accepts every call, so no run of any
    history on it raises. -/
theorem history_no_error (p : Obj) (args : List Arg) (hg : p.getState = false)
    (hs : p.kind = .weak → 0 < p.shots) : ∀ oa ∈ (history p args).zip args, oa.1.err = none := by
  intro oa hoa
  have hacc : Accepts p oa.2 := ⟨Or.inr hg, fun hk _ => hs hk⟩
  exact ((executed_count p args oa hoa).1 hacc).1

/-- **C20.2 `fields_restored`** after every run of every history — accepted or refused — the object still carries
    the constructor's class, `get_state`, solver, `num_traj` (strong, analog) and `shots` (weak): the single-trajectory
    shortcut and the shots ↔ trajectories rewrite are undone, and a refused call writes neither. -/
theorem fields_restored (p : Obj) (args : List Arg) :
    ∀ oa ∈ (history p args).zip args, SameArgs oa.1.obj p :=
  fun oa hoa => (history_master p args p (SameArgs.refl p) oa hoa).1

/-- **C20.3 `fresh_equiv`** In every history every accepted run — noise-free or not, the back-end being a function
    of its arguments — delivers exactly what the same call delivers on a freshly constructed object: results of earlier
    runs (stale `measurements`, stale trajectory storage, an overwritten `num_traj` or `shots`) cannot leak. -/
theorem fresh_equiv (p : Obj) (args : List Arg) :
    ∀ oa ∈ (history p args).zip args, Accepts p oa.2 →
      delivered oa.1 = delivered (runObj (fresh p.kind p.numTraj p.shots p.getState p.lindblad) oa.2) := by
  intro oa hoa hacc
  obtain ⟨_, h1, _⟩ := history_master p args p (SameArgs.refl p) oa hoa
  have hsf : SameArgs p (fresh p.kind p.numTraj p.shots p.getState p.lindblad) := by
    refine ⟨rfl, rfl, rfl, ?_, fun _ => rfl⟩
    intro hk; simp [fresh, hk]
  rw [(h1 hacc).2.2]
  exact (runObj_congr hsf oa.2 hacc).2.2

/-- **C20.3b** the noise-free strong / analog result is trajectory 0's value, nothing else -/
theorem noise_free_result (p : Obj) (a : Arg) (hk : p.kind ≠ .weak) (hnf : isNoiseFree a.noise = true) :
    (runObj p a).err = none ∧ (runObj p a).executed = [0] ∧ (runObj p a).obj.results = some (a.be 0) := by
  have hsingle : single p a = true := by
    unfold single; cases hkk : p.kind <;> simp_all
  have hacc : Accepts p a := ⟨Or.inl hsingle, fun h _ => absurd h hk⟩
  obtain ⟨h1, h2, _, _, h5⟩ := runObj_accepts p a hacc
  have he : expected p a = 1 := by rw [expected_eq, hsingle]; rfl
  rw [he] at h2
  refine ⟨h1, by simpa [List.range, List.range.loop] using h2, ?_⟩
  rw [h5 hk, he]
  simpa [List.range, List.range.loop] using meanRows_single (a.be 0)

/-- one accepted weak call returns `shots` counts -/
private theorem runObj_counts_total (q : Obj) (a : Arg) (hk : q.kind = .weak) (hacc : Accepts q a)
    (hbw : ∀ i s, total (a.bw i s) = s) : total (runObj q a).obj.counts = q.shots := by
  obtain ⟨_, _, _, hw, _⟩ := runObj_accepts q a hacc
  obtain ⟨_, c, hc, hcnt⟩ := hw hk
  obtain ⟨c', hc', ht⟩ := aggregate_weakStore (single q a) q.shots a.bw
  rw [hc'] at hc
  injection hc with hc
  rw [hcnt, ← hc, ht]
  split
  · exact hbw 0 q.shots
  · rw [sum_map_eq_length _ _ (fun i _ => hbw i 1), List.length_range]

/-- **C20.4 `counts_total`** (used by C12) weak mode, any history, both policies (all shots from one noise-free
    trajectory / one shot per noisy trajectory): if every trajectory returns as many counts as the `shots` value it reads
    from the object, every accepted run of the history returns exactly the constructor's `shots` counts. -/
theorem counts_total (p : Obj) (args : List Arg) (hk : p.kind = .weak)
    (hbw : ∀ a ∈ args, ∀ i s, total (a.bw i s) = s) :
    ∀ oa ∈ (history p args).zip args, Accepts p oa.2 → total oa.1.obj.counts = p.shots := by
  intro oa hoa hacc
  obtain ⟨hsame, h1, _⟩ := history_master p args p (SameArgs.refl p) oa hoa
  have hd := (h1 hacc).2.2
  have ha : oa.2 ∈ args := (List.of_mem_zip hoa).2
  have h2 := runObj_counts_total p oa.2 hk hacc (hbw oa.2 ha)
  have hk1 : oa.1.obj.kind = .weak := by rw [hsame.1]; exact hk
  have hk2 : (runObj p oa.2).obj.kind = .weak := by rw [runObj_kind p oa.2 hacc]; exact hk
  unfold delivered at hd
  rw [hk1, hk2] at hd
  have : oa.1.obj.counts = (runObj p oa.2).obj.counts := (Prod.mk.inj hd).2
  rw [this]; exact h2

/-! ### concrete histories: non-vacuity, the old variants (D13, D14) and the leak on the assertion path -/

/-- the stub back-ends of the correspondence check: run `r`, trajectory `i` -/
def exArg (noise : Option (List Rat)) (r : Nat) : Arg :=
  ⟨noise, fun i => ((100 * r + i + 1 : Nat) : Rat),
   fun i s => [((i + r) % 4, s - s / 2), ((i + r + 1) % 4, s / 2)].filter (·.2 ≠ 0)⟩

example : ∀ i s, total ((exArg none 3).bw i s) = s := by
  intro i s
  simp only [exArg]
  rw [total_filter_nonzero]
  simp [total]
  omega

/-- the hypotheses of the history theorems hold on a mixed history, and the conclusions are not trivial there -/
example : (history (fresh .strong 7 0 false false) [exArg none 0, exArg (some [1/10]) 1, exArg (some [0, 0]) 2]).map
    (fun o => (o.err, o.executed.length, o.obj.numTraj, o.obj.results.isSome)) =
    [(none, 1, 7, true), (none, 7, 7, true), (none, 1, 7, true)] := by decide +kernel

example : (history (fresh .weak 0 5 false false) [exArg (some [1/10]) 0, exArg none 1]).map
    (fun o => (o.err, o.executed.length, o.shotsSeen, o.obj.shots, total o.obj.counts)) =
    [(none, 5, 1, 5, 5), (none, 1, 5, 5, 5)] := by decide +kernel

example : (history (fresh .analog 3 0 true true) [exArg (some [1/10]) 0]).map
    (fun o => (o.err, o.executed)) = [(none, [0])] := by decide +kernel

/-- **D13** (code as found) a noise-free run followed by a noisy run on `num_traj = 7`: the second run executes one
    trajectory, the repaired policy executes seven -/
theorem old_noise_free_run_shrinks_next_run :
    (historyOld (fresh .strong 7 0 false false) [exArg none 0, exArg (some [1/10]) 1]).map (·.executed.length) = [1, 1] ∧
    (history (fresh .strong 7 0 false false) [exArg none 0, exArg (some [1/10]) 1]).map (·.executed.length) = [1, 7] ∧
    (historyOld (fresh .analog 7 0 false false) [exArg (some []) 0, exArg (some [1/10]) 1]).map (·.executed.length) = [1, 1] := by
  decide +kernel

/-- **D14** (code as found) weak mode, `shots = 5`: a noisy run followed by a noise-free run returns 9 counts (the four
    stale single-shot results are summed in); the repaired policy returns 5 -/
theorem old_stale_measurements_leak :
    (historyOld (fresh .weak 0 5 false false) [exArg (some [1/10]) 0, exArg none 1]).map (fun o => total o.obj.counts) = [5, 9] ∧
    (history (fresh .weak 0 5 false false) [exArg (some [1/10]) 0, exArg none 1]).map (fun o => total o.obj.counts) = [5, 5] := by
  decide +kernel

/-- **D26** (tree before 7334db6) a weak call that is *refused* (`get_state` with a noisy model) raised after `shots`
    had been overwritten with 1, so a later run on the same object returned one count instead of five; the repaired
    order refuses first and the later run returns five. -/
theorem weak_getstate_leaks_shots :
    (historyAssertLate (fresh .weak 0 5 true false) [exArg (some [1/10]) 0, exArg none 1]).map
      (fun o => (o.err, o.obj.shots, total o.obj.counts)) = [(some .assertGetState, 1, 0), (none, 1, 1)] ∧
    (history (fresh .weak 0 5 true false) [exArg (some [1/10]) 0, exArg none 1]).map
      (fun o => (o.err, o.obj.shots, total o.obj.counts)) = [(some .assertGetState, 5, 0), (none, 5, 5)] := by
  decide +kernel

/-- non-vacuity of the refused branch: `Accepts` fails exactly on the two documented refusals -/
example : ¬ Accepts (fresh .weak 0 5 true false) (exArg (some [1/10]) 0) ∧ Accepts (fresh .weak 0 5 true false) (exArg none 1) ∧
    ¬ Accepts (fresh .weak 0 0 false false) (exArg none 0) ∧ Accepts (fresh .analog 3 0 true true) (exArg (some [1/10]) 0) := by
  simp [Accepts, single, fresh, exArg, isNoiseFree]

end Yaqs.Params
