import YaqsModel.Lemmas.Params
import YaqsModel.Model.NoiseNorm

/-!
# C20 — a run depends only on its own arguments

Property theorems only (helpers in `Lemmas/Params.lean`).  `history p args` is the sequence of outcomes of
consecutive `simulator.run` calls on ONE parameter object `p` (class strong / weak / analog), the k-th call made
with `args[k]` = (noise model, what its trajectories compute).  The theorems quantify over every object, every
history length and every choice of noise models and back-ends — including histories in which some calls are refused
(`get_state` with a stochastic run; `shots = 0`): an exception is caught by the caller and the object lives on.  The
pairing `(history p args).zip args` reads "the k-th run together with its own arguments".

`expected p a` is what the caller asked for: one trajectory if the noise model is absent / all-zero (or the solver is
Lindblad), otherwise `num_traj` as constructed (strong, analog) resp. `shots` (weak).

Partial by nature (DESIGN §8): *independence* of the randomness of different trajectories is outside any model — the
back-end is a function here.  It is checked on the real code by trace (one unseeded `default_rng()` per trajectory
inside the back-end) and by a duplicate search over real serial and fork-pool runs.  That the circuit, Hamiltonian and
noise model objects are not written to is a trace property of the real code (deep comparison before/after), not a
theorem about this model.
-/
namespace Yaqs.Params

/-- everything the checks below need about one history, by induction over its length -/
private theorem history_master (q : Obj) : ∀ (args : List Arg) (p : Obj), SameArgs p q →
    ∀ oa ∈ (history p args).zip args,
      SameArgs oa.1.obj q ∧
      (Accepts q oa.2 → oa.1.err = none ∧ oa.1.executed = List.range (expected q oa.2) ∧
        delivered oa.1 = delivered (runObj q oa.2)) ∧
      (¬ Accepts q oa.2 → oa.1.err ≠ none)
  | [], _, _ => by simp [history, historyG]
  | a :: rest, p, hpq => by
    have hunf : history p (a :: rest) = runObj p a :: history (runObj p a).obj rest := by
      simp [history, historyG]
    rw [hunf]
    have hsq : SameArgs (runObj p a).obj q := (runObj_sameArgs p a).trans hpq
    intro oa hoa
    simp only [List.zip_cons_cons, List.mem_cons] at hoa
    rcases hoa with rfl | hoa
    · refine ⟨hsq, ?_, ?_⟩
      · intro haq
        have hacc : Accepts p a := (accepts_congr hpq a).mpr haq
        obtain ⟨herr, hex, _, _, _⟩ := runObj_accepts p a hacc
        exact ⟨herr, by rw [hex, expected_congr hpq a], (runObj_congr hpq a hacc).2.2⟩
      · intro hnq
        exact runObj_rejects p a (fun h => hnq ((accepts_congr hpq a).mp h))
    · exact history_master q rest (runObj p a).obj hsq oa hoa

/-- **C20.1 `executed_count`** For every history of runs on one object — whatever ran before, including calls that
    were refused — the k-th run, if it is a call the code accepts (`Accepts`: no final state from a stochastic run, at
    least one shot on the one-shot path), raises nothing and hands exactly the trajectories `0, …, n-1` to the back-end,
    where `n = 1` if that call is noise-free (or Lindblad) and otherwise the number requested *at construction*
    (`num_traj`, resp. `shots` in weak mode); a call that is not accepted raises. -/
theorem executed_count (p : Obj) (args : List Arg) :
    ∀ oa ∈ (history p args).zip args,
      (Accepts p oa.2 → oa.1.err = none ∧ oa.1.executed = List.range (expected p oa.2)) ∧
      (¬ Accepts p oa.2 → oa.1.err ≠ none) := by
  intro oa hoa
  obtain ⟨_, h1, h2⟩ := history_master p args p (SameArgs.refl p) oa hoa
  exact ⟨fun h => ⟨(h1 h).1, (h1 h).2.1⟩, h2⟩

/-- **C20.1b** an object with `get_state = False` and (weak mode) `shots > 0` accepts every call, so no run of any
    history on it raises. -/
theorem history_no_error (p : Obj) (args : List Arg) (hg : p.getState = false)
    (hs : p.kind = .weak → 0 < p.shots) : ∀ oa ∈ (history p args).zip args, oa.1.err = none := by
  intro oa hoa
  have hacc : Accepts p oa.2 := ⟨Or.inr hg, fun hk _ => hs hk⟩
  exact ((executed_count p args oa hoa).1 hacc).1

/-- **C20.2 `fields_restored`** after every run of every history — accepted or refused — the object still carries
    the constructor's class, `get_state`, solver, `num_traj` (strong, analog) and `shots` (weak): the single-trajectory
    shortcut and the shots ↔ trajectories rewrite are undone, and a refused call writes neither. -/
theorem fields_restored (p : Obj) (args : List Arg) :
    ∀ oa ∈ (history p args).zip args, SameArgs oa.1.obj p :=
  fun oa hoa => (history_master p args p (SameArgs.refl p) oa hoa).1

/-- **C20.3 `fresh_equiv`** In every history every accepted run — noise-free or not, the back-end being a function
    of its arguments — delivers exactly what the same call delivers on a freshly constructed object: results of earlier
    runs (stale `measurements`, stale trajectory storage, an overwritten `num_traj` or `shots`) cannot leak. -/
theorem fresh_equiv (p : Obj) (args : List Arg) :
    ∀ oa ∈ (history p args).zip args, Accepts p oa.2 →
      delivered oa.1 = delivered (runObj (fresh p.kind p.numTraj p.shots p.getState p.lindblad) oa.2) := by
  intro oa hoa hacc
  obtain ⟨_, h1, _⟩ := history_master p args p (SameArgs.refl p) oa hoa
  have hsf : SameArgs p (fresh p.kind p.numTraj p.shots p.getState p.lindblad) := by
    refine ⟨rfl, rfl, rfl, ?_, fun _ => rfl⟩
    intro hk; simp [fresh, hk]
  rw [(h1 hacc).2.2]
  exact (runObj_congr hsf oa.2 hacc).2.2

/-- **C20.3b** the noise-free strong / analog result is trajectory 0's value, nothing else -/
theorem noise_free_result (p : Obj) (a : Arg) (hk : p.kind ≠ .weak) (hnf : isNoiseFree a.noise = true) :
    (runObj p a).err = none ∧ (runObj p a).executed = [0] ∧ (runObj p a).obj.results = some (a.be 0) := by
  have hsingle : single p a = true := by
    unfold single; cases hkk : p.kind <;> simp_all
  have hacc : Accepts p a := ⟨Or.inl hsingle, fun h _ => absurd h hk⟩
  obtain ⟨h1, h2, _, _, h5⟩ := runObj_accepts p a hacc
  have he : expected p a = 1 := by rw [expected_eq, hsingle]; rfl
  rw [he] at h2
  refine ⟨h1, by simpa [List.range, List.range.loop] using h2, ?_⟩
  rw [h5 hk, he]
  simpa [List.range, List.range.loop] using meanRows_single (a.be 0)

/-- one accepted weak call returns `shots` counts -/
private theorem runObj_counts_total (q : Obj) (a : Arg) (hk : q.kind = .weak) (hacc : Accepts q a)
    (hbw : ∀ i s, total (a.bw i s) = s) : total (runObj q a).obj.counts = q.shots := by
  obtain ⟨_, _, _, hw, _⟩ := runObj_accepts q a hacc
  obtain ⟨_, c, hc, hcnt⟩ := hw hk
  obtain ⟨c', hc', ht⟩ := aggregate_weakStore (single q a) q.shots a.bw
  rw [hc'] at hc
  injection hc with hc
  rw [hcnt, ← hc, ht]
  split
  · exact hbw 0 q.shots
  · rw [sum_map_eq_length _ _ (fun i _ => hbw i 1), List.length_range]

/-- **C20.4 `counts_total`** (used by C12) weak mode, any history, both policies (all shots from one noise-free
    trajectory / one shot per noisy trajectory): if every trajectory returns as many counts as the `shots` value it reads
    from the object, every accepted run of the history returns exactly the constructor's `shots` counts. -/
theorem counts_total (p : Obj) (args : List Arg) (hk : p.kind = .weak)
    (hbw : ∀ a ∈ args, ∀ i s, total (a.bw i s) = s) :
    ∀ oa ∈ (history p args).zip args, Accepts p oa.2 → total oa.1.obj.counts = p.shots := by
  intro oa hoa hacc
  obtain ⟨hsame, h1, _⟩ := history_master p args p (SameArgs.refl p) oa hoa
  have hd := (h1 hacc).2.2
  have ha : oa.2 ∈ args := (List.of_mem_zip hoa).2
  have h2 := runObj_counts_total p oa.2 hk hacc (hbw oa.2 ha)
  have hk1 : oa.1.obj.kind = .weak := by rw [hsame.1]; exact hk
  have hk2 : (runObj p oa.2).obj.kind = .weak := by rw [runObj_kind p oa.2 hacc]; exact hk
  unfold delivered at hd
  rw [hk1, hk2] at hd
  have : oa.1.obj.counts = (runObj p oa.2).obj.counts := (Prod.mk.inj hd).2
  rw [this]; exact h2

/-! ### concrete histories: non-vacuity, the old variants (D13, D14) and the leak on the assertion path -/

/-- the stub back-ends of the correspondence check: run `r`, trajectory `i` -/
def exArg (noise : Option (List Rat)) (r : Nat) : Arg :=
  ⟨noise, fun i => ((100 * r + i + 1 : Nat) : Rat),
   fun i s => [((i + r) % 4, s - s / 2), ((i + r + 1) % 4, s / 2)].filter (·.2 ≠ 0)⟩

example : ∀ i s, total ((exArg none 3).bw i s) = s := by
  intro i s
  simp only [exArg]
  rw [total_filter_nonzero]
  simp [total]
  omega

/-- the hypotheses of the history theorems hold on a mixed history, and the conclusions are not trivial there -/
example : (history (fresh .strong 7 0 false false) [exArg none 0, exArg (some [1/10]) 1, exArg (some [0, 0]) 2]).map
    (fun o => (o.err, o.executed.length, o.obj.numTraj, o.obj.results.isSome)) =
    [(none, 1, 7, true), (none, 7, 7, true), (none, 1, 7, true)] := by decide +kernel

example : (history (fresh .weak 0 5 false false) [exArg (some [1/10]) 0, exArg none 1]).map
    (fun o => (o.err, o.executed.length, o.shotsSeen, o.obj.shots, total o.obj.counts)) =
    [(none, 5, 1, 5, 5), (none, 1, 5, 5, 5)] := by decide +kernel

example : (history (fresh .analog 3 0 true true) [exArg (some [1/10]) 0]).map
    (fun o => (o.err, o.executed)) = [(none, [0])] := by decide +kernel

/-- **D13** (code as found) a noise-free run followed by a noisy run on `num_traj = 7`: the second run executes one
    trajectory, the repaired policy executes seven -/
theorem old_noise_free_run_shrinks_next_run :
    (historyOld (fresh .strong 7 0 false false) [exArg none 0, exArg (some [1/10]) 1]).map (·.executed.length) = [1, 1] ∧
    (history (fresh .strong 7 0 false false) [exArg none 0, exArg (some [1/10]) 1]).map (·.executed.length) = [1, 7] ∧
    (historyOld (fresh .analog 7 0 false false) [exArg (some []) 0, exArg (some [1/10]) 1]).map (·.executed.length) = [1, 1] := by
  decide +kernel

/-- **D14** (code as found) weak mode, `shots = 5`: a noisy run followed by a noise-free run returns 9 counts (the four
    stale single-shot results are summed in); the repaired policy returns 5 -/
theorem old_stale_measurements_leak :
    (historyOld (fresh .weak 0 5 false false) [exArg (some [1/10]) 0, exArg none 1]).map (fun o => total o.obj.counts) = [5, 9] ∧
    (history (fresh .weak 0 5 false false) [exArg (some [1/10]) 0, exArg none 1]).map (fun o => total o.obj.counts) = [5, 5] := by
  decide +kernel

/-- **D26** (tree before 7334db6) a weak call that is *refused* (`get_state` with a noisy model) raised after `shots`
    had been overwritten with 1, so a later run on the same object returned one count instead of five; the repaired
    order refuses first and the later run returns five. -/
theorem weak_getstate_leaks_shots :
    (historyAssertLate (fresh .weak 0 5 true false) [exArg (some [1/10]) 0, exArg none 1]).map
      (fun o => (o.err, o.obj.shots, total o.obj.counts)) = [(some .assertGetState, 1, 0), (none, 1, 1)] ∧
    (history (fresh .weak 0 5 true false) [exArg (some [1/10]) 0, exArg none 1]).map
      (fun o => (o.err, o.obj.shots, total o.obj.counts)) = [(some .assertGetState, 5, 0), (none, 5, 5)] := by
  decide +kernel

/-- non-vacuity of the refused branch: `Accepts` fails exactly on the two documented refusals -/
example : ¬ Accepts (fresh .weak 0 5 true false) (exArg (some [1/10]) 0) ∧ Accepts (fresh .weak 0 5 true false) (exArg none 1) ∧
    ¬ Accepts (fresh .weak 0 0 false false) (exArg none 0) ∧ Accepts (fresh .analog 3 0 true true) (exArg (some [1/10]) 0) := by
  simp [Accepts, single, fresh, exArg, isNoiseFree]

end Yaqs.Params

/-! ## what a run does with the noise model it is given (`NoiseModel.__init__`, `NoiseModel.sample`)

`simulator.run` replaces the caller's noise model by `noise_model.sample()` once, before any trajectory starts, and the
constructor had completed the process dicts before that.  Both are functions of their argument here (that the real ones do
not write to the caller's dicts / object is the trace property `template-reuse` / `real-untouched` of the ties); the theorems
say what may change and what may not. -/
namespace Yaqs.NoiseNorm

theorem normSites_perm (l : List Nat) : (normSites l).Perm l := by
  unfold normSites
  split
  · unfold sort2
    split
    · exact List.Perm.refl _
    · exact List.Perm.swap _ _ _
  · exact List.Perm.refl _

/-- one constructor iteration keeps name and strength, and only reorders the two sites -/
theorem normOne_preserves (known : Name → Bool) (p : ProcIn) (q : ProcOut) (h : normOne known p = .ok q) :
    q.name = p.name ∧ q.strength = p.strength ∧ q.sites.Perm p.sites := by
  unfold normOne at h
  cases hf : fillOf known p with
  | error e => rw [hf] at h; cases h
  | ok f =>
    rw [hf] at h
    simp only [Except.map, Except.ok.injEq] at h
    subst h
    exact ⟨rfl, rfl, normSites_perm _⟩

/-- **C20.5 (`NoiseModel.__init__`)** constructing a noise model never drops, duplicates or reorders a process and never
    changes a name or a strength (number or distribution); the only change to `sites` is the ascending order of a pair.
    For every list of process dicts and every content of the noise library. -/
theorem noise_init_preserves (known : Name → Bool) (ps : List ProcIn) (qs : List ProcOut)
    (h : normalize known ps = .ok qs) :
    qs.length = ps.length ∧ qs.map (·.name) = ps.map (·.name) ∧ qs.map (·.strength) = ps.map (·.strength) ∧
    List.Forall₂ (fun q p => q.sites.Perm p.sites) qs ps := by
  induction ps generalizing qs with
  | nil => simp only [normalize, Except.ok.injEq] at h; subst h; exact ⟨rfl, rfl, rfl, List.Forall₂.nil⟩
  | cons p ps ih =>
    simp only [normalize, bind, Except.bind] at h
    cases h1 : normOne known p with
    | error e => rw [h1] at h; cases h
    | ok q =>
      rw [h1] at h
      simp only at h
      cases h2 : normalize known ps with
      | error e => rw [h2] at h; cases h
      | ok qs' =>
        rw [h2] at h
        simp only [pure, Except.pure, Except.ok.injEq] at h
        subst h
        obtain ⟨hl, hn, hs, hf⟩ := ih qs' h2
        obtain ⟨a1, a2, a3⟩ := normOne_preserves known p q h1
        refine ⟨by simp [hl], by simp [hn, a1], by simp [hs, a2], List.Forall₂.cons a3 hf⟩

/-- **C20.5b (which description the solvers will find)** a process on two non-adjacent sites always ends up with
    `factors` (the caller's, or the Pauli pair of a `crosstalk_ab` / `longrange_crosstalk_ab` label), every other accepted
    process with a `matrix`; a `matrix` supplied by the caller for a one-site or adjacent process is never replaced — except
    under an adjacent `crosstalk_ab` label, which always gets the Pauli pair of its suffix —, and a caller's `factors` entry is
    never removed -/
theorem noise_init_form (known : Name → Bool) (p : ProcIn) (f : Fill × Bool) (h : fillOf known p = .ok f) :
    (∀ a b, p.sites = [a, b] → adjacentPair a b = false → (f.1 = .callerFactors ∨ f.1 = .pauliFactors) ∧ f.2 = true) ∧
    (∀ a b, p.sites = [a, b] → adjacentPair a b = true →
      f.1 = .callerMatrix ∨ f.1 = .kronMatrix ∨ f.1 = .libMatrix) ∧
    (p.sites.length ≤ 1 → f.1 = .callerMatrix ∨ f.1 = .libMatrix) ∧
    (p.hasMatrix = true → pfxCrosstalk.isPrefixOf p.name = false →
      (∀ a b, p.sites = [a, b] → adjacentPair a b = true) → f.1 = .callerMatrix) ∧
    (p.hasFactors = true → f.2 = true) := by
  unfold fillOf at h
  split at h
  · cases h
  · split at h
    · rename_i a b hab
      by_cases hadj : adjacentPair a b = true
      · simp only [hadj, if_true] at h
        have key : (f.1 = .callerMatrix ∨ f.1 = .kronMatrix ∨ f.1 = .libMatrix) ∧
            (p.hasMatrix = true → pfxCrosstalk.isPrefixOf p.name = false → f.1 = .callerMatrix) ∧
            (p.hasFactors = true → f.2 = true) := by
          by_cases hc : pfxCrosstalk.isPrefixOf p.name = true
          · simp only [hc, if_true] at h
            split at h
            · simp only [Except.ok.injEq] at h; subst h; simp [hc]
            · cases h
          · simp only [hc, Bool.false_eq_true, if_false] at h
            by_cases hm : p.hasMatrix = true
            · simp only [hm, if_true, Except.ok.injEq] at h
              subst h; simp
            · simp only [hm, Bool.false_eq_true, if_false] at h
              unfold lookup at h
              split at h
              · simp only [Except.map, Except.ok.injEq] at h; subst h; simp [hm]
              · cases h
        refine ⟨?_, ?_, ?_, ?_, key.2.2⟩
        · intro a' b' h1 h2
          rw [hab] at h1; simp only [List.cons.injEq, and_true] at h1
          obtain ⟨rfl, rfl⟩ := h1
          rw [hadj] at h2; cases h2
        · intro _ _ _ _; exact key.1
        · intro hl; rw [hab] at hl; simp at hl
        · intro hm hnc _; exact key.2.1 hm hnc
      · have hadj' : adjacentPair a b = false := by simpa using hadj
        simp only [hadj', Bool.false_eq_true, if_false] at h
        have key : (f.1 = .callerFactors ∨ f.1 = .pauliFactors) ∧ f.2 = true := by
          split at h
          · simp only [Except.ok.injEq] at h; subst h; simp
          · split at h
            · split at h
              · simp only [Except.ok.injEq] at h; subst h; simp
              · cases h
            · cases h
        refine ⟨?_, ?_, ?_, ?_, fun _ => key.2⟩
        · intro _ _ _ _; exact key
        · intro a' b' h1 h2
          rw [hab] at h1; simp only [List.cons.injEq, and_true] at h1
          obtain ⟨rfl, rfl⟩ := h1
          rw [hadj'] at h2; cases h2
        · intro hl; rw [hab] at hl; simp at hl
        · intro _ _ hall
          have := hall a b hab
          rw [hadj'] at this; cases this
    · rename_i hne
      have key : (f.1 = .callerMatrix ∨ f.1 = .libMatrix) ∧ (p.hasMatrix = true → f.1 = .callerMatrix) ∧
          (p.hasFactors = true → f.2 = true) := by
        by_cases hm : p.hasMatrix = true
        · simp only [hm, if_true, Except.ok.injEq] at h
          subst h; simp
        · simp only [hm, Bool.false_eq_true, if_false] at h
          unfold lookup at h
          split at h
          · simp only [Except.map, Except.ok.injEq] at h; subst h; simp [hm]
          · cases h
      refine ⟨?_, ?_, fun _ => key.1, fun hm _ _ => key.2.1 hm, key.2.2⟩
      · intro a b hab; exact absurd hab (hne a b)
      · intro a b hab; exact absurd hab (hne a b)

/-- `sample` returns one strength per process -/
theorem sample_length (ss : List Strength) (ds out : List Rat) (h : sample ss ds = .ok out) : out.length = ss.length := by
  induction ss generalizing ds out with
  | nil => simp only [sample, Except.ok.injEq] at h; subst h; rfl
  | cons s ss ih =>
    simp only [sample, bind, Except.bind] at h
    cases h1 : sampleOne s (ds.headD 0) with
    | error e => rw [h1] at h; cases h
    | ok q =>
      rw [h1] at h
      simp only at h
      cases h2 : sample ss ds.tail with
      | error e => rw [h2] at h; cases h
      | ok qs =>
        rw [h2] at h
        simp only [pure, Except.pure, Except.ok.injEq] at h
        subst h
        simp [ih ds.tail qs h2]

/-- **C20.6 (`NoiseModel.sample` on ordinary models)** when every strength is a number, sampling returns exactly those
    numbers, whatever the generator does: the model the trajectories see has the caller's rates (so C01's "rates are
    their strengths" is about the numbers the caller wrote) -/
theorem sample_identity_on_numbers (qs ds : List Rat) : sample (qs.map Strength.val) ds = .ok qs := by
  induction qs generalizing ds with
  | nil => rfl
  | cons q qs ih => simp [sample, sampleOne, ih, bind, Except.bind, pure, Except.pure]

/-- **C20.6b (sampled strengths are rates)** if the numeric strengths are non-negative and the generator's variates for
    the log-normal and truncated-normal kinds are non-negative (they are, by the definition of those distributions), every
    sampled strength is a non-negative number; a normal variate below zero is clamped to zero -/
theorem sample_nonneg (ss : List Strength) (ds out : List Rat) (h : sample ss ds = .ok out)
    (hv : ∀ q, Strength.val q ∈ ss → 0 ≤ q) (hd : ∀ d ∈ ds, 0 ≤ d) : ∀ q ∈ out, 0 ≤ q := by
  induction ss generalizing ds out with
  | nil => simp only [sample, Except.ok.injEq] at h; subst h; simp
  | cons s ss ih =>
    simp only [sample, bind, Except.bind] at h
    cases h1 : sampleOne s (ds.headD 0) with
    | error e => rw [h1] at h; cases h
    | ok q =>
      rw [h1] at h
      simp only at h
      cases h2 : sample ss ds.tail with
      | error e => rw [h2] at h; cases h
      | ok qs =>
        rw [h2] at h
        simp only [pure, Except.pure, Except.ok.injEq] at h
        subst h
        have hhead : 0 ≤ ds.headD 0 := by
          cases ds with
          | nil => simp
          | cons d ds => exact hd d (by simp)
        have hq : 0 ≤ q := by
          unfold sampleOne at h1
          split at h1
          · simp only [Except.ok.injEq] at h1; subst h1; exact hv _ (by simp)
          · cases h1
          · split at h1
            · simp only [Except.ok.injEq] at h1; subst h1; exact le_max_left _ _
            · split at h1
              · simp only [Except.ok.injEq] at h1; subst h1; exact hhead
              · split at h1
                · simp only [Except.ok.injEq] at h1; subst h1
                  split
                  · exact le_max_left _ _
                  · exact hhead
                · cases h1
        intro x hx
        rcases List.mem_cons.mp hx with rfl | hx
        · exact hq
        · exact ih ds.tail qs h2 (fun q' hq' => hv q' (by simp [hq'])) (fun d hd' => hd d (List.mem_of_mem_tail hd')) x hx

/-- a distribution dict without a `distribution` key, or of an unknown kind, is refused — never sampled as something else -/
theorem sample_refuses (mean std draw : Rat) (kind : String)
    (hk : kind ≠ "normal" ∧ kind ≠ "lognormal" ∧ kind ≠ "truncated_normal") :
    sampleOne (.dist none mean std) draw = .error .value ∧ sampleOne (.dist (some kind) mean std) draw = .error .value := by
  refine ⟨rfl, ?_⟩
  unfold sampleOne
  simp only [hk.1, hk.2.1, hk.2.2, if_false]

example : normalize (fun n => n == "lowering".toList)
    [⟨['l','o','w','e','r','i','n','g'], [2], .val (1/10), false, false⟩,
     ⟨pfxCrosstalk ++ ['x','y'], [3, 1], .dist (some "normal") (1/10) (1/100), false, false⟩,
     ⟨pfxCrosstalk ++ ['z','z'], [1, 0], .val 0, false, false⟩] =
    .ok [⟨['l','o','w','e','r','i','n','g'], [2], .val (1/10), .libMatrix, false⟩,
         ⟨pfxCrosstalk ++ ['x','y'], [1, 3], .dist (some "normal") (1/10) (1/100), .pauliFactors, true⟩,
         ⟨pfxCrosstalk ++ ['z','z'], [0, 1], .val 0, .kronMatrix, false⟩] := by decide +kernel

example : sample [.val (1/10), .dist (some "normal") (1/10) (1/100), .dist (some "truncated_normal") (1/5) 0] [0, -1/50, 7] =
    .ok [1/10, 0, 1/5] := by decide +kernel

end Yaqs.NoiseNorm
