/-
  Model.Grid — the time grid `AnalogSimParams.times` (core Lean only).

  mirrors core/data_structures/simulation_parameters.py (after repair D10):
      num_steps = int(np.round(elapsed_time / dt))
      self.times = np.linspace(0, num_steps * dt, num_steps + 1)
  and, for the counterexample, the code as found:
      self.times = np.arange(0, elapsed_time + dt, dt)

  Two executable versions of the same computation:
  * over Lean `Float` (IEEE binary64, the C double numpy uses; `+ - * /` are correctly rounded in both) — used by the
    driver, compared bit for bit with numpy on every run;
  * over `Rat` with an explicit round-to-nearest-even function `fl` — the kernel can evaluate it (`decide +kernel`),
    and the theorems of `Props/C15.lean` are about it.  The driver runs both and answers `model-split` if they differ.

  `np.round` rounds half to even (C `rint`), Lean's `Float.round` rounds half away from zero, hence `rneF`.
  `np.linspace(0, stop, n+1)`: `step = stop / n`, `y[i] = i * step` (or `(i / n) * stop` when `step == 0`),
  `y += 0`, `y[n] = stop`; for `n = 0` the single point `0 * stop + 0`.
  Overflow, underflow and subnormals are outside the model (`fl` has an unbounded exponent).
-/
namespace Yaqs.Grid

def absQ (x : Rat) : Rat := if x < 0 then -x else x

/-- `2^e` for an integer exponent -/
def pow2 (e : Int) : Rat :=
  if 0 ≤ e then ((2 ^ e.toNat : Nat) : Rat) else 1 / ((2 ^ (-e).toNat : Nat) : Rat)

/-- round to the nearest integer, ties to even (`np.round`, `rint`) -/
def rne (q : Rat) : Int :=
  let f := q.floor
  let d := q - (f : Rat)
  if d < 1 / 2 then f else if 1 / 2 < d then f + 1 else if f % 2 = 0 then f else f + 1

/-- binary exponent of a positive rational: the `e` with `2^e ≤ a < 2^(e+1)` -/
def expo (a : Rat) : Int :=
  let e0 : Int := (Nat.log2 a.num.natAbs : Int) - (Nat.log2 a.den : Int)
  if a < pow2 e0 then e0 - 1 else e0

/-- the binary64 number nearest to `q` (53-bit significand, ties to even, unbounded exponent) -/
def fl (q : Rat) : Rat :=
  if q = 0 then 0 else
    let a := absQ q
    let e := expo a - 52
    let r := (rne (a / pow2 e) : Rat) * pow2 e
    if q < 0 then -r else r

/-- value of an IEEE binary64 bit pattern; `none` for infinities and NaN -/
def decode64 (bits : Nat) : Option Rat :=
  let sign : Nat := bits / 2 ^ 63 % 2
  let ex : Nat := bits / 2 ^ 52 % 2 ^ 11
  let man : Nat := bits % 2 ^ 52
  if ex = 2047 then none else
    let mag : Rat := if ex = 0 then (man : Rat) * pow2 (-1074) else ((2 ^ 52 + man : Nat) : Rat) * pow2 ((ex : Int) - 1075)
    some (if sign = 1 then -mag else mag)

/-! ### exact-rational version -/

/-- `int(np.round(elapsed_time / dt))` -/
def numStepsQ (T dt : Rat) : Int := rne (fl (T / dt))

/-- `np.linspace(0, n * dt, n + 1)` for `n ≥ 1` -/
def pointQ (n : Nat) (dt : Rat) (i : Nat) : Rat :=
  let stop := fl ((n : Rat) * dt)
  let step := fl (stop / (n : Rat))
  if i = n then stop
  else if step = 0 then fl (fl ((i : Rat) / (n : Rat)) * stop) else fl ((i : Rat) * step)

def linspaceQ (n : Nat) (dt : Rat) : List Rat := (List.range (n + 1)).map (pointQ n dt)

/-- number of grid points, `none` where the constructor raises (`dt = 0`; a count below zero: linspace's
    "Number of samples must be non-negative") -/
def lenQ (T dt : Rat) : Option Nat :=
  if dt = 0 then none else
    let n := numStepsQ T dt
    if n < -1 then none else some (n + 1).toNat

/-- `AnalogSimParams(elapsed_time=T, dt=dt).times` -/
def timesQ (T dt : Rat) : Option (List Rat) :=
  (lenQ T dt).map (fun len => (List.range len).map (pointQ (len - 1) dt))

/-- the grid as found: `np.arange(0, T + dt, dt)` has `ceil((fl(T + dt) - 0) / dt)` points `0 + i * dt` -/
def arangeLenQ (T dt : Rat) : Int := (fl (fl (T + dt) / dt)).ceil

def lenOldQ (T dt : Rat) : Option Nat := if dt = 0 then none else some (arangeLenQ T dt).toNat

def pointOldQ (dt : Rat) (i : Nat) : Rat := fl ((i : Rat) * dt)

def timesOldQ (T dt : Rat) : Option (List Rat) :=
  (lenOldQ T dt).map (fun len => (List.range len).map (pointOldQ dt))

/-! ### `Float` version -/

def rneF (x : Float) : Float :=
  let f := x.floor
  let d := x - f
  if d < 0.5 then f else if 0.5 < d then f + 1.0 else if (f / 2.0).floor * 2.0 == f then f else f + 1.0

def pointF (n : Nat) (dt : Float) (i : Nat) : Float :=
  let nf := Float.ofNat n
  let stop := nf * dt
  let step := stop / nf
  if i = n then stop
  else (if step == 0.0 then (Float.ofNat i / nf) * stop else Float.ofNat i * step) + 0.0

def linspaceF (n : Nat) (dt : Float) : List Float := (List.range (n + 1)).map (pointF n dt)

def lenF (T dt : Float) : Option Nat :=
  if dt == 0.0 then none else
    let q := T / dt
    if q.isNaN || q.isInf then none else      -- `int(np.round(inf))` raises
      let nf := rneF q
      if nf < -1.0 then none else some (nf + 1.0).toUInt64.toNat

def timesF (T dt : Float) : Option (List Float) :=
  (lenF T dt).map (fun len => (List.range len).map (pointF (len - 1) dt))

def lenOldF (T dt : Float) : Option Nat :=
  if dt == 0.0 then none else
    let len := ((T + dt) / dt).ceil
    if len.isNaN || len.isInf then none else some len.toUInt64.toNat

def pointOldF (dt : Float) (i : Nat) : Float := Float.ofNat i * dt + 0.0

def timesOldF (T dt : Float) : Option (List Float) :=
  (lenOldF T dt).map (fun len => (List.range len).map (pointOldF dt))

/-! ### the standard model of floating-point arithmetic (for the theorems) -/

/-- `x` is `q` up to a relative error of at most `u` -/
def Rounds (u x q : Rat) : Prop := ∃ δ : Rat, absQ δ ≤ u ∧ x = q * (1 + δ)

/-- unit roundoff of binary64 -/
def u64 : Rat := 1 / 2 ^ 53

end Yaqs.Grid
