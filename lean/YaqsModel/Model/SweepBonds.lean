import YaqsModel.Model.Sweep
import YaqsModel.Model.Bonds
/-
  Model.SweepBonds — the bond-changing primitives performed by the ACTUAL operation sequences of the code
  (core Lean only).  Connects Model.Sweep (C05: which primitive updates one integrator call performs, in which order)
  with Model.Bonds (C08: what a primitive does to the vector of internal bond dimensions).

  mirrors
    core/methods/tdvp.py   local_dynamic_tdvp  → ldtdvpSk (decisions given) / ldtdvpAuto (decisions read off the bonds)
    core/methods/tdvp.py   two_site_tdvp       → twoSiteSk
    core/methods/tdvp.py   single_site_tdvp    → singleSiteSk
    core/methods/bug.py    bug                 → bugSk          (basis enlargements, then MPS.truncate on every bond)
    core/methods/dissipation.py  apply_dissipation              → dissSk
    core/methods/stochastic_process.py  stochastic_process      → jumpSk (.none / .stoch)
    core/methods/scheduled_jumps.py  apply_scheduled_jumps      → jumpSk (.sched)
    analog/analog_tjm.py   step_through                         → analogStep
    digital/digital_tjm.py apply_window + apply_two_qubit_gate + the noise block of the layer loop → gateStep

  Translation of the primitives of Model.Sweep (`opBond`):
    site / pair update     no bond changes (the tensor keeps its shape)
    bond b (update_bond)   every `update_bond` of the code is fed by exactly one `np.linalg.qr` of the neighbouring site:
                           left-to-right  reshape (d·χ_l, χ_b)      → Bonds.Op.qr b d
                           right-to-left  reshape (d·χ_r, χ_b)      → XOp.qrl b d  (the mirror image, not in Model.Bonds)
    split p                split_mps_tensor of the pair (p,p+1)     → Bonds.Op.split p s   (s: the spectrum, external)
    trunc (BUG)            MPS.truncate(threshold, max_bond_dim)    → Bonds.Op.trunc on every bond
  BUG's basis enlargement (`find_new_q`: QR of the old and the updated tensor stacked along the left leg) sets the bond
  to the left of the updated site to a value the model does not constrain (`XOp.grow`).

  Everything numerical (spectra, thresholds handed to two_site_svd, enlarged dimensions) is an external parameter
  `ext : Nat → Ext`, indexed by the position of the op in the op list of the call, universally quantified in the
  theorems and supplied from the recorded run in the correspondence check.
-/
namespace Yaqs.SweepBonds
open Yaqs.Bonds

deriving instance DecidableEq for Yaqs.Bonds.Op

/-- bond-changing primitives: those of Model.Bonds plus the left-moving QR shift and BUG's basis enlargement -/
inductive XOp
  | base (o : Bonds.Op)
  /-- QR of site `i+1` (physical dimension `d`) with its right leg grouped to the physical one: bond `i := min (d·χ_{i+1}) χ_i`
      (tdvp.py right-to-left sweeps; `shift_orthogonality_center_left(…, "QR")` = flip, `right_qr`, flip) -/
  | qrl (i : Nat) (d : Nat)
  /-- bug.py `find_new_q`: bond `i := v` -/
  | grow (i : Nat) (v : Nat)
  deriving DecidableEq

def XOp.bond : XOp → Nat
  | .base o => o.bond
  | .qrl i _ => i
  | .grow i _ => i

/-- dimension of the bond to the right of bond `i` (the dummy leg of the last site is 1) -/
def rightBond (bs : List Nat) (i : Nat) : Nat := bs.getD (i + 1) 1

def applyX (c : Cfg) (bs : List Nat) : XOp → List Nat
  | .base o => Bonds.apply c bs o
  | .qrl i d => bs.set i (min (d * rightBond bs i) (bs.getD i 1))
  | .grow i v => bs.set i v

def runX (c : Cfg) (bs : List Nat) (ops : List XOp) : List Nat := ops.foldl (applyX c) bs

/-- external (numerical) data of one op: spectrum, threshold handed to `two_site_svd`, enlarged dimension -/
structure Ext where
  s : List Rat
  thr : Rat
  v : Nat

def XOp.fill (e : Ext) : XOp → XOp
  | .base (.split i _) => .base (.split i e.s)
  | .base (.svd i _ _) => .base (.svd i e.s e.thr)
  | .base (.trunc i _ thr cap) => .base (.trunc i e.s thr cap)
  | .grow i _ => .grow i e.v
  | o => o

/-- the op at position `k + n` of the call gets `ext (k + n)` -/
def fillFrom (ext : Nat → Ext) : Nat → List XOp → List XOp
  | _, [] => []
  | k, o :: os => o.fill (ext k) :: fillFrom ext (k + 1) os

/-! ### skeletons (op kinds and bonds; numerical data still empty) -/

inductive Dir | lr | rl deriving DecidableEq, Repr

/-- bond-changing ops of one primitive of Model.Sweep inside a TDVP sweep moving in direction `dir`;
    `phys i` = physical dimension of site `i` -/
def opBond (dir : Dir) (phys : Nat → Nat) : Sweep.Op → List XOp
  | .split p _ => [.base (.split p [])]
  | .bond b _ =>
    match dir with
    | .lr => [.base (.qr b (phys b))]
    | .rl => [.qrl b (phys (b + 1))]
  | _ => []

def bondOps (dir : Dir) (phys : Nat → Nat) (ops : List Sweep.Op) : List XOp := ops.flatMap (opBond dir phys)

/-- `local_dynamic_tdvp` with the decisions given (`Sweep.ldtdvpD`): a single site has no bond; the half step is irrelevant here -/
def ldtdvpSk (L : Nat) (phys : Nat → Nat) (dLR dRL : Nat → Bool) (digital : Bool) : List XOp :=
  if L = 1 then bondOps .lr phys (Sweep.singleSite 1 digital)
  else if digital then bondOps .lr phys (Sweep.ldtdvpLR L dLR 1)
  else bondOps .lr phys (Sweep.ldtdvpLR L dLR (1 / 2)) ++ bondOps .rl phys (Sweep.ldtdvpRL L dRL (1 / 2))

/-- `two_site_tdvp`; `none` = `ValueError` -/
def twoSiteSk (L : Nat) (phys : Nat → Nat) (digital : Bool) : Option (List XOp) :=
  (Sweep.twoSite L digital).map (bondOps .lr phys)

/-- `single_site_tdvp`: left-to-right part, last site, right-to-left part -/
def singleSiteSk (L : Nat) (phys : Nat → Nat) (digital : Bool) : List XOp :=
  if digital then bondOps .lr phys (Sweep.ssLR L 1 (L - 1) 0 ++ [Sweep.Op.site (L - 1) 1])
  else bondOps .lr phys (Sweep.ssLR L (1 / 2) (L - 1) 0 ++ [Sweep.Op.site (L - 1) 1]) ++
    bondOps .rl phys (Sweep.ssRL (1 / 2) (L - 1))

/-- `MPS.truncate(threshold, max_bond_dim)` with the orthogonality centre found at `c0`:
    `for i in range(c0)` on bond `i`, then on the flipped network `for i in range(L-1-c0)` on bond `L-2-i` -/
def truncSk (c : Cfg) (L c0 : Nat) : List XOp :=
  ((List.range c0).map fun i => XOp.base (.trunc i [] c.thr c.maxB)) ++
  ((List.range (L - 1 - c0)).map fun j => XOp.base (.trunc (L - 2 - j) [] c.thr c.maxB))

/-- bug.py: the update of site `s+1` (`local_update`) replaces its tensor by `new_q` with an enlarged left leg;
    the update of site 0 keeps the shape; `trunc` is the closing `state.truncate` -/
def bugOpBond (c : Cfg) (L c0 : Nat) : Sweep.Op → List XOp
  | .site (s + 1) _ => [.grow s 0]
  | .trunc => truncSk c L c0
  | _ => []

def bugSk (c : Cfg) (L c0 : Nat) : List XOp := (Sweep.bug L).flatMap (bugOpBond c L c0)

/-- `apply_dissipation`, visit of site `i+1` (`for i in reversed(range(L))`, nothing touches a bond at site 0):
    * no noise (`noise_model is None` or all strengths zero): `shift_orthogonality_center_left(i+1, "QR")`;
    * noise: one `split_mps_tensor(dynamic=False)` per non-Pauli two-site process on `(i, i+1)` (`n2 (i+1)` of them),
      then `shift_orthogonality_center_left(i+1, "SVD")` → `two_site_svd(threshold=1e-12, max_bond_dim=None)`. -/
def dissSite (phys : Nat → Nat) (noisy : Bool) (n2 : Nat → Nat) (i : Nat) : List XOp :=
  if noisy then List.replicate (n2 (i + 1)) (XOp.base (.split i [])) ++ [XOp.base (.svd i [] 0)]
  else [XOp.qrl i (phys (i + 1))]

def dissSk (L : Nat) (phys : Nat → Nat) (noisy : Bool) (n2 : Nat → Nat) : List XOp :=
  (List.range (L - 1)).reverse.flatMap (dissSite phys noisy n2)

/-- `shift_orthogonality_center_right(i)` for `i = 0 … n-1` (QR) -/
def qrRightSk (phys : Nat → Nat) (n : Nat) : List XOp := (List.range n).map fun i => XOp.base (.qr i (phys i))

/-- `normalize("B", "QR")`: on the flipped network `right_qr` over the sites `0 … L-2`, i.e. bonds `L-2 … 0`
    (the closing QR of the last flipped site only touches the dummy leg) -/
def qrLeftSk (phys : Nat → Nat) (L : Nat) : List XOp :=
  (List.range (L - 1)).reverse.map fun i => XOp.qrl i (phys (i + 1))

/-- `normalize("B", "SVD")`: `two_site_svd(1e-12, None)` on bonds `L-2 … 0` -/
def svdLeftSk (L : Nat) : List XOp := (List.range (L - 1)).reverse.map fun i => XOp.base (.svd i [] 0)

inductive Jump
  /-- `stochastic_process`, no jump (or no process): `shift_orthogonality_center_left(0)` touches the dummy leg only -/
  | none
  /-- a jump: `create_probability_distribution` shifts the centre of the state itself to the right through all sites
      (the candidate splits act on deep copies), the chosen operator is applied — a split iff it is a non-Pauli process
      on the adjacent pair `(p, p+1)` — and `normalize("B", "SVD")` ends the call -/
  | stoch (pair : Option Nat)
  /-- `apply_scheduled_jumps`: one split per two-site jump due now, then `normalize("B")` (QR) -/
  | sched (pairs : List Nat)

def jumpSk (L : Nat) (phys : Nat → Nat) : Jump → List XOp
  | .none => []
  | .stoch p =>
    qrRightSk phys (L - 1) ++ (match p with | some p => [XOp.base (.split p [])] | Option.none => []) ++ svdLeftSk L
  | .sched ps => ps.map (fun p => XOp.base (.split p [])) ++ qrLeftSk phys L

/-- the noise part of a step: which branch `apply_dissipation` takes, how many two-site dissipators end at each site,
    and what the jump lottery did -/
structure Noise where
  noisy : Bool
  n2 : Nat → Nat
  jump : Jump

def noiseSk (L : Nat) (phys : Nat → Nat) (nz : Noise) : List XOp :=
  dissSk L phys nz.noisy nz.n2 ++ jumpSk L phys nz.jump

/-! ### the decisions of `local_dynamic_tdvp` as a function of the bond vector -/

/-- `state.tensors[i].shape[2]` : bond `i`, the dummy leg for the last site -/
def seenLR (L : Nat) (bs : List Nat) (i : Nat) : Nat := if i + 1 < L then bs.getD i 1 else 1

/-- `state.tensors[i].shape[1]` : bond `i-1`, the dummy leg for site 0 -/
def seenRL (bs : List Nat) (i : Nat) : Nat := if i = 0 then 1 else bs.getD (i - 1) 1

/-- left-to-right loop of `local_dynamic_tdvp` reading `bond_dim = state.tensors[i].shape[2]` from the CURRENT bond
    vector at every visit (`n` iterations remain, the current one visits site `i`, `k` ops were emitted so far):
    `bond_dim >= max_bond_dim or lock_final_site` → one-site branch (QR shift unless `i = L-1`), otherwise
    `continue` at the last site, two-site update + split else. -/
def autoLR (c : Cfg) (L : Nat) (phys : Nat → Nat) (ext : Nat → Ext) :
    (n i : Nat) → (lock : Bool) → (k : Nat) → (bs : List Nat) → List XOp
  | 0, _, _, _, _ => []
  | n + 1, i, lock, k, bs =>
    if Sweep.capped (seenLR L bs i) c.maxB || lock then
      if i ≠ L - 1 then
        let o := XOp.base (.qr i (phys i))
        o :: autoLR c L phys ext n (i + 1) (lock || decide (i = L - 2)) (k + 1) (applyX c bs o)
      else autoLR c L phys ext n (i + 1) (lock || decide (i = L - 2)) k bs
    else if i = L - 1 then autoLR c L phys ext n (i + 1) lock k bs
    else
      let o := XOp.base (.split i (ext k).s)
      o :: autoLR c L phys ext n (i + 1) lock (k + 1) (applyX c bs o)

/-- right-to-left loop, `bond_dim = state.tensors[i].shape[1]` read from the current bond vector;
    the call with `i + 1` visits site `i` -/
def autoRL (c : Cfg) (phys : Nat → Nat) (ext : Nat → Ext) :
    (n : Nat) → (lock : Bool) → (k : Nat) → (bs : List Nat) → List XOp
  | 0, _, _, _ => []
  | i + 1, lock, k, bs =>
    if Sweep.capped (seenRL bs i) c.maxB || lock then
      if i ≠ 0 then
        let o := XOp.qrl (i - 1) (phys i)
        o :: autoRL c phys ext i (lock || decide (i = 1)) (k + 1) (applyX c bs o)
      else autoRL c phys ext i (lock || decide (i = 1)) k bs
    else if i = 0 then autoRL c phys ext i lock k bs
    else
      let o := XOp.base (.split (i - 1) (ext k).s)
      o :: autoRL c phys ext i lock (k + 1) (applyX c bs o)

/-- `local_dynamic_tdvp` on a state with bond vector `bs`: nothing is a free parameter except the spectra -/
def ldtdvpAuto (c : Cfg) (L : Nat) (phys : Nat → Nat) (digital : Bool) (ext : Nat → Ext) (bs : List Nat) : List XOp :=
  if L = 1 then []
  else
    let lr := autoLR c L phys ext L 0 false 0 bs
    if digital then lr else lr ++ autoRL c phys ext L false lr.length (runX c bs lr)

/-! ### one analog time step, one digital gate step, runs -/

inductive Evo
  /-- `EvolutionMode.TDVP` with the decision pattern given -/
  | tdvp (dLR dRL : Nat → Bool)
  /-- `EvolutionMode.TDVP`, decisions read off the bonds -/
  | auto
  /-- `EvolutionMode.BUG`; `c0` = orthogonality centre found by `MPS.truncate` -/
  | bug (c0 : Nat)

def sweepOps (c : Cfg) (L : Nat) (phys : Nat → Nat) (ext : Nat → Ext) (bs : List Nat) : Evo → List XOp
  | .tdvp dLR dRL => fillFrom ext 0 (ldtdvpSk L phys dLR dRL false)
  | .auto => ldtdvpAuto c L phys false ext bs
  | .bug c0 => fillFrom ext 0 (bugSk c L c0)

/-- analog_tjm.py `step_through`: integrator ; `apply_dissipation` ; scheduled jumps or `stochastic_process` -/
def analogStep (c : Cfg) (L : Nat) (phys : Nat → Nat) (e : Evo) (nz : Noise) (ext : Nat → Ext) (bs : List Nat) : List XOp :=
  let sw := sweepOps c L phys ext bs e
  sw ++ fillFrom ext sw.length (noiseSk L phys nz)

def XOp.shift (w : Nat) : XOp → XOp
  | .base (.split i s) => .base (.split (w + i) s)
  | .base (.qr i d) => .base (.qr (w + i) d)
  | .base (.svd i s t) => .base (.svd (w + i) s t)
  | .base (.trunc i s t m) => .base (.trunc (w + i) s t m)
  | .qrl i d => .qrl (w + i) d
  | .grow i v => .grow (w + i) v

/-- digital_tjm.py `apply_two_qubit_gate` on sites `first < last`: `apply_window` (window `[first-1, last+1]` clipped to
    the chain; QR shifts to the right over the sites before the window), `two_site_tdvp` (digital: one sweep) on the
    window, tensors written back -/
def gateSk (L : Nat) (phys : Nat → Nat) (first last : Nat) : List XOp :=
  let w0 := first - 1
  let w1 := min (last + 1) (L - 1)
  qrRightSk phys w0 ++
    (((twoSiteSk (w1 - w0 + 1) (fun i => phys (w0 + i)) true).getD []).map (XOp.shift w0))

/-- the gate followed by the noise block of the layer loop: `normalize("B", "QR")` without noise, else
    `apply_dissipation(local noise, dt = 1)` ; `stochastic_process` -/
def gateStep (L : Nat) (phys : Nat → Nat) (first last : Nat) (nz : Option Noise) (ext : Nat → Ext) : List XOp :=
  fillFrom ext 0 (gateSk L phys first last ++
    (match nz with | Option.none => qrLeftSk phys L | some nz => noiseSk L phys nz))

inductive Step
  | analog (e : Evo) (nz : Noise) (ext : Nat → Ext)
  | gate (first last : Nat) (nz : Option Noise) (ext : Nat → Ext)

def stepOps (c : Cfg) (L : Nat) (phys : Nat → Nat) (bs : List Nat) : Step → List XOp
  | .analog e nz ext => analogStep c L phys e nz ext bs
  | .gate f l nz ext => gateStep L phys f l nz ext

def runSteps (c : Cfg) (L : Nat) (phys : Nat → Nat) : List Nat → List Step → List Nat
  | bs, [] => bs
  | bs, s :: ss => runSteps c L phys (runX c bs (stepOps c L phys bs s)) ss

/-! ### predicates used by the theorems -/

/-- ops of a TDVP sweep: splits and QR shifts only (no SVD shift, no enlargement) -/
def XOp.IsSweep : XOp → Prop
  | .base (.split _ _) => True
  | .base (.qr _ _) => True
  | .qrl _ _ => True
  | _ => False

/-- numerical hypotheses of an op in the state it is applied to: those of Model.Bonds for the SVD shifts, none for
    splits and QR shifts; an enlargement never meets them (BUG is handled as a whole step) -/
def OpOkX (bs : List Nat) : XOp → Prop
  | .base o => OpOk bs o
  | .qrl _ _ => True
  | .grow _ _ => False

def AllOkX (c : Cfg) : List Nat → List XOp → Prop
  | _, [] => True
  | bs, op :: ops => OpOkX bs op ∧ AllOkX c (applyX c bs op) ops

/-- the hypotheses of one step concern only its noise part (SVD shifts of `apply_dissipation` and of the jump
    normalisation), taken in the state after the integrator -/
def StepOk (c : Cfg) (L : Nat) (phys : Nat → Nat) (bs : List Nat) : Step → Prop
  | .analog e nz ext =>
    let sw := sweepOps c L phys ext bs e
    AllOkX c (runX c bs sw) (fillFrom ext sw.length (noiseSk L phys nz))
  | .gate f l nz ext => AllOkX c bs (gateStep L phys f l nz ext)

def AllStepsOk (c : Cfg) (L : Nat) (phys : Nat → Nat) : List Nat → List Step → Prop
  | _, [] => True
  | bs, s :: ss => StepOk c L phys bs s ∧ AllStepsOk c L phys (runX c bs (stepOps c L phys bs s)) ss

/-- the sharper bound for sequences without SVD shift: no floor 2 -/
def bound0 (c : Cfg) (init : List Nat) (i : Nat) : Nat := max (max c.maxB c.minB) (init.getD i 1)

end Yaqs.SweepBonds
