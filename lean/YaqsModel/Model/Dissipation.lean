import YaqsModel.Model.Lottery
import YaqsModel.Model.Layers

/-!
# Model.Dissipation — the dissipation sweep and the whole noisy `digital_tjm` pipeline

Core Lean only.  Mirrors

* `mqt.yaqs.core.methods.dissipation.apply_dissipation`                         → `earlyReturn`, `loop1`, `loop2`,
                                                                                   `siteOps`, `fullOps`, `dissipationOps`
* `mqt.yaqs.digital.digital_tjm.digital_tjm` with a noise model (strong / weak) → `noiseBlock`, `noisyEmit`,
                                                                                   `canonicalFormLost`, `noisyDigitalTjm`

`apply_dissipation` is modelled as the list of state-changing operations it performs, in order:

```
if noise_model is None or all(strength == 0):            -- `earlyReturn`
    for i in reversed(range(L)): shift_left(i, "QR")     -- `Op.qr i`
    return
for i in reversed(range(L)):
    for process in processes:                            -- `loop1`
        if len(sites) == 1 and sites[0] == i:
            pauli  -> tensors[i] *= exp(-0.5*dt*gamma)             `Op.app k [i] (dt·γ/2) scalar`
            else   -> tensors[i]  = expm(-0.5*dt*gamma*L†L) · tensors[i]   `Op.app k [i] (dt·γ/2) site`
    processes_here = [len(sites) == 2 and sites[1] == i]
    if i != 0:
        for process in processes_here:                   -- `loop2`
            pauli (adjacent or long-range) -> tensors[i] *= exp(-0.5*dt*gamma)     `Op.app k [i] (dt·γ/2) scalar`
            long-range, not Pauli          -> raise NotImplementedError            `Op.raise k`
            else -> merge (i-1,i); expm(-0.5*dt*gamma*L†L); split "right"          `Op.app k [i-1,i] (dt·γ/2) pair`
    if i != 0: shift_left(i, "SVD")                      -- `Op.svd i`
```

`k` is the position of the process in `noise_model.processes`; the coefficient is the exact rational `dt·γ_k/2`
(the code forms `-0.5*dt*gamma` in binary64: one rounding).  The operator content (`L†L`) is not part of the op — the
driver prints `coef · L†L` from the shipped process matrix (`gram`), which is what the real `expm` receives (negated).
-/
namespace Yaqs.Dissipation
open Yaqs.Lottery

/-- how an operation acts on the chain -/
inductive Kind where
  /-- `state.tensors[i] *= np.exp(-c)` -/
  | scalar
  /-- `state.tensors[i] = contract("ab, bcd->acd", expm(-c·L†L), state.tensors[i])` -/
  | site
  /-- merge `(i-1, i)`, `expm(-c·L†L)` on the merged tensor, `split_mps_tensor(…, "right", …, dynamic=False)` -/
  | pair
deriving DecidableEq, Repr

inductive Op where
  /-- `state.shift_orthogonality_center_left(i, "QR")` (early-return branch) -/
  | qr (i : Nat)
  /-- `state.shift_orthogonality_center_left(i, "SVD")` -/
  | svd (i : Nat)
  /-- process number `k` of the list acts on the tensors `target` with `exp(-coef · L_k†L_k)` -/
  | app (k : Nat) (target : List Nat) (coef : Rat) (kind : Kind)
  /-- `raise NotImplementedError` at process `k` (non-Pauli long-range pair) -/
  | raise (k : Nat)
deriving DecidableEq, Repr

/-- `noise_model is None or all(proc["strength"] == 0 for proc in noise_model.processes)` -/
def earlyReturn (nm : Option (List Proc)) : Bool :=
  match nm with
  | none => true
  | some ps => ps.all (fun p => p.gamma == 0)

/-- the wrong variant (`any` instead of `all`), kept only for the counterexample lemma -/
def earlyReturnAny (nm : Option (List Proc)) : Bool :=
  match nm with
  | none => true
  | some ps => ps.any (fun p => p.gamma == 0)

/-- `0.5 * dt * gamma` -/
def coef (dt : Rat) (p : Proc) : Rat := dt * p.gamma / 2

/-- the process list with positions: `enumerate(noise_model.processes)` started at `k` -/
def indexed : Nat → List Proc → List (Nat × Proc)
  | _, [] => []
  | k, p :: ps => (k, p) :: indexed (k + 1) ps

/-- `len(process["sites"]) == 2 and process["sites"][1] == i` -/
def here2 (i : Nat) (p : Proc) : Bool :=
  match p.sites with
  | [_, s1] => s1 == i
  | _ => false

/-- what the one-site loop does for a process it selects at site `i` -/
def op1 (dt : Rat) (i : Nat) (kp : Nat × Proc) : Op :=
  .app kp.1 [i] (coef dt kp.2) (if kp.2.pauli then .scalar else .site)

/-- what the two-site loop does for a process of `processes_here` at site `i` -/
def op2 (dt : Rat) (i : Nat) (kp : Nat × Proc) : Op :=
  if kp.2.pauli then .app kp.1 [i] (coef dt kp.2) .scalar
  else if isLongrange kp.2 then .raise kp.1
  else .app kp.1 [i - 1, i] (coef dt kp.2) .pair

/-- `for process in noise_model.processes: if len(sites) == 1 and sites[0] == i: …` -/
def loop1 (dt : Rat) (i : Nat) (ips : List (Nat × Proc)) : List Op :=
  (ips.filter (fun kp => hit1 i kp.2)).map (op1 dt i)

/-- `for process in processes_here: …` -/
def loop2 (dt : Rat) (i : Nat) (ips : List (Nat × Proc)) : List Op :=
  (ips.filter (fun kp => here2 i kp.2)).map (op2 dt i)

/-- body of `for i in reversed(range(state.length))` (ignoring the exception) -/
def siteOps (dt : Rat) (ips : List (Nat × Proc)) (i : Nat) : List Op :=
  loop1 dt i ips ++ (if i = 0 then [] else loop2 dt i ips ++ [Op.svd i])

/-- `reversed(range(L))` -/
def sitesDown (L : Nat) : List Nat := (List.range L).reverse

/-- the main branch, exception ignored -/
def fullOps (L : Nat) (dt : Rat) (procs : List Proc) : List Op :=
  (sitesDown L).flatMap (siteOps dt (indexed 0 procs))

/-- an exception ends the function: everything after the first `raise` is not executed -/
def cutAtRaise : List Op → List Op
  | [] => []
  | .raise k :: _ => [.raise k]
  | o :: r => o :: cutAtRaise r

/-- `apply_dissipation(state, noise_model, dt, sim_params)` on a chain of `L` sites -/
def dissipationOps (L : Nat) (nm : Option (List Proc)) (dt : Rat) : List Op :=
  if earlyReturn nm then (sitesDown L).map Op.qr
  else cutAtRaise (fullOps L dt (nm.getD []))

/-- the same function with the `any` early return (counterexample lemma only) -/
def dissipationOpsAny (L : Nat) (nm : Option (List Proc)) (dt : Rat) : List Op :=
  if earlyReturnAny nm then (sitesDown L).map Op.qr
  else cutAtRaise (fullOps L dt (nm.getD []))

/-! ## views of an operation list -/

def Op.isApp : Op → Bool
  | .app .. => true
  | _ => false

def Op.isRaise : Op → Bool
  | .raise _ => true
  | _ => false

/-- the site the sweep stands on when the operation is performed (last = largest tensor index touched) -/
def Op.anchor : Op → Nat
  | .qr i => i
  | .svd i => i
  | .app _ t _ _ => t.getLastD 0
  | .raise _ => 0

/-- the process applications, without the gauge moves -/
def apps (ops : List Op) : List Op := ops.filter Op.isApp

/-- the gauge moves (centre shifts), without the process applications -/
def shifts (ops : List Op) : List Op := ops.filter (fun o => !o.isApp && !o.isRaise)

/-! ## well-formed process lists -/

/-- the process kinds the property speaks about, inside a register of `L` sites: one site; an adjacent pair; a Pauli
    pair at any distance (sites sorted, as `NoiseModel.__init__` stores them) -/
def wellSited (L : Nat) (p : Proc) : Bool :=
  match p.sites with
  | [s] => decide (s < L)
  | [s0, s1] => decide (s0 < s1) && decide (s1 < L) && (p.pauli || s1 == s0 + 1)
  | _ => false

/-- tensors the process is applied to by the sweep -/
def targetOf (p : Proc) : List Nat :=
  match p.sites with
  | [s] => [s]
  | [s0, s1] => if p.pauli then [s1] else [s0, s1]
  | _ => []

def kindOf (p : Proc) : Kind :=
  if p.pauli then .scalar else if p.sites.length = 1 then .site else .pair

/-- the single operation process `k` is expected to contribute -/
def expectedOp (dt : Rat) (kp : Nat × Proc) : Op := .app kp.1 (targetOf kp.2) (coef dt kp.2) (kindOf kp.2)

/-- sweep position at which process `p` is handled: its last site -/
def anchorOf (p : Proc) : Nat := p.sites.getLastD 0

/-! ## operator content for the driver: `L†L` of a shipped matrix -/

def matDim (m : Mat) : Nat := m.length

/-- `np.conj(m).T @ m` -/
def gram (m : Mat) : Mat :=
  let d := matDim m
  (List.range d).map fun r => (List.range d).map fun c =>
    (List.range d).foldl (fun acc j => CR.add acc (CR.mul (CR.conj (matGet m j r)) (matGet m j c))) CR.zero

/-- `0.5*dt*gamma * (L†L)` — the negative of the argument of `expm` -/
def scaledGram (c : Rat) (m : Mat) : Mat := (gram m).map (·.map (CR.smul c))

/-! ## the noisy circuit pipeline -/

/-- what `digital_tjm` does with a noise model, event by event -/
inductive PEv where
  /-- `apply_single_qubit_gate` -/
  | app1 (tag q : Nat)
  /-- `apply_two_qubit_gate`, sites in qargs order -/
  | app2 (tag a b : Nat)
  /-- one operation inside `apply_dissipation(state, local, dt=1)` -/
  | dop (o : Op)
  /-- `stochastic_process(state, local, dt, …)` -/
  | lot (dt : Rat) (ps : List Proc)
  /-- `state.normalize("B", "QR")` -/
  | normalize
  /-- `state.evaluate_observables(sim_params, results, col)` -/
  | eval (col : Nat)
  /-- `state.measure_shots(...)` -/
  | shots
deriving DecidableEq, Repr

/-- the block directly after `apply_two_qubit_gate` on qargs `(q0, q1)` -/
def noiseBlock (nm : Option (List Proc)) (L : Nat) (q0 q1 : Nat) : List PEv :=
  if earlyReturn nm then [PEv.normalize]
  else
    let ps := localNoise (nm.getD []) (min q0 q1) (max q0 q1)
    (dissipationOps L (some ps) 1).map PEv.dop ++ [PEv.lot 1 ps]

/-- the body of the `while dag.op_nodes()` loop with a noise model, node by node (cf. `Layers.emit`) -/
def noisyEmit (nm : Option (List Proc)) (L : Nat) (sampling : Bool) : Nat → List Layers.Instr → List PEv
  | _, [] => []
  | col, .gate1 t q :: r => .app1 t q :: noisyEmit nm L sampling col r
  | col, .gate2 t a b :: r => .app2 t a b :: (noiseBlock nm L a b ++ noisyEmit nm L sampling col r)
  | col, .sbarrier _ :: r =>
    if sampling then .eval (col + 1) :: noisyEmit nm L sampling (col + 1) r else noisyEmit nm L sampling col r
  | col, _ :: r => noisyEmit nm L sampling col r

/-- `canonical_form_lost`: set when the DAG is empty right after a one-qubit gate was removed — i.e. when the node
    handled last is a one-qubit gate (two-qubit gates and sampling barriers of the same layer are handled later,
    measures and plain barriers of a later layer are still in the DAG) -/
def canonicalFormLost (order : List Layers.Instr) : Bool :=
  match order.getLast? with
  | some (.gate1 ..) => true
  | _ => false

/-- `digital_tjm((_, state, noise_model, sim_params, circuit))` on `L` qubits; `none` = the loop does not end -/
def noisyDigitalTjm (nm : Option (List Proc)) (L : Nat) (mode : Layers.Mode) (numMid : Nat) (c : List Layers.Instr) :
    Option (List PEv) :=
  match Layers.visitLoop Layers.stayNew c.length c with
  | none => none
  | some order =>
    let body := noisyEmit nm L mode.sampling 0 order
    let fin := if canonicalFormLost order then [PEv.normalize] else []
    match mode with
    | .strongSample => some (.eval 0 :: (body ++ fin ++ [.eval (numMid + 1)]))
    | .strongPlain => some (body ++ fin ++ [.eval 0])
    | .weak => some (body ++ [.shots])

/-! ## projections used by the pipeline theorem -/

/-- forget the noise: the event of the noise-free model, if any -/
def PEv.toEvent : PEv → Option Layers.Event
  | .app1 t q => some (.app1 t q)
  | .app2 t a b => some (.app2 t a b)
  | .eval c => some (.eval c)
  | .shots => some .shots
  | _ => none

/-- a scheduled gate as the placement model of `Model.Lottery` sees it -/
def toGate : Layers.Instr → Option Gate
  | .gate1 _ q => some (Gate.one q)
  | .gate2 _ a b => some (Gate.two a b)
  | _ => none

/-- expand one operation of the coarse placement model (`Lottery.digitalOps`) into pipeline events; gates carry no
    tag on that level, so they are dropped here and compared separately -/
def expandDOp (L : Nat) : DOp → List PEv
  | .gate _ => []
  | .diss dt ps => (dissipationOps L (some ps) dt).map PEv.dop
  | .lot dt ps => [PEv.lot dt ps]
  | .normalize => [PEv.normalize]

/-- what one scheduled gate contributes to the event list: its application and, for a two-qubit gate, the noise block -/
def gateBlock (nm : Option (List Proc)) (L : Nat) : Layers.Instr → List PEv
  | .gate1 t q => [.app1 t q]
  | .gate2 t a b => .app2 t a b :: noiseBlock nm L a b
  | _ => []

def PEv.isGate : PEv → Bool
  | .app1 .. => true
  | .app2 .. => true
  | _ => false

def PEv.isNoise : PEv → Bool
  | .dop _ => true
  | .lot .. => true
  | .normalize => true
  | _ => false

end Yaqs.Dissipation
