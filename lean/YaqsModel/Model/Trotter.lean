/-
  Model.Trotter — executable model of the model library (property C07), core Lean only.

  Mirrors (code as it is after the `fix:` commits in /repo):
    core/libraries/circuit_library.py      create_ising_circuit, create_2d_ising_circuit, create_heisenberg_circuit,
                                           create_2d_heisenberg_circuit, create_1d_fermi_hubbard_circuit,
                                           lookup_qiskit_ordering, add_long_range_interaction, add_hopping_term,
                                           create_2d_fermi_hubbard_circuit
    core/data_structures/networks.py       MPO.hamiltonian / ising / heisenberg (term expansion), _parse_pauli_string,
                                           MPO.from_pauli_sum (suffix-state automaton before compression),
                                           MPO.bose_hubbard / MPO.coupled_transmon (hand-written 4-state tables)

  Coefficients live in an arbitrary type `K` (only `0 1 + *` are used), so the same definitions are run by the
  driver over Gaussian rationals `GRat` and are the subject of theorems over any commutative semiring.
-/
namespace Yaqs.Trotter

/-! ## Gaussian rationals: the coefficients `from_pauli_sum` accepts are complex -/

structure GRat where
  re : Rat
  im : Rat
deriving DecidableEq, Repr

namespace GRat
instance : Zero GRat := ⟨⟨0, 0⟩⟩
instance : One GRat := ⟨⟨1, 0⟩⟩
instance : Add GRat := ⟨fun a b => ⟨a.re + b.re, a.im + b.im⟩⟩
instance : Neg GRat := ⟨fun a => ⟨-a.re, -a.im⟩⟩
instance : Mul GRat := ⟨fun a b => ⟨a.re * b.re - a.im * b.im, a.re * b.im + a.im * b.re⟩⟩
def I : GRat := ⟨0, 1⟩
def ofRat (q : Rat) : GRat := ⟨q, 0⟩
end GRat

/-! ## Pauli labels and specs -/

inductive Op | I | X | Y | Z
deriving DecidableEq, Repr

def Op.toString : Op → String
  | .I => "I" | .X => "X" | .Y => "Y" | .Z => "Z"

/-- `MPO._PAULI_2[label][a, b]` (row `a` = phys_out, column `b` = phys_in), indices taken mod 2 -/
def pauli (o : Op) (a b : Nat) : GRat :=
  match o, a % 2, b % 2 with
  | .I, 0, 0 => 1 | .I, 1, 1 => 1
  | .X, 0, 1 => 1 | .X, 1, 0 => 1
  | .Y, 0, 1 => ⟨0, -1⟩ | .Y, 1, 0 => ⟨0, 1⟩
  | .Z, 0, 0 => 1 | .Z, 1, 1 => ⟨-1, 0⟩
  | _, _, _ => 0

/-- a term spec after tokenisation: `"X0 Z3"` ↦ `[(X,0),(Z,3)]` -/
abbrev Spec := List (Op × Nat)

/-- `_parse_pauli_string`: site ↦ label in first-occurrence order; a repeated site raises (`none`) -/
def parseSpec : Spec → Option (List (Nat × Op))
  | [] => some []
  | (o, s) :: rest =>
    match parseSpec rest with
    | none => none
    | some m => if rest.any (fun t => t.2 = s) then none else some ((s, o) :: m)

/-- `from_pauli_sum`, step 1: dense operator list of one term (`ops_map.get(i, "I")` for `i < L`);
    `none` where the code raises `ValueError` (duplicate site, site outside `[0, L)`) -/
def opList (L : Nat) (spec : Spec) : Option (List Op) :=
  match parseSpec spec with
  | none => none
  | some m =>
    if m.any (fun t => L ≤ t.1) then none
    else some ((List.range L).map fun i => ((m.find? (fun t => t.1 = i)).map (·.2)).getD Op.I)

/-- the operator a (valid) spec puts on site `i`: its label there, identity on every site it does not mention -/
def specOp (spec : Spec) (i : Nat) : Op := ((spec.find? fun t => t.2 = i).map (·.1)).getD Op.I

/-! ## `MPO.hamiltonian`: the term list handed to `from_pauli_sum` -/

/-- `bonds = range(length) if bc == "periodic" else range(length - 1)` -/
def hamBonds (L : Nat) (periodic : Bool) : List Nat :=
  if periodic then List.range L else List.range (L - 1)

/-- exactly the `terms` argument `MPO.hamiltonian` passes on (two-body first, each over all bonds, then one-body) -/
def mpoTerms {K : Type} (L : Nat) (periodic : Bool) (two : List (K × Op × Op)) (one : List (K × Op)) : List (K × Spec) :=
  two.flatMap (fun t => (hamBonds L periodic).map fun i => (t.1, [(t.2.1, i), (t.2.2, (i + 1) % L)]))
    ++ one.flatMap (fun t => (List.range L).map fun i => (t.1, [(t.2, i)]))

/-- site pairs `(i, (i+1) % L)` of the two-body terms of `mpoTerms`, in term order -/
def hamPairs (L : Nat) (periodic : Bool) : List (Nat × Nat) := (hamBonds L periodic).map fun i => (i, (i + 1) % L)

/-- an unordered pair written smaller site first -/
def normPair (p : Nat × Nat) : Nat × Nat := (min p.1 p.2, max p.1 p.2)

/-- `MPO.ising(length, J, g, bc)` -/
def isingTerms (L : Nat) (periodic : Bool) (J g : Rat) : List (Rat × Spec) :=
  mpoTerms L periodic [(-J, Op.Z, Op.Z)] [(-g, Op.X)]

/-- `MPO.heisenberg(length, Jx, Jy, Jz, h, bc)`; the field term is dropped when `h == 0` -/
def heisenbergTerms (L : Nat) (periodic : Bool) (Jx Jy Jz h : Rat) : List (Rat × Spec) :=
  mpoTerms L periodic [(-Jx, Op.X, Op.X), (-Jy, Op.Y, Op.Y), (-Jz, Op.Z, Op.Z)] (if h ≠ 0 then [(-h, Op.Z)] else [])

/-! ## The automaton of `from_pauli_sum` (before compression) -/

/-- signature of a suffix state: (operator at this site, state id at the next bond) -/
abbrev Sig := Op × Nat

/-- `if signature not in unique_states_map: unique_states_map[signature] = next_id; next_id += 1` -/
def insertNew (tbl : List Sig) (s : Sig) : List Sig := if s ∈ tbl then tbl else tbl ++ [s]

/-- the insertion-ordered dict `bond_state_maps[i]` as the list of its keys (value = position) -/
def table (sigs : List Sig) : List Sig := sigs.foldl insertNew []

/-- column `i` of the parsed terms -/
def colAt (ops : List (List Op)) (i : Nat) : List Op := ops.map fun o => o.getD i Op.I

/-- step 2 of `from_pauli_sum`, right-to-left over sites `i, i+1, …, i+n-1`:
    returns the tables of bonds `i … i+n-1` and every term's state id at bond `i` -/
def sweep (ops : List (List Op)) : Nat → Nat → List (List Sig) × List Nat
  | _, 0 => ([], ops.map fun _ => 0)
  | i, n + 1 =>
    let r := sweep ops (i + 1) n
    let sigs := (colAt ops i).zip r.2
    let tbl := table sigs
    (tbl :: r.1, sigs.map fun s => tbl.idxOf s)

section generic
variable {K : Type} [Zero K] [One K] [Add K] [Mul K] {α : Type}

/-- entry `[cur, nxt]` of an internal site tensor at the physical pair `(a, b)`, `cur` being the row of `sg`:
    `tensor[:, :, current_id, next_id] = op_mat`, everything else zero -/
def entry (P : Op → α → α → K) (a b : α) (sg : Sig) (nxt : Nat) : K :=
  if sg.2 = nxt then P sg.1 a b else 0

/-- `Σ_nxt entry[cur, k + nxt] * v[nxt]` -/
def rowDot (P : Op → α → α → K) (a b : α) (sg : Sig) : Nat → List K → K
  | _, [] => 0
  | k, y :: ys => entry P a b sg k * y + rowDot P a b sg (k + 1) ys

/-- value of every state at the bond left of site `i`: the sum over all paths from that state to the sink of the
    product of tensor entries at the configuration pair `(σ, σ')` -/
def vals (P : Op → α → α → K) (σ σ' : Nat → α) : List (List Sig) → Nat → List K
  | [], _ => [1]
  | tbl :: tbls, i => tbl.map fun sg => rowDot P (σ i) (σ' i) sg 0 (vals P σ σ' tbls (i + 1))

def addAt : List K → Nat → K → List K
  | [], _, _ => []
  | y :: ys, 0, x => (y + x) :: ys
  | y :: ys, k + 1, x => y :: addAt ys k x

/-- first-site tensor at `(a, b)`: `tensor[:, :, 0, target_state] += coeff * op_mat`, over the terms in order -/
def site0Row (P : Op → α → α → K) (a b : α) (terms : List (K × List Op)) (traj : List Nat) (d : Nat) : List K :=
  (terms.zip traj).foldl (fun w ts => addAt w ts.2 (ts.1.1 * P (ts.1.2.getD 0 Op.I) a b)) (List.replicate d 0)

def dot : List K → List K → K
  | x :: xs, y :: ys => x * y + dot xs ys
  | _, _ => 0

/-- the automaton's path sum at the configuration pair `(σ, σ')`:  `W₀[σ₀σ₀'] · W₁[σ₁σ₁'] ⋯ W_{L-1}[σ_{L-1}σ_{L-1}']`.
    `terms = []` gives the all-zero tensors the code returns early. -/
def fsmPathSum (P : Op → α → α → K) (terms : List (K × List Op)) (L : Nat) (σ σ' : Nat → α) : K :=
  match terms with
  | [] => 0
  | _ =>
    let r := sweep (terms.map (·.2)) 1 (L - 1)
    let v := vals P σ σ' r.1 1
    dot (site0Row P (σ 0) (σ' 0) terms r.2 v.length) v

/-- product of the local matrix elements of one term over sites `i … i+n-1` -/
def termProd (P : Op → α → α → K) (ops : List Op) (σ σ' : Nat → α) : Nat → Nat → K
  | _, 0 => 1
  | i, n + 1 => P (ops.getD i Op.I) (σ i) (σ' i) * termProd P ops σ σ' (i + 1) n

/-- matrix element of the Pauli string written by `spec` over sites `i … i+n-1` -/
def specProd (P : Op → α → α → K) (spec : Spec) (σ σ' : Nat → α) : Nat → Nat → K
  | _, 0 => 1
  | i, n + 1 => P (specOp spec i) (σ i) (σ' i) * specProd P spec σ σ' (i + 1) n

/-- the definition the automaton has to reproduce: `Σ_t coeff_t · Π_i P_{t,i}[σ_i, σ'_i]` -/
def termSum (P : Op → α → α → K) (terms : List (K × List Op)) (L : Nat) (σ σ' : Nat → α) : K :=
  (terms.map fun t => t.1 * termProd P t.2 σ σ' 0 L).sum

end generic

/-- bond dimensions `[1, D₁, …, D_{L-1}, 1]` of the tensors `from_pauli_sum` builds with `n_sweeps = 0` -/
def fsmDims {K : Type} (terms : List (K × List Op)) (L : Nat) : List Nat :=
  match terms with
  | [] => List.replicate (L + 1) 1
  | _ => 1 :: ((sweep (terms.map (·.2)) 1 (L - 1)).1.map List.length ++ [1])

/-- `from_pauli_sum` up to the parsed terms: `none` where the code raises -/
def parseTerms {K : Type} (L : Nat) : List (K × Spec) → Option (List (K × List Op))
  | [] => some []
  | (c, sp) :: rest =>
    match opList L sp, parseTerms L rest with
    | some o, some r => some ((c, o) :: r)
    | _, _ => none

/-! ## Hand-written 4-state tables (`bose_hubbard`, `coupled_transmon`) -/

/-- symbols that occur as blocks of the two hand-written tables -/
inductive Blk
  | zero | id | hloc | up | dn | upJ | dnJ   -- bose_hubbard: 0, 1, h_loc, a†, a, -J·a†, -J·a
  | hq | gx | hr | xr                          -- coupled_transmon: h_q, g·x_q, h_r, x_r (id shared)
deriving DecidableEq, Repr

def Blk.toString : Blk → String
  | .zero => "0" | .id => "id" | .hloc => "hloc" | .up => "adag" | .dn => "a" | .upJ => "-Jadag" | .dnJ => "-Ja"
  | .hq => "hq" | .gx => "gxq" | .hr => "hr" | .xr => "xr"

/-- `bose_hubbard`: `tensor[l, r]` of the inner 4×4 table -/
def bhTable (l r : Nat) : Blk :=
  match l, r with
  | 0, 0 => .id | 0, 1 => .up | 0, 2 => .dn | 0, 3 => .hloc
  | 1, 3 => .dnJ | 2, 3 => .upJ | 3, 3 => .id
  | _, _ => .zero

/-- a site tensor as a block matrix (rows = left bond) -/
abbrev BlkMat := List (List Blk)

def fullMat (t : Nat → Nat → Blk) : BlkMat := (List.range 4).map fun l => (List.range 4).map fun r => t l r

/-- `bose_hubbard(length, …)`: all sites get the full table, then `tensors[0]` := row 0, then
    `tensors[-1] := tensors[-1][:, :, :, 3:4]` — column 3 of whatever the last tensor is at that point, i.e. of the
    row-0 slice when the chain has a single site (commit 522fc8a) -/
def bhTensors (L : Nat) : List BlkMat :=
  let full := fullMat bhTable
  let ts := (List.replicate L full).set 0 [full.headD []]
  ts.set (L - 1) ((ts.getD (L - 1) []).map fun row => [row.getD 3 .zero])

/-- code as found (before 522fc8a): the right boundary was sliced from the *full* table, so a single site ended up 4×1 -/
def bhTensorsOld (L : Nat) : List BlkMat :=
  let full := fullMat bhTable
  let ts := List.replicate L full
  let ts := ts.set 0 [full.headD []]
  ts.set (L - 1) (full.map fun row => [row.getD 3 .zero])

/-- `coupled_transmon`: inner qubit table (commit 201a5d0; rows: 0 / 2 = term finished, 1 = left resonator holds `x_r`,
    3 = nothing placed yet — the convention of the boundary tensors and the resonator table) -/
def ctQubit (l r : Nat) : Blk :=
  match l, r with
  | 0, 0 => .id | 2, 0 => .id | 1, 0 => .gx | 3, 0 => .hq | 3, 1 => .id | 3, 2 => .gx | 3, 3 => .id
  | _, _ => .zero

/-- code as found (before 201a5d0): inner qubit table with the opposite start/done convention -/
def ctQubitOld (l r : Nat) : Blk :=
  match l, r with
  | 0, 0 => .hq | 0, 1 => .id | 0, 2 => .gx | 1, 3 => .gx | 0, 3 => .id | 3, 3 => .id
  | _, _ => .zero

/-- `coupled_transmon`: resonator table -/
def ctRes (l r : Nat) : Blk :=
  match l, r with
  | 0, 0 => .id | 1, 2 => .hr | 2, 0 => .xr | 3, 1 => .xr | 3, 3 => .id
  | _, _ => .zero

/-- `tensor[:, 0] + tensor[:, 2]` row by row, symbolically: in every row of the resonator table at most one of the two
    blocks is non-zero, so the sum is that block -/
def blkAdd (a b : Blk) : Blk := if a = .zero then b else a

/-- tensor of site `i` of `coupled_transmon(length = L, …)`, exactly the branches of the loop -/
def ctSite (L i : Nat) : BlkMat :=
  if i % 2 = 0 then
    if L = 1 then [[.hq]]
    else if i = 0 then [[.hq, .id, .gx, .id]]
    else if i = L - 1 then [[.id], [.gx], [.id], [.hq]]
    else fullMat ctQubit
  else
    if i = L - 1 then (fullMat ctRes).map fun row => [blkAdd (row.getD 0 .zero) (row.getD 2 .zero)]
    else fullMat ctRes

def ctTensors (L : Nat) : List BlkMat := (List.range L).map (ctSite L)

/-- code as found (before 201a5d0) -/
def ctTensorsOld (L : Nat) : List BlkMat :=
  (List.range L).map fun i =>
    if i % 2 = 0 then
      if i = 0 then [[.hq, .id, .gx, .id]]
      else if i = L - 1 then [[.id], [.gx], [.id], [.hq]]
      else fullMat ctQubitOld
    else fullMat ctRes

section generic
variable {K : Type} [Zero K] [One K] [Add K] [Mul K] {α : Type}

/-- `M · v` for a block matrix evaluated at the physical pair `(a, b)` -/
def blkApply (B : Blk → α → α → K) (a b : α) (m : BlkMat) (v : List K) : List K :=
  m.map fun row => dot (row.map fun s => B s a b) v

/-- `W_i[σ_i σ_i'] ⋯ W_{L-1}[…] · [1]` -/
def blkVals (B : Nat → Blk → α → α → K) (σ σ' : Nat → α) : List BlkMat → Nat → List K
  | [], _ => [1]
  | m :: ms, i => blkApply (B i) (σ i) (σ' i) m (blkVals B σ σ' ms (i + 1))

/-- path sum of a hand-written table chain; `none` when the boundary bonds are not 1 (then `to_matrix` raises) -/
def blkPathSum (B : Nat → Blk → α → α → K) (ts : List BlkMat) (σ σ' : Nat → α) : Option K :=
  match blkVals B σ σ' ts 0 with
  | [x] => if (ts.getLast?.map fun m => m.all fun row => row.length = 1) = some true then some x else none
  | _ => none

end generic

section generic
variable {K : Type} [Zero K] [One K] [Add K] [Mul K] {α : Type}

/-- value of block `s` at site `i` for the configuration pair -/
def bv (B : Nat → Blk → α → α → K) (σ σ' : Nat → α) (i : Nat) (s : Blk) : K := B i s (σ i) (σ' i)

/-- product of the identity blocks over sites `k … k+n-1` -/
def idProd (B : Nat → Blk → α → α → K) (σ σ' : Nat → α) : Nat → Nat → K
  | _, 0 => 1
  | k, n + 1 => bv B σ σ' k .id * idProd B σ σ' (k + 1) n

/-- the documented Bose–Hubbard chain on sites `k … k+n-1`, by peeling off the first site:
    `Σ_i h_i + Σ_i (a†_i (-J a)_{i+1} + a_i (-J a†)_{i+1})`, identities elsewhere -/
def bhChain (B : Nat → Blk → α → α → K) (σ σ' : Nat → α) : Nat → Nat → K
  | _, 0 => 0
  | k, 1 => bv B σ σ' k .hloc
  | k, n + 2 =>
    bv B σ σ' k .hloc * idProd B σ σ' (k + 1) (n + 1)
      + (bv B σ σ' k .up * bv B σ σ' (k + 1) .dnJ + bv B σ σ' k .dn * bv B σ σ' (k + 1) .upJ) * idProd B σ σ' (k + 2) n
      + bv B σ σ' k .id * bhChain B σ σ' (k + 1) (n + 1)

/-- the same chain written as explicit sums over the site / bond index (sites `k … k+n-1`) -/
def bhChainSum (B : Nat → Blk → α → α → K) (σ σ' : Nat → α) (k n : Nat) : K :=
  ((List.range n).map fun i =>
      idProd B σ σ' k i * bv B σ σ' (k + i) .hloc * idProd B σ σ' (k + i + 1) (n - i - 1)).sum
    + ((List.range (n - 1)).map fun i =>
      idProd B σ σ' k i
        * (bv B σ σ' (k + i) .up * bv B σ σ' (k + i + 1) .dnJ + bv B σ σ' (k + i) .dn * bv B σ σ' (k + i + 1) .upJ)
        * idProd B σ σ' (k + i + 2) (n - i - 2)).sum

/-- local term of the documented transmon chain at site `i` (qubit: `h_q`, resonator: `h_r`) and its coupling operator
    (qubit: `g·x_q`, resonator: `x_r`) -/
def ctLocal (i : Nat) : Blk := if i % 2 = 0 then .hq else .hr
def ctCoupl (i : Nat) : Blk := if i % 2 = 0 then .gx else .xr

/-- the documented transmon chain on sites `k … k+n-1` minus the local term of site `k` (peeling off the first site) -/
def ctRest (B : Nat → Blk → α → α → K) (σ σ' : Nat → α) : Nat → Nat → K
  | _, 0 => 0
  | _, 1 => 0
  | k, n + 2 =>
    bv B σ σ' k (ctCoupl k) * bv B σ σ' (k + 1) (ctCoupl (k + 1)) * idProd B σ σ' (k + 2) n
      + bv B σ σ' k .id * (bv B σ σ' (k + 1) (ctLocal (k + 1)) * idProd B σ σ' (k + 2) n + ctRest B σ σ' (k + 1) (n + 1))

/-- the documented transmon chain on sites `k … k+n-1`: `Σ_i h_i + Σ_i c_i c_{i+1}` with `h` = `h_q`/`h_r` and
    `c` = `g·x_q`/`x_r` by parity of the site, identities elsewhere -/
def ctChain (B : Nat → Blk → α → α → K) (σ σ' : Nat → α) (k : Nat) : Nat → K
  | 0 => 0
  | n + 1 => bv B σ σ' k (ctLocal k) * idProd B σ σ' (k + 1) n + ctRest B σ σ' k (n + 1)

/-- the same chain as explicit sums over the site / bond index (sites `k … k+n-1`) -/
def ctChainSum (B : Nat → Blk → α → α → K) (σ σ' : Nat → α) (k n : Nat) : K :=
  ((List.range n).map fun i =>
      idProd B σ σ' k i * bv B σ σ' (k + i) (ctLocal (k + i)) * idProd B σ σ' (k + i + 1) (n - i - 1)).sum
    + ((List.range (n - 1)).map fun i =>
      idProd B σ σ' k i * (bv B σ σ' (k + i) (ctCoupl (k + i)) * bv B σ σ' (k + i + 1) (ctCoupl (k + i + 1)))
        * idProd B σ σ' (k + i + 2) (n - i - 2)).sum

end generic

/-- `(left, right)` bond dimension of every tensor of a block chain -/
def blkShapes (ts : List BlkMat) : List (Nat × Nat) := ts.map fun m => (m.length, (m.headD []).length)

/-! ## Circuits -/

/-- rotation angle: a rational (product of the rational parameters) or the constants `±π/2` of the basis changes -/
inductive Ang
  | q (r : Rat) | hpi | mhpi | none
deriving DecidableEq, Repr

/-- gate names used by the circuit library -/
inductive GName | rx | ry | rz | rxx | ryy | rzz | p | cp | cx | x | barrier
deriving DecidableEq, Repr

def GName.toString : GName → String
  | .rx => "rx" | .ry => "ry" | .rz => "rz" | .rxx => "rxx" | .ryy => "ryy" | .rzz => "rzz"
  | .p => "p" | .cp => "cp" | .cx => "cx" | .x => "x" | .barrier => "barrier"

structure Gate where
  name : GName
  qs : List Nat
  ang : Ang
deriving DecidableEq, Repr

def g1 (n : GName) (q : Nat) (θ : Rat) : Gate := ⟨n, [q], .q θ⟩
def g2 (n : GName) (q1 q2 : Nat) (θ : Rat) : Gate := ⟨n, [q1, q2], .q θ⟩
def bar : Gate := ⟨.barrier, [], .none⟩
def cx (c t : Nat) : Gate := ⟨.cx, [c, t], .none⟩

/-- `for site in range(L // 2): (2*site, 2*site + 1)` -/
def evenBonds (L : Nat) : List (Nat × Nat) := (List.range (L / 2)).map fun s => (2 * s, 2 * s + 1)
/-- `for site in range(1, L // 2): (2*site - 1, 2*site)` -/
def oddBonds (L : Nat) : List (Nat × Nat) := (List.range' 1 (L / 2 - 1)).map fun s => (2 * s - 1, 2 * s)
/-- `if L % 2 != 0 and L != 1: (L - 2, L - 1)` -/
def lastBond (L : Nat) : List (Nat × Nat) := if L % 2 ≠ 0 ∧ L ≠ 1 then [(L - 2, L - 1)] else []
/-- `if periodic and L > 1: (0, L - 1)` -/
def wrapBond (L : Nat) (periodic : Bool) : List (Nat × Nat) := if periodic = true ∧ L > 1 then [(0, L - 1)] else []

/-- qubit pairs of the two-qubit rotations of one Trotter step of the chain builders, in circuit order -/
def isingBonds (L : Nat) (periodic : Bool) : List (Nat × Nat) :=
  evenBonds L ++ oddBonds L ++ lastBond L ++ wrapBond L periodic

/-- `create_ising_circuit`: one time step (every gate is followed by a barrier) -/
def isingStep (L : Nat) (periodic : Bool) (J g dt : Rat) : List Gate :=
  let α := -2 * dt * g
  let β := -2 * dt * J
  (List.range L).flatMap (fun s => [g1 .rx s α, bar])
    ++ (isingBonds L periodic).flatMap (fun p => [g2 .rzz p.1 p.2 β, bar])

def repeatSteps (n : Nat) (step : List Gate) : List Gate := (List.replicate n step).flatten

def isingCircuit (L : Nat) (periodic : Bool) (J g dt : Rat) (steps : Nat) : List Gate :=
  repeatSteps steps (isingStep L periodic J g dt)

/-- `site_index(row, col)` of the 2-D builders (snaking order) -/
def snake (C : Nat) (p : Nat × Nat) : Nat :=
  if p.1 % 2 = 0 then p.1 * C + p.2 else p.1 * C + (C - 1 - p.2)

/-- `range(0, n, 2)` / `range(1, n, 2)` -/
def evensBelow (n : Nat) : List Nat := (List.range n).filter fun k => k % 2 = 0
def oddsBelow (n : Nat) : List Nat := (List.range n).filter fun k => k % 2 = 1

abbrev Edge := (Nat × Nat) × (Nat × Nat)

def hEdge (r c : Nat) : Edge := ((r, c), (r, c + 1))
def vEdge (r c : Nat) : Edge := ((r, c), (r + 1, c))

/-- lattice edges in the loop order of `create_2d_ising_circuit` -/
def gridEdges (R C : Nat) : List Edge :=
  (List.range R).flatMap (fun r => (evensBelow (C - 1)).map (hEdge r) ++ (oddsBelow (C - 1)).map (hEdge r))
    ++ (List.range C).flatMap (fun c => (evensBelow (R - 1)).map (fun r => vEdge r c) ++ (oddsBelow (R - 1)).map (fun r => vEdge r c))

/-- lattice edges in the loop order of `create_2d_heisenberg_circuit` -/
def gridEdgesH (R C : Nat) : List Edge :=
  (List.range R).flatMap (fun r => (evensBelow (C - 1)).map (hEdge r))
    ++ (List.range R).flatMap (fun r => (oddsBelow (C - 1)).map (hEdge r))
    ++ (List.range C).flatMap (fun c => (evensBelow (R - 1)).map fun r => vEdge r c)
    ++ (List.range C).flatMap (fun c => (oddsBelow (R - 1)).map fun r => vEdge r c)

def edgeQubits (C : Nat) (e : Edge) : Nat × Nat := (snake C e.1, snake C e.2)

/-- qubit pairs of the rzz gates of one step of the 2-D Ising circuit -/
def grid2dBonds (R C : Nat) : List (Nat × Nat) := (gridEdges R C).map (edgeQubits C)
def grid2dBondsH (R C : Nat) : List (Nat × Nat) := (gridEdgesH R C).map (edgeQubits C)

def gridSites (R C : Nat) : List Nat :=
  (List.range R).flatMap fun r => (List.range C).map fun c => snake C (r, c)

/-- `create_2d_ising_circuit`: one step (rx without barriers, every rzz followed by a barrier) -/
def ising2dStep (R C : Nat) (J g dt : Rat) : List Gate :=
  let α := -2 * dt * g
  let β := -2 * dt * J
  (gridSites R C).map (fun q => g1 .rx q α)
    ++ (grid2dBonds R C).flatMap (fun p => [g2 .rzz p.1 p.2 β, bar])

def ising2dCircuit (R C : Nat) (J g dt : Rat) (steps : Nat) : List Gate :=
  repeatSteps steps (ising2dStep R C J g dt)

/-- `create_heisenberg_circuit`: one step, with the barriers where the code puts them -/
def heisenbergStep (L : Nat) (periodic : Bool) (Jx Jy Jz h dt : Rat) : List Gate :=
  let θx := -2 * dt * Jx
  let θy := -2 * dt * Jy
  let θz := -2 * dt * Jz
  let θh := -2 * dt * h
  let open_ := evenBonds L ++ oddBonds L ++ lastBond L
  (List.range L).map (fun s => g1 .rz s θh)
    ++ open_.map (fun p => g2 .rzz p.1 p.2 θz)
    ++ (wrapBond L periodic).flatMap (fun p => [g2 .rzz p.1 p.2 θz, bar])
    ++ (evenBonds L ++ oddBonds L).map (fun p => g2 .rxx p.1 p.2 θx)
    ++ (lastBond L).flatMap (fun p => [g2 .rxx p.1 p.2 θx, bar])
    ++ (wrapBond L periodic).map (fun p => g2 .rxx p.1 p.2 θx)
    ++ (isingBonds L periodic).map (fun p => g2 .ryy p.1 p.2 θy)

def heisenbergCircuit (L : Nat) (periodic : Bool) (Jx Jy Jz h dt : Rat) (steps : Nat) : List Gate :=
  repeatSteps steps (heisenbergStep L periodic Jx Jy Jz h dt)

/-- `create_2d_heisenberg_circuit`: one step (no barriers) -/
def heisenberg2dStep (R C : Nat) (Jx Jy Jz h dt : Rat) : List Gate :=
  let θx := -2 * dt * Jx
  let θy := -2 * dt * Jy
  let θz := -2 * dt * Jz
  let θh := -2 * dt * h
  (gridSites R C).map (fun q => g1 .rz q θh)
    ++ (grid2dBondsH R C).map (fun p => g2 .rzz p.1 p.2 θz)
    ++ (grid2dBondsH R C).map (fun p => g2 .rxx p.1 p.2 θx)
    ++ (grid2dBondsH R C).map (fun p => g2 .ryy p.1 p.2 θy)

def heisenberg2dCircuit (R C : Nat) (Jx Jy Jz h dt : Rat) (steps : Nat) : List Gate :=
  repeatSteps steps (heisenberg2dStep R C Jx Jy Jz h dt)

/-! ### Fermi–Hubbard -/

/-- phase-gate angle of the chemical-potential half step: `mu * dt / (2 * n)` (both builders) -/
def fhChemAngle (mu dt : Rat) (n : Nat) : Rat := mu * dt / (2 * n)
/-- controlled-phase angle of the on-site half step: `-u * dt / (2 * n)` (both builders) -/
def fhOnsiteAngle (u dt : Rat) (n : Nat) : Rat := -u * dt / (2 * n)
/-- 1-D hopping angle of `rxx`/`ryy`: `-dt * t / n` -/
def fhHop1dAngle (t dt : Rat) (n : Nat) : Rat := -dt * t / n
/-- 2-D hopping angle `alpha` handed to `add_hopping_term`: `-t * dt / n` -/
def fhHop2dAngle (t dt : Rat) (n : Nat) : Rat := -t * dt / n

/-- bonds `(j, j+1)` of the 1-D hopping term: even `j` first, then odd `j` -/
def fh1dBonds (L : Nat) : List (Nat × Nat) :=
  ((evensBelow (L - 1)) ++ (oddsBelow (L - 1))).map fun j => (j, j + 1)

/-- `create_1d_fermi_hubbard_circuit`: one of the `n * timesteps` sub-steps; `↑[j] = j`, `↓[j] = L + j` -/
def fh1dSubstep (L : Nat) (u t mu dt : Rat) (n : Nat) : List Gate :=
  let chem := (List.range L).flatMap fun j => [g1 .p j (fhChemAngle mu dt n), g1 .p (L + j) (fhChemAngle mu dt n)]
  let onsite := (List.range L).map fun j => g2 .cp j (L + j) (fhOnsiteAngle u dt n)
  let θ := fhHop1dAngle t dt n
  let hop := (fh1dBonds L).flatMap fun b =>
    [g2 .rxx b.2 b.1 θ, g2 .ryy b.2 b.1 θ, g2 .rxx (L + b.2) (L + b.1) θ, g2 .ryy (L + b.2) (L + b.1) θ]
  chem ++ onsite ++ hop ++ onsite ++ chem

def fh1dCircuit (L : Nat) (u t mu dt : Rat) (n steps : Nat) : List Gate :=
  repeatSteps (n * steps) (fh1dSubstep L u t mu dt n)

/-- `lookup_qiskit_ordering(particle, spin)`; spin `0 = ↑`, `1 = ↓`, anything else raises -/
def lookupQiskitOrdering (particle spin : Nat) : Option Nat :=
  if spin ≤ 1 then some (2 * particle + spin) else none

inductive LriErr | index | value
deriving DecidableEq, Repr

/-- `add_long_range_interaction(circ, i, j, outer_op, alpha)` acting on the gate list of `circ`;
    `outer = some true` is X, `some false` is Y, `none` any other string -/
def addLongRange (circ : List Gate) (i j : Nat) (outer : Option Bool) (α : Rat) : Except LriErr (List Gate) :=
  if i ≥ j then .error .index
  else match outer with
    | none => .error .value
    | some isX =>
      let core := (List.range' i (j - i)).foldl (fun c k => cx k j :: (c ++ [cx k j])) (circ ++ [g1 .rz j α])
      let nm : GName := if isX then .ry else .rx
      .ok ([⟨nm, [i], .hpi⟩, ⟨nm, [j], .hpi⟩] ++ core ++ [⟨nm, [i], .mhpi⟩, ⟨nm, [j], .mhpi⟩])

/-- `add_hopping_term(circ, i, j, alpha)` -/
def addHopping (circ : List Gate) (i j : Nat) (α : Rat) : Except LriErr (List Gate) :=
  match addLongRange [] i j (some true) α, addLongRange [] i j (some false) α with
  | .ok xx, .ok yy => .ok (circ ++ xx ++ yy)
  | .error e, _ => .error e
  | _, .error e => .error e

/-- lattice bonds `(p1, p2)` of the 2-D hopping term in the order horizontal_odd, horizontal_even, vertical_odd,
    vertical_even of the code -/
def fh2dBonds (Lx Ly : Nat) : List (Nat × Nat) :=
  (List.range Ly).flatMap (fun y => (evensBelow (Lx - 1)).map fun x => (y * Lx + x, y * Lx + x + 1))
    ++ (List.range Ly).flatMap (fun y => (oddsBelow (Lx - 1)).map fun x => (y * Lx + x, y * Lx + x + 1))
    ++ (evensBelow (Ly - 1)).flatMap (fun y => (List.range Lx).map fun x => (y * Lx + x, y * Lx + x + Lx))
    ++ (oddsBelow (Ly - 1)).flatMap (fun y => (List.range Lx).map fun x => (y * Lx + x, y * Lx + x + Lx))

def hopGates (i j : Nat) (α : Rat) : List Gate :=
  match addHopping [] i j α with
  | .ok g => g
  | .error _ => []

/-- `create_2d_fermi_hubbard_circuit`: one sub-step; qubit of (site p, spin s) is `2p + s` -/
def fh2dSubstep (Lx Ly : Nat) (u t mu dt : Rat) (n : Nat) : List Gate :=
  let sites := List.range (Lx * Ly)
  let chem := sites.flatMap fun j => [g1 .p (2 * j) (fhChemAngle mu dt n), g1 .p (2 * j + 1) (fhChemAngle mu dt n)]
  let onsite := sites.map fun j => g2 .cp (2 * j) (2 * j + 1) (fhOnsiteAngle u dt n)
  let α := fhHop2dAngle t dt n
  let hop := (fh2dBonds Lx Ly).flatMap fun b =>
    hopGates (2 * b.1) (2 * b.2) α ++ hopGates (2 * b.1 + 1) (2 * b.2 + 1) α
  chem ++ onsite ++ hop ++ onsite ++ chem

def fh2dCircuit (Lx Ly : Nat) (u t mu dt : Rat) (n steps : Nat) : List Gate :=
  repeatSteps (steps * n) (fh2dSubstep Lx Ly u t mu dt n)

/-! ### Gate conventions (qiskit; spec-tied numerically by the harness)

  `rx(θ) = exp(-i θ/2 X)`, same for `ry rz rxx ryy rzz`;  `p(θ) = exp(-i (-θ/2) (I - Z))`;
  `cp(θ) = exp(-i (-θ/4) (I - Z)⊗(I - Z))`;  the hopping block of `add_long_range_interaction(i, j, X, α)` is
  `exp(-i α/2 X_i Z_{i+1} ⋯ Z_{j-1} X_j)`.
  `genCoeff` is the real number `c` such that the gate equals `exp(-i c G)` for its generator `G`. -/
def rotCoeff (θ : Rat) : Rat := θ / 2
def phaseCoeff (θ : Rat) : Rat := -θ / 2
def cphaseCoeff (θ : Rat) : Rat := -θ / 4

/-- the Pauli-string generator (dense operator list over `L` qubits) and coefficient of a rotation gate:
    `rx q θ ↦ (X_q, θ/2)`, `rzz a b θ ↦ (Z_a Z_b, θ/2)`, … ; `none` for barriers and non-rotation gates -/
def gateGen (L : Nat) (g : Gate) : Option (List Op × Rat) :=
  match g.ang with
  | .q θ =>
    let one (o : Op) (q : Nat) := (opList L [(o, q)]).map fun l => (l, rotCoeff θ)
    let two (o : Op) (a b : Nat) := (opList L [(o, a), (o, b)]).map fun l => (l, rotCoeff θ)
    match g.name, g.qs with
    | .rx, [q] => one .X q
    | .ry, [q] => one .Y q
    | .rz, [q] => one .Z q
    | .rxx, [a, b] => two .X a b
    | .ryy, [a, b] => two .Y a b
    | .rzz, [a, b] => two .Z a b
    | _, _ => none
  | _ => none

/-- qubit pairs of the two-qubit gates called `nm`, in circuit order -/
def gatePairs (nm : GName) (gs : List Gate) : List (Nat × Nat) :=
  gs.filterMap fun g => if g.name = nm then (match g.qs with | [a, b] => some (a, b) | _ => none) else none

/-- qubits of the one-qubit gates called `nm`, in circuit order -/
def gateSites (nm : GName) (gs : List Gate) : List Nat :=
  gs.filterMap fun g => if g.name = nm then (match g.qs with | [a] => some a | _ => none) else none

/-- generators `(dense Pauli string, c)` — the gate is `exp(-i c G)` — of all rotation gates of a gate list, in order -/
def stepGens (L : Nat) (gs : List Gate) : List (List Op × Rat) := gs.filterMap (gateGen L)

/-- `(dense Pauli string, dt · coeff)` for every term of a Hamiltonian term list, in order -/
def termGens (L : Nat) (dt : Rat) (terms : List (Rat × Spec)) : List (List Op × Rat) :=
  terms.filterMap fun t => (opList L t.2).map fun l => (l, dt * t.1)

end Yaqs.Trotter
