import YaqsModel.Model.Params
/-
  Model.Storage — where the numbers of a run are kept and how they are reduced (core Lean only).

  Mirrors (simulation_parameters.py / simulator.py, after the `fix:` commits)
    * `Observable.initialize(sim_params)`                     → `allocate`  (shape, dtype, `results` length, `times` attribute)
    * the arrays the back-ends return (`np.zeros((len(sorted_observables), …))` in `analog_tjm_1/2`, `mcwf`, `lindblad`,
      `digital_tjm`)                                          → `backendCols`
    * `observable.trajectories[i] = result[obs_index]`        → `assignRow` (numpy: equal length, or silent broadcast of a
      length-1 row, or ValueError), all rows of one run       → `fill`
    * `AnalogSimParams.aggregate_trajectories` / `StrongSimParams.aggregate_trajectories` (identical bodies)
                                                              → `aggregateObs` (`np.mean(…, axis=0)` = `meanAxis0`; Schmidt
      spectra: `np.concatenate([np.asarray(tr).ravel() …])`   = `List.flatten`, `concatCells` for cells that are vectors)
    * `WeakSimParams.aggregate_measurements`                  → `aggregateMeasurements` (`None in measurements` test, the
      `filter(None, …)` that also drops empty dicts, the dict merge, `dict(sorted(…))`)
    * the single-trajectory shortcut of `_run_analog` / `_run_strong_sim` and the allocate → fill → reduce sequence
                                                              → `effTraj`, `runObservable`
    * `_run_weak_sim`'s `measurements = [None] * shots; … measurements[i] = result; aggregate_measurements()`
                                                              → `weakSlots`, `runWeakStore`

  Numbers are exact rationals (`Rat`); a complex128 array is a pair of tables (real and imaginary parts): `np.mean` acts
  on the two parts separately (`meanAxis0C`).  `Counts`, `addAll`, `sortCounts` are the ones of `Model.Params` (C12/C20).
-/
namespace Yaqs.Storage
open Yaqs.Params (Counts addAll sortCounts total)

/-- core has no `DecidableEq (Except ε α)`; needed only so that concrete instances can be checked by `decide` -/
scoped instance exceptDecEq {ε α : Type} [DecidableEq ε] [DecidableEq α] : DecidableEq (Except ε α)
  | .ok a, .ok b => if h : a = b then isTrue (by rw [h]) else isFalse (fun e => h (by cases e; rfl))
  | .error a, .error b => if h : a = b then isTrue (by rw [h]) else isFalse (fun e => h (by cases e; rfl))
  | .ok _, .error _ => isFalse (fun e => by cases e)
  | .error _, .ok _ => isFalse (fun e => by cases e)

inductive Mode
  | analog | strong | weak
  deriving DecidableEq, Repr

/-- `np.float64` / `np.complex128` -/
inductive DType
  | f64 | c128
  deriving DecidableEq, Repr

/-- what `Observable.gate.name` distinguishes downstream: a local operator, a diagnostic (`runtime_cost`, `max_bond`,
    `total_bond`), `entropy`, `schmidt_spectrum`, `pvm` -/
inductive ObsKind
  | loc | diag | entropy | schmidt | pvm
  deriving DecidableEq, Repr

/-- the fields of the parameter object that `initialize` and the back-ends read -/
structure Settings where
  mode : Mode
  numTraj : Nat        -- `num_traj` as it stands on the object when `initialize` runs (after the single-trajectory shortcut)
  shots : Nat          -- weak: `shots`
  sample : Bool        -- `sample_timesteps` (analog) / `sample_layers` (strong)
  nMid : Nat           -- strong: `num_mid_measurements`
  times : List Rat     -- analog: `sim_params.times`
  elapsed : Rat        -- analog: `sim_params.elapsed_time`
  deriving Repr

/-- the observable's `times` attribute after `initialize` -/
inductive TimesAttr
  | grid (ts : List Rat)     -- `self.times = sim_params.times` (the same array object)
  | scalar (t : Rat)         -- `self.times = np.asarray(sim_params.elapsed_time)` (0-d array)
  | untouched                -- strong / weak: the attribute is not assigned (absent on a fresh object, stale on a reused one)
  deriving DecidableEq, Repr

/-- what `initialize` leaves on the observable -/
structure Alloc where
  rows : Nat              -- `trajectories.shape[0]`
  cols : Nat              -- `trajectories.shape[1]`
  dtype : DType           -- `trajectories.dtype`
  resultsLen : Nat        -- `len(results)` as allocated (float64; replaced by `aggregate_trajectories`)
  times : TimesAttr
  deriving DecidableEq, Repr

/-- `Observable.initialize`.  The observable's kind is not looked at. -/
def allocate (s : Settings) (_k : ObsKind) : Alloc :=
  match s.mode with
  | .analog =>
    if s.sample then ⟨s.numTraj, s.times.length, .f64, s.times.length, .grid s.times⟩
    else ⟨s.numTraj, 1, .c128, s.times.length, .scalar s.elapsed⟩
  | .weak => ⟨s.shots, 1, .c128, 1, .untouched⟩
  | .strong =>
    if s.sample then ⟨s.numTraj, s.nMid + 2, .c128, s.nMid + 2, .untouched⟩
    else ⟨s.numTraj, 1, .c128, 1, .untouched⟩

/-- columns of the array one back-end call returns (`none`: weak mode returns a dict, not an array).
    analog: `np.zeros((n_obs, len(times)))` resp. `(n_obs, 1)` (TJM), `results[:, -1:]` (MCWF, Lindblad);
    strong: `np.zeros((n_obs, num_mid_measurements + 2))` resp. `(n_obs, 1)`. -/
def backendCols (s : Settings) : Option Nat :=
  match s.mode with
  | .analog => some (if s.sample then s.times.length else 1)
  | .strong => some (if s.sample then s.nMid + 2 else 1)
  | .weak => none

inductive AssignErr
  | broadcast (got want : Nat)   -- ValueError: could not broadcast input array from shape (got,) into shape (want,)
  | sequence                     -- ValueError: setting an array element with a sequence (a cell that is itself an array)
  deriving DecidableEq, Repr

/-- `trajectories[i] = row` for a row of scalars: numpy copies a row of the same length, silently repeats a row of
    length 1, and raises otherwise. -/
def assignRow (cols : Nat) (row : List Rat) : Except AssignErr (List Rat) :=
  if row.length = cols then .ok row
  else if row.length = 1 then .ok (List.replicate cols (row.headD 0))
  else .error (.broadcast row.length cols)

/-- the same assignment for a row whose cells are vectors (Schmidt spectra): scalar storage refuses it -/
def assignCells (_cols : Nat) (_row : List (List Rat)) : Except AssignErr (List Rat) := .error .sequence

def fillFrom (cols : Nat) (res : Nat → List Rat) : List Nat → Except AssignErr (List (List Rat))
  | [] => .ok []
  | i :: is =>
    match assignRow cols (res i) with
    | .error e => .error e
    | .ok r =>
      match fillFrom cols res is with
      | .error e => .error e
      | .ok rest => .ok (r :: rest)

/-- every row `i < rows` receives `res i` (that each index is delivered exactly once is C13's theorem) -/
def fill (a : Alloc) (res : Nat → List Rat) : Except AssignErr (List (List Rat)) :=
  fillFrom a.cols res (List.range a.rows)

/-- `Σ_i t[i][k]` -/
def colSum (t : List (List Rat)) (k : Nat) : Rat := (t.map (fun r => r.getD k 0)).sum

/-- result of a reduction -/
inductive Agg
  | values (v : List Rat)
  | nan (len : Nat)        -- `np.mean` over zero rows: an array of `nan` (RuntimeWarning)
  | valueError             -- `np.concatenate([])`: "need at least one array to concatenate"
  deriving DecidableEq, Repr

/-- `np.mean(trajectories, axis=0)` of a `rows × cols` table -/
def meanAxis0 (cols : Nat) (t : List (List Rat)) : Agg :=
  if t.isEmpty then .nan cols else .values ((List.range cols).map (fun k => colSum t k / (t.length : Rat)))

/-- the mutations the tie must tell apart from `meanAxis0` (not used by any theorem about the code) -/
def meanAxis1 (t : List (List Rat)) : List Rat := t.map (fun r => r.sum / (r.length : Rat))

/-- `np.concatenate([np.asarray(trajectory).ravel() for trajectory in trajectories])` on a 2-D table -/
def concatRows (t : List (List Rat)) : Agg := if t.isEmpty then .valueError else .values t.flatten

/-- the same on an array with one more axis (cells are vectors) -/
def concatCells (t : List (List (List Rat))) : Agg :=
  if t.isEmpty then .valueError else .values (t.map List.flatten).flatten

/-- body of the loop of `aggregate_trajectories` for one observable -/
def aggregateObs (k : ObsKind) (cols : Nat) (t : List (List Rat)) : Agg :=
  match k with
  | .schmidt => concatRows t
  | _ => meanAxis0 cols t

/-- complex128 storage: real and imaginary parts are averaged separately -/
def meanAxis0C (cols : Nat) (t : List (List (Rat × Rat))) : Agg × Agg :=
  (meanAxis0 cols (t.map (·.map Prod.fst)), meanAxis0 cols (t.map (·.map Prod.snd)))

/-- `num_traj` on the object while the run lasts: `1` if `noise_model is None or all strengths are 0` (analog: `or
    solver == "Lindblad"`), else what the caller asked for -/
def effTraj (requested : Nat) (single : Bool) : Nat := if single then 1 else requested

/-- what one run leaves on one observable -/
structure ObsOut where
  alloc : Alloc
  trajectories : List (List Rat)
  results : Agg
  deriving DecidableEq, Repr

/-- `initialize`; `trajectories[i] = result[obs_index]` for every `i`; `aggregate_trajectories()` -/
def runObservable (s : Settings) (k : ObsKind) (res : Nat → List Rat) : Except AssignErr ObsOut :=
  let a := allocate s k
  match fill a res with
  | .error e => .error e
  | .ok t => .ok ⟨a, t, aggregateObs k a.cols t⟩

/-! ### weak mode -/

/-- truthiness as `filter(None, …)` sees it: `None` and the empty dict are dropped -/
def truthy : Option Counts → Option Counts
  | some (x :: xs) => some (x :: xs)
  | _ => none

/-- `None in self.measurements` -/
def hasNone (ms : List (Option Counts)) : Bool := ms.any (·.isNone)

/-- `WeakSimParams.aggregate_measurements` -/
def aggregateMeasurements (ms : List (Option Counts)) : Except Params.Err Counts :=
  if hasNone ms then
    match ms with
    | some c :: _ => .ok (sortCounts c)            -- results = measurements[0]; dict(sorted(…))
    | _ => .error .assertFirstNone                 -- assert self.measurements[0] is not None
  else .ok (sortCounts ((ms.filterMap truthy).foldl addAll []))

/-- the mutation "merge drops slot 0" (not used by any theorem about the code) -/
def aggregateDropFirst (ms : List (Option Counts)) : Counts :=
  sortCounts (((ms.drop 1).filterMap truthy).foldl addAll [])

/-- `measurements = [None] * shots`, then `measurements[i] = result_i` for `i < n` (IndexError beyond the list) -/
def weakSlots (shots : Nat) (res : Nat → Counts) (n : Nat) : Option (List (Option Counts)) :=
  if n ≤ shots then some ((List.range n).map (fun i => some (res i)) ++ List.replicate (shots - n) none) else none

/-- what the storage side of a weak run leaves -/
structure WeakOut where
  slots : List (Option Counts)             -- `measurements`
  sawNone : Bool                           -- the value of `None in self.measurements`
  result : Except Params.Err Counts        -- `results`
  deriving DecidableEq

/-- storage side of `_run_weak_sim`: noise-free → one trajectory that draws all `shots`; otherwise `shots` trajectories.
    `none`: `IndexError` while filling the slots. -/
def runWeakStore (shots : Nat) (noiseFree : Bool) (res : Nat → Counts) : Option WeakOut :=
  match weakSlots shots res (if noiseFree then 1 else shots) with
  | none => none
  | some ms => some ⟨ms, hasNone ms, aggregateMeasurements ms⟩

end Yaqs.Storage
