/-
  Model.Schmidt — what `MPS.get_entropy` / `MPS.get_schmidt_spectrum` compute from the two site tensors of a cut
  (core Lean only; one polymorphic definition each, executed by `Driver/Attribution.lean` on `CRat` / `Float`,
  proved on Mathlib matrices / `ℝ` in `Lemmas/Schmidt.lean`, `Lemmas/SchmidtEntropy.lean`, `Props/C11.lean`).

  mirrors  core/data_structures/networks.py
      MPS.get_entropy(sites=[i, i+1])
          a, b = tensors[i], tensors[i+1]                     a[σ][l][c]  (shape (d, χ_l, χ)),  b[τ][c][r]  (shape (d', χ, χ_r))
          if a.shape[2] == 1: return 0.0                                              → `entropyCode` (`bond = 1`)
          theta = np.tensordot(a, b, axes=(2, 1))             theta[σ][l][τ][r]       → `theta4`
          theta_mat = theta.reshape(left * phys_i, phys_j * right)                    → `thetaMat`
          s = svd(theta_mat, compute_uv=False); s2 = s**2; norm = sum(s2)             (SVD: hypothesis of the theorems)
          if norm == 0: return 0.0
          p = s2 / norm;  ent = -1 * sum(p * log(p + tiny))                           → `probs`, `entropyCode`
      MPS.get_schmidt_spectrum(sites=[i, i+1])
          if a.shape[2] == 1: padded = full(500, nan); padded[0] = 1.0
          else: padded = full(500, nan); padded[:min(500, len(s))] = s[:500]          → `schmidtPad`  (`none` = NaN)
-/
namespace Yaqs.Schmidt

variable {α : Type}

/-- `Σ_c u[c] · v[c]` -/
def dot [Add α] [Mul α] [Zero α] (u v : List α) : α := (List.zipWith (· * ·) u v).sum

/-- column `r` of a row-major matrix -/
def colOf [Zero α] (m : List (List α)) (r : Nat) : List α := m.map fun row => row.getD r 0

/-- `np.tensordot(a, b, axes=(2, 1))`: `theta[σ][l][τ][r] = Σ_c a[σ][l][c] · b[τ][c][r]`; `right = b.shape[2]` -/
def theta4 [Add α] [Mul α] [Zero α] (right : Nat) (a b : List (List (List α))) : List (List (List (List α))) :=
  a.map fun aσ => aσ.map fun arow => b.map fun bτ => (List.range right).map fun r => dot arow (colOf bτ r)

/-- `theta.reshape(left * phys_i, phys_j * right)`: C-order reshape of axes `(phys_i, left, phys_j, right)` —
    row `σ·left + l`, column `τ·right + r` -/
def thetaMat [Add α] [Mul α] [Zero α] (right : Nat) (a b : List (List (List α))) : List (List α) :=
  (theta4 right a b).flatten.map List.flatten

/-- `np.sum(s ** 2)` -/
def sumSq [Add α] [Mul α] [Zero α] (s : List α) : α := (s.map fun x => x * x).sum

/-- `p = s2 / norm` -/
def probs [Add α] [Mul α] [Div α] [Zero α] (s : List α) : List α := s.map fun x => x * x / sumSq s

/-- the number `get_entropy` returns: `bond = a.shape[2]`, `s` the singular values LAPACK returned,
    `log` / `eps` the logarithm and `np.finfo(float64).tiny` -/
def entropyCode [Add α] [Mul α] [Div α] [Neg α] [Zero α] [BEq α] (log : α → α) (eps : α) (bond : Nat)
    (s : List α) : α :=
  if bond = 1 then 0
  else if sumSq s == 0 then 0
  else -((probs s).map fun p => p * log (p + eps)).sum

/-- the array `get_schmidt_spectrum` returns (`top = 500`), `none` standing for NaN -/
def schmidtPad [One α] (top bond : Nat) (s : List α) : List (Option α) :=
  if bond = 1 then (List.replicate top none).set 0 (some 1)
  else (s.take top).map some ++ List.replicate (top - min top s.length) none

end Yaqs.Schmidt
