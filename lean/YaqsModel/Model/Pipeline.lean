/-
  Model.Pipeline — the time-step pipelines of the analog solvers (core Lean only).

  mirrors (after the repairs D9, D11, D19):
    analog/analog_tjm.py   initialize / step_through / sample / analog_tjm_2 / analog_tjm_1
    analog/mcwf.py         mcwf        (loop over t_idx, `measure`, final `results[:, -1:]`)
    analog/lindblad.py     lindblad    (one column per `t_eval` point, final `obs_results[:, -1:]`)

  A *trace* is the flat list of events one trajectory executes, in program order.  The order-2 pipeline keeps a
  propagated sampling state `phi` (register `main`) and, inside `sample`, evolves a *deep copy* of it (register
  `copy`) that is measured and thrown away.  `run` interprets a trace: every register carries the list of
  state-changing operations applied to it so far (its *history*), `fork` copies the history of `main` into
  `copy`, `eval r c` writes the history of register `r` into column `c` of the result array.

  `n` is always the number of grid points `len(sim_params.times)`; `samp` is `sim_params.sample_timesteps`;
  `J` is the list of grid indices at which `has_scheduled_jump` answers True (duplicates = several jumps at the
  same time; the link between times and indices is `Model/SJump.lean`).
-/
namespace Yaqs.Pipeline

/-- fraction of `dt` handed to `apply_dissipation` -/
inductive Frac
  | half   -- `sim_params.dt / 2`
  | full   -- `sim_params.dt`
  deriving DecidableEq, Repr

/-- state-changing operations -/
inductive Op
  | U              -- `local_dynamic_tdvp` / `bug`: one unitary step of length dt
  | Ueff           -- mcwf: `expm_arnoldi(heff, psi, dt)`
  | Flow           -- lindblad: exact flow of the master equation over one grid interval (inside `solve_ivp`)
  | D (f : Frac)   -- `apply_dissipation(state, noise_model, f·dt, …)`
  | Lot            -- `stochastic_process` (mcwf: the jump / no-jump lottery of the step)
  | SJ (k : Nat)   -- `apply_scheduled_jumps(state, noise_model, times[k], …)`
  deriving DecidableEq, Repr

inductive Reg
  | main | copy
  deriving DecidableEq, Repr

/-- events of a trace -/
inductive Ev
  | fork                        -- `psi = copy.deepcopy(phi)` in `sample`
  | op (r : Reg) (o : Op)
  | chk (k : Nat)               -- `has_scheduled_jump(noise_model, times[k], dt)`
  | eval (r : Reg) (col : Nat)  -- `r.evaluate_observables(sim_params, results, col)` / `measure(psi, col)`
  deriving DecidableEq, Repr

open Frac Op Reg Ev

/-- what the noise step at grid index `k` does to the state: the scheduled jump if one matches, else the lottery -/
def noiseOp (J : List Nat) (k : Nat) : Op := if k ∈ J then SJ k else Lot

/-- `if has_scheduled_jump(nm, times[k], dt): apply_scheduled_jumps(…, times[k], …) else: stochastic_process(…)` -/
def noiseStep (J : List Nat) (r : Reg) (k : Nat) : List Ev := [chk k, op r (noiseOp J k)]

/-! ### order 2 (`analog_tjm_2`) -/

/-- `initialize` (a Lean keyword, hence `tjmInit`): half dissipation, then the noise step with `times[0]` -/
def tjmInit (J : List Nat) : List Ev := op main (D half) :: noiseStep J main 0

/-- `step_through(phi, …, current_time = times[k])` -/
def stepThrough (J : List Nat) (k : Nat) : List Ev := [op main U, op main (D full)] ++ noiseStep J main k

/-- `sample(phi, …, results, j)`: deep copy, U, half dissipation, noise step with `times[j]`, write column
    `j` (`sample_timesteps`) or column 0 (default `column_index`) -/
def sample (J : List Nat) (samp : Bool) (j : Nat) : List Ev :=
  [fork, op copy U, op copy (D half)] ++ noiseStep J copy j ++ [eval copy (if samp then j else 0)]

/-- `for j, _ in enumerate(times[2:], start=2)`: body for `j`, then the remaining `r` iterations.
    The body calls `step_through` with `times[j - 1]` (repair D9) and samples when sampling is on or `j` is last. -/
def tjm2Loop (J : List Nat) (samp : Bool) (n : Nat) : Nat → Nat → List Ev
  | _, 0 => []
  | j, r + 1 =>
    stepThrough J (j - 1) ++ (if samp || j == n - 1 then sample J samp j else []) ++ tjm2Loop J samp n (j + 1) r

/-- `analog_tjm_2` -/
def tjm2Trace (J : List Nat) (samp : Bool) (n : Nat) : List Ev :=
  (if samp then [eval main 0] else []) ++ tjmInit J
    ++ (if samp || n == 2 then sample J samp 1 else [])   -- repair D19: `or len(times) == 2`
    ++ tjm2Loop J samp n 2 (n - 2)

/-- the code as found (before D9 and D19): `step_through` received `times[j]`, and the first `sample` ran only
    when sampling was on.  Kept for the counterexample lemmas. -/
def tjm2LoopOld (J : List Nat) (samp : Bool) (n : Nat) : Nat → Nat → List Ev
  | _, 0 => []
  | j, r + 1 =>
    stepThrough J j ++ (if samp || j == n - 1 then sample J samp j else []) ++ tjm2LoopOld J samp n (j + 1) r

def tjm2TraceOld (J : List Nat) (samp : Bool) (n : Nat) : List Ev :=
  (if samp then [eval main 0] else []) ++ tjmInit J
    ++ (if samp then sample J samp 1 else [])
    ++ tjm2LoopOld J samp n 2 (n - 2)

/-! ### order 1 (`analog_tjm_1`) -/

/-- body of `for j, _ in enumerate(times[1:], start=1)`; `noise` is `noise_model is not None` -/
def tjm1Body (J : List Nat) (samp noise : Bool) (n j : Nat) : List Ev :=
  [op main U]
    ++ (if noise then op main (D full) :: noiseStep J main j else [])
    ++ (if samp then [eval main j] else if j == n - 1 then [eval main 0] else [])

def tjm1Loop (J : List Nat) (samp noise : Bool) (n : Nat) : Nat → Nat → List Ev
  | _, 0 => []
  | j, r + 1 => tjm1Body J samp noise n j ++ tjm1Loop J samp noise n (j + 1) r

def tjm1Trace (J : List Nat) (samp noise : Bool) (n : Nat) : List Ev :=
  (if samp then [eval main 0] else []) ++ tjm1Loop J samp noise n 1 (n - 1)

/-! ### MCWF and Lindblad: write into `n` internal columns, return all of them or the last one -/

def mcwfLoop (samp : Bool) (n : Nat) : Nat → Nat → List Ev
  | _, 0 => []
  | t, r + 1 =>
    [op main Ueff, op main Lot] ++ (if samp || t == n - 1 then [eval main t] else []) ++ mcwfLoop samp n (t + 1) r

/-- `mcwf`: `for t_idx in range(1, num_steps)` -/
def mcwfTrace (samp : Bool) (n : Nat) : List Ev :=
  (if samp then [eval main 0] else []) ++ mcwfLoop samp n 1 (n - 1)

def lindbladLoop : Nat → Nat → List Ev
  | _, 0 => []
  | t, r + 1 => [op main Flow, eval main t] ++ lindbladLoop (t + 1) r

/-- `lindblad`: `solve_ivp(…, t_eval=times)` yields the state at every grid point, `enumerate(result.y.T)` writes
    column `t_idx` -/
def lindbladTrace (n : Nat) : List Ev := eval main 0 :: lindbladLoop 1 (n - 1)

/-- internal columns that are returned, in order: everything, or `[:, -1:]` (repair D11) -/
def sliceOut (samp : Bool) (n : Nat) : List Nat := if samp then List.range n else [n - 1]

/-- width of the result array the TJM backends allocate and return -/
def tjmWidth (samp : Bool) (n : Nat) : Nat := if samp then n else 1

/-! ### interpretation -/

structure St where
  main : List Op := []
  copy : List Op := []
  /-- column writes in program order: (column, history of the state that was measured) -/
  cols : List (Nat × List Op) := []
  deriving Repr

def St.reg (s : St) : Reg → List Op
  | .main => s.main
  | .copy => s.copy

def stepEv (s : St) : Ev → St
  | fork => { s with copy := s.main }
  | op .main o => { s with main := s.main ++ [o] }
  | op .copy o => { s with copy := s.copy ++ [o] }
  | chk _ => s
  | eval r c => { s with cols := s.cols ++ [(c, s.reg r)] }

def runFrom (s : St) (tr : List Ev) : St := tr.foldl stepEv s

def run (tr : List Ev) : St := runFrom {} tr

/-- all column writes of a trace, in program order -/
def writes (tr : List Ev) : List (Nat × List Op) := (run tr).cols

/-- history of the state whose values end up in internal column `c` (last write wins; `none` = never written,
    the column keeps the zeros of `np.zeros`) -/
def colHist (tr : List Ev) (c : Nat) : Option (List Op) :=
  ((writes tr).reverse.find? (fun w => w.1 == c)).map (·.2)

/-- the returned array, column by column -/
def output (tr : List Ev) (outCols : List Nat) : List (Option (List Op)) := outCols.map (colHist tr)

def tjm2Out (J : List Nat) (samp : Bool) (n : Nat) : List (Option (List Op)) :=
  output (tjm2Trace J samp n) (List.range (tjmWidth samp n))

def tjm1Out (J : List Nat) (samp noise : Bool) (n : Nat) : List (Option (List Op)) :=
  output (tjm1Trace J samp noise n) (List.range (tjmWidth samp n))

def mcwfOut (samp : Bool) (n : Nat) : List (Option (List Op)) := output (mcwfTrace samp n) (sliceOut samp n)

def lindbladOut (samp : Bool) (n : Nat) : List (Option (List Op)) := output (lindbladTrace n) (sliceOut samp n)

def tjm2OutOld (J : List Nat) (samp : Bool) (n : Nat) : List (Option (List Op)) :=
  output (tjm2TraceOld J samp n) (List.range (tjmWidth samp n))

/-! ### what a column should contain (the specification side)

`w k` is the operation the noise step performs at grid index `k`; the pipelines use `w = noiseOp J`. -/

/-- history of the propagated state `phi` after `initialize` and `i` calls of `step_through` -/
def phiHistW (w : Nat → Op) : Nat → List Op
  | 0 => [D half, w 0]
  | i + 1 => phiHistW w i ++ [U, D full, w (i + 1)]

/-- order 2, column `j`: `D½;N₀;(U;D1;Nᵢ)_{i=1..j-1};U;D½;N_j` — a Strang composition of `j` steps -/
def strangW (w : Nat → Op) : Nat → List Op
  | 0 => []
  | j + 1 => phiHistW w j ++ [U, D half, w (j + 1)]

/-- order 1 with a noise model, column `j`: `(U;D1;Nᵢ)_{i=1..j}` — a Lie composition of `j` steps -/
def lieW (w : Nat → Op) : Nat → List Op
  | 0 => []
  | j + 1 => lieW w j ++ [U, D full, w (j + 1)]

def phiHist (J : List Nat) : Nat → List Op := phiHistW (noiseOp J)
def strang (J : List Nat) : Nat → List Op := strangW (noiseOp J)
def lie (J : List Nat) : Nat → List Op := lieW (noiseOp J)

/-- `j` repetitions of a fixed block -/
def rep (block : List Op) : Nat → List Op
  | 0 => []
  | j + 1 => rep block j ++ block

end Yaqs.Pipeline
