import YaqsModel.Basic.CRatB
/-
  Model.Born — site-by-site sampling of an MPS (core Lean only).

  mirrors  core/data_structures/networks.py
      MPS.measure_single_shot   → `shotTrace` / `measureSingleShot` / `shotOutcome`
      MPS.measure               → `measureSite` / `measureCall`
      `sum(c << i for i, c in enumerate(bitstring))` → `encode`

  Representation.  A site tensor of the code has shape `(p, l, r)` with `p = 2` (the 2×2 `rotation` of the code
  forces it).  Here it is `Site n`, a pair of bond matrices (one per physical index), all bond matrices zero-padded to
  one common size `n` (the driver pads; padding changes neither products nor Frobenius norms).  Entries are
  Gaussian rationals: exactly the complex128 values the implementation holds.

  Square roots.  The code multiplies by `1/np.sqrt(2)` (X, Y rotations) and by `1/np.sqrt(probabilities[c])`.
  ℚ(i) has no square roots, so the model carries the *square* of every real scale factor:
    * a basis is `(rsq, R)` and stands for the rotation `√rsq · R`          (`rsq = 1/2`, `R` over ℤ[i]);
    * the running tensor is `(scaleSq, cur)` and stands for `cur / √scaleSq`.
  Every quantity the code hands to `rng.choice` is a ratio of squared norms and hence rational.
-/
namespace Yaqs.Born
open Yaqs.CB

/-- `Σ_{i < n} f i` -/
def sumFin {α : Type} [Add α] [Zero α] {n : Nat} (f : Fin n → α) : α := ((List.finRange n).map f).sum

/-- `n × n` matrix over ℚ(i) (row index = left bond, column index = right bond), stored as data so that the
    executable model computes every product once -/
abbrev Mat (n : Nat) := Vector (Vector CRat n) n

def Mat.ofFn {n : Nat} (f : Fin n → Fin n → CRat) : Mat n := Vector.ofFn fun i => Vector.ofFn fun j => f i j

def Mat.get {n : Nat} (M : Mat n) (i j : Fin n) : CRat := M[i][j]

/-- the zero matrix -/
def zeroMat (n : Nat) : Mat n := Mat.ofFn fun _ _ => 0

/-- matrix product (`oe.contract("ab, cbd->cad", projected, next)` for fixed physical index `c`) -/
def mmul {n : Nat} (A B : Mat n) : Mat n := Mat.ofFn fun i j => sumFin fun k => A.get i k * B.get k j

/-- squared Frobenius norm `Σ_{l,r} |M[l,r]|²` -/
def frob {n : Nat} (M : Mat n) : Rat := sumFin fun i => sumFin fun j => (M.get i j).normSq

/-- site tensor of shape `(2, l, r)`: physical index ↦ bond matrix -/
structure Site (n : Nat) where
  t0 : Mat n
  t1 : Mat n

def Site.get {n : Nat} (T : Site n) (s : Fin 2) : Mat n := if s = 0 then T.t0 else T.t1

def Site.ofFn {n : Nat} (f : Fin 2 → Mat n) : Site n := ⟨f 0, f 1⟩

/-- measurement basis: stands for the unitary `√rsq · R` -/
structure Basis where
  rsq : Rat
  R : Fin 2 → Fin 2 → CRat

/-- `np.eye(2)` -/
def basisZ : Basis := ⟨1, fun a b => if a = b then 1 else 0⟩
/-- `[[1, 1], [1, -1]] / sqrt(2)` -/
def basisX : Basis := ⟨1 / 2, fun a b => if a = 1 ∧ b = 1 then -1 else 1⟩
/-- `[[1, -1j], [1, 1j]] / sqrt(2)` -/
def basisY : Basis := ⟨1 / 2, fun a b => if b = 0 then 1 else if a = 0 then -CRat.I else CRat.I⟩

/-- the matrix `√rsq · R` is unitary: `rsq · RᴴR = 1` (columns) and `rsq · R Rᴴ = 1` (rows) -/
structure Basis.IsUnitary (b : Basis) : Prop where
  pos : 0 < b.rsq
  col : ∀ s t : Fin 2, CRat.smulQ b.rsq (CRat.conj (b.R 0 s) * b.R 0 t + CRat.conj (b.R 1 s) * b.R 1 t)
          = if s = t then 1 else 0
  row : ∀ a c : Fin 2, CRat.smulQ b.rsq (b.R a 0 * CRat.conj (b.R c 0) + b.R a 1 * CRat.conj (b.R c 1))
          = if a = c then 1 else 0

/-- `basis.upper()` dispatch; anything else raises `ValueError` -/
def basisOf? (s : String) : Option Basis :=
  match s.toUpper with
  | "Z" => some basisZ
  | "X" => some basisX
  | "Y" => some basisY
  | _ => none

/-- `oe.contract("ab, bcd->acd", rotation, tensor)` without the factor `√rsq` -/
def rotT {n : Nat} (R : Fin 2 → Fin 2 → CRat) (T : Site n) (a : Fin 2) : Mat n :=
  Mat.ofFn fun i j => R a 0 * T.t0.get i j + R a 1 * T.t1.get i j

/-- the tensor `temp_state.tensors[site]` at the head of a loop iteration: it stands for `cur / √scaleSq` -/
structure Carry (n : Nat) where
  scaleSq : Rat
  cur : Site n

/-- `probabilities = np.diag(reduced_density_matrix).real`:  `Σ_{l,r} |rotated[a,l,r]|²` -/
def probsRaw {n : Nat} (b : Basis) (c : Carry n) (a : Fin 2) : Rat :=
  b.rsq * frob (rotT b.R c.cur a) / c.scaleSq

/-- `np.sum(probabilities)` -/
def probTotal {n : Nat} (b : Basis) (c : Carry n) : Rat := probsRaw b c 0 + probsRaw b c 1

/-- the vector handed to `rng.choice(…, p = probabilities / np.sum(probabilities))` -/
def condP {n : Nat} (b : Basis) (c : Carry n) (a : Fin 2) : Rat := probsRaw b c a / probTotal b c

/-- propagate the outcome `a`:
    `tensors[site+1] = 1/sqrt(probabilities[a]) * contract("ab, cbd->cad", rotated[a], tensors[site+1])` -/
def step {n : Nat} (b : Basis) (c : Carry n) (a : Fin 2) (next : Site n) : Carry n :=
  { scaleSq := c.scaleSq * probsRaw b c a / b.rsq
    cur := Site.ofFn fun s => mmul (rotT b.R c.cur a) (next.get s) }

/-- the loop of `measure_single_shot` with the outcomes forced to `σ`: the list of `p=` vectors handed to
    `rng.choice`, in call order.  The list stops early exactly where the code cannot go on:
    * `np.sum(probabilities) = 0`  → `p` is NaN and `choice` raises (nothing is emitted);
    * the forced outcome has probability 0 → `1/sqrt(0)`; the next `p` would be NaN (the vector is emitted, then stop);
    * `σ` exhausted (the stand-in generator has no outcome left). -/
def shotTrace {n : Nat} (b : Basis) : Carry n → List (Site n) → List (Fin 2) → List (Fin 2 → Rat)
  | _, _, [] => []
  | c, rest, a :: σ =>
    if probTotal b c = 0 then []
    else
      match rest with
      | [] => [condP b c]
      | next :: rest' =>
        if probsRaw b c a = 0 then [condP b c]
        else condP b c :: shotTrace b (step b c a next) rest' σ

/-- `measure_single_shot`: the first tensor is used as it is (`copy.deepcopy(self)`) -/
def measureSingleShot {n : Nat} (b : Basis) (sites : List (Site n)) (σ : List (Fin 2)) : List (Fin 2 → Rat) :=
  match sites with
  | [] => []
  | t0 :: rest => shotTrace b ⟨1, t0⟩ rest σ

/-- `sum(c << i for i, c in enumerate(bitstring))` -/
def encodeFrom (i : Nat) : List (Fin 2) → Nat
  | [] => 0
  | c :: cs => (c.val <<< i) + encodeFrom (i + 1) cs

def encode (cs : List (Fin 2)) : Nat := encodeFrom 0 cs

/-- return value of `measure_single_shot` on the forced branch `σ` (`none`: the loop did not get to the end) -/
def shotOutcome {n : Nat} (b : Basis) (sites : List (Site n)) (σ : List (Fin 2)) : Option Nat :=
  if (measureSingleShot b sites σ).length = sites.length ∧ σ.length = sites.length then some (encode σ) else none

/-- probability the loop assigns to the branch `σ`: product of the conditional probabilities of the forced outcomes -/
def branchProb {n : Nat} (b : Basis) (sites : List (Site n)) (σ : List (Fin 2)) : Rat :=
  (List.zipWith (fun p a => p a) (measureSingleShot b sites σ) σ).prod

/-- all bit strings of length `L` -/
def allBits : Nat → List (List (Fin 2))
  | 0 => [[]]
  | L + 1 => (allBits L).map (fun σ => (0 : Fin 2) :: σ) ++ (allBits L).map (fun σ => (1 : Fin 2) :: σ)

/-! ### the dense side: amplitudes and the right-canonical form (used in the statements of `Props/C12`) -/

/-- `Σ_s A[s] · A[s]ᴴ` (the right-isometry test of `check_canonical_form`: `contract("ijk, ilk->jl", b, conj b)`) -/
def gram {n : Nat} (A : Site n) : Mat n :=
  Mat.ofFn fun i j => sumFin fun k =>
    A.t0.get i k * CRat.conj (A.t0.get j k) + A.t1.get i k * CRat.conj (A.t1.get j k)

/-- `Σ_{s,l,r} |A[s,l,r]|²` -/
def siteNorm {n : Nat} (A : Site n) : Rat := frob A.t0 + frob A.t1

/-- Right-canonical form from site 1 on, in zero-padded matrices: every tensor's bond output lies in the space on
    which the next tensor is a right isometry (`A[s] · G = A[s]`, `G = Σ_t B[t] B[t]ᴴ`; for unpadded tensors
    `G = 1`).  Nothing is asked of the first tensor: it is the orthogonality centre. -/
def RightCanon {n : Nat} : List (Site n) → Prop
  | [] => True
  | [_] => True
  | A :: B :: rest => (∀ s, mmul (A.get s) (gram B) = A.get s) ∧ RightCanon (B :: rest)

/-- `X · Π_k rot(A_k)[σ_k]` -/
def ampFrom {n : Nat} (R : Fin 2 → Fin 2 → CRat) (X : Mat n) : List (Site n) → List (Fin 2) → Mat n
  | B :: rest, a :: σ => ampFrom R (mmul X (rotT R B a)) rest σ
  | _, _ => X

/-- amplitude matrix `Π_k (Σ_t R[σ_k, t] A_k[t])` of the bit string `σ` in the rotated basis, without the factor
    `(√rsq)^L`.  For an MPS with boundary bond dimensions 1 only the entry `(0,0)` is non-zero and it is
    `⟨σ| R^{⊗L} |ψ⟩`. -/
def ampMat {n : Nat} (b : Basis) : List (Site n) → List (Fin 2) → Mat n
  | A :: rest, a :: σ => ampFrom b.R (rotT b.R A a) rest σ
  | _, _ => Mat.ofFn fun i j => if i = j then 1 else 0

/-! ### `MPS.measure` — in-place projective measurement of one site -/

/-- `measure(site)`: `ValueError` for a site outside the chain, otherwise the centre shifts issued
    (`for i in range(site): shift_orthogonality_center_right(i)`) -/
def measureCall (L : Nat) (site : Int) : Except String (List Nat) :=
  if site < 0 ∨ site ≥ (L : Int) then .error "ValueError" else .ok (List.range site.toNat)

/-- result of `measure` on the centre tensor `T` with forced outcome `a`:
    `p` is the vector handed to `choice`; the new site tensor is `tensor / √scaleSq`. -/
structure MeasureOut (n : Nat) where
  p : Fin 2 → Rat
  scaleSq : Rat
  tensor : Site n

/-- the tensor `measure` writes back, before the division by `√p[a]`:
    `contract("a, cd->acd", conj(rotation)[a, :], rotated[a])` (with both factors `√rsq` of the rotation) -/
def projectedSite {n : Nat} (b : Basis) (T : Site n) (a : Fin 2) : Site n :=
  Site.ofFn fun s => Mat.ofFn fun i j => CRat.smulQ b.rsq (CRat.conj (b.R a s)) * (rotT b.R T a).get i j

/-- `self.tensors[site] = 1/sqrt(p[a]) * contract("a, cd->acd", conj(rotation)[a, :], rotated[a])`;
    `none` where the code produces NaN (zero tensor, or forced outcome of probability 0). -/
def measureSite {n : Nat} (b : Basis) (T : Site n) (a : Fin 2) : Option (MeasureOut n) :=
  let c : Carry n := ⟨1, T⟩
  if probTotal b c = 0 then none
  else if condP b c a = 0 then none
  else some
    { p := condP b c
      scaleSq := condP b c a
      tensor := projectedSite b T a }

/-- the single-site operator `Π_a = (√rsq R)ᴴ |a⟩⟨a| (√rsq R)` the measurement applies -/
def projector (b : Basis) (a : Fin 2) (s t : Fin 2) : CRat :=
  CRat.smulQ b.rsq (CRat.conj (b.R a s) * b.R a t)

end Yaqs.Born
