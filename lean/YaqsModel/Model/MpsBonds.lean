import YaqsModel.Model.Mps
/-!
  Which *physical* bond a recorded primitive call of the MPS gauge moves acts on (core Lean only).

  The event lists of `Model/Mps.lean` (`truncateEv`, `setCanonEv`, …) name sites in the orientation the network has at
  the time of the call: after `flip_network` site `i` of the list is site `len - 1 - i` of the original chain.  `bondsOf`
  replays the flips and reports, for every two-site primitive, the bond of the *original* chain it works on
  (bond `k` joins sites `k` and `k + 1`).

  mirrors  core/data_structures/networks.py   MPS.truncate  (two sweeps around `flip_network`)   → `truncateBonds`
-/
namespace Yaqs.Mps

/-- bond of the original chain touched by a two-site primitive at list position `i`, given the flip state -/
def bondAt (len : Nat) (flipped : Bool) (i : Nat) : Nat := if flipped then len - 2 - i else i

/-- replay of an event list: the physical bonds touched, in call order (`qrDrop` touches no bond) -/
def bondsOf (len : Nat) : Bool → List Ev → List Nat
  | _, [] => []
  | f, .flip :: es => bondsOf len (!f) es
  | f, .qrDrop _ :: es => bondsOf len f es
  | f, .qr i :: es => bondAt len f i :: bondsOf len f es
  | f, .svd i :: es => bondAt len f i :: bondsOf len f es
  | f, .svdT i :: es => bondAt len f i :: bondsOf len f es

/-- the bonds `MPS.truncate` runs its two-site SVD on, in call order, for a network whose first valid centre is `c` -/
def truncateBonds (len c : Nat) : List Nat := bondsOf len false (truncateEv len c)

/-- same for `set_canonical_form(c, decomposition)` -/
def setCanonBonds (len c : Nat) (dec : String) : List Nat := bondsOf len false (setCanonEv len c dec)

end Yaqs.Mps
