import YaqsModel.Basic.Dist

/-!
# Model.Lottery — the jump lottery of the tensor-jump method and the local-noise placement

Core Lean only.  Mirrors (code as it is after the `fix:` commits D1/D2):

* `mqt.yaqs.core.methods.stochastic_process.calculate_stochastic_factor`      → `stochasticFactor`
* `…stochastic_process.create_probability_distribution`                       → `sweepSlots`, `probVector`
* `…stochastic_process.stochastic_process` (branch structure, jump application) → `noJumpTaken`, `lottery`, `applyProc`
* `mqt.yaqs.analog.mcwf.mcwf` (jump weights from the pre-step state)           → `mcwfOps`, `mcwfWeights`, `mcwfLottery`
* `mqt.yaqs.digital.digital_tjm.create_local_noise_model`                      → `localNoise`
* `mqt.yaqs.digital.digital_tjm.digital_tjm` (noise calls after two-qubit gates) → `digitalOps`

The loop structure is abstract in the norms (`nrm p = ‖L_p ψ‖²`, `n = ‖ψ‖²` are parameters of the theorems);
the driver instantiates them on a dense Gaussian-rational vector (`denseNrm`, `vecNormSq`) with the process
matrices shipped by the harness as exact rationals.  Dense index convention of this file: site 0 is the *most*
significant bit (Kronecker order, as `_embed_generic`); the harness converts `MPS.to_vec()` (site 0 least
significant) before shipping.
-/
namespace Yaqs.Lottery

/-! ## Gaussian rationals and dense vectors (driver side) -/

structure CR where
  re : Rat
  im : Rat
deriving DecidableEq, Repr, Inhabited

namespace CR
def zero : CR := ⟨0, 0⟩
def add (a b : CR) : CR := ⟨a.re + b.re, a.im + b.im⟩
def mul (a b : CR) : CR := ⟨a.re * b.re - a.im * b.im, a.re * b.im + a.im * b.re⟩
def conj (a : CR) : CR := ⟨a.re, -a.im⟩
def smul (q : Rat) (a : CR) : CR := ⟨q * a.re, q * a.im⟩
def normSq (a : CR) : Rat := a.re * a.re + a.im * a.im
end CR

abbrev Vec := List CR
/-- row-major matrix -/
abbrev Mat := List (List CR)

def matGet (m : Mat) (r c : Nat) : CR := (m.getD r []).getD c CR.zero
def vecGet (v : Vec) (i : Nat) : CR := v.getD i CR.zero

/-- `⟨v|v⟩` -/
def vecNormSq (v : Vec) : Rat := (v.map CR.normSq).sum

/-- one-site operator `m` (2×2) on site `s` of an `L`-site register: `oe.contract("ab, bcd->acd", op, tensors[s])` -/
def apply1 (L s : Nat) (m : Mat) (v : Vec) : Vec :=
  let st := 2 ^ (L - 1 - s)
  (List.range v.length).map fun i =>
    let b := (i / st) % 2
    let base := i - b * st
    CR.add (CR.mul (matGet m b 0) (vecGet v base)) (CR.mul (matGet m b 1) (vecGet v (base + st)))

/-- two-site operator `m` (4×4, row index `2·b_i + b_j`, the index order of `merge_mps_tensors`) on sites `i < j` -/
def apply2 (L i j : Nat) (m : Mat) (v : Vec) : Vec :=
  let si := 2 ^ (L - 1 - i)
  let sj := 2 ^ (L - 1 - j)
  (List.range v.length).map fun x =>
    let bi := (x / si) % 2
    let bj := (x / sj) % 2
    let base := x - bi * si - bj * sj
    let r := 2 * bi + bj
    CR.add
      (CR.add (CR.mul (matGet m r 0) (vecGet v base)) (CR.mul (matGet m r 1) (vecGet v (base + sj))))
      (CR.add (CR.mul (matGet m r 2) (vecGet v (base + si))) (CR.mul (matGet m r 3) (vecGet v (base + si + sj))))

/-! ## processes -/

/-- operator payload of a process dict -/
inductive Op where
  /-- `process["matrix"]` (2×2 for one site, 4×4 for an adjacent pair) -/
  | mat (m : Mat)
  /-- `process["factors"]` (long-range pair) -/
  | factors (a b : Mat)
deriving DecidableEq, Repr

/-- one entry of `noise_model.processes`; `pauli` is the value of `dissipation.is_pauli(process)` -/
structure Proc where
  sites : List Nat
  gamma : Rat
  pauli : Bool
  op : Op
deriving DecidableEq, Repr

/-- `len(process["sites"]) == 1 and process["sites"][0] == site` -/
def hit1 (site : Nat) (p : Proc) : Bool :=
  match p.sites with
  | [s] => s == site
  | _ => false

/-- the two-site loop writes a slot: `len(sites) == 2 and sites[0] == site and (is_pauli or sites[1] == site + 1)` -/
def hit2 (site : Nat) (p : Proc) : Bool :=
  match p.sites with
  | [s0, s1] => s0 == site && (p.pauli || s1 == site + 1)
  | _ => false

/-- `for idx, process in enumerate(processes): if c(process): dp_m_list[idx] = w(process)`, started at index `i` -/
def enumLoop (c : Proc → Bool) (w : Proc → Rat) : Nat → List Proc → List Rat → List Rat
  | _, [], s => s
  | i, p :: ps, s => enumLoop c w (i + 1) ps (if c p then s.set i (w p) else s)

/-- body of `for site in range(state.length)`; `w1`/`w2` are the weights written by the 1-site / 2-site loop -/
def siteStep (L : Nat) (procs : List Proc) (w1 w2 : Proc → Rat) (s : List Rat) (site : Nat) : List Rat :=
  let s1 := enumLoop (hit1 site) w1 0 procs s
  if site + 1 < L then enumLoop (hit2 site) w2 0 procs s1 else s1

/-- `dp_m_list` of `create_probability_distribution` before normalisation: one slot per process, in list order -/
def sweepSlots (L : Nat) (procs : List Proc) (w1 w2 : Proc → Rat) : List Rat :=
  (List.range L).foldl (siteStep L procs w1 w2) (List.replicate procs.length 0)

/-- weight written by the 1-site loop: `dt * gamma * jumped_state.norm(site)` -/
def wOne (dt : Rat) (nrm : Proc → Rat) (p : Proc) : Rat := dt * p.gamma * nrm p

/-- weight written by the 2-site loop: Pauli pairs use `state.norm(site)` (= `n`), adjacent non-Pauli pairs
    `np.linalg.norm(merged)**2` after the operator has been applied -/
def wTwo (dt : Rat) (nrm : Proc → Rat) (n : Rat) (p : Proc) : Rat :=
  if p.pauli then dt * p.gamma * n else dt * p.gamma * nrm p

/-- a slot of this process is written at all (for a register of `L` sites) -/
def visited (L : Nat) (p : Proc) : Bool :=
  match p.sites with
  | [s] => decide (s < L)
  | [s0, s1] => decide (s0 + 1 < L) && (p.pauli || s1 == s0 + 1)
  | _ => false

/-- the weight a visited process gets -/
def weightOf (dt : Rat) (nrm : Proc → Rat) (n : Rat) (p : Proc) : Rat :=
  if p.sites.length = 1 then wOne dt nrm p else wTwo dt nrm n p

def slots (L : Nat) (procs : List Proc) (dt : Rat) (nrm : Proc → Rat) (n : Rat) : List Rat :=
  sweepSlots L procs (wOne dt nrm) (wTwo dt nrm n)

/-- return value of `create_probability_distribution` for a non-empty process list;
    `none` = `ZeroDivisionError` (all weights zero) -/
def probVector (L : Nat) (procs : List Proc) (dt : Rat) (nrm : Proc → Rat) (n : Rat) : Option (List Rat) :=
  let s := slots L procs dt nrm n
  let W := s.sum
  if W = 0 then none else some (s.map (· / W))

/-! ## branch structure of `stochastic_process` -/

/-- `calculate_stochastic_factor`: `1 - state.norm(0)` -/
def stochasticFactor (n : Rat) : Rat := 1 - n

/-- `rng.random() >= dp` → no jump -/
def noJumpTaken (r dp : Rat) : Bool := decide (r ≥ dp)

/-- probability that `rng.random()` (uniform on `[0,1)`) is `< dp` -/
def jumpProb (n : Rat) : Rat := min 1 (max 0 (stochasticFactor n))

inductive Branch where
  | noJump
  | jump (k : Nat)
deriving DecidableEq, Repr

/-- `(c · p_k, jump k)` for the entries of a probability vector, first index `i` -/
def jumpBranches (c : Rat) : Nat → List Rat → Dist Branch
  | _, [] => []
  | i, p :: ps => (c * p, Branch.jump i) :: jumpBranches c (i + 1) ps

/-- outcome distribution of one call of `stochastic_process` on a state of squared norm `n` with
    probability vector `pv` (the list handed to `rng.choice(len(processes), p=pv)`) -/
def lottery (n : Rat) (pv : List Rat) : Dist Branch :=
  (1 - jumpProb n, Branch.noJump) :: jumpBranches (jumpProb n) 0 pv

/-- the whole step as the code performs it: the probability vector is only formed on the jump branch, so
    `none` (= `ZeroDivisionError`) needs a reachable jump branch *and* all weights zero -/
def stepLottery (L : Nat) (procs : List Proc) (dt : Rat) (nrm : Proc → Rat) (n : Rat) : Option (Dist Branch) :=
  if jumpProb n = 0 then some [(1, Branch.noJump)]
  else (probVector L procs dt nrm n).map (lottery n)

/-- value of a branch: `v0` on the no-jump branch, `v k` on jump `k` -/
def branchVal (v0 : Rat) (v : Nat → Rat) : Branch → Rat
  | .noJump => v0
  | .jump k => v k

/-! ## jump application (dense) -/

def isLongrange (p : Proc) : Bool :=
  match p.sites with
  | [i, j] => decide (i + 1 < j) || decide (j + 1 < i)
  | _ => false

/-- state after the chosen operator has been applied, before `state.normalize`;
    `none` = the code raises (`ValueError` for a non-Pauli long-range matrix process, `KeyError` for a missing payload) -/
def applyProc (L : Nat) (p : Proc) (v : Vec) : Option Vec :=
  match p.sites with
  | [s] =>
    match p.op with
    | .mat m => some (apply1 L s m v)
    | _ => none
  | [i, j] =>
    if p.pauli && isLongrange p then
      match p.op with
      | .factors a b => some (apply1 L j b (apply1 L i a v))
      | _ => none
    else if isLongrange p then none
    else
      match p.op with
      | .mat m => some (apply2 L i j m v)
      | _ => none
  | _ => none

/-- `‖L_p ψ‖²` computed from the dense vector and the shipped operator -/
def denseNrm (L : Nat) (v : Vec) (p : Proc) : Rat :=
  match applyProc L p v with
  | some w => vecNormSq w
  | none => 0

/-! ## MCWF: weights from the pre-step state -/

/-- `preprocess_mcwf`: `if strength <= 0: continue` -/
def mcwfOps (procs : List Proc) : List Proc := procs.filter (fun p => decide (0 < p.gamma))

/-- `w = vdot(op @ psi, op @ psi)` with `op = sqrt(gamma) * L` -/
def mcwfWeights (nrm : Proc → Rat) (procs : List Proc) : List Rat :=
  (mcwfOps procs).map (fun p => p.gamma * nrm p)

/-- `1e-15` -/
def mcwfEps : Rat := 1 / 1000000000000000

/-- `weights /= normalization_sum`, or `none` when `normalization_sum < 1e-15` (no jump is applied) -/
def mcwfProbVector (nrm : Proc → Rat) (procs : List Proc) : Option (List Rat) :=
  let ws := mcwfWeights nrm procs
  let W := ws.sum
  if W < mcwfEps then none else some (ws.map (· / W))

/-- outcome distribution of one MCWF step; `nNext = ‖exp(-i H_eff dt) ψ‖²`, jump indices refer to `mcwfOps` -/
def mcwfLottery (nNext : Rat) (nrm : Proc → Rat) (procs : List Proc) : Dist Branch :=
  match mcwfProbVector nrm procs with
  | none => [(1, Branch.noJump)]
  | some pv => lottery nNext pv

/-! ## local noise of a two-qubit gate (`digital_tjm`) -/

/-- `create_local_noise_model(noise_model, first_site, last_site)` -/
def localNoise (procs : List Proc) (a b : Nat) : List Proc :=
  procs.filter (fun p => p.sites == [a, b] || p.sites == [a] || p.sites == [b])

/-- a gate as `digital_tjm` sees it: one qubit, or two qubits in the order of `node.qargs` -/
inductive Gate where
  | one (q : Nat)
  | two (q0 q1 : Nat)
deriving DecidableEq, Repr

inductive DOp where
  | gate (g : Gate)
  /-- `apply_dissipation(state, local, dt)` -/
  | diss (dt : Rat) (ps : List Proc)
  /-- `stochastic_process(state, local, dt)` -/
  | lot (dt : Rat) (ps : List Proc)
  /-- `state.normalize("B", "QR")` of the noise-free branch -/
  | normalize
deriving DecidableEq, Repr

/-- `noise_model is None or all(proc["strength"] == 0 …)` is false -/
def isNoisy (nm : Option (List Proc)) : Bool :=
  match nm with
  | none => false
  | some ps => ps.any (fun p => p.gamma != 0)

/-- what follows one applied gate -/
def afterGate (nm : Option (List Proc)) : Gate → List DOp
  | .one _ => []
  | .two q0 q1 =>
    if isNoisy nm then
      let ps := localNoise (nm.getD []) (min q0 q1) (max q0 q1)
      [DOp.diss 1 ps, DOp.lot 1 ps]
    else [DOp.normalize]

/-- the operations `digital_tjm` performs for a sequence of applied gates (the order is `Model.Layers`' business) -/
def digitalOps (nm : Option (List Proc)) : List Gate → List DOp
  | [] => []
  | g :: gs => DOp.gate g :: (afterGate nm g ++ digitalOps nm gs)

/-! ## the code as found (kept only for the counterexample lemmas D1, D2) -/

/-- D1: weights appended in sweep order (the list was then indexed with the position in `processes`) -/
def sweepAppendOld (L : Nat) (procs : List Proc) (w1 w2 : Proc → Rat) : List Rat :=
  (List.range L).flatMap fun site =>
    (procs.filter (hit1 site)).map w1 ++ (if site + 1 < L then (procs.filter (hit2 site)).map w2 else [])

/-- D2: the adjacent two-site weight took the norm of the state *before* the operator was applied -/
def wTwoOld (dt : Rat) (n : Rat) (p : Proc) : Rat := dt * p.gamma * n

end Yaqs.Lottery
