/-
  Model.Sweep — the order, position and time coefficient of every primitive update of one integrator call
  (core Lean only).

  mirrors
    core/methods/tdvp.py  local_dynamic_tdvp   → ldtdvpLR / ldtdvpRL / ldtdvp
    core/methods/tdvp.py  single_site_tdvp     → singleSite
    core/methods/tdvp.py  two_site_tdvp        → twoSite
    core/methods/bug.py   bug                  → bug

  A primitive is one call of `update_site` (on one site tensor, or on a merged pair), `update_bond`,
  `split_mps_tensor`, or `MPS.truncate`.  Coefficients are in units of the user's `sim_params.dt`
  (`AnalogSimParams`); for `StrongSimParams`/`WeakSimParams` (`digital = true`) the code overwrites
  `sim_params.dt` with 2 resp. 1 and performs a single left-to-right sweep — the coefficients are then
  in units of 1.

  The only data-dependent choice is the branch of `local_dynamic_tdvp` at every visited site:
  `bond_dim >= sim_params.max_bond_dim or lock_final_site`.  The model takes the *bond dimension seen*
  at every visit (`seen i`) and the cap; `capped` is the comparison.
-/
namespace Yaqs.Sweep

inductive Op
  /-- `update_site(left[i], right[i], H[i], A[i], c·dt)` -/
  | site (i : Nat) (c : Rat)
  /-- `update_bond` on the bond between sites `b` and `b+1` -/
  | bond (b : Nat) (c : Rat)
  /-- `update_site` on the merged tensors of sites `p`, `p+1` -/
  | pair (p : Nat) (c : Rat)
  /-- `split_mps_tensor` of the merged pair `(p, p+1)`; `right = true` is `svd_distribution="right"` -/
  | split (p : Nat) (right : Bool)
  /-- `state.truncate(threshold, max_bond_dim)` (BUG only) -/
  | trunc
  deriving DecidableEq, Repr

/-- `bond_dim >= sim_params.max_bond_dim` -/
def capped (bondDim maxBond : Nat) : Bool := decide (bondDim ≥ maxBond)

/-- Left-to-right half of `local_dynamic_tdvp` (tdvp.py, "LEFT-TO-RIGHT DYNAMIC SWEEP"),
    `for i in range(num_sites)`: `n` iterations remain, the current one visits site `i`.
    `d i` is the truth value of `bond_dim >= max_bond_dim` at the visit of site `i`
    (`bond_dim = state.tensors[i].shape[2]`, the dummy leg for `i = L-1`);
    `h` is the half step `0.5 * sim_params.dt` in the units described above. -/
def lrLoop (L : Nat) (d : Nat → Bool) (h : Rat) : (n i : Nat) → (lock : Bool) → List Op
  | 0, _, _ => []
  | n + 1, i, lock =>
    if d i || lock then
      -- one-site branch: update_site(+h); if i != L-1: QR, update_bond(-h); if i == L-2: lock
      Op.site i h :: ((if i ≠ L - 1 then [Op.bond i (-h)] else []) ++
        lrLoop L d h n (i + 1) (lock || decide (i = L - 2)))
    else if i = L - 1 then
      -- `continue`
      lrLoop L d h n (i + 1) lock
    else if i = L - 2 then
      -- last pair: no backward site step
      Op.pair i h :: Op.split i true :: lrLoop L d h n (i + 1) lock
    else
      Op.pair i h :: Op.split i true :: Op.site (i + 1) (-h) :: lrLoop L d h n (i + 1) lock

def ldtdvpLR (L : Nat) (d : Nat → Bool) (h : Rat) : List Op := lrLoop L d h L 0 false

/-- Right-to-left half of `local_dynamic_tdvp`, `for i in reversed(range(num_sites))`:
    the call with `i + 1` visits site `i`.  `d i` is `state.tensors[i].shape[1] >= max_bond_dim`
    at the visit of site `i` (the dummy leg for `i = 0`). -/
def rlLoop (d : Nat → Bool) (h : Rat) : (n : Nat) → (lock : Bool) → List Op
  | 0, _ => []
  | i + 1, lock =>
    if d i || lock then
      -- update_site(+h); if i != 0: QR, update_bond(-h) on bond (i-1, i); if i == 1: lock
      Op.site i h :: ((if i ≠ 0 then [Op.bond (i - 1) (-h)] else []) ++
        rlLoop d h i (lock || decide (i = 1)))
    else if i = 0 then
      rlLoop d h i lock
    else
      -- pair (i-1, i), split "left", backward step on site i-1 unless i == 1
      Op.pair (i - 1) h :: Op.split (i - 1) false ::
        ((if i ≠ 1 then [Op.site (i - 1) (-h)] else []) ++ rlLoop d h i lock)

def ldtdvpRL (L : Nat) (d : Nat → Bool) (h : Rat) : List Op := rlLoop d h L false

/-- `single_site_tdvp` (tdvp.py): `h` = half step, `f` = the step of the last site
    (analog: `h = 1/2, f = 1`; digital: `sim_params.dt = 2` in the loop, `= 1` at the last site → `h = 1, f = 1`,
    and no right-to-left sweep). -/
def ssLR (L : Nat) (h : Rat) : (n i : Nat) → List Op
  | 0, _ => []
  | n + 1, i => Op.site i h :: Op.bond i (-h) :: ssLR L h n (i + 1)

/-- `for i in reversed(range(1, num_sites))`: QR of site i, update_bond(-h) on bond (i-1,i), update_site(i-1, +h) -/
def ssRL (h : Rat) : Nat → List Op
  | 0 => []
  | i + 1 => Op.bond i (-h) :: Op.site i h :: ssRL h i

def singleSite (L : Nat) (digital : Bool) : List Op :=
  if digital then ssLR L 1 (L - 1) 0 ++ [Op.site (L - 1) 1]
  else ssLR L (1 / 2) (L - 1) 0 ++ [Op.site (L - 1) 1] ++ ssRL (1 / 2) (L - 1)

/-- `two_site_tdvp`: `for i in range(num_sites - 2)`: pair(i, +h), split right, site(i+1, -h) -/
def tsLR (h : Rat) : (n i : Nat) → List Op
  | 0, _ => []
  | n + 1, i => Op.pair i h :: Op.split i true :: Op.site (i + 1) (-h) :: tsLR h n (i + 1)

/-- `for i in reversed(range(num_sites - 2))`: site(i+1, -h), pair(i, +h), split left -/
def tsRL (h : Rat) : Nat → List Op
  | 0 => []
  | i + 1 => Op.site (i + 1) (-h) :: Op.pair i h :: Op.split i false :: tsRL h i

/-- `none` = `ValueError` ("Hamiltonian is too short for a two-site update") -/
def twoSite (L : Nat) (digital : Bool) : Option (List Op) :=
  if L < 2 then none
  else if digital then
    some (tsLR 1 (L - 2) 0 ++ [Op.pair (L - 2) 1, Op.split (L - 2) true])
  else
    some (tsLR (1 / 2) (L - 2) 0 ++ [Op.pair (L - 2) 1, Op.split (L - 2) false] ++ tsRL (1 / 2) (L - 2))

/-- `local_dynamic_tdvp`: a single site is delegated to `single_site_tdvp`; otherwise the dynamic sweep(s).
    `dLR i`, `dRL i`: cap comparison at the visit of site `i` in the respective half. -/
def ldtdvpD (L : Nat) (dLR dRL : Nat → Bool) (digital : Bool) : List Op :=
  if L = 1 then singleSite 1 digital
  else if digital then ldtdvpLR L dLR 1
  else ldtdvpLR L dLR (1 / 2) ++ ldtdvpRL L dRL (1 / 2)

/-- the same with the bond dimensions seen at the visits (what the code compares) -/
def ldtdvp (L maxBond : Nat) (seenLR seenRL : Nat → Nat) (digital : Bool) : List Op :=
  ldtdvpD L (fun i => capped (seenLR i) maxBond) (fun i => capped (seenRL i) maxBond) digital

/-- `bug` (bug.py): `for site in range(num_sites - 1, 0, -1): local_update` (one `update_site` with the full
    step each), then `update_site` on site 0, then `state.truncate`. -/
def bugDown : Nat → List Op
  | 0 => []
  | s + 1 => Op.site (s + 1) 1 :: bugDown s

def bug (L : Nat) : List Op := bugDown (L - 1) ++ [Op.site 0 1, Op.trunc]

/-! ### quantities the theorems talk about -/

/-- time coefficient with which the Hamiltonian terms touching site `j` are applied by one primitive:
    a site or pair update covers the sites it contains, the zero-site (bond) update covers none -/
def cov (j : Nat) : Op → Rat
  | .site i c => if i = j then c else 0
  | .pair p c => if p = j ∨ p + 1 = j then c else 0
  | _ => 0

def coverage (j : Nat) : List Op → Rat
  | [] => 0
  | o :: os => cov j o + coverage j os

/-- coefficient of the projector in the formal sum `Σ c·P` -/
def coef : Op → Rat
  | .site _ c => c
  | .bond _ c => c
  | .pair _ c => c
  | _ => 0

def coefSum : List Op → Rat
  | [] => 0
  | o :: os => coef o + coefSum os

/-- number of truncating SVDs a primitive may perform (`truncate` sweeps the `L-1` bonds) -/
def lossCount (L : Nat) : Op → Nat
  | .split _ _ => 1
  | .trunc => L - 1
  | _ => 0

def lossTotal (L : Nat) : List Op → Nat
  | [] => 0
  | o :: os => lossCount L o + lossTotal L os

/-- projector events only (splits and the final truncation removed) -/
def projOnly : List Op → List Op
  | [] => []
  | Op.split _ _ :: os => projOnly os
  | Op.trunc :: os => projOnly os
  | o :: os => o :: projOnly os

/-- one pass removing every adjacent pair `site i (-c)`, `site i (+c)`: a backward site step immediately
    followed by the forward step on the same site with the same environments is the identity map -/
def cancel : List Op → List Op
  | Op.site i c :: Op.site j c' :: rest =>
    if i = j ∧ c + c' = 0 ∧ c < 0 then cancel rest else Op.site i c :: cancel (Op.site j c' :: rest)
  | o :: rest => o :: cancel rest
  | [] => []

/-! ### specification notions -/

/-- A left-to-right projector-splitting chain for a half step `h`, with the orthogonality centre at site `i`:
    every step contributes `h·P_site(i) − h·P_bond(i)` (one-site) or `h·P_pair(i,i+1) − h·P_site(i+1)` (two-site,
    split with the singular values to the right) and moves the centre to `i+1`; the chain ends in `h·P_site(L-1)`
    or in the un-reversed `h·P_pair(L-2,L-1)`. -/
inductive ChainLR (L : Nat) (h : Rat) : Nat → List Op → Prop
  | last (i : Nat) : i + 1 = L → ChainLR L h i [Op.site i h]
  | lastPair (i : Nat) : i + 2 = L → ChainLR L h i [Op.pair i h, Op.split i true]
  | one (i : Nat) (rest : List Op) : i + 1 < L → ChainLR L h (i + 1) rest →
      ChainLR L h i (Op.site i h :: Op.bond i (-h) :: rest)
  | two (i : Nat) (rest : List Op) : i + 2 < L → ChainLR L h (i + 1) rest →
      ChainLR L h i (Op.pair i h :: Op.split i true :: Op.site (i + 1) (-h) :: rest)

/-- The mirror image: centre at site `i`, moving to the left, ending in `h·P_site(0)` or `h·P_pair(0,1)`. -/
inductive ChainRL (h : Rat) : Nat → List Op → Prop
  | last : ChainRL h 0 [Op.site 0 h]
  | lastPair : ChainRL h 1 [Op.pair 0 h, Op.split 0 false]
  | one (i : Nat) (rest : List Op) : ChainRL h i rest →
      ChainRL h (i + 1) (Op.site (i + 1) h :: Op.bond i (-h) :: rest)
  | two (i : Nat) (rest : List Op) : ChainRL h (i + 1) rest →
      ChainRL h (i + 2) (Op.pair (i + 1) h :: Op.split (i + 1) false :: Op.site (i + 1) (-h) :: rest)

/-- Abstract squared-norm bookkeeping along a list of primitives: site/bond/pair updates preserve it
    (Hermitian local generator, C19), a primitive with `lossCount = c` lowers it by at most `c·thr` (C09). -/
inductive NormTrace (L : Nat) (thr : Rat) : List Op → Rat → Rat → Prop
  | nil (x : Rat) : NormTrace L thr [] x x
  | step (o : Op) (os : List Op) (x x' y : Rat) :
      x - (lossCount L o : Rat) * thr ≤ x' → x' ≤ x → NormTrace L thr os x' y → NormTrace L thr (o :: os) x y

/-- decisions that can occur: the dummy leg has dimension 1, so if it counts as capped (`1 ≥ max_bond_dim`)
    every bond does -/
def Realizable (L : Nat) (d : Nat → Bool) (dummy : Nat) : Prop := d dummy = true → ∀ i, i < L → d i = true

end Yaqs.Sweep
