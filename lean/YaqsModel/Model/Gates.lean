import YaqsModel.Basic.CRat
/-!
# Model.Gates — the gate table of `mqt.yaqs.core.libraries.gate_library` (core Lean only)

Every definition is a function of *ring elements*: it is generic over a carrier `α` with `0 1 + * -`
(the driver runs it on `CRat`; the theorems of `Props/C18.lean` instantiate it with an arbitrary
commutative ring, in particular ℂ).  The transcendental parameters of the Python classes enter as
ring elements that the theorems constrain by polynomial hypotheses:

* `i`      the imaginary unit                      (`i * i = -1`)
* `c s`    a unit-circle point `(cos φ, sin φ)`    (`c*c + s*s = 1`); φ = θ/2 for rx ry rz rxx ryy rzz u,
           φ = θ for p and cp, φ/λ of u and u2 are given as two further points
* `hh`     the Hadamard entry `1/√2`               (`2 * hh*hh = 1`)
* `hf`     one half                                (`2 * hf = 1`)
* `pi4`    the float `np.pi / 4` of the cx/cz generators, `th2` = `theta / 2`, `th` = `theta`

A matrix is a plain function `Fin n → Fin n → α` (definitionally Mathlib's `Matrix (Fin n) (Fin n) α`).
Index conventions mirrored from the code: a 4×4 matrix acts on (first gate qubit, second gate qubit) with the
first qubit most significant: row `2a+b`; `np.reshape(matrix, (2,2,2,2))[a,b,c,d] = matrix[2a+b, 2c+d]`.
-/
namespace Yaqs.Gates

abbrev M2 (α : Type) := Fin 2 → Fin 2 → α
abbrev M4 (α : Type) := Fin 4 → Fin 4 → α
/-- four-index tensor `(out₀, out₁, in₀, in₁)` -/
abbrev T4 (α : Type) := Fin 2 → Fin 2 → Fin 2 → Fin 2 → α

def v2 {β : Type} (a b : β) : Fin 2 → β := fun k => if k.val = 0 then a else b
def v4 {β : Type} (a b c d : β) : Fin 4 → β :=
  fun k => if k.val = 0 then a else if k.val = 1 then b else if k.val = 2 then c else d

section table
variable {α : Type} [Zero α] [One α] [Add α] [Mul α] [Neg α]

def m2 (a b c d : α) : M2 α := v2 (v2 a b) (v2 c d)
def m4 (r0 r1 r2 r3 : Fin 4 → α) : M4 α := v4 r0 r1 r2 r3

def one2 : M2 α := m2 1 0 0 1
def one4 : M4 α := m4 (v4 1 0 0 0) (v4 0 1 0 0) (v4 0 0 1 0) (v4 0 0 0 1)
def smul2 (k : α) (A : M2 α) : M2 α := fun r c => k * A r c
def smul4 (k : α) (A : M4 α) : M4 α := fun r c => k * A r c
def add4 (A B : M4 α) : M4 α := fun r c => A r c + B r c
def two : α := 1 + 1

/-! ## index maps between `Fin 4` and `Fin 2 × Fin 2` -/
def hi (r : Fin 4) : Fin 2 := ⟨r.val / 2, by omega⟩
def lo (r : Fin 4) : Fin 2 := ⟨r.val % 2, by omega⟩
def pair (a b : Fin 2) : Fin 4 := ⟨2 * a.val + b.val, by omega⟩
/-- exchange of the two qubits on a row/column index -/
def sw (r : Fin 4) : Fin 4 := pair (lo r) (hi r)

/-- `np.kron(A, B)` for 2×2 factors -/
def kron (A B : M2 α) : M4 α := fun r c => A (hi r) (hi c) * B (lo r) (lo c)

/-! ## single-qubit gates (classes `X Y Z H Id SX Destroy Create P0 P1 Rx Ry Rz Phase U U2`) -/
def x : M2 α := m2 0 1 1 0
def y (i : α) : M2 α := m2 0 (-i) i 0
def z : M2 α := m2 1 0 0 (-1)
def h (hh : α) : M2 α := m2 hh hh hh (-hh)
/-- `0.5 * [[1+1j, 1-1j], [1-1j, 1+1j]]` -/
def sx (i hf : α) : M2 α := m2 (hf * (1 + i)) (hf * (1 + -i)) (hf * (1 + -i)) (hf * (1 + i))
/-- `Destroy(d=2)`, `Create(d=2)` -/
def destroy : M2 α := m2 0 1 0 0
def create : M2 α := m2 0 0 1 0
def p0 : M2 α := m2 1 0 0 0
def p1 : M2 α := m2 0 0 0 1
/-- `Rx(θ)`, `(c,s) = (cos θ/2, sin θ/2)` -/
def rx (i c s : α) : M2 α := m2 c (-(i * s)) (-(i * s)) c
def ry (c s : α) : M2 α := m2 c (-s) s c
/-- `Rz(θ) = diag(e^{-iθ/2}, e^{iθ/2})` -/
def rz (i c s : α) : M2 α := m2 (c + -(i * s)) 0 0 (c + i * s)
/-- `Phase(θ) = diag(1, e^{iθ})`, `(c,s) = (cos θ, sin θ)` -/
def phase (i c s : α) : M2 α := m2 1 0 0 (c + i * s)
/-- `U(θ,φ,λ)`; `(c,s)` half angle of θ, `ephi = e^{iφ}`, `elam = e^{iλ}` as ring elements -/
def u (c s ephi elam : α) : M2 α := m2 c (-(elam * s)) (ephi * s) (ephi * elam * c)
/-- `U2(φ,λ) = 1/√2 [[1, -e^{iλ}], [e^{iφ}, e^{i(φ+λ)}]]` -/
def u2 (hh ephi elam : α) : M2 α := m2 (hh * 1) (hh * -elam) (hh * ephi) (hh * (ephi * elam))
/-- a unit-circle point as a ring element `e^{iφ} = c + i s` -/
def cis (i c s : α) : α := c + i * s

/-! ## two-qubit gates (classes `CX CZ CPhase SWAP Rxx Ryy Rzz XX YY ZZ`) -/
def cx : M4 α := m4 (v4 1 0 0 0) (v4 0 1 0 0) (v4 0 0 0 1) (v4 0 0 1 0)
def cz : M4 α := m4 (v4 1 0 0 0) (v4 0 1 0 0) (v4 0 0 1 0) (v4 0 0 0 (-1))
def cp (i c s : α) : M4 α := m4 (v4 1 0 0 0) (v4 0 1 0 0) (v4 0 0 1 0) (v4 0 0 0 (c + i * s))
def swap : M4 α := m4 (v4 1 0 0 0) (v4 0 0 1 0) (v4 0 1 0 0) (v4 0 0 0 1)
def rxx (i c s : α) : M4 α :=
  m4 (v4 c 0 0 (-(i * s))) (v4 0 c (-(i * s)) 0) (v4 0 (-(i * s)) c 0) (v4 (-(i * s)) 0 0 c)
def ryy (i c s : α) : M4 α :=
  m4 (v4 c 0 0 (i * s)) (v4 0 c (-(i * s)) 0) (v4 0 (-(i * s)) c 0) (v4 (i * s) 0 0 c)
def rzz (i c s : α) : M4 α :=
  m4 (v4 (c + -(i * s)) 0 0 0) (v4 0 (c + i * s) 0 0) (v4 0 0 (c + i * s) 0) (v4 0 0 0 (c + -(i * s)))
def xx : M4 α := kron x x
def yy (i : α) : M4 α := kron (y i) (y i)
def zz : M4 α := kron z z

/-- the two-qubit gate classes that carry `tensor`, `generator`/`mpo_tensors` -/
inductive G2 | cx | cz | cp | swap | rxx | ryy | rzz
deriving DecidableEq, Repr

def G2.matrix (g : G2) (i c s : α) : M4 α :=
  match g with
  | .cx => Gates.cx | .cz => Gates.cz | .cp => Gates.cp i c s | .swap => Gates.swap
  | .rxx => Gates.rxx i c s | .ryy => Gates.ryy i c s | .rzz => Gates.rzz i c s

/-- which `set_sites` overrides contain `if sites[1] < sites[0]: tensor = transpose(tensor, (1,0,3,2))`
    (only `CX` and `CZ`; `CPhase SWAP Rxx Ryy Rzz` keep the plain reshape) -/
def G2.transposesOnReverse : G2 → Bool
  | .cx | .cz => true
  | _ => false

/-! ## four-index tensor (`set_sites`) -/
/-- `np.reshape(matrix, (2,2,2,2))` -/
def tensorOf (M : M4 α) : T4 α := fun a b c d => M (pair a b) (pair c d)
/-- `np.transpose(tensor, (1,0,3,2))` -/
def transpose1032 (T : T4 α) : T4 α := fun a b c d => T b a d c
/-- `gate.tensor` after `set_sites(q0, q1)`; `rev` means `q1 < q0` -/
def G2.tensor (g : G2) (i c s : α) (rev : Bool) : T4 α :=
  if g.transposesOnReverse && rev then transpose1032 (tensorOf (g.matrix i c s)) else tensorOf (g.matrix i c s)

/-- the operator a 4×4 gate matrix induces on (lower site, higher site): the matrix itself when the first
    gate qubit sits on the lower site, its conjugate by the qubit exchange otherwise -/
def placed (M : M4 α) (rev : Bool) : M4 α := if rev then (fun r c => M (sw r) (sw c)) else M

/-! ## generator pairs `gate.generator = [A, B]` (the consumer exponentiates `exp(-i · A ⊗ B)`,
    factor `k` sits on `sites[k]` — `construct_generator_mpo`) -/
def diag2 (a b : α) : M2 α := m2 a 0 0 b
/-- `CX`: `[(π/4)·[[0,0],[0,2]], [[1,-1],[-1,1]]]` -/
def cxGen (pi4 : α) : M2 α × M2 α := (smul2 pi4 (diag2 0 two), m2 1 (-1) (-1) 1)
/-- `CZ` (after fix 26ed19f): `[(π/4)·[[0,0],[0,2]], [[0,0],[0,2]]]` -/
def czGen (pi4 : α) : M2 α × M2 α := (smul2 pi4 (diag2 0 two), diag2 0 two)
/-- `CZ` as found (D3): the generator of `CX` -/
def czGenOld (pi4 : α) : M2 α × M2 α := cxGen pi4
/-- `CPhase` (after fix b611640): `[-θ·|1><1|, |1><1|]` -/
def cpGen (th : α) : M2 α × M2 α := (smul2 (-th) (diag2 0 1), diag2 0 1)
/-- `CPhase` as found (D4): `[(θ/2)·Z, |0><0|]` -/
def cpGenOld (th2 : α) : M2 α × M2 α := (smul2 th2 z, diag2 1 0)
def rxxGen (th2 : α) : M2 α × M2 α := (smul2 th2 x, x)
def ryyGen (i th2 : α) : M2 α × M2 α := (smul2 th2 (y i), y i)
def rzzGen (th2 : α) : M2 α × M2 α := (smul2 th2 z, z)

/-- the gates that carry a generator -/
inductive GG | cx | cz | cp | rxx | ryy | rzz
deriving DecidableEq, Repr

/-- `gate.generator`; `lam` is the angle-like float each class uses: `π/4` for cx cz, `θ` for cp, `θ/2` for rxx ryy rzz -/
def GG.generator (g : GG) (i lam : α) : M2 α × M2 α :=
  match g with
  | .cx => cxGen lam | .cz => czGen lam | .cp => cpGen lam
  | .rxx => rxxGen lam | .ryy => ryyGen i lam | .rzz => rzzGen lam

def GG.toG2 : GG → G2
  | .cx => .cx | .cz => .cz | .cp => .cp | .rxx => .rxx | .ryy => .ryy | .rzz => .rzz

/-- dense generator `A ⊗ B` in gate-qubit order -/
def genKron (p : M2 α × M2 α) : M4 α := kron p.1 p.2

/-! ### spectral form of the generators: two complementary projectors and their eigenvalues -/
def diag4 (a b c d : α) : M4 α := m4 (v4 a 0 0 0) (v4 0 b 0 0) (v4 0 0 c 0) (v4 0 0 0 d)
/-- `½(1 + σ⊗σ)` / `½(1 - σ⊗σ)` for an anti-diagonal `σ⊗σ` with corner entries `e` (xx: 1, yy: -1) -/
def projPlus (hf e : α) : M4 α := m4 (v4 hf 0 0 (hf * e)) (v4 0 hf hf 0) (v4 0 hf hf 0) (v4 (hf * e) 0 0 hf)
def projMinus (hf e : α) : M4 α :=
  m4 (v4 hf 0 0 (-(hf * e))) (v4 0 hf (-hf) 0) (v4 0 (-hf) hf 0) (v4 (-(hf * e)) 0 0 hf)

/-- `(P₀, P₁)` -/
def GG.proj (g : GG) (hf : α) : M4 α × M4 α :=
  match g with
  | .cx => (m4 (v4 1 0 0 0) (v4 0 1 0 0) (v4 0 0 hf hf) (v4 0 0 hf hf),
            m4 (v4 0 0 0 0) (v4 0 0 0 0) (v4 0 0 hf (-hf)) (v4 0 0 (-hf) hf))
  | .cz | .cp => (diag4 1 1 1 0, diag4 0 0 0 1)
  | .rxx => (projPlus hf 1, projMinus hf 1)
  | .ryy => (projPlus hf (-1), projMinus hf (-1))
  | .rzz => (diag4 1 0 0 1, diag4 0 1 1 0)

/-- eigenvalues `(λ₀, λ₁)` of `A ⊗ B`, linear in the angle parameter -/
def GG.eig (g : GG) (lam : α) : α × α :=
  match g with
  | .cx | .cz => (0, two * two * lam)
  | .cp => (0, -lam)
  | .rxx | .ryy | .rzz => (lam, -lam)

/-- the unit-circle points `(e(λ₀), e(λ₁))`, `e(λ) = exp(-iλ)`, expressed in the gate's circle parameter -/
def GG.phases (g : GG) (i c s : α) : α × α :=
  match g with
  | .cx | .cz => (1, -1)
  | .cp => (1, c + i * s)
  | .rxx | .ryy | .rzz => (c + -(i * s), c + i * s)

/-- `Σ_k f(λ_k) P_k` for a scalar function `f` -/
def GG.spectral (g : GG) (hf lam : α) (f : α → α) : M4 α :=
  add4 (smul4 (f (g.eig lam).1) (g.proj hf).1) (smul4 (f (g.eig lam).2) (g.proj hf).2)

end table

/-! ## `construct_generator_mpo`: which factor sits on which site -/
inductive Slot | A | B | I
deriving DecidableEq, Repr

/-- site labels of the generator MPO for `gate.sites = [q0, q1]` on `length` sites (mirrors the `for site in range(length)` loop) -/
def generatorSlots (q0 q1 length : Nat) : List Slot :=
  let firstGen := if q0 < q1 then Slot.A else Slot.B
  let secondGen := if q0 < q1 then Slot.B else Slot.A
  let firstSite := if q0 < q1 then q0 else q1
  let lastSite := if q0 < q1 then q1 else q0
  (List.range length).map fun site =>
    if site = firstSite then firstGen else if site = lastSite then secondGen else Slot.I

/-! ## MPO form (`split_tensor`, `extend_gate`) -/
section mpo
variable {α : Type} [Zero α] [One α] [Add α] [Mul α]

/-- `Σ_{k<n} f k` -/
def sumTo (n : Nat) (f : Nat → α) : α :=
  match n with
  | 0 => 0
  | n + 1 => sumTo n f + f n

/-- an MPO site tensor in the layout of `extend_gate`: `(phys_out, phys_in, left bond, right bond)`;
    bond indices are naturals below `dl` / `dr` -/
structure Site (α : Type) where
  dl : Nat
  dr : Nat
  t : Fin 2 → Fin 2 → Nat → Nat → α

/-- the identity tensor `extend_gate` inserts: `identity_tensor[:, :, k, k] = np.identity(2)` -/
def idSite (chi : Nat) : Site α :=
  ⟨chi, chi, fun o i k k' => if o = i ∧ k = k' then 1 else 0⟩

/-- `np.transpose(tensor, (0, 1, 3, 2))` -/
def Site.swapBonds (W : Site α) : Site α := ⟨W.dr, W.dl, fun o i k k' => W.t o i k' k⟩

/-- first tensor of `split_tensor`: shape `(2, 2, 1, χ)` -/
def firstSite (chi : Nat) (t1 : Fin 2 → Fin 2 → Nat → α) : Site α := ⟨1, chi, fun o i _ k => t1 o i k⟩
/-- second tensor of `split_tensor`: shape `(2, 2, χ, 1)` -/
def lastSite (chi : Nat) (t2 : Fin 2 → Fin 2 → Nat → α) : Site α := ⟨chi, 1, fun o i k _ => t2 o i k⟩

/-- `extend_gate(tensor, sites)` given the two factors of `split_tensor`; `nId = |sites[0]-sites[1]| - 1`,
    `rev` means `sites[1] < sites[0]` (list reversed, every tensor bond-transposed) -/
def extendGate (chi : Nat) (t1 t2 : Fin 2 → Fin 2 → Nat → α) (nId : Nat) (rev : Bool) : List (Site α) :=
  let fwd := firstSite chi t1 :: (List.replicate nId (idSite chi) ++ [lastSite chi t2])
  if rev then fwd.reverse.map Site.swapBonds else fwd

/-- the boundary vector is a materialised list (one entry per bond index; reading past the end gives 0) -/
def vget (v : List α) (k : Nat) : α := v.getD k 0

/-- absorb one site tensor into the left boundary vector: `v'[k'] = Σ_{k<dl} v[k]·W[o,i,k,k']`, `k' < dr` -/
def absorb (v : List α) (W : Site α) (o i : Fin 2) : List α :=
  (List.range W.dr).map fun k' => sumTo W.dl fun k => vget v k * W.t o i k k'

/-- left-to-right contraction of a chain for one configuration of output/input bits -/
def chainVec : List (Site α) → List (Fin 2) → List (Fin 2) → List α → List α
  | W :: Ws, o :: os, i :: is, v => chainVec Ws os is (absorb v W o i)
  | _, _, _, v => v

/-- entry `⟨outs| MPO |ins⟩` of the dense operator (site 0 leftmost); the outer bonds have dimension 1 -/
def mpoEntry (Ws : List (Site α)) (outs ins : List (Fin 2)) : α := vget (chainVec Ws outs ins [1]) 0

/-- the trivial exact split `G[(a,b),(c,d)] = Σ_{k<4} T₁[a,c,k]·T₂[b,d,k]` with `k = 2b'+d'` -/
def trivialT1 (G : M4 α) : Fin 2 → Fin 2 → Nat → α :=
  fun a c k => G ⟨(2 * a.val + (k / 2) % 2) % 4, by omega⟩ ⟨(2 * c.val + k % 2) % 4, by omega⟩
def trivialT2 : Fin 2 → Fin 2 → Nat → α :=
  fun b d k => if k = 2 * b.val + d.val then 1 else 0

/-- what the property demands of the dense MPO: `G` on the two end sites (first gate qubit on the left end
    unless `rev`), identity in between -/
def expectedEntry (G : M4 α) (rev : Bool) (outs ins : List (Fin 2)) : α :=
  match outs, ins with
  | a :: os, c :: is =>
    match os.getLast?, is.getLast? with
    | some b, some d =>
      (if rev then G (pair b a) (pair d c) else G (pair a b) (pair c d)) *
        (if os.dropLast = is.dropLast then 1 else 0)
    | _, _ => 0
  | _, _ => 0

/-- bits of `r`, most significant first, `L` of them -/
def bitsOf : Nat → Nat → List (Fin 2)
  | 0, _ => []
  | L + 1, r => ⟨(r / 2 ^ L) % 2, by omega⟩ :: bitsOf L r

end mpo

end Yaqs.Gates
