import YaqsModel.Model.Trotter
/-
  Model.TrotterHubbard — generators of the Fermi–Hubbard circuits (xh07 extension of property C07), core Lean only.

  Mirrors  core/libraries/circuit_library.py   create_1d_fermi_hubbard_circuit, create_2d_fermi_hubbard_circuit,
                                               add_long_range_interaction, add_hopping_term (what their gates *do*)

  `Model/Trotter.lean` has the gate lists (`fh1dSubstep`, `fh2dSubstep`, `addLongRange`, `hopGates`).  Here every gate / block
  of those lists gets its generators `(dense Pauli string, c)` — the gate or block is the product of `exp(-i c P)` over them:
    p(θ)  on q        exp(-i c (1 - Z_q)),               c = -θ/2   ↦  (1, c), (Z_q, -c)
    cp(θ) on a, b     exp(-i c (1 - Z_a)(1 - Z_b)),      c = -θ/4   ↦  (1, c), (Z_a, -c), (Z_b, -c), (Z_a Z_b, c)
    rxx/ryy/…         `gateGen` of Model/Trotter
    hopping block     add_hopping_term(i, j, α)                     ↦  (X_i Z…Z X_j, α/2), (Y_i Z…Z Y_j, α/2)
  (theorems `p_gate_generators`, `cp_gate_generators`, `cnot_ladder_conjugation`, `hopping_block_unitary` of Props/C07.lean),
  and the Jordan–Wigner image of the documented Hamiltonian  H = -t Σ (c†c + h.c.) + U Σ n↑n↓ - μ Σ n  as a Pauli term list
  in the qubit order of each builder (`jw_hopping`, `jw_number`, `hubbard1d_hamiltonian_is_jw`, …).
-/
namespace Yaqs.Trotter

/-- the Pauli string with label `s k` on site `k`, as a dense operator list over `L` sites -/
def strOf (L : Nat) (s : Nat → Op) : List Op := (List.range L).map s

/-- `Z` on the sites listed, identity elsewhere (`zString L []` is the identity string) -/
def zString (L : Nat) (qs : List Nat) : List Op := strOf L fun k => if k ∈ qs then Op.Z else Op.I

/-- `P_i Z_{i+1} ⋯ Z_{j-1} P_j`: the Jordan–Wigner string of a hop between modes `i < j` -/
def hopString (L i j : Nat) (o : Op) : List Op :=
  strOf L fun k => if k = i ∨ k = j then o else if i < k ∧ k < j then Op.Z else Op.I

/-- generators of one gate, the phase gates included; barriers and the Clifford gates of the hopping block have none -/
def gateGens (L : Nat) (g : Gate) : List (List Op × Rat) :=
  match g.name, g.qs, g.ang with
  | .p, [q], .q θ => [(zString L [], phaseCoeff θ), (zString L [q], -phaseCoeff θ)]
  | .cp, [a, b], .q θ =>
    [(zString L [], cphaseCoeff θ), (zString L [a], -cphaseCoeff θ), (zString L [b], -cphaseCoeff θ),
     (zString L [a, b], cphaseCoeff θ)]
  | _, _, _ => (gateGen L g).toList

/-- generators of a gate list of phase gates and Pauli rotations, in circuit order -/
def listGens (L : Nat) (gs : List Gate) : List (List Op × Rat) := gs.flatMap (gateGens L)

/-- generators of the block `add_hopping_term(circ, i, j, α)` appends: `exp(-i α/2 XZ…ZX) · exp(-i α/2 YZ…ZY)` -/
def hopGens (L i j : Nat) (α : Rat) : List (List Op × Rat) :=
  [(hopString L i j .X, rotCoeff α), (hopString L i j .Y, rotCoeff α)]

/-- generators of one sub-step of `create_1d_fermi_hubbard_circuit` (`2L` qubits), in circuit order -/
def fh1dGens (L : Nat) (u t mu dt : Rat) (n : Nat) : List (List Op × Rat) :=
  listGens (2 * L) (fh1dSubstep L u t mu dt n)

/-- the three layers of the 2-D sub-step as gate lists / blocks -/
def fh2dChem (Lx Ly : Nat) (mu dt : Rat) (n : Nat) : List Gate :=
  (List.range (Lx * Ly)).flatMap fun j => [g1 .p (2 * j) (fhChemAngle mu dt n), g1 .p (2 * j + 1) (fhChemAngle mu dt n)]

def fh2dOnsite (Lx Ly : Nat) (u dt : Rat) (n : Nat) : List Gate :=
  (List.range (Lx * Ly)).map fun j => g2 .cp (2 * j) (2 * j + 1) (fhOnsiteAngle u dt n)

def fh2dHop (Lx Ly : Nat) (t dt : Rat) (n : Nat) : List Gate :=
  (fh2dBonds Lx Ly).flatMap fun b =>
    hopGates (2 * b.1) (2 * b.2) (fhHop2dAngle t dt n) ++ hopGates (2 * b.1 + 1) (2 * b.2 + 1) (fhHop2dAngle t dt n)

/-- generators of one sub-step of `create_2d_fermi_hubbard_circuit` (`2·Lx·Ly` qubits), in circuit order -/
def fh2dGens (Lx Ly : Nat) (u t mu dt : Rat) (n : Nat) : List (List Op × Rat) :=
  let N := 2 * (Lx * Ly)
  let hop := (fh2dBonds Lx Ly).flatMap fun b =>
    hopGens N (2 * b.1) (2 * b.2) (fhHop2dAngle t dt n) ++ hopGens N (2 * b.1 + 1) (2 * b.2 + 1) (fhHop2dAngle t dt n)
  listGens N (fh2dChem Lx Ly mu dt n) ++ listGens N (fh2dOnsite Lx Ly u dt n) ++ hop
    ++ listGens N (fh2dOnsite Lx Ly u dt n) ++ listGens N (fh2dChem Lx Ly mu dt n)

/-! ## Jordan–Wigner image of `H = -t Σ_{⟨pq⟩σ} (c†_{pσ} c_{qσ} + h.c.) + U Σ_p n_{p↑} n_{p↓} - μ Σ_{pσ} n_{pσ}` -/

/-- `c · n_q = c · (1 - Z_q)/2` -/
def numberTerms (N : Nat) (c : Rat) (q : Nat) : List (List Op × Rat) :=
  [(zString N [], c / 2), (zString N [q], -(c / 2))]

/-- `c · n_a n_b = c · (1 - Z_a)(1 - Z_b)/4` -/
def densityTerms (N : Nat) (c : Rat) (a b : Nat) : List (List Op × Rat) :=
  [(zString N [], c / 4), (zString N [a], -(c / 4)), (zString N [b], -(c / 4)), (zString N [a, b], c / 4)]

/-- `c · (c†_a c_b + c†_b c_a) = c/2 · (X_a Z…Z X_b + Y_a Z…Z Y_b)` for `a < b` -/
def hoppingTerms (N : Nat) (c : Rat) (a b : Nat) : List (List Op × Rat) :=
  [(hopString N a b .X, c / 2), (hopString N a b .Y, c / 2)]

/-- the three parts of the Hamiltonian for a mode layout `up, dn : site → qubit`, a site list and a bond list -/
def chemTerms (N : Nat) (up dn : Nat → Nat) (sites : List Nat) (mu : Rat) : List (List Op × Rat) :=
  sites.flatMap fun j => numberTerms N (-mu) (up j) ++ numberTerms N (-mu) (dn j)

def onsiteTerms (N : Nat) (up dn : Nat → Nat) (sites : List Nat) (u : Rat) : List (List Op × Rat) :=
  sites.flatMap fun j => densityTerms N u (up j) (dn j)

def hopTerms (N : Nat) (up dn : Nat → Nat) (bonds : List (Nat × Nat)) (t : Rat) : List (List Op × Rat) :=
  bonds.flatMap fun b => hoppingTerms N (-t) (up b.1) (up b.2) ++ hoppingTerms N (-t) (dn b.1) (dn b.2)

/-- all terms, `(Pauli string, coefficient)` -/
def hubbardTerms (N : Nat) (up dn : Nat → Nat) (sites : List Nat) (bonds : List (Nat × Nat)) (u t mu : Rat) :
    List (List Op × Rat) :=
  chemTerms N up dn sites mu ++ onsiteTerms N up dn sites u ++ hopTerms N up dn bonds t

/-- 1-D builder: `↑[j] = j`, `↓[j] = L + j`, bonds `(j, j+1)` -/
def hubbard1dTerms (L : Nat) (u t mu : Rat) : List (List Op × Rat) :=
  hubbardTerms (2 * L) (fun j => j) (fun j => L + j) (List.range L) (fh1dBonds L) u t mu

/-- 2-D builder: `lookup_qiskit_ordering`, `↑[p] = 2p`, `↓[p] = 2p + 1`, lattice bonds of `fh2dBonds` -/
def hubbard2dTerms (Lx Ly : Nat) (u t mu : Rat) : List (List Op × Rat) :=
  hubbardTerms (2 * (Lx * Ly)) (fun p => 2 * p) (fun p => 2 * p + 1) (List.range (Lx * Ly)) (fh2dBonds Lx Ly) u t mu

/-- all nearest-neighbour bonds of the `Lx × Ly` lattice (site `p = y·Lx + x`), row by row: `(p, p+1)` and `(p, p+Lx)` -/
def latticeBonds (Lx Ly : Nat) : List (Nat × Nat) :=
  (List.range Ly).flatMap (fun y => (List.range (Lx - 1)).map fun x => (y * Lx + x, y * Lx + x + 1))
    ++ (List.range (Ly - 1)).flatMap (fun y => (List.range Lx).map fun x => (y * Lx + x, y * Lx + x + Lx))

/-! ## merged coefficient tables (what the driver prints) -/

/-- add `c` to the entry of `l`, keeping first-occurrence order -/
def addCoeff (tbl : List (List Op × Rat)) (g : List Op × Rat) : List (List Op × Rat) :=
  if tbl.any (fun e => e.1 = g.1) then tbl.map fun e => if e.1 = g.1 then (e.1, e.2 + g.2) else e else tbl ++ [g]

/-- one entry per distinct Pauli string with the sum of its coefficients; zero sums dropped -/
def mergeGens (gens : List (List Op × Rat)) : List (List Op × Rat) :=
  (gens.foldl addCoeff []).filter fun e => e.2 ≠ 0

end Yaqs.Trotter
