/-
  Model.Rank — the kept-rank rules of every truncating split in yaqs (core Lean only).

  mirrors (after the repairs D7/D8):
    core/methods/tdvp.py            split_mps_tensor        → keepDW / keepRel
    core/methods/decompositions.py  two_site_svd            → keepTwoSite
    core/methods/decompositions.py  truncated_right_svd     → keepRightSvd
    core/data_structures/networks.py MPO._compress_one_sweep → keepCompress
    core/data_structures/networks.py MPO.from_matrix._truncate → keepFromMatrix
    digital/utils/mpo_utils.py      decompose_theta         → keepTheta

  A spectrum is the list of singular values in the order LAPACK returns them (largest first).
  All loops of the code iterate over `reversed(s)`, i.e. smallest first; the model does the same.
-/
namespace Yaqs.Rank

/-- sum of squares -/
def sqsum : List Rat → Rat
  | [] => 0
  | x :: xs => x * x + sqsum xs

/-- discarded weight when only the first `k` singular values are kept -/
def tailWeight (s : List Rat) (k : Nat) : Rat := sqsum (s.drop k)

/-- `for idx, s in enumerate(reversed(s_vec)): next = discard + s*s; if next > thr: break; discard = next`
    on the already reversed list, with accumulated weight `d`.  Returns the loop index `idx` at the `break`
    (= number of values discarded), or the length of the list if the loop runs to completion. -/
def dropGT (thr : Rat) : List Rat → Rat → Nat
  | [], _ => 0
  | x :: rest, d => if d + x * x > thr then 0 else 1 + dropGT thr rest (d + x * x)

/-- did the loop of `dropGT` reach its `break`? -/
def brokeGT (thr : Rat) : List Rat → Rat → Bool
  | [], _ => false
  | x :: rest, d => if d + x * x > thr then true else brokeGT thr rest (d + x * x)

/-- same loop with `>=` (two_site_svd, truncated_right_svd) -/
def dropGE (thr : Rat) : List Rat → Rat → Nat
  | [], _ => 0
  | x :: rest, d => if d + x * x ≥ thr then 0 else 1 + dropGE thr rest (d + x * x)

def brokeGE (thr : Rat) : List Rat → Rat → Bool
  | [], _ => false
  | x :: rest, d => if d + x * x ≥ thr then true else brokeGE thr rest (d + x * x)

/-- `split_mps_tensor`, `trunc_mode == "discarded_weight"` (repaired: the cap applies whatever `dynamic` is). -/
def keepDW (s : List Rat) (thr : Rat) (minB maxB : Nat) : Nat :=
  let len := s.length
  let keep0 := min len maxB
  let minKeep := min len minB
  if brokeGT thr s.reverse 0 then max (min (len - dropGT thr s.reverse 0) keep0) minKeep else keep0

/-- the code as found at the pinned commit (kept as a second definition for the counterexample lemmas) -/
def keepDWOld (s : List Rat) (thr : Rat) (minB maxB : Nat) (dynamic : Bool) : Nat :=
  let len := s.length
  let keep0 := if dynamic then len else min len maxB
  let minKeep := min len minB
  if brokeGT thr s.reverse 0 then max (len - dropGT thr s.reverse 0) minKeep else keep0

/-- number of entries with `x / smax ≥ thr` -/
def countRel (smax thr : Rat) : List Rat → Nat
  | [] => 0
  | x :: xs => (if x / smax ≥ thr then 1 else 0) + countRel smax thr xs

/-- `split_mps_tensor`, `trunc_mode == "relative"` (repaired: clamped to the number of singular values).
    The code reads `s_vec[0]`; an empty spectrum cannot come out of an SVD and is `none` here. -/
def keepRel (s : List Rat) (thr : Rat) (minB maxB : Nat) : Option Nat :=
  match s with
  | [] => none
  | smax :: _ =>
    let c := if smax = 0 then 0 else countRel smax thr s
    some (min (max (min c maxB) minB) s.length)

def keepRelOld (s : List Rat) (thr : Rat) (minB maxB : Nat) : Option Nat :=
  match s with
  | [] => none
  | smax :: _ =>
    let c := if smax = 0 then 0 else countRel smax thr s
    some (max (min c maxB) minB)

def capOpt (k : Nat) : Option Nat → Nat
  | none => k
  | some m => min k m

/-- `two_site_svd`: `discard += s**2; if discard >= threshold: keep = max(len - idx, 2); break`, then the cap.
    The value returned is the `keep` the code computes; the code then slices and reshapes with it, which
    raises when `keep > len` (only possible for `len = 1`). -/
def keepTwoSite (s : List Rat) (thr : Rat) (maxB : Option Nat) : Nat :=
  let len := s.length
  let k := if brokeGE thr s.reverse 0 then max (len - dropGE thr s.reverse 0) 2 else len
  capOpt k maxB

/-- `truncated_right_svd`: `cut_index = 1` unless the loop breaks -/
def keepRightSvd (s : List Rat) (thr : Rat) (maxB : Option Nat) : Nat :=
  let len := s.length
  let k := if brokeGE thr s.reverse 0 then len - dropGE thr s.reverse 0 else 1
  capOpt k maxB

def countGT (tol : Rat) : List Rat → Nat
  | [] => 0
  | x :: xs => (if tol < x then 1 else 0) + countGT tol xs

/-- `MPO._compress_one_sweep`: `keep = max(1, min(sum(tol < s), max_bond_dim))` -/
def keepCompress (s : List Rat) (tol : Rat) (maxB : Option Nat) : Nat :=
  max 1 (capOpt (countGT tol s) maxB)

/-- `MPO.from_matrix._truncate` -/
def keepFromMatrix (s : List Rat) (cutoff : Rat) (maxB : Option Nat) : Nat :=
  let r := if cutoff > 0 then max (countGT cutoff s) 1 else s.length
  capOpt r maxB

/-- `decompose_theta`: `s_list[s_list > threshold]` -/
def keepTheta (s : List Rat) (thr : Rat) : Nat := countGT thr s

end Yaqs.Rank
