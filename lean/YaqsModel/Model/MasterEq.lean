import YaqsModel.Basic.CRat
import YaqsModel.Basic.Dist
import YaqsModel.Model.Index
import YaqsModel.Model.Lottery

/-!
# Model.MasterEq — the *content* of the exact Lindblad solver and of the MCWF solver (core Lean only)

Mirrors
  * `analog/lindblad.py::lindblad` step 3 (`if strength <= 0: continue`, `np.sqrt(strength) * op_full`)      → `jumpOps`
  * `analog/lindblad.py::lindblad` step 4 (`l_dag_l_sum += l_op.conj().T @ l_op`, start `csr_matrix((dim, dim))`) → `lDagLSum`
  * `analog/lindblad.py::lindblad_rhs` (`-1j*(H@rho - rho@H)`, `drho += l_op @ rho @ l_dag` per operator,
    `drho -= 0.5*(l_dag_l_sum@rho + rho@l_dag_l_sum)` once)                                                → `lindbladRhs`, `lindbladRhsJ`
  * `solve_ivp(..., method="RK45", rtol=threshold, atol=threshold*1e-2)`                                    → `solverTol`
  * `val = np.trace(op_mat @ rho_t); obs_results[i, t] = val.real`, diagnostics (`None`) → `0.0`            → `obsValue`
  * `analog/mcwf.py::preprocess_mcwf` step 3/4 (`heff = h_mat.copy(); if jump_ops: heff -= 0.5j * sum_ldag_l`) → `heff`
  * `analog/mcwf.py::mcwf`, one pass of the time loop (`p_jump = 1 - <psi_next|psi_next>`, `r < p_jump`,
    weights `<L psi|L psi>` from the state at the START of the step, `normalization_sum < 1e-15`,
    `psi = L_k psi / |L_k psi|`, `psi = psi_next / sqrt(norm_sq)`, `measure`)                               → `mcwfTaken`, `mcwfStepDist`, `postState`
  * which columns `mcwf` reports (`sample_timesteps`, `results[:, -1:]`)                                    → `reportedOneStep`

The accumulation structure (`lindbladRhs`, `lDagLSum`, `heff`, `jumpOps`) is written once, polymorphically over a
record `Ops M S` of primitive matrix operations, so that the function the driver executes (instance `listOps n`,
matrices as `List (List CRat)`) and the function the theorems of `Props/C06.lean` talk about (instance
`matrixOps`, Mathlib matrices over any commutative star ring) are the same Lean definition.

`np.sqrt(strength)` is not a rational operation: the model carries the rate `γ` next to the unscaled embedded
operator and forms `γ·(L ρ L†)` / `γ·(L† L)`; `lindbladRhsJ` is the literal code with pre-scaled operators, and the
equivalence under `r·r = γ`, `r` real, is `sqrt_scaling_equiv` in `Props/C06.lean`.
-/
namespace Yaqs.MasterEq

/-- primitive operations on matrices `M` with scalars `S` -/
structure Ops (M S : Type) where
  zero : M
  add : M → M → M
  sub : M → M → M
  mul : M → M → M
  /-- conjugate transpose, `.conj().T` -/
  dag : M → M
  smul : S → M → M
  /-- `-1j` -/
  negI : S
  /-- `0.5` -/
  half : S
  /-- `0.5j` -/
  halfI : S
  /-- a process strength as a scalar -/
  rate : Rat → S

/-- one noise process after embedding: its strength and the full-space operator *before* the `sqrt` scaling -/
structure Proc (M : Type) where
  gamma : Rat
  op : M

variable {M S : Type}

/-- `for process in noise_model.processes: if strength <= 0: continue; jump_ops.append(...)` — order kept -/
def jumpOps (procs : List (Proc M)) : List (Proc M) := procs.filter fun p => decide (0 < p.gamma)

/-- `l_dag_l_sum = csr_matrix((dim, dim)); for l_op in jump_ops: l_dag_l_sum += l_op.conj().T @ l_op`
    with `l_op = sqrt(γ)·L`, i.e. `γ·(L† L)` -/
def lDagLSum (o : Ops M S) (Ls : List (Proc M)) : M :=
  Ls.foldl (fun s p => o.add s (o.smul (o.rate p.gamma) (o.mul (o.dag p.op) p.op))) o.zero

/-- `lindblad_rhs` exactly as the code accumulates it (rates carried separately) -/
def lindbladRhs (o : Ops M S) (H : M) (Ls : List (Proc M)) (ρ : M) : M :=
  let d0 := o.smul o.negI (o.sub (o.mul H ρ) (o.mul ρ H))
  let d1 := Ls.foldl (fun d p => o.add d (o.smul (o.rate p.gamma) (o.mul (o.mul p.op ρ) (o.dag p.op)))) d0
  let s := lDagLSum o Ls
  o.sub d1 (o.smul o.half (o.add (o.mul s ρ) (o.mul ρ s)))

/-- the right-hand side `lindblad` integrates for a given process list -/
def lindbladOfProcs (o : Ops M S) (H : M) (procs : List (Proc M)) (ρ : M) : M :=
  lindbladRhs o H (jumpOps procs) ρ

/-- literal code with pre-scaled jump operators `J = sqrt(γ)·L` (no rate anywhere) -/
def lDagLSumJ (o : Ops M S) (Js : List M) : M :=
  Js.foldl (fun s J => o.add s (o.mul (o.dag J) J)) o.zero

def lindbladRhsJ (o : Ops M S) (H : M) (Js : List M) (ρ : M) : M :=
  let d0 := o.smul o.negI (o.sub (o.mul H ρ) (o.mul ρ H))
  let d1 := Js.foldl (fun d J => o.add d (o.mul (o.mul J ρ) (o.dag J))) d0
  let s := lDagLSumJ o Js
  o.sub d1 (o.smul o.half (o.add (o.mul s ρ) (o.mul ρ s)))

/-- `preprocess_mcwf`: `heff = h_mat.copy(); if jump_ops: heff -= 0.5j * sum_ldag_l` -/
def heff (o : Ops M S) (H : M) (Ls : List (Proc M)) : M :=
  if Ls.isEmpty then H else o.sub H (o.smul o.halfI (lDagLSum o Ls))

def heffOfProcs (o : Ops M S) (H : M) (procs : List (Proc M)) : M := heff o H (jumpOps procs)

/-- `rtol=sim_params.threshold, atol=sim_params.threshold * 1e-2` (`1e-2` is the binary64 nearest to 1/100;
    the tie compares numerically) -/
def solverTol (threshold : Rat) : Rat × Rat := (threshold, threshold * (1 / 100))

/-! ## executable instance: square matrices as `List (List CRat)`, row major -/

abbrev CMat := List (List CRat)
abbrev CVec := List CRat

def get (A : CMat) (i j : Nat) : CRat := (A.getD i []).getD j 0
def vget (v : CVec) (i : Nat) : CRat := v.getD i 0

def tab (n : Nat) (f : Nat → Nat → CRat) : CMat :=
  (List.range n).map fun i => (List.range n).map fun j => f i j

def vtab (n : Nat) (f : Nat → CRat) : CVec := (List.range n).map f

/-- `Σ_{k<n} f k`, summed left to right from `0` -/
def sumTo (n : Nat) (f : Nat → CRat) : CRat := (List.range n).foldl (fun a k => a + f k) 0

def mzero (n : Nat) : CMat := tab n fun _ _ => 0
def madd (n : Nat) (A B : CMat) : CMat := tab n fun i j => get A i j + get B i j
def msub (n : Nat) (A B : CMat) : CMat := tab n fun i j => get A i j - get B i j
def mmul (n : Nat) (A B : CMat) : CMat := tab n fun i j => sumTo n fun k => get A i k * get B k j
def mdag (n : Nat) (A : CMat) : CMat := tab n fun i j => CRat.conj (get A j i)
def msmul (n : Nat) (c : CRat) (A : CMat) : CMat := tab n fun i j => c * get A i j
def mtrace (n : Nat) (A : CMat) : CRat := sumTo n fun i => get A i i
def mulVec (n : Nat) (A : CMat) (v : CVec) : CVec := vtab n fun i => sumTo n fun k => get A i k * vget v k

def listOps (n : Nat) : Ops CMat CRat where
  zero := mzero n
  add := madd n
  sub := msub n
  mul := mmul n
  dag := mdag n
  smul := msmul n
  negI := ⟨0, -1⟩
  half := ⟨1 / 2, 0⟩
  halfI := ⟨0, 1 / 2⟩
  rate := CRat.ofRat

/-- materialise a `Model.Index` matrix (what `_embed_operator_sparse` returns) -/
def ofIndexMat (n : Nat) (A : Index.Mat CRat) : CMat := tab n fun i j => A.e i j

/-- `<v|v>` -/
def vnormSq (v : CVec) : Rat := (v.map CRat.normSq).sum

/-- `np.vdot(a, b) = Σ conj(a_i) b_i` -/
def vdot (n : Nat) (a b : CVec) : CRat := sumTo n fun i => CRat.conj (vget a i) * vget b i

/-! ## observables -/

/-- an embedded observable, or a structural diagnostic (`runtime_cost`, `max_bond`, `total_bond`, `entropy`,
    `schmidt_spectrum`) which the dense solvers report as `0.0` -/
inductive Obs where
  | op (O : CMat)
  | diagnostic

/-- Lindblad: `np.trace(op_mat @ rho_t).real`, `0.0` for a diagnostic -/
def obsValue (n : Nat) (ρ : CMat) : Obs → Rat
  | .op O => (mtrace n (mmul n O ρ)).re
  | .diagnostic => 0

/-- MCWF `measure`: `np.vdot(psi, op_mat.dot(psi)).real` on the state `v/√nrm`, `0.0` for a diagnostic -/
def obsValuePure (n : Nat) (v : CVec) (nrm : Rat) : Obs → Rat
  | .op O => (vdot n v (mulVec n O v)).re / nrm
  | .diagnostic => 0

/-! ## one pass of the MCWF time loop -/

/-- `w = np.vdot(l_psi, l_psi).real` with `l_psi = (sqrt(γ) L) @ param_psi`, for the jump operators in list order;
    `ψ` is the state at the START of the step -/
def jumpWeights (n : Nat) (Ls : List (Proc CMat)) (ψ : CVec) : List Rat :=
  Ls.map fun p => p.gamma * vnormSq (mulVec n p.op ψ)

/-- `p_jump = 1.0 - np.vdot(psi_next, psi_next).real` -/
def pJump (ψnext : CVec) : Rat := 1 - vnormSq ψnext

inductive Taken where
  /-- `r >= p_jump`: `psi = psi_next / sqrt(norm_sq)` -/
  | noJump
  /-- `r < p_jump` but `normalization_sum < 1e-15`: the same renormalised `psi_next` -/
  | noJumpEps
  /-- `r < p_jump`, `k = rng.choice(len(jump_ops), p = pv)`: `psi = L_k psi / |L_k psi|` -/
  | jump (k : Nat) (pv : List Rat)
deriving DecidableEq, Repr

/-- what one pass does for the random numbers `r = rng.random()` and `k = rng.choice(...)` (`k` is only consumed on
    the jump branch); `none` = `k` is not an index of `jump_ops` -/
def mcwfTaken (n : Nat) (Ls : List (Proc CMat)) (ψ ψnext : CVec) (r : Rat) (k : Nat) : Option Taken :=
  if r < pJump ψnext then
    let ws := jumpWeights n Ls ψ
    let W := ws.sum
    if W < Lottery.mcwfEps then some .noJumpEps
    else if k < Ls.length then some (.jump k (ws.map (· / W))) else none
  else some .noJump

/-- the state after the pass as a pair `(v, c)` meaning `v/√c` -/
def postState (n : Nat) (Ls : List (Proc CMat)) (ψ ψnext : CVec) : Taken → CVec × Rat
  | .jump k _ =>
    match Ls[k]? with
    | some p => let v := mulVec n p.op ψ; (v, vnormSq v)
    | none => (ψnext, vnormSq ψnext)
  | _ => (ψnext, vnormSq ψnext)

/-- outcome distribution of one pass (over `r` uniform on `[0,1)` and `rng.choice` distributed as its `p`):
    the lottery of `Model.Lottery` (the one C01 is about) on the dense weights of this file -/
def mcwfStepDist (n : Nat) (Ls : List (Proc CMat)) (ψ ψnext : CVec) : Dist Lottery.Branch :=
  let ws := jumpWeights n Ls ψ
  let W := ws.sum
  if W < Lottery.mcwfEps then [(1, Lottery.Branch.noJump)]
  else Lottery.lottery (vnormSq ψnext) (ws.map (· / W))

/-- the columns `mcwf` returns for a grid of two points (one step): with `sample_timesteps` the initial
    measurement and the one after the step, otherwise `results[:, -1:]` -/
def reportedOneStep (sample : Bool) (v0 v1 : List Rat) : List (List Rat) :=
  if sample then [v0, v1] else [v1]

end Yaqs.MasterEq
