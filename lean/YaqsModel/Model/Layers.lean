/-
  Model.Layers — the layer loop of the circuit simulator (core Lean only, no Mathlib).

  Mirrors (code as it is after the `fix:` commits for D12 / D18):
    * qiskit `circuit_to_dag` / `DAGCircuit.front_layer` / `remove_op_node`
        → a circuit is a list of instructions in program order; the DAG is the list of *remaining*
          instructions; the front layer is every remaining instruction that has no earlier remaining
          instruction on a shared wire (qubits AND clbits)                      (`splitFront`, `front`)
    * `digital_tjm.process_layer`                                               (`layerOrder`)
    * the `while dag.op_nodes()` loop of `digital_tjm.digital_tjm`               (`visitLoop`, `emit`, `digitalTjm`)
    * the label predicate of `process_layer` and of `simulator._run_strong_sim`  (`isSampleLabel`)
    * `simulator._run_strong_sim` column count, `_run_weak_sim`, `_run_circuit`  (`runCircuit`)
    * `digital_tjm.construct_generator_mpo` placement, `apply_window` bounds     (`genPlacement`, `window`)
  The unrepaired variants (labelled barrier consumed only when sampling — D12; label compared without
  `.strip()` in `process_layer` — D18) are kept as second definitions (`stayOld`, `isSampleLabelOld`)
  for the counterexample lemmas in `Props/C16.lean`.
-/
namespace Yaqs.Layers

/-! ## instructions -/

/-- a DAG wire: a qubit or a classical bit -/
inductive Wire where
  | q (n : Nat)
  | c (n : Nat)
  deriving DecidableEq, Repr

/-- one circuit instruction.  `tag` identifies the gate (name and parameters) — the loop never looks at it.
    `sbarrier` is a barrier whose label satisfies the SAMPLE_OBSERVABLES predicate. -/
inductive Instr where
  | gate1 (tag q : Nat)
  | gate2 (tag a b : Nat)          -- qargs in the order given: `a` = qargs[0], `b` = qargs[1]
  | measure (q c : Nat)
  | barrier (qs : List Nat)
  | sbarrier (qs : List Nat)
  deriving DecidableEq, Repr

namespace Instr

def qubits : Instr → List Nat
  | gate1 _ q => [q]
  | gate2 _ a b => [a, b]
  | measure q _ => [q]
  | barrier qs => qs
  | sbarrier qs => qs

def clbits : Instr → List Nat
  | measure _ c => [c]
  | _ => []

/-- the DAG wires the node sits on -/
def wires (i : Instr) : List Wire := i.qubits.map Wire.q ++ i.clbits.map Wire.c

def touches (w : Wire) (i : Instr) : Bool := i.wires.contains w

def isGate : Instr → Bool
  | gate1 .. => true
  | gate2 .. => true
  | _ => false

/-- `name == "measure"` or a barrier that is not a sampling barrier: removed by `process_layer` -/
def isDropped : Instr → Bool
  | measure .. => true
  | barrier .. => true
  | _ => false

def isSB : Instr → Bool
  | sbarrier .. => true
  | _ => false

def isSingle : Instr → Bool
  | gate1 .. => true
  | _ => false

/-- two-qubit gate whose lower qubit index is even -/
def isEven : Instr → Bool
  | gate2 _ a b => min a b % 2 == 0
  | _ => false

def isOdd : Instr → Bool
  | gate2 _ a b => min a b % 2 != 0
  | _ => false

/-- the sort key of `process_layer` (`qargs[0]._index`, resp. `min` of the two indices) -/
def lowq : Instr → Nat
  | gate1 _ q => q
  | gate2 _ a b => min a b
  | _ => 0

end Instr

/-! ## the label predicate (`str(label).strip().upper() == "SAMPLE_OBSERVABLES"`), ASCII labels as code points -/

/-- Python `str.isspace` on ASCII: `\t \n \v \f \r`, `\x1c`–`\x1f`, space -/
def pyIsSpace (c : Nat) : Bool := (9 ≤ c && c ≤ 13) || (28 ≤ c && c ≤ 31) || c == 32

/-- Python `str.upper` on ASCII -/
def pyUpper (c : Nat) : Nat := if 97 ≤ c ∧ c ≤ 122 then c - 32 else c

def pyStrip (l : List Nat) : List Nat :=
  ((l.dropWhile pyIsSpace).reverse.dropWhile pyIsSpace).reverse

def sampleName : List Nat := "SAMPLE_OBSERVABLES".toList.map Char.toNat

/-- the predicate used today both by `process_layer` and by `_run_strong_sim`; `none` = no label
    (`str(None)` is `"None"`, which never matches) -/
def isSampleLabel : Option (List Nat) → Bool
  | none => false
  | some l => (pyStrip l).map pyUpper == sampleName

/-- code as found (D18): `process_layer` compared `str(label).upper()` without `.strip()` -/
def isSampleLabelOld : Option (List Nat) → Bool
  | none => false
  | some l => l.map pyUpper == sampleName

/-- an instruction as it stands in the `QuantumCircuit`: barriers carry their raw label -/
inductive RawInstr where
  | gate1 (tag q : Nat)
  | gate2 (tag a b : Nat)
  | measure (q c : Nat)
  | barrier (qs : List Nat) (label : Option (List Nat))
  deriving DecidableEq, Repr

/-- how `process_layer` sees a node, for a given label predicate -/
def classify (pred : Option (List Nat) → Bool) : RawInstr → Instr
  | .gate1 t q => .gate1 t q
  | .gate2 t a b => .gate2 t a b
  | .measure q c => .measure q c
  | .barrier qs l => if pred l then .sbarrier qs else .barrier qs

/-- `_run_strong_sim`: `sum(1 for n in dag.op_nodes() if n.op.name == "barrier" and pred(label))` -/
def countMid (pred : Option (List Nat) → Bool) (raw : List RawInstr) : Nat :=
  (raw.filter (fun r => match r with
    | .barrier _ l => pred l
    | _ => false)).length

/-! ## front layer -/

/-- some wire of `i` is already used by an earlier remaining instruction -/
def blocked (busy : List Wire) (i : Instr) : Bool := i.wires.any (fun w => busy.contains w)

/-- one pass over the remaining instructions (program order): `.1` = front layer, `.2` = what remains
    after the iteration.  A front instruction is removed unless `stay` says the loop leaves it in the DAG. -/
def splitFront (stay : Instr → Bool) : List Wire → List Instr → List Instr × List Instr
  | _, [] => ([], [])
  | busy, i :: rest =>
    let r := splitFront stay (i.wires ++ busy) rest
    if blocked busy i then (r.1, i :: r.2)
    else (i :: r.1, if stay i then i :: r.2 else r.2)

/-- the repaired loop removes every front node in the iteration that sees it -/
def stayNew : Instr → Bool := fun _ => false

/-- code as found (D12): a labelled barrier was removed only inside the sampling branch -/
def stayOld (sampling : Bool) : Instr → Bool := fun i => i.isSB && !sampling

/-- `dag.front_layer()` -/
def front (rem : List Instr) : List Instr := (splitFront stayNew [] rem).1

/-! ## `process_layer` -/

def insertBy (key : Instr → Nat) (x : Instr) : List Instr → List Instr
  | [] => [x]
  | y :: ys => if key x ≤ key y then x :: y :: ys else y :: insertBy key x ys

/-- stable insertion sort (Python's `list.sort(key=…)` is stable) -/
def sortBy (key : Instr → Nat) (l : List Instr) : List Instr := l.foldr (insertBy key) []

def singles (layer : List Instr) : List Instr := sortBy Instr.lowq (layer.filter Instr.isSingle)
def evens (layer : List Instr) : List Instr := sortBy Instr.lowq (layer.filter Instr.isEven)
def odds (layer : List Instr) : List Instr := sortBy Instr.lowq (layer.filter Instr.isOdd)
def sbarriers (layer : List Instr) : List Instr := layer.filter Instr.isSB

/-- the order in which one iteration of the `while` loop handles the nodes of the current layer:
    measures / plain barriers are removed inside `process_layer`; then `for node in single_qubit_nodes`,
    `for node in even_nodes`, `for node in odd_nodes`, `for measure_barrier in measure_barriers`. -/
def layerOrder (layer : List Instr) : List Instr :=
  layer.filter Instr.isDropped ++ (singles layer ++ (evens layer ++ (odds layer ++ sbarriers layer)))

/-! ## the `while dag.op_nodes()` loop -/

/-- nodes in the order the loop handles them; `none` = the fuel ran out with nodes still in the DAG -/
def visitLoop (stay : Instr → Bool) : Nat → List Instr → Option (List Instr)
  | _, [] => some []
  | 0, _ :: _ => none
  | fuel + 1, i :: rest =>
    let r := splitFront stay [] (i :: rest)
    (visitLoop stay fuel r.2).map (layerOrder r.1 ++ ·)

/-- the repaired loop with the fuel that `loop_terminates` proves sufficient -/
def visit (c : List Instr) : List Instr := (visitLoop stayNew c.length c).getD []

/-- what the simulator does, observable from outside -/
inductive Event where
  | app1 (tag q : Nat)             -- `apply_single_qubit_gate`
  | app2 (tag a b : Nat)           -- `apply_two_qubit_gate`, sites in qargs order
  | eval (col : Nat)               -- `state.evaluate_observables(sim_params, results, col)`
  | shots                          -- `state.measure_shots(...)`
  deriving DecidableEq, Repr

/-- the body of the loop, node by node; `col` is `col_idx` -/
def emit (sampling : Bool) : Nat → List Instr → List Event
  | _, [] => []
  | col, .gate1 t q :: r => .app1 t q :: emit sampling col r
  | col, .gate2 t a b :: r => .app2 t a b :: emit sampling col r
  | col, .sbarrier _ :: r =>
    if sampling then .eval (col + 1) :: emit sampling (col + 1) r else emit sampling col r
  | col, _ :: r => emit sampling col r

inductive Mode where
  | strongSample      -- StrongSimParams, sample_layers = True
  | strongPlain       -- StrongSimParams, sample_layers = False
  | weak              -- WeakSimParams
  deriving DecidableEq, Repr

def Mode.sampling : Mode → Bool
  | .strongSample => true
  | _ => false

/-- `digital_tjm` (noise-free): initial column, loop, final column / shots.
    `numMid` is `sim_params.num_mid_measurements`; `stayOf` selects the repaired or the old loop. -/
def digitalTjmWith (stayOf : Bool → Instr → Bool) (mode : Mode) (numMid : Nat) (c : List Instr) :
    Option (List Event) :=
  match visitLoop (stayOf mode.sampling) c.length c with
  | none => none
  | some order =>
    let body := emit mode.sampling 0 order
    match mode with
    | .strongSample => some (.eval 0 :: (body ++ [.eval (numMid + 1)]))
    | .strongPlain => some (body ++ [.eval 0])
    | .weak => some (body ++ [.shots])

def digitalTjm : Mode → Nat → List Instr → Option (List Event) := digitalTjmWith (fun _ => stayNew)

def digitalTjmOld : Mode → Nat → List Instr → Option (List Event) := digitalTjmWith stayOld

/-- `_run_circuit` → `_run_strong_sim` / `_run_weak_sim` (one noise-free trajectory):
    `layerPred` is the predicate of `process_layer`, `countPred` the one of `_run_strong_sim`.
    `reverse_bits()` does not change `_index` of the qargs, so site = circuit qubit (trace-tied). -/
def runCircuitWith (stayOf : Bool → Instr → Bool) (layerPred countPred : Option (List Nat) → Bool)
    (mode : Mode) (raw : List RawInstr) : Option (List Event) :=
  let numMid := if mode.sampling then countMid countPred raw else 0
  digitalTjmWith stayOf mode numMid (raw.map (classify layerPred))

def runCircuit : Mode → List RawInstr → Option (List Event) :=
  runCircuitWith (fun _ => stayNew) isSampleLabel isSampleLabel

/-- number of result columns `_run_strong_sim` / `Observable.initialize` allocate -/
def numColumns (countPred : Option (List Nat) → Bool) (mode : Mode) (raw : List RawInstr) : Nat :=
  match mode with
  | .strongSample => countMid countPred raw + 2
  | .strongPlain => 1
  | .weak => 0

/-! ## derived views -/

def gates (c : List Instr) : List Instr := c.filter Instr.isGate

/-- the gate schedule: the order in which `digital_tjm` applies the gates of the circuit -/
def schedule (c : List Instr) : List Instr := gates (visit c)

/-- drop measurements and plain barriers -/
def strip (c : List Instr) : List Instr := c.filter (fun i => !i.isDropped)

def Event.isApp : Event → Bool
  | .app1 .. => true
  | .app2 .. => true
  | _ => false

def Event.ofInstr : Instr → Option Event
  | .gate1 t q => some (.app1 t q)
  | .gate2 t a b => some (.app2 t a b)
  | _ => none

def evalCols (evs : List Event) : List Nat :=
  evs.filterMap (fun e => match e with
    | .eval c => some c
    | _ => none)

/-! ## two-qubit gate placement -/

/-- `construct_generator_mpo`: `((first_site, first_gen), (last_site, second_gen))` for `gate.sites = [a, b]`:
    which generator factor sits on which site -/
def genPlacement (a b : Nat) : (Nat × Nat) × (Nat × Nat) :=
  if a < b then ((a, 0), (b, 1)) else ((b, 1), (a, 0))

/-- `apply_window` with `window_size = 1` on a chain of `L` sites -/
def window (L first last : Nat) : Nat × Nat := (first - 1, min (last + 1) (L - 1))

end Yaqs.Layers
