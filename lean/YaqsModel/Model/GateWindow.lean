/-
  Model.GateWindow — applying one two-qubit gate through its generator MPO and one digital two-site TDVP sweep on a window
  (core Lean only, no Mathlib).

  mirrors
    core/methods/tdvp.py     merge_mps_tensors   (`"abc,dce->adbe"` + reshape)            → mergeKet
    core/methods/tdvp.py     merge_mpo_tensors   (`"acei,bdif->abcdef"` + reshape)        → mergeOp
    digital/digital_tjm.py   construct_generator_mpo  (one site tensor: `w[0,0] = G`, `custom` transposes to
                                                       `(out, in, left, right)`)          → genOp
    core/methods/tdvp.py     two_site_tdvp, the shapes of one pair problem               → pairDims
    digital/digital_tjm.py   apply_two_qubit_gate: generator placement, window, gate position inside the window, and the
                             steps of the one left-to-right sweep with the role each step plays relative to the gate
                                                                                          → gatePlan, planTokens

  Tensors are functions of their indices as in `Model/Heff.lean`:  MPS tensor `(phys, left, right)`, MPO tensor
  `(out, in, left, right)`.  A merged pair carries the combined physical index `flat2 d1 s t = s * d1 + t` (`s` the physical
  index of the left site, `d1` the physical dimension of the right site) — numpy's row-major `reshape`.
-/
import YaqsModel.Model.Heff
import YaqsModel.Model.Conserve
import YaqsModel.Model.Layers

namespace Yaqs.Heff

universe u

section generic
variable {α : Type u} [Zero α] [Add α] [Mul α]

/-- `merge_mps_tensors(A0, A1)`: `np.einsum("abc,dce->adbe")` then `reshape(a*d, b, e)`; `p1` is the physical dimension of
    the right tensor, `m` the dimension of the contracted bond -/
def mergeKet (p1 m : Nat) (A0 A1 : Nat → Nat → Nat → α) : Nat → Nat → Nat → α :=
  fun st a e => sumTo m fun c => A0 (unflat2 p1 st).1 a c * A1 (unflat2 p1 st).2 c e

/-- `merge_mpo_tensors(W0, W1)`: `np.einsum("acei,bdif->abcdef")` then `reshape(a*b, c*d, e, f)`; `o1`, `p1` are the out / in
    physical dimensions of the right tensor, `m` the dimension of the contracted MPO bond -/
def mergeOp (o1 p1 m : Nat) (W0 W1 : Nat → Nat → Nat → Nat → α) : Nat → Nat → Nat → Nat → α :=
  fun oo pp l r =>
    sumTo m fun i => W0 (unflat2 o1 oo).1 (unflat2 p1 pp).1 l i * W1 (unflat2 o1 oo).2 (unflat2 p1 pp).2 i r

end generic

/-- one tensor of `construct_generator_mpo`: `w = zeros((1,1,d,d)); w[0,0] = G`, transposed by `MPO.custom` to
    `(out, in, left, right)`: `W[o,p,0,0] = G[o,p]` (both MPO bonds have dimension 1) -/
def genOp {α : Type u} (G : Nat → Nat → α) : Nat → Nat → Nat → Nat → α := fun o p _ _ => G o p

/-- the shapes of the pair problem of sites `i, i+1` in `two_site_tdvp`: merged physical legs, the left bond / left MPO
    bond of the left site, the right bond / right MPO bond of the right site -/
def pairDims (d0 d1 : SiteDims) : SiteDims :=
  ⟨d0.o * d1.o, d0.p * d1.p, d0.a, d0.aa, d1.b, d1.bb, d0.l, d1.r⟩

end Yaqs.Heff

namespace Yaqs.GateWindow

open Yaqs.Sweep Yaqs.Layers

/-- what a primitive of the window sweep does relative to the gate whose generator factors sit on window sites `p`, `p+1` -/
inductive Role
  /-- a pair whose left MPO tensor is the identity and whose left block is the identity, or the backward site step that
      follows its split: effective Hamiltonian `1 ⊗ K` -/
  | idLeft
  /-- the gate's own pair: identity blocks on both sides, effective Hamiltonian `A ⊗ B` on the two physical legs -/
  | gate
  /-- a backward site step to the right of the gate's left site, or the pair that follows it, whose right MPO tensor and
      right block are identities: effective Hamiltonian `K ⊗ 1` -/
  | idRight
  deriving DecidableEq, Repr

/-- role of the forward step on the pair `(i, i+1)` -/
def pairRole (p i : Nat) : Role := if i < p then .idLeft else if i = p then .gate else .idRight

/-- role of the backward step on site `j` (it follows the split of pair `(j-1, j)` and precedes the merge of `(j, j+1)`) -/
def siteRole (p j : Nat) : Role := if j ≤ p then .idLeft else .idRight

/-- the role of a step (`none` for the gauge moves merge / split) -/
def stepRole (p : Nat) : Step → Option Role
  | .prim (.pair i _) => some (pairRole p i)
  | .prim (.site j _) => some (siteRole p j)
  | _ => none

/-- window length and position of the gate's lower site inside the window, for a gate on chain sites `first < last` -/
def windowShape (L first last : Nat) : Nat × Nat :=
  let w := window L first last
  (w.2 - w.1 + 1, first - w.1)

/-- everything `apply_two_qubit_gate` decides before the numerics, for `gate.sites = [a, b]` on a chain of `L` sites:
    `((first_site, its generator factor), (last_site, its generator factor))`, the window `(lo, hi)`, the window length, the
    position of `first_site` inside the window, the sites through which `apply_window` shifts the orthogonality centre
    (`for i in range(window[0]): state.shift_orthogonality_center_right(i)`), and the steps of the digital two-site sweep on
    the window -/
structure Plan where
  placement : (Nat × Nat) × (Nat × Nat)
  win : Nat × Nat
  n : Nat
  p : Nat
  shifts : List Nat
  steps : Option (List Step)
  deriving Repr

def gatePlan (L a b : Nat) : Plan :=
  let pl := genPlacement a b
  let w := window L pl.1.1 pl.2.1
  let sh := windowShape L pl.1.1 pl.2.1
  ⟨pl, w, sh.1, sh.2, List.range w.1, twoSiteFull sh.1 true⟩

def showRat' (q : Rat) : String :=
  if q.den = 1 then toString q.num else toString q.num ++ "/" ++ toString q.den

def Role.tok : Role → String
  | .idLeft => "idL" | .gate => "gate" | .idRight => "idR"

/-- one token per step: `m:<p>` merge, `P:<p>:<dt>:<role>` forward pair step, `x:<p>:<R|L>` split,
    `s:<j>:<dt>:<role>` backward site step; other steps do not occur in a digital two-site sweep -/
def stepTok (p : Nat) : Step → String
  | .merge i => s!"m:{i}"
  | .prim (.pair i h) => s!"P:{i}:{showRat' h}:{(pairRole p i).tok}"
  | .prim (.split i r) => s!"x:{i}:{if r then "R" else "L"}"
  | .prim (.site j h) => s!"s:{j}:{showRat' h}:{(siteRole p j).tok}"
  | _ => "other"

def planTokens (pl : Plan) : List String :=
  match pl.steps with
  | none => ["too-short"]
  | some st => st.map (stepTok pl.p)

/-- the (forward pair / backward site) time coefficients of a step list, in order -/
def stepTimes : List Step → List Rat
  | [] => []
  | .prim (.pair _ h) :: rest => h :: stepTimes rest
  | .prim (.site _ h) :: rest => h :: stepTimes rest
  | _ :: rest => stepTimes rest

end Yaqs.GateWindow
