import YaqsModel.Model.Tomo
/-!
# Model.TomoComb — the exact comb that process-tensor tomography is supposed to reconstruct (C17, extension)

Executable model (core Lean only, exact over ℚ(i)) of *"the reduced state of site 0 obtained by evolving the whole chain
exactly"* with one single-qubit map applied to site 0 at the start of every segment — in the order of operations of
`_tomography_sequence_worker` (`src/mqt/yaqs/characterization/tomography/tomography.py`):

```
for step_i, duration in enumerate(timesteps):      # k segments for k interventions
    <intervention step_i on site 0>                 # FIRST the intervention ...
    <evolve the whole chain for `duration`>         # ... THEN the segment
return rho_site_zero(final state)                   # partial trace over sites 1..L-1
```

There is no evolution before the first intervention and none after the last segment.

| model | code |
|---|---|
| `idx4`, `applyChoiE` | a map handed to `predict_final_state` is turned into `j_choi = Σ_ij kron(emap(e_ij), e_ij)`, i.e. `J[2a+i, 2b+j] = emap(|i⟩⟨j|)[a,b]`; `applyChoiE J` is the action of that map on site 0 of a joint operator (site 0 = most significant index, `state_vec.reshape(2, dim_env)`), identity on the rest |
| `evolveE` | a segment `ρ ↦ U ρ Uᴴ` (`mcwf` / `analog_tjm_*` with no noise, exact) |
| `ptraceE`, `outIdx` | `_get_rho_site_zero` (`rho = psi.reshape(2,-1); rho @ rho.conj().T`), stored as `avg_rho.reshape(-1)` (row-major: `o = 2a+b`) |
| `stepE`, `physStateE`, `physCombE` | the loop above |
| `krausChoiE` | `j_choi` built by `predict_final_state` from a map given by Kraus operators |
| `Tab`, `tabJ`, `readJ`, `physStateT`, `physCombT` | the same computation with every intermediate operator stored as data (what the driver runs; equality with `physCombE` is proved in `Lemmas/TomoComb.lean`) |
-/
namespace Yaqs.Tomo
open Yaqs CRatT

/-- joint operators on (site 0) ⊗ (environment of dimension `d`) as functions of row and column index -/
abbrev JointE (d : Nat) := (Fin 2 × Fin d) → (Fin 2 × Fin d) → CRatT

/-- row/column index of a Choi matrix in the code's convention: `2·(output index) + (input index)` -/
def idx4 (a i : Fin 2) : Fin 4 := ⟨2 * a.val + i.val, by omega⟩

/-- `(A_J ⊗ id)(X)` for the map `A_J(σ)[a,b] = Σ_ij J[2a+i, 2b+j] σ[i,j]` whose Choi matrix — in the convention of the
    builder inside `predict_final_state` — is `J` -/
def applyChoiE (d : Nat) (J : M4) (X : JointE d) : JointE d :=
  fun x y => fsum 2 (fun i => fsum 2 (fun j => J (idx4 x.1 i) (idx4 y.1 j) * X (i, x.2) (j, y.2)))

/-- sum over a joint index -/
def jsum (d : Nat) (f : Fin 2 × Fin d → CRatT) : CRatT := fsum 2 (fun s => fsum d (fun c => f (s, c)))

/-- matrix product `A B` -/
def mulE (d : Nat) (A B : JointE d) : JointE d := fun x y => jsum d (fun z => A x z * B z y)

/-- `A Uᴴ` -/
def mulAdjE (d : Nat) (A U : JointE d) : JointE d := fun x y => jsum d (fun w => A x w * conj (U y w))

/-- a segment: `X ↦ U X Uᴴ` (no unitarity assumed) -/
def evolveE (d : Nat) (U X : JointE d) : JointE d := mulAdjE d (mulE d U X) U

/-- partial trace over the environment -/
def ptraceE (d : Nat) (X : JointE d) : M2 := fun a b => fsum d (fun c => X (a, c) (b, c))

/-- one slot: first the intervention, then the segment -/
def stepE (d : Nat) (U : JointE d) (J : M4) (X : JointE d) : JointE d := evolveE d U (applyChoiE d J X)

/-- the whole sequence: `segs = [(U_0, J_0), …, (U_{k-1}, J_{k-1})]`, slot 0 acts first -/
def physStateE (d : Nat) : List (JointE d × M4) → JointE d → JointE d
  | [], X => X
  | (U, J) :: rest, X => physStateE d rest (stepE d U J X)

/-- output component `o` of the stored vector `rho.reshape(-1)`: `o = 2·row + col` -/
def physCombE (d : Nat) (segs : List (JointE d × M4)) (X0 : JointE d) (o : Fin 4) : CRatT :=
  ptraceE d (physStateE d segs X0) (hi o) (lo o)

/-! ## the same with every intermediate operator stored (driver) -/

def tab {α : Type} {n : Nat} (f : Fin n → α) : Array α := Array.ofFn f
def rd {α : Type} [Inhabited α] {n : Nat} (a : Array α) (i : Fin n) : α := a.getD i.val default

/-- a stored joint operator: `T[s][c][s'][c']` -/
abbrev Tab := Array (Array (Array (Array CRatT)))

def tabJ (d : Nat) (X : JointE d) : Tab :=
  tab (n := 2) fun s => tab (n := d) fun c => tab (n := 2) fun s' => tab (n := d) fun c' => X (s, c) (s', c')

def readJ (d : Nat) (T : Tab) : JointE d := fun x y => rd (rd (rd (rd T x.1) x.2) y.1) y.2

def stepT (d : Nat) (U : Tab) (J : M4) (X : Tab) : Tab :=
  let Y := tabJ d (applyChoiE d J (readJ d X))
  let Z := tabJ d (mulE d (readJ d U) (readJ d Y))
  tabJ d (mulAdjE d (readJ d Z) (readJ d U))

def physStateT (d : Nat) : List (Tab × M4) → Tab → Tab
  | [], X => X
  | (U, J) :: rest, X => physStateT d rest (stepT d U J X)

def physCombT (d : Nat) (segs : List (Tab × M4)) (X0 : Tab) (o : Fin 4) : CRatT :=
  ptraceE d (readJ d (physStateT d segs X0)) (hi o) (lo o)

/-- Choi matrix (code convention) of the CP map with Kraus operators `As`: `J[2a+i, 2b+j] = Σ_n A_n[a,i]·conj(A_n[b,j])`,
    i.e. `Σ_n vec(A_n) vec(A_n)ᴴ` with the row-major `vec` — what the builder inside `predict_final_state`
    (`j_choi += np.kron(emap(e_ij), e_ij)`) produces for `emap(σ) = Σ_n A_n σ A_nᴴ` -/
def krausChoiE (As : List M2) : M4 := fun r c =>
  As.foldr (fun A acc => A (hi r) (lo r) * conj (A (hi c) (lo c)) + acc) 0

/-- a joint operator read from a flat row-major `(2d)×(2d)` array, joint index `s·d + c` (numpy `reshape(2,d,2,d)`) -/
def jointOfFlat (d : Nat) (arr : Array CRatT) : JointE d :=
  fun x y => arr.getD ((x.1.val * d + x.2.val) * (2 * d) + (y.1.val * d + y.2.val)) 0

end Yaqs.Tomo
