/-
  Model.NoiseNorm — what `NoiseModel.__init__` does to the caller's process list and what `NoiseModel.sample` (called once
  by `simulator.run` before any trajectory starts) does to the strengths (core Lean only).

  mirrors  core/data_structures/noise_model.py  NoiseModel.__init__  → `normOne`, `normalize`
           core/data_structures/noise_model.py  NoiseModel.sample    → `sampleOne`, `sample`
           core/data_structures/noise_model.py  NoiseModel.get_operator → `known` (membership in PAULI_MAP / NoiseLibrary)

  A process arrives as a dict; only what the constructor looks at is kept: name, `sites` (a Python list), the strength
  (a number, or a dict describing a distribution), and whether the caller supplied `matrix` / `factors`.
-/
namespace Yaqs.NoiseNorm

/-- a strength as the caller may give it: a number, or `{"distribution": kind, "mean": m, "std": s}` (`kind = none`: the
    dict has no `distribution` key) -/
inductive Strength where
  | val (q : Rat)
  | dist (kind : Option String) (mean std : Rat)
  deriving DecidableEq, Repr

/-- names are character lists (the kernel can evaluate list functions; `String.startsWith` is opaque to it) -/
abbrev Name := List Char

structure ProcIn where
  name : Name
  sites : List Nat
  strength : Strength
  hasMatrix : Bool
  hasFactors : Bool
  deriving DecidableEq, Repr

/-- which operator description the stored process carries afterwards, and who put it there -/
inductive Fill where
  | callerMatrix | libMatrix | kronMatrix | callerFactors | pauliFactors
  deriving DecidableEq, Repr

structure ProcOut where
  name : Name
  sites : List Nat
  strength : Strength
  fill : Fill
  keptFactors : Bool   -- a caller's `factors` entry is never removed
  deriving DecidableEq, Repr

inductive Err where
  | assertion   -- an `assert` of the constructor fails
  | attribute   -- `getattr(NoiseLibrary, name)` fails
  | value       -- `ValueError` of `sample`
  deriving DecidableEq, Repr

/-- `sorted(sites)` for a two-element list -/
def sort2 (a b : Nat) : Nat × Nat := if a ≤ b then (a, b) else (b, a)

/-- `str(name).rsplit("_", 1)[-1]`: the part after the last underscore (the whole name if there is none) -/
def suffixOf (name : Name) : Name := (name.reverse.takeWhile (· ≠ '_')).reverse

/-- the two `assert`s on a crosstalk label: suffix of length 2 over `x y z` -/
def suffixOK (name : Name) : Bool :=
  let s := suffixOf name
  s.length == 2 && s.all (fun c => c == 'x' || c == 'y' || c == 'z')

def pfxCrosstalk : Name := ['c', 'r', 'o', 's', 's', 't', 'a', 'l', 'k', '_']
def pfxLongrange : Name := ['l', 'o', 'n', 'g', 'r', 'a', 'n', 'g', 'e', '_'] ++ pfxCrosstalk

/-- `NoiseModel.get_operator(name)`: in `PAULI_MAP` or an attribute of `NoiseLibrary`; otherwise `AttributeError` -/
def lookup (known : Name → Bool) (name : Name) : Except Err Fill :=
  if known name then .ok .libMatrix else .error .attribute

/-- `proc["sites"]` afterwards: a pair is put in ascending order, anything else is left alone -/
def normSites : List Nat → List Nat
  | [a, b] => [(sort2 a b).1, (sort2 a b).2]
  | l => l

/-- is the (sorted) pair adjacent: `abs(j - i) == 1` -/
def adjacentPair (a b : Nat) : Bool := (sort2 a b).2 - (sort2 a b).1 == 1

def isCrosstalk (name : Name) : Bool := pfxCrosstalk.isPrefixOf name || pfxLongrange.isPrefixOf name

/-- which description the stored dict carries, and whether it has a `factors` entry; the decision tree of the loop body -/
def fillOf (known : Name → Bool) (p : ProcIn) : Except Err (Fill × Bool) :=
  if p.sites.length > 2 then .error .assertion
  else match p.sites with
    | [a, b] =>
      if adjacentPair a b then
        -- an adjacent `crosstalk_ab` label always gets `kron(P_a, P_b)`, even over a matrix the caller supplied
        if pfxCrosstalk.isPrefixOf p.name then
          (if suffixOK p.name then .ok (.kronMatrix, p.hasFactors) else .error .assertion)
        else if p.hasMatrix then .ok (.callerMatrix, p.hasFactors)
        else (lookup known p.name).map fun f => (f, p.hasFactors)
      else if p.hasFactors then .ok (.callerFactors, true)
      else if isCrosstalk p.name then (if suffixOK p.name then .ok (.pauliFactors, true) else .error .assertion)
      else .error .assertion
    | _ =>
      if p.hasMatrix then .ok (.callerMatrix, p.hasFactors)
      else (lookup known p.name).map fun f => (f, p.hasFactors)

/-- one iteration of the constructor's loop -/
def normOne (known : Name → Bool) (p : ProcIn) : Except Err ProcOut :=
  (fillOf known p).map fun f => ⟨p.name, normSites p.sites, p.strength, f.1, f.2⟩

/-- the whole loop: the first failing process aborts the construction -/
def normalize (known : Name → Bool) : List ProcIn → Except Err (List ProcOut)
  | [] => .ok []
  | p :: ps => do
    let q ← normOne known p
    let qs ← normalize known ps
    pure (q :: qs)

/-! ### `sample` -/

def absR (x : Rat) : Rat := if x < 0 then -x else x

/-- one process of `sample`; `draw` is what the generator returned for this process (`normal`, `lognormal` or the
    truncated-normal variate); `absR std ≤ 1e-8` stands for `math.isclose(std, 0.0, abs_tol=1e-8)` -/
def sampleOne (s : Strength) (draw : Rat) : Except Err Rat :=
  match s with
  | .val q => .ok q
  | .dist none _ _ => .error .value
  | .dist (some kind) mean std =>
    if kind = "normal" then .ok (max 0 draw)
    else if kind = "lognormal" then .ok draw
    else if kind = "truncated_normal" then .ok (if absR std ≤ 1 / 100000000 then max 0 mean else draw)
    else .error .value

def sample : List Strength → List Rat → Except Err (List Rat)
  | [], _ => .ok []
  | s :: ss, ds => do
    let q ← sampleOne s (ds.headD 0)
    let qs ← sample ss ds.tail
    pure (q :: qs)

end Yaqs.NoiseNorm
