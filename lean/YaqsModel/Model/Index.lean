/-
  Model.Index — which entry of a dense vector / matrix belongs to which site (core Lean only).

  Mirrors (after the `fix:` commit df70e64, defect D6)
    * `np.kron`, `scipy.sparse.kron`                               → `kron`
    * `analog/utils.py::_kron_all_dense/_kron_all_sparse`           → `kronAll`  (left fold, `ops[0]` first)
    * `analog/utils.py::_embed_generic` (1-site / adjacent / factors) → `embed1`, `embed2`, `embedF`
    * `MPO.to_matrix`, `MPO.to_sparse_matrix` on a bond-dimension-1 (product) operator → `kronAll`
    * C-order `reshape` of a flat index / of a multi-index          → `unflat` / `kronIdx`
    * `MPS.to_vec` (flip the chain, then merge physical legs left to right)   → `toVecIdxCode`, spec `toVecIdx`
    * `lindblad` / `preprocess_mcwf`: `to_vec().reshape([2]*L).transpose(L-1..0).reshape(-1)` → `solverIdx`
    * the same two solvers as found (vector of `to_vec` handed on unchanged) → `solverIdxOld`

  A basis state is a list of digits `b` (site 0 first) together with the list of local dimensions `d`.
-/
namespace Yaqs.Index

/-- product of the local dimensions -/
def dimProd : List Nat → Nat
  | [] => 1
  | d :: ds => d * dimProd ds

/-- every digit is below its local dimension and the lists have equal length -/
def Valid : List Nat → List Nat → Prop
  | [], [] => True
  | d :: ds, b :: bs => b < d ∧ Valid ds bs
  | _, _ => False

def validB : List Nat → List Nat → Bool
  | [], [] => true
  | d :: ds, b :: bs => decide (b < d) && validB ds bs
  | _, _ => false

/-- C-order ("row major", big-endian) flat index with an accumulator: what repeated `np.kron(res, op)` and
    `reshape(-1)` produce — the first factor / axis is the most significant one. -/
def kronIdxFrom (acc : Nat) : List Nat → List Nat → Nat
  | d :: ds, b :: bs => kronIdxFrom (acc * d + b) ds bs
  | _, _ => acc

/-- index of basis digits `b` in a Kronecker product whose first factor is site 0 (site 0 leftmost) -/
def kronIdx (d b : List Nat) : Nat := kronIdxFrom 0 d b

/-- `MPS.to_vec` as documented: site 0 is the least significant position -/
def toVecIdx : List Nat → List Nat → Nat
  | d :: ds, b :: bs => b + d * toVecIdx ds bs
  | _, _ => 0

/-- `MPS.to_vec` as coded: `flip_network()` reverses the chain, then the physical legs are merged left to
    right in C order -/
def toVecIdxCode (d b : List Nat) : Nat := kronIdx d.reverse b.reverse

/-- C-order multi-index of a flat index (`np.reshape(v, d)` / `np.unravel_index`) -/
def unflat : List Nat → Nat → List Nat
  | [], _ => []
  | d :: ds, k => (k / dimProd ds) % d :: unflat ds (k % dimProd ds)

/-- `lindblad` / `preprocess_mcwf` after the repair, for a chain with local dimensions `d`:
    `psi = to_vec()`; `psi.reshape(axes)` where the axes of `to_vec` are the sites in reverse order;
    `.transpose(L-1, …, 0)` (the element at multi-index `c` moves to `c.reverse`, the axes list is reversed);
    `.reshape(-1)` -/
def solverIdxD (d b : List Nat) : Nat :=
  let k := toVecIdx d b
  let axes := d.reverse
  let c := unflat axes k
  kronIdx axes.reverse c.reverse

/-- the code reshapes with `[2] * num_sites` (qubits only) -/
def solverIdx (b : List Nat) : Nat := solverIdxD (List.replicate b.length 2) b

/-- code as found (D6): the vector of `to_vec` was used directly -/
def solverIdxOld (b : List Nat) : Nat := toVecIdx (List.replicate b.length 2) b

/-! ### Nat-indexed matrices and the Kronecker product -/

structure Mat (α : Type) where
  rows : Nat
  cols : Nat
  e : Nat → Nat → α

variable {α : Type}

/-- `np.kron(A, B)[i, j] = A[i / rB, j / cB] * B[i % rB, j % cB]` -/
def kron [Mul α] (A B : Mat α) : Mat α :=
  ⟨A.rows * B.rows, A.cols * B.cols,
   fun i j => A.e (i / B.rows) (j / B.cols) * B.e (i % B.rows) (j % B.cols)⟩

/-- `_kron_all_dense` / `_kron_all_sparse`: `res = ops[0]; for op in ops[1:]: res = kron(res, op)`;
    an empty list raises `IndexError` -/
def kronAll [Mul α] : List (Mat α) → Option (Mat α)
  | [] => none
  | A :: rest => some (rest.foldl kron A)

/-- `np.eye(n)` -/
def eye [Zero α] [One α] (n : Nat) : Mat α := ⟨n, n, fun i j => if i = j then 1 else 0⟩

/-- `_embed_generic`, one site: `ops = [eye(2)]*L; ops[site] = op; kron_all(ops)` (`IndexError` if `site ≥ L`) -/
def embed1 [Mul α] [Zero α] [One α] (L site : Nat) (op : Mat α) : Option (Mat α) :=
  if site < L then kronAll ((List.replicate L (eye 2)).set site op) else none

/-- `_embed_generic`, matrix on two sites: `s1, s2 = sorted(sites)`; `ValueError` unless adjacent;
    `kron(kron(eye(2**s1), op), right)` with `right = eye(2**(L-1-s2)) if s2 < L-1 else eye(1)` — truncated
    subtraction gives exactly that, including the silent `eye(1)` for an out-of-range `s2 ≥ L` -/
def embed2 [Mul α] [Zero α] [One α] (L sa sb : Nat) (op : Mat α) : Option (Mat α) :=
  let s1 := min sa sb
  let s2 := max sa sb
  if s2 ≠ s1 + 1 then none
  else some (kron (kron (eye (2 ^ s1)) op) (eye (2 ^ (L - 1 - s2))))

/-- `_embed_generic`, factor pair: `s1, s2 = sites` (not sorted here); `ops[s1] = op1; ops[s2] = op2` -/
def embedF [Mul α] [Zero α] [One α] (L s1 s2 : Nat) (op1 op2 : Mat α) : Option (Mat α) :=
  if s1 < L ∧ s2 < L then kronAll (((List.replicate L (eye 2)).set s1 op1).set s2 op2) else none

/-- left-nested product of the selected entries, in the order the code multiplies them -/
def entryProd [Mul α] (a : α) : List (Mat α) → List Nat → List Nat → α
  | A :: As, b :: bs, c :: cs => entryProd (a * A.e b c) As bs cs
  | _, _, _ => a

/-- matrix from a row-major list of entries (driver input) -/
def ofList [Zero α] (r c : Nat) (xs : List α) : Mat α :=
  ⟨r, c, fun i j => if i < r ∧ j < c then (xs[i * c + j]?).getD 0 else 0⟩

end Yaqs.Index
