/-
  Model.Params — what one `simulator.run` does to the parameter object it is given (core Lean only).

  Mirrors (after the `fix:` commits 9706f88 (D13), 5eddc3a (D14) and 7334db6 (D26))
    * `simulator._run_strong_sim`   → `runStrong`   (`runStrongOld`: code as found, trajectory count not restored)
    * `simulator._run_analog`       → `runAnalog`   (`runAnalogOld`)
    * `simulator._run_weak_sim`     → `runWeak`     (`runWeakOld`: code as found, measurement storage not re-initialised)
    * `Observable.initialize`       → `rows := replicate num_traj none`  (`np.empty`: uninitialised rows)
    * `aggregate_trajectories`      → `meanRows`
    * `WeakSimParams.aggregate_measurements` → `aggregate`
    * the predicate `noise_model is None or all(proc["strength"] == 0 …)` → `isNoiseFree`
    * `simulator.run` dispatch on the parameter class → `runObj`, a sequence of runs on one object → `history`

  The back-end (one trajectory) is a parameter: `be i` is the value a strong / analog trajectory `i` contributes,
  `bw i s` the counts trajectory `i` returns when it reads `shots = s` from the object (`digital_tjm` calls
  `measure_shots(sim_params.shots)` noise-free and `measure_shots(1)` otherwise, and the object holds `1` then).
-/
namespace Yaqs.Params

/-- `dict[int, int]` as an association list (outcome, count) -/
abbrev Counts := List (Nat × Nat)

def total (c : Counts) : Nat := (c.map (·.2)).sum

/-- `results[key] = results.get(key, 0) + value` -/
def addCount : Counts → Nat → Nat → Counts
  | [], k, v => [(k, v)]
  | (k', v') :: rest, k, v => if k' = k then (k', v' + v) :: rest else (k', v') :: addCount rest k v

def addAll (acc d : Counts) : Counts := d.foldl (fun a kv => addCount a kv.1 kv.2) acc

def insertSorted (kv : Nat × Nat) : Counts → Counts
  | [] => [kv]
  | x :: xs => if kv.1 ≤ x.1 then kv :: x :: xs else x :: insertSorted kv xs

/-- `dict(sorted(results.items()))` -/
def sortCounts (c : Counts) : Counts := c.foldr insertSorted []

inductive Err
  | assertGetState   -- "Cannot return state in noisy … simulation due to stochastics."
  | indexError       -- `measurements[i] = result` beyond the list
  | assertFirstNone  -- `assert self.measurements[0] is not None`
  deriving DecidableEq, Repr

inductive Kind
  | strong | weak | analog
  deriving DecidableEq, Repr

/-- the state of a `StrongSimParams` / `WeakSimParams` / `AnalogSimParams` object that the run policy reads or writes -/
structure Obj where
  kind : Kind
  numTraj : Nat                           -- `num_traj`
  shots : Nat                             -- `shots` (weak)
  getState : Bool                         -- `get_state`
  lindblad : Bool                         -- analog: `solver == "Lindblad"`
  measurements : List (Option Counts)     -- weak: `measurements`
  rows : List (Option Rat)                -- `Observable.trajectories`, one entry per row (`none` = uninitialised `np.empty`)
  results : Option Rat                    -- `Observable.results` (`none` = mean over nothing / over uninitialised rows)
  counts : Counts                         -- weak: `results`
  deriving Repr

/-- what one run hands back besides the mutated object -/
structure Out where
  obj : Obj
  executed : List Nat        -- trajectory indices passed to the back-end, in order
  shotsSeen : Nat            -- weak: the value of `shots` on the object while the back-end ran
  err : Option Err
  deriving Repr

/-- `noise_model is None or all(proc["strength"] == 0 for proc in noise_model.processes)` -/
def isNoiseFree : Option (List Rat) → Bool
  | none => true
  | some ss => ss.all (· == 0)

/-- `for i in range(n): store[i] = f(i)` with Python's `IndexError`; returns (store, indices executed, failed?) -/
def fillLoop {β : Type} (f : Nat → β) : List Nat → List (Option β) → List Nat → List (Option β) × List Nat × Bool
  | [], st, ex => (st, ex.reverse, false)
  | i :: is, st, ex =>
    if i < st.length then fillLoop f is (st.set i (some (f i))) (i :: ex) else (st, (i :: ex).reverse, true)

def sumRows : List (Option Rat) → Option Rat
  | [] => some 0
  | none :: _ => none
  | some x :: rest => (sumRows rest).map (x + ·)

/-- `np.mean(trajectories, axis=0)`; `none` for an empty or partly uninitialised array -/
def meanRows (rows : List (Option Rat)) : Option Rat :=
  if rows.isEmpty then none else (sumRows rows).map (· / (rows.length : Rat))

/-- `WeakSimParams.aggregate_measurements` -/
def aggregate (ms : List (Option Counts)) : Except Err Counts :=
  if ms.any (·.isNone) then
    match ms with
    | some c :: _ => .ok (sortCounts c)
    | _ => .error .assertFirstNone
  else .ok (sortCounts ((ms.filterMap id).foldl addAll []))

/-- shared body of `_run_strong_sim` / `_run_analog`; `single` = "one trajectory suffices" -/
def runTraj (restore : Bool) (p : Obj) (single : Bool) (be : Nat → Rat) : Out :=
  let requested := p.numTraj                                         -- requested_num_traj = sim_params.num_traj
  if !single && p.getState then ⟨p, [], p.shots, some .assertGetState⟩  -- else-branch assert, nothing written yet
  else
    let p1 := if single then { p with numTraj := 1 } else p          -- sim_params.num_traj = 1
    let rows0 : List (Option Rat) := List.replicate p1.numTraj none  -- observable.initialize(sim_params)
    let (rows, ex, _) := fillLoop be (List.range p1.numTraj) rows0 []  -- trajectories[i] = result[obs_index]
    let p2 := { p1 with rows := rows, results := meanRows rows }     -- aggregate_trajectories()
    let p3 := if restore then { p2 with numTraj := requested } else p2  -- sim_params.num_traj = requested_num_traj
    ⟨p3, ex, p.shots, none⟩

def runStrong (p : Obj) (noiseFree : Bool) (be : Nat → Rat) : Out := runTraj true p noiseFree be
def runStrongOld (p : Obj) (noiseFree : Bool) (be : Nat → Rat) : Out := runTraj false p noiseFree be
def runAnalog (p : Obj) (noiseFree : Bool) (be : Nat → Rat) : Out := runTraj true p (noiseFree || p.lindblad) be
def runAnalogOld (p : Obj) (noiseFree : Bool) (be : Nat → Rat) : Out := runTraj false p (noiseFree || p.lindblad) be

/-- `_run_weak_sim`.  `reinit = false` is the code as found (D14: storage not re-initialised); `assertFirst = false` is
    the code before 7334db6 (D26: the `get_state` assertion came after `num_traj = shots; shots = 1`). -/
def runWeakG (reinit assertFirst : Bool) (p : Obj) (noiseFree : Bool) (bw : Nat → Nat → Counts) : Out :=
  let p0 := if reinit then { p with measurements := List.replicate p.shots none } else p   -- measurements = [None]*shots
  if !noiseFree && p.getState && assertFirst then ⟨p0, [], p0.shots, some .assertGetState⟩  -- refused before the overwrite
  else
    let p1 := if noiseFree then { p0 with numTraj := 1 }             -- sim_params.num_traj = 1
              else { p0 with numTraj := p0.shots, shots := 1 }       -- num_traj = shots; shots = 1
    if !noiseFree && p.getState then ⟨p1, [], p1.shots, some .assertGetState⟩  -- old order: assert after the overwrite
    else
      let (ms, ex, failed) := fillLoop (fun i => bw i p1.shots) (List.range p1.numTraj) p1.measurements []
      let p2 := { p1 with measurements := ms }
      if failed then ⟨p2, ex, p1.shots, some .indexError⟩
      else
        let p3 := if noiseFree then p2 else { p2 with shots := p2.numTraj }   -- shots = num_traj
        match aggregate p3.measurements with
        | .ok c => ⟨{ p3 with counts := c }, ex, p1.shots, none⟩
        | .error e => ⟨{ p3 with counts := [] }, ex, p1.shots, some e⟩          -- `self.results = {}` precedes the assert

def runWeak (p : Obj) (noiseFree : Bool) (bw : Nat → Nat → Counts) : Out := runWeakG true true p noiseFree bw
def runWeakOld (p : Obj) (noiseFree : Bool) (bw : Nat → Nat → Counts) : Out := runWeakG false false p noiseFree bw
def runWeakAssertLate (p : Obj) (noiseFree : Bool) (bw : Nat → Nat → Counts) : Out := runWeakG true false p noiseFree bw

/-- the arguments of one `simulator.run` call besides the shared parameter object -/
structure Arg where
  noise : Option (List Rat)        -- `None` or the strengths of the (sampled) noise model
  be : Nat → Rat                   -- what trajectory `i` of this run contributes (circuit / Hamiltonian / state / noise)
  bw : Nat → Nat → Counts          -- weak mode: counts of trajectory `i` when the object says `shots = s`

/-- `simulator.run`: dispatch on the class of the parameter object -/
def runObj (p : Obj) (a : Arg) : Out :=
  match p.kind with
  | .strong => runStrong p (isNoiseFree a.noise) a.be
  | .weak => runWeak p (isNoiseFree a.noise) a.bw
  | .analog => runAnalog p (isNoiseFree a.noise) a.be

def runObjOld (p : Obj) (a : Arg) : Out :=
  match p.kind with
  | .strong => runStrongOld p (isNoiseFree a.noise) a.be
  | .weak => runWeakOld p (isNoiseFree a.noise) a.bw
  | .analog => runAnalogOld p (isNoiseFree a.noise) a.be

/-- the tree between 5eddc3a and 7334db6: everything repaired except the position of the weak `get_state` assertion -/
def runObjAssertLate (p : Obj) (a : Arg) : Out :=
  match p.kind with
  | .strong => runStrong p (isNoiseFree a.noise) a.be
  | .weak => runWeakAssertLate p (isNoiseFree a.noise) a.bw
  | .analog => runAnalog p (isNoiseFree a.noise) a.be

/-- consecutive runs on one object (an exception is caught by the caller, the object lives on) -/
def historyG (run : Obj → Arg → Out) : Obj → List Arg → List Out
  | _, [] => []
  | p, a :: rest => let o := run p a; o :: historyG run o.obj rest

def history := historyG runObj
def historyOld := historyG runObjOld
def historyAssertLate := historyG runObjAssertLate

/-- a freshly constructed parameter object -/
def fresh (kind : Kind) (numTraj shots : Nat) (getState lindblad : Bool) : Obj :=
  { kind, numTraj := if kind = .weak then 0 else numTraj, shots, getState, lindblad,
    measurements := List.replicate shots none, rows := [], results := none, counts := [] }

/-- the number of trajectories the caller asked for with this object and this noise model -/
def expected (p : Obj) (a : Arg) : Nat :=
  match p.kind with
  | .strong => if isNoiseFree a.noise then 1 else p.numTraj
  | .analog => if isNoiseFree a.noise || p.lindblad then 1 else p.numTraj
  | .weak => if isNoiseFree a.noise then 1 else p.shots

end Yaqs.Params
