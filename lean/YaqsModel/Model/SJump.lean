/-
  Model.SJump — the time-matching rule of scheduled jumps (core Lean only).

  mirrors core/methods/scheduled_jumps.py (after repair D17):
    has_scheduled_jump(noise_model, time, dt)      = any(np.isclose(jump["time"], time, rtol=0.0, atol=dt*1e-3) …)
    apply_scheduled_jumps(state, noise_model, time, sim_params): the same predicate, jump by jump, in list order

  `np.isclose(a, b, rtol, atol)` is `|a - b| <= atol + rtol * |b|` (a = the jump's time, b = the grid time).
  Times are exact rationals here; the correspondence check feeds the binary64 values the code saw.
-/
namespace Yaqs.SJump

def absQ (x : Rat) : Rat := if x < 0 then -x else x

/-- `np.isclose(a, b, rtol=rtol, atol=atol)` for finite arguments -/
def isclose (a b rtol atol : Rat) : Bool := absQ (a - b) ≤ atol + rtol * absQ b

/-- the repaired rule: `rtol = 0`, `atol = dt·10⁻³` -/
def jmatch (tj t dt : Rat) : Bool := isclose tj t 0 (dt * (1 / 1000))

/-- the rule as found: numpy's default `rtol = 10⁻⁵` on top (D17) -/
def jmatchOld (tj t dt : Rat) : Bool := isclose tj t (1 / 100000) (dt * (1 / 1000))

/-- `has_scheduled_jump` (`jumps` = the `time` fields of `noise_model.scheduled_jumps`, in list order;
    `noise_model is None or not scheduled_jumps` is the empty list) -/
def hasJump (jumps : List Rat) (t dt : Rat) : Bool := jumps.any (fun tj => jmatch tj t dt)

def hasJumpOld (jumps : List Rat) (t dt : Rat) : Bool := jumps.any (fun tj => jmatchOld tj t dt)

/-- positions (in `scheduled_jumps`) of the operators `apply_scheduled_jumps` applies for grid time `t`, in order -/
def applied (jumps : List Rat) (t dt : Rat) : List Nat :=
  (List.range jumps.length).filter (fun i => match jumps[i]? with
    | some tj => jmatch tj t dt
    | none => false)

/-- the exact grid `t_k = k·dt` -/
def gridTime (dt : Rat) (k : Nat) : Rat := (k : Rat) * dt

/-- grid indices `k < n` at which a jump list fires — the `J` of `Model/Pipeline.lean` restricted to one grid -/
def firing (jumps : List Rat) (times : List Rat) (dt : Rat) : List Nat :=
  (List.range times.length).filter (fun k => match times[k]? with
    | some t => hasJump jumps t dt
    | none => false)

end Yaqs.SJump
