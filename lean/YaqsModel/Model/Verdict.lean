/-
  Model.Verdict — the equivalence checker's decision and the integer/list logic of its MPO build (C04).
  Core Lean only.

  Part A mirrors `MPO.check_if_identity` (core/data_structures/networks.py):
      return not np.abs(trace) / 2**self.length < fidelity
  `t` is the modulus `|trace|` the code computed (a binary64, shipped as an exact rational; dividing a
  binary64 by `2**n` is exact, so the model and the code take the same decision on the same `t`).

  Part B mirrors the *logic* of `iterate` (digital/utils/mpo_utils.py) and of `select_starting_point`,
  `check_longest_gate`, `get_temporal_zone` (digital/utils/dag_utils.py): which gates of which circuit are
  consumed by which update, in which order.  A DAGCircuit is modelled as the list of its remaining
  instructions in circuit order (the wire-dependency front of an instruction list); the tensor numerics
  (`apply_gate`, `decompose_theta`, the long-range gate MPO contraction) are *not* modelled here — they are
  tied numerically by the harness.  Barriers/measurements are outside this model.
-/
namespace Yaqs.Verdict

/-! ## Part A — the verdict -/

/-- `MPO.check_if_identity` (repaired code): `not |trace| / 2**n < fidelity`. -/
def verdict (t : Rat) (n : Nat) (f : Rat) : Bool := !(decide (t / (2 : Rat) ^ n < f))

/-- `np.round(x, 1)`: round-half-even of `x` to one decimal (exact version). -/
def roundHalfEven1 (t : Rat) : Rat :=
  let x := t * 10
  let fl : Int := x.floor
  let r := x - (fl : Rat)
  let k : Int := if r < 1 / 2 then fl else if 1 / 2 < r then fl + 1 else if fl % 2 = 0 then fl else fl + 1
  (k : Rat) / 10

/-- code as found (before `fix:` d197394): `not np.round(|trace|, 1) / 2**n < fidelity`. -/
def verdictRounded (t : Rat) (n : Nat) (f : Rat) : Bool :=
  !(decide (roundHalfEven1 t / (2 : Rat) ^ n < f))

/-! ## Part B — circuits, fronts, temporal zones, the `iterate` loop -/

/-- one instruction: its position in the original circuit and its qubits (`qargs[k]._index`, in order) -/
structure Instr where
  id : Nat
  qs : List Nat
deriving DecidableEq, Repr

/-- a DAGCircuit = the remaining instructions in circuit order -/
abbrev Dag := List Instr
abbrev State := Dag × Dag

/-- the two qubit lists share no wire -/
def disj (a b : List Nat) : Bool := a.all (fun q => !b.contains q)

/-- `abs(q[0] - q[-1]) + 1` for multi-qubit gates, `1` otherwise (`check_longest_gate`) -/
def dist (qs : List Nat) : Nat :=
  if qs.length > 1 then
    let a := qs.head?.getD 0
    let b := qs.getLast?.getD 0
    (a - b) + (b - a) + 1
  else 1

def maxQ (qs : List Nat) : Nat := qs.foldr max 0

/-- first layer of `dag.layers()`: the instructions none of whose wires is used by an earlier remaining
    instruction, with their positions in the list -/
def frontGates (d : Dag) : List (Nat × Instr) :=
  (List.range d.length).filterMap fun i =>
    match d[i]? with
    | some g => if (d.take i).all (fun h => disj h.qs g.qs) then some (i, g) else none
    | none => none

/-- first minimiser of `key` -/
def argmin {α} (key : α → Nat) : List α → Option α
  | [] => none
  | a :: as =>
    match argmin key as with
    | none => some a
    | some b => if key a ≤ key b then some a else some b

/-- order in which qiskit lists the gates of the first layer (`dag_to_circuit(first_layer["graph"]).data`):
    a gate is emitted when the last of its input wires has been visited, i.e. by increasing largest qubit.
    Only "the first gate with property p" is ever used by the code, so the model picks the minimiser. -/
def firstInLayer (p : Instr → Bool) (d : Dag) : Option (Nat × Instr) :=
  argmin (fun x => maxQ x.2.qs) ((frontGates d).filter (fun x => p x.2))

/-- `check_longest_gate` -/
def longest (d : Dag) : Nat :=
  (((frontGates d).filter (fun x => x.2.qs.length > 1)).map (fun x => dist x.2.qs)).foldr max 1

/-- `select_starting_point`: `odd` flag -/
def startOdd (d : Dag) : Bool :=
  match firstInLayer (fun g => g.qs.length == 2) d with
  | some x => (x.2.qs.head?.getD 0) % 2 != 0
  | none => false

/-- `select_starting_point`: `list(first_iterator) ++ list(second_iterator)` -/
def startIts (n : Nat) (odd : Bool) : List Nat :=
  let ev := (List.range (n - 1)).filter (fun m => m % 2 == 0)
  let od := (List.range (n - 1)).filter (fun m => m % 2 == 1)
  if odd then od ++ ev else ev ++ od

/-- `get_temporal_zone(dag, [n, n+1])` with `cone = [n, n+1]`: (gates moved into the zone, gates left).
    A gate inside the cone is taken; any other gate stays and removes its wires from the cone. -/
def zone : List Nat → Dag → Dag × Dag
  | _, [] => ([], [])
  | cone, g :: rest =>
    if g.qs.all (fun q => cone.contains q) then
      let r := zone cone rest
      (g :: r.1, r.2)
    else
      let r := zone (cone.filter (fun q => !g.qs.contains q)) rest
      (r.1, g :: r.2)

inductive Ev where
  /-- `apply_temporal_zone(theta, dag_c, [n, n+1])` consumed `gs` (in this order) -/
  | zone (c n : Nat) (gs : List Instr)
  /-- `apply_long_range_layer` removed `g` from circuit `c` and applies its gate MPO -/
  | lr (c : Nat) (g : Instr)
deriving DecidableEq, Repr

/-- `update_mpo(mpo, dag1, dag2, [m, m+1])`: zone of circuit 1, then zone of circuit 2 (conjugated) -/
def zoneStep (s : State) (m : Nat) : List Ev × State :=
  let z1 := zone [m, m + 1] s.1
  let z2 := zone [m, m + 1] s.2
  ([Ev.zone 1 m z1.1, Ev.zone 2 m z2.1], (z1.2, z2.2))

/-- `apply_layer` (with `ms = first_iterator ++ second_iterator`) and the pair loop of
    `apply_long_range_layer` -/
def zonePass : List Nat → State → List Ev × State
  | [], s => ([], s)
  | m :: ms, s =>
    let r := zoneStep s m
    let r' := zonePass ms r.2
    (r.1 ++ r'.1, r'.2)

/-- left sites of the pairs visited by `apply_long_range_layer` for a gate MPO on sites
    `loc … loc+len-1`: even gate-MPO sites `i ≠ len-1` give `(loc+i, loc+i+1)`; a hanging last tensor
    (odd `len`) gives `(loc+len-2, loc+len-1)`. -/
def lrPairs (loc len : Nat) : List Nat :=
  (List.range len).filterMap fun i =>
    if i ≠ len - 1 ∧ i % 2 = 0 then some (loc + i)
    else if i = len - 1 ∧ len % 2 = 1 then some (loc + i - 1)
    else none

/-- `apply_long_range_layer(mpo, dag1, dag2, threshold, conjugate=conj)`; `none` = the assertion
    "Long-range gate MPO not found" -/
def longRange (conj : Bool) (s : State) : Option (List Ev × State) :=
  let d := if conj then s.2 else s.1
  match firstInLayer (fun g => decide (g.qs.length > 1) && decide (dist g.qs > 2)) d with
  | none => none
  | some (i, g) =>
    let d' := d.eraseIdx i
    let s' : State := if conj then (s.1, d') else (d', s.2)
    let loc := min (g.qs.head?.getD 0) (g.qs.getLast?.getD 0)
    let r := zonePass (lrPairs loc (dist g.qs)) s'
    some (Ev.lr (if conj then 2 else 1) g :: r.1, r.2)

inductive Res where
  | done (evs : List Ev)
  | outOfFuel
  | assertFail
deriving DecidableEq, Repr

def Res.prepend (e : List Ev) : Res → Res
  | .done evs => .done (e ++ evs)
  | r => r

/-- the `while dag1.op_nodes() or dag2.op_nodes()` loop of `iterate`, with fuel -/
def loop (its : List Nat) : Nat → State → Res
  | 0, s => if s.1.isEmpty && s.2.isEmpty then .done [] else .outOfFuel
  | k + 1, s =>
    if s.1.isEmpty && s.2.isEmpty then .done []
    else if longest s.1 ≤ 2 ∧ longest s.2 ≤ 2 then
      let r := zonePass its s
      (loop its k r.2).prepend r.1
    else
      match longRange (decide (longest s.2 > longest s.1)) s with
      | none => .assertFail
      | some r => (loop its k r.2).prepend r.1

/-- `iterate(mpo, dag1, dag2, threshold)` on an `n`-site MPO (`select_starting_point` asserts `n > 1`) -/
def iterate (n : Nat) (c1 c2 : Dag) (fuel : Nat) : Res :=
  if n < 2 then .assertFail
  else loop (startIts n (startOdd (if c1.isEmpty then c2 else c1))) fuel (c1, c2)

/-- the gates of circuit `c` consumed by an event, in the order they are applied -/
def Ev.consumed (c : Nat) : Ev → List Instr
  | .zone c' _ gs => if c' = c then gs else []
  | .lr c' g => if c' = c then [g] else []

def consumed (c : Nat) (evs : List Ev) : List Instr := evs.flatMap (Ev.consumed c)

/-! ## Specification vocabulary (used by the theorems) -/

/-- `Takes d σ r`: starting from the remaining instructions `d`, the sequence `σ` can be removed gate by gate,
    each gate having at that moment no earlier remaining gate on any of its wires, leaving `r`. -/
inductive Takes : Dag → List Instr → Dag → Prop
  | nil (d : Dag) : Takes d [] d
  | cons (pre post : Dag) (g : Instr) (σ : List Instr) (r : Dag)
      (hfree : ∀ h ∈ pre, disj h.qs g.qs = true)
      (hrest : Takes (pre ++ post) σ r) : Takes (pre ++ g :: post) (g :: σ) r

/-- `σ` is a wire-respecting linearisation of the whole circuit `d` (every gate exactly once) -/
def Lin (d : Dag) (σ : List Instr) : Prop := Takes d σ []

/-- circuit well-formed for an `n`-site MPO: one- or two-qubit gates on qubits `< n` -/
def WF (n : Nat) (d : Dag) : Prop := ∀ g ∈ d, (g.qs.length = 1 ∨ g.qs.length = 2) ∧ ∀ q ∈ g.qs, q < n

/-- instruction list of a circuit given as a list of qubit lists -/
def mkDag (qss : List (List Nat)) : Dag := (List.range qss.length).zipWith (fun i qs => ⟨i, qs⟩) qss

end Yaqs.Verdict
