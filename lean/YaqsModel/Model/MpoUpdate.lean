/-
  Model.MpoUpdate — index-algebra model of the tensor contractions of the equivalence checker (C04, extension).
  Core Lean only.  Tensors are functions of their indices (natural numbers) in the index order of the numpy arrays;
  dimensions travel separately; every contraction is an explicit finite sum `sumTo` (as in `Model/Heff.lean`).

  mirrors  digital/utils/mpo_utils.py
    update_mpo            einsum "abcd, efdg->aecbfg"                     → thetaOf
    apply_gate            np.transpose(theta, (3,4,2,0,1,5))              → swapLegs
                          "ij, jklmno->iklmno" / "ij, kjlmno->kilmno" /
                          "ijkl, klmnop->ijmnop", np.conj when conjugate,
                          `gate.name == "I"`, the three `assert`s         → contractOne0, contractOne1, contractTwo, applyGate
    apply_temporal_zone   `for gate in tensor_circuit: theta = apply_gate(gate, theta, n, n+1, conjugate=…)`
                                                                          → zoneApply   (the *extraction* of the zone is
                                                                            `Model/Verdict.zone`)
    update_mpo            zone of circuit 1 on top, zone of circuit 2 conjugated from below (both DAG objects are
                          truthy, so the branch `dag1 is None` is never taken from `iterate`)   → updateTheta
    decompose_theta       transpose (0,3,2,1,4,5) + reshape               → thetaMatrix
                          the two reshapes / the transpose (1,2,0,3) of the factors, `s_list > threshold`
                                                                          → dtLeft, dtRight, decomposeTheta
                          (the LAPACK SVD enters as data `MpoConv.Dec`, as in C07/C09)
    apply_long_range_layer  the four einsums that stack a gate-MPO tensor on an MPO tensor
                          "abcd,edfg,chij,fjkl->aebhikgl" / "...->ikhbaelg", "abcd,cefg->abefdg" / "->febagd",
                          "abcd, edfg->aebcfg", with their reshapes       → lrPairTop, lrPairBottom, lrHangTop,
                                                                            lrHangBottom, lrHangTheta
  and       core/data_structures/networks.py
    MPO.to_mps            reshape (d·d, Dl, Dr)                           → toMps
    MPS.scalar_product    "abc,ade->bdce", "abcd,cdef->abef", np.conj of the first state, np.squeeze
                                                                          → spTheta, spStep, spLoop, scalarProduct
    MPO.check_if_identity scalar product with the identity MPO (physical dimension 2), `not |trace| / 2**n < f`
                                                                          → identityTrace, identityDecision

  An MPO tensor is `MpoConv.Site` (`e a b l r = tensor[a, b, l, r]`, a = σ (row / output), b = σ' (column / input)).
  The two-site block `theta` has legs `(σ₀, σ₁, left, σ'₀, σ'₁, right)`.  All physical legs have the same dimension `d`
  (the checker: qubits, `d = 2`; `decompose_theta`'s reshape silently relies on it).
-/
import YaqsModel.Basic.CRat
import YaqsModel.Model.MpoConv
import YaqsModel.Model.Verdict

namespace Yaqs.MpoUpdate
open Yaqs.MpoConv (Site sumTo Dec identityMpo)

abbrev T3 (K : Type) := Nat → Nat → Nat → K
abbrev T4 (K : Type) := Nat → Nat → Nat → Nat → K
abbrev T6 (K : Type) := Nat → Nat → Nat → Nat → Nat → Nat → K

/-- a gate object as `apply_gate` reads it: `gate.name == "I"`, `gate.interaction`, `gate.sites`, `gate.matrix`
    (used for one-site gates) and `gate.tensor` (used for two-site gates) -/
structure Gate (K : Type) where
  isId : Bool
  interaction : Nat
  sites : List Nat
  mat : Nat → Nat → K
  ten : T4 K

/-- what `np.linalg.svd(theta_matrix, full_matrices=False)` returned (shared with C07's model) -/
abbrev Svd (K : Type) := Dec K

section generic
variable {K : Type} [Zero K] [One K] [Add K] [Mul K]

/-! ## `update_mpo`: merging two neighbouring MPO tensors -/

/-- `theta = oe.contract("abcd, efdg->aecbfg", mpo.tensors[n], mpo.tensors[n+1])`:
    `theta[a, e, c, b, f, g] = Σ_x A[a, b, c, x] · B[e, f, x, g]` — legs `(σ₀, σ₁, left, σ'₀, σ'₁, right)` -/
def thetaOf (A B : Site K) : T6 K :=
  fun a e c b f g => sumTo A.dr fun x => A.e a b c x * B.e e f x g

/-! ## `apply_gate` -/

/-- `np.transpose(theta, (3, 4, 2, 0, 1, 5))`: exchanges the upper with the lower physical legs (an involution) -/
def swapLegs (θ : T6 K) : T6 K := fun i0 i1 i2 i3 i4 i5 => θ i3 i4 i2 i0 i1 i5

/-- `oe.contract("ij, jklmno->iklmno", M, theta)` -/
def contractOne0 (d : Nat) (M : Nat → Nat → K) (θ : T6 K) : T6 K :=
  fun i k l m n o => sumTo d fun j => M i j * θ j k l m n o

/-- `oe.contract("ij, kjlmno->kilmno", M, theta)` -/
def contractOne1 (d : Nat) (M : Nat → Nat → K) (θ : T6 K) : T6 K :=
  fun k i l m n o => sumTo d fun j => M i j * θ k j l m n o

/-- `oe.contract("ijkl, klmnop->ijmnop", G, theta)` -/
def contractTwo (d : Nat) (G : T4 K) (θ : T6 K) : T6 K :=
  fun i j m n o p => sumTo d fun k => sumTo d fun l => G i j k l * θ k l m n o p

/-- the three `assert`s of `apply_gate` hold (`theta.ndim == 6` always does here) -/
def gateOk (g : Gate K) (site0 site1 : Nat) : Bool :=
  let q0 := g.sites.headD 0
  let q1 := g.sites.tail.headD 0
  if g.interaction = 1 then decide (q0 = site0 ∨ q0 = site1)
  else if g.interaction = 2 then decide ((q0 = site0 ∨ q0 = site1) ∧ (q1 = site0 ∨ q1 = site1))
  else false

/-- the branch `apply_gate` takes between its two transposes, with `c` the entry-wise map applied to the gate
    (`np.conj` when `conjugate`, nothing otherwise).  A one-site gate that passed the assertion and is not on `site0`
    is on `site1`. -/
def gateCore (c : K → K) (d : Nat) (g : Gate K) (site0 : Nat) (θ : T6 K) : T6 K :=
  if g.isId then θ
  else if g.interaction = 1 then
    (if g.sites.headD 0 = site0 then contractOne0 d (fun i j => c (g.mat i j)) θ
     else contractOne1 d (fun i j => c (g.mat i j)) θ)
  else contractTwo d (fun i j k l => c (g.ten i j k l)) θ

/-- `apply_gate(gate, theta, site0, site1, conjugate=…)`; `none` = `AssertionError`.  `cj` is `np.conj`. -/
def applyGate (cj : K → K) (d : Nat) (g : Gate K) (θ : T6 K) (site0 site1 : Nat) (conjugate : Bool) : Option (T6 K) :=
  if gateOk g site0 site1 then
    some (if conjugate then swapLegs (gateCore cj d g site0 (swapLegs θ)) else gateCore id d g site0 θ)
  else none

/-! ## `apply_temporal_zone`, `update_mpo` -/

/-- the loop of `apply_temporal_zone` over the gates of the zone, in the order `convert_dag_to_tensor_algorithm`
    lists them, at sites `(n, n+1)` -/
def zoneApply (cj : K → K) (d n : Nat) (conjugate : Bool) : List (Gate K) → T6 K → Option (T6 K)
  | [], θ => some θ
  | g :: gs, θ =>
    match applyGate cj d g θ n (n + 1) conjugate with
    | none => none
    | some θ' => zoneApply cj d n conjugate gs θ'

/-- `update_mpo` up to the call of `decompose_theta`: merge, zone of circuit 1 from above, zone of circuit 2
    conjugated from below -/
def updateTheta (cj : K → K) (d n : Nat) (A B : Site K) (gs1 gs2 : List (Gate K)) : Option (T6 K) :=
  match zoneApply cj d n false gs1 (thetaOf A B) with
  | none => none
  | some θ1 => zoneApply cj d n true gs2 θ1

/-! ## `decompose_theta` -/

/-- `np.reshape(np.transpose(theta, (0, 3, 2, 1, 4, 5)), (d·d·Dl, d·d·Dr))`: row index `(σ₀·d + σ'₀)·Dl + left`,
    column index `(σ₁·d + σ'₁)·Dr + right` -/
def thetaMatrix (d Dl Dr : Nat) (θ : T6 K) : Nat → Nat → K :=
  fun r c => θ (r / Dl / d) (c / Dr / d) (r % Dl) (r / Dl % d) (c / Dr % d) (c % Dr)

/-- `u_tensor = np.reshape(u_mat[:, :keep], (d, d, Dl, keep))` -/
def dtLeft (d Dl keep : Nat) (U : Nat → Nat → K) : Site K :=
  ⟨d, Dl, keep, fun a b l p => U ((a * d + b) * Dl + l) p⟩

/-- `m_tensor = np.transpose(np.reshape(np.diag(s_list) @ v_mat[:keep], (keep, d, d, Dr)), (1, 2, 0, 3))` -/
def dtRight (d Dr keep : Nat) (sv : Nat → K) (Vh : Nat → Nat → K) : Site K :=
  ⟨d, keep, Dr, fun e f p g => sv p * Vh p ((e * d + f) * Dr + g)⟩

/-- `decompose_theta(theta, threshold)` given the SVD of `thetaMatrix`: `keep = len(s_list[s_list > threshold])`
    (C09's `Rank.keepTheta`) -/
def decomposeTheta (d Dl Dr : Nat) (dec : Svd K) (thr : Rat) : Site K × Site K :=
  let keep := Rank.keepTheta dec.s thr
  (dtLeft d Dl keep dec.U, dtRight d Dr keep dec.sv dec.Vh)

/-- the truncated product `u[:, :keep] · diag(s[:keep]) · vh[:keep]` -/
def truncProd (keep : Nat) (dec : Svd K) : Nat → Nat → K :=
  fun i j => sumTo keep fun p => dec.U i p * (dec.sv p * dec.Vh p j)

/-! ## `apply_long_range_layer`: stacking a gate-MPO tensor on an MPO tensor -/

/-- product of two MPO tensors on one site, first factor on top, its bond index most significant:
    `(G·W)[a, b, L, R] = Σ_c G[a, c, L / W.dl, R / W.dr] · W[c, b, L % W.dl, R % W.dr]` -/
def mulSite (G W : Site K) : Site K :=
  ⟨W.d, G.dl * W.dl, G.dr * W.dr,
   fun a b L R => sumTo W.d fun c => G.e a c (L / W.dl) (R / W.dr) * W.e c b (L % W.dl) (R % W.dr)⟩

/-- the non-conjugate pair branch: the four `np.transpose(·, (0,2,1,3))`, the einsum
    `"abcd,edfg,chij,fjkl->aebhikgl"` and the reshape `(d, d, b·h, d, d, g·l)`;
    `G0, G1` gate-MPO tensors, `W0, W1` MPO tensors (all in the stored layout `(σ, σ', left, right)`) -/
def lrPairTop (G0 G1 W0 W1 : Site K) : T6 K :=
  fun a e L i k R =>
    sumTo W0.d fun c => sumTo G0.dr fun dd => sumTo W1.d fun f => sumTo W0.dr fun j =>
      G0.e a c (L / W0.dl) dd * G1.e e f dd (R / W1.dr) * W0.e c i (L % W0.dl) j * W1.e f k j (R % W1.dr)

/-- the conjugate pair branch: `mpo.rotate()` before and after (so the MPO tensors enter with their physical legs
    exchanged), the einsum `"abcd,edfg,chij,fjkl->ikhbaelg"` and the reshape `(d, d, h·b, d, d, l·g)`;
    `G0, G1` are the tensors of the gate MPO *as stored at that moment* (already `rotate(conjugate=True)`d) -/
def lrPairBottom (G0 G1 W0 W1 : Site K) : T6 K :=
  fun i k L a e R =>
    sumTo W0.d fun c => sumTo G0.dr fun dd => sumTo W1.d fun f => sumTo W0.dr fun j =>
      G0.e a c (L % G0.dl) dd * G1.e e f dd (R % G1.dr) * W0.e i c (L / G0.dl) j * W1.e k f j (R / G1.dr)

/-- hanging last tensor, non-conjugate: einsum `"abcd,cefg->abefdg"` + reshape `(d, b·e, d, d·g)` gives an MPO tensor
    in the layout `(σ, left, σ', right)`; returned here in the stored layout -/
def lrHangTop (G W : Site K) : Site K :=
  ⟨W.d, G.dl * W.dl, G.dr * W.dr,
   fun a f L R => sumTo W.d fun c => G.e a c (L / W.dl) (R / W.dr) * W.e c f (L % W.dl) (R % W.dr)⟩

/-- hanging last tensor, conjugate: `mpo.rotate()`, einsum `"abcd,cefg->febagd"` + reshape `(d, e·b, d, g·d)` -/
def lrHangBottom (G W : Site K) : Site K :=
  ⟨W.d, W.dl * G.dl, W.dr * G.dr,
   fun f a L R => sumTo W.d fun c => G.e a c (L % G.dl) (R % G.dr) * W.e f c (L / G.dl) (R / G.dr)⟩

/-- `theta = oe.contract("abcd, edfg->aebcfg", transpose(mpo.tensors[site-1], (0,2,1,3)), hang)` where `hang` is in
    the layout `(σ, left, σ', right)`: the same two-site block as `thetaOf` -/
def lrHangTheta (Wprev H : Site K) : T6 K :=
  fun a e b c f g => sumTo Wprev.dr fun x => Wprev.e a c b x * H.e e f x g

/-! ## `MPO.to_mps`, `MPS.scalar_product`, `MPO.check_if_identity` -/

/-- an MPS tensor `(phys, left, right)` with its shape -/
structure MpsSite (K : Type) where
  p : Nat
  dl : Nat
  dr : Nat
  e : T3 K

/-- `MPO.to_mps`: `np.reshape(tensor, (d·d, Dl, Dr))` -/
def toMps (t : Site K) : MpsSite K := ⟨t.d * t.d, t.dl, t.dr, fun p l r => t.e (p / t.d) (p % t.d) l r⟩

/-- `theta = oe.contract("abc,ade->bdce", conj(A), B)` -/
def spTheta (cj : K → K) (A B : MpsSite K) : T4 K :=
  fun b d c e => sumTo A.p fun a => cj (A.e a b c) * B.e a d e

/-- `result = oe.contract("abcd,cdef->abef", result, theta)`; `Dc`, `Dd` are the bond dimensions contracted -/
def spStep (Dc Dd : Nat) (R θ : T4 K) : T4 K :=
  fun a b e f => sumTo Dc fun c => sumTo Dd fun d => R a b c d * θ c d e f

/-- the loop `for idx in range(self.length)` after the first site -/
def spLoop (cj : K → K) : T4 K → Nat → Nat → List (MpsSite K × MpsSite K) → T4 K
  | R, _, _, [] => R
  | R, Dc, Dd, (A, B) :: rest => spLoop cj (spStep Dc Dd R (spTheta cj A B)) A.dr B.dr rest

/-- `self.scalar_product(other)` with `sites=None`: `np.complex128(np.squeeze(result))`; `none` = the assertion
    `result is not None` (empty chain) -/
def scalarProduct (cj : K → K) (as bs : List (MpsSite K)) : Option K :=
  match as.zip bs with
  | [] => none
  | (A, B) :: rest => some (spLoop cj (spTheta cj A B) A.dr B.dr rest 0 0 0 0)

/-- the `trace` of `check_if_identity`: `self.to_mps().scalar_product(identity(self.length).to_mps())`
    (`MPO.identity` builds physical dimension 2) -/
def identityTrace (cj : K → K) (ts : List (Site K)) : Option K :=
  scalarProduct cj (ts.map toMps) ((identityMpo ts.length 2).map toMps)

end generic

/-- `not np.abs(trace) / 2**n < fidelity`, decided exactly on the Gaussian-rational trace:
    for `f > 0` the comparison `|tr| / 2ⁿ < f` is `|tr|² < (f · 2ⁿ)²`; for `f ≤ 0` it never holds -/
def identityDecision (tr : CRat) (n : Nat) (f : Rat) : Bool :=
  !(decide (0 < f) && decide (CRat.normSq tr < (f * (2 : Rat) ^ n) * (f * (2 : Rat) ^ n)))

/-! ## materialisation (what numpy does after every call; keeps the driver linear in the number of gates) -/

section tab
variable {K : Type} [Zero K]

/-- all entries of a 6-leg array of shape `(n0, n1, n2, n3, n4, n5)`, row-major -/
def tab6 (n0 n1 n2 n3 n4 n5 : Nat) (θ : T6 K) : Array K :=
  Array.ofFn (n := n0 * n1 * n2 * n3 * n4 * n5) fun k =>
    θ (k.val / n5 / n4 / n3 / n2 / n1) (k.val / n5 / n4 / n3 / n2 % n1) (k.val / n5 / n4 / n3 % n2)
      (k.val / n5 / n4 % n3) (k.val / n5 % n4) (k.val % n5)

/-- read a row-major entry array of shape `(·, n1, n2, n3, n4, n5)` back as a function of six indices -/
def ofTab6 (n1 n2 n3 n4 n5 : Nat) (a : Array K) : T6 K :=
  fun i0 i1 i2 i3 i4 i5 => a.getD (((((i0 * n1 + i1) * n2 + i2) * n3 + i3) * n4 + i4) * n5 + i5) 0

/-- the same for a 4-leg array (used by the driver to print / parse MPO tensors) -/
def tab4 (n0 n1 n2 n3 : Nat) (t : T4 K) : Array K :=
  Array.ofFn (n := n0 * n1 * n2 * n3) fun k => t (k.val / n3 / n2 / n1) (k.val / n3 / n2 % n1) (k.val / n3 % n2) (k.val % n3)

def ofTab4 (n1 n2 n3 : Nat) (a : Array K) : T4 K :=
  fun i0 i1 i2 i3 => a.getD (((i0 * n1 + i1) * n2 + i2) * n3 + i3) 0

end tab

section memo
variable {K : Type} [Zero K] [One K] [Add K] [Mul K]

/-- `zoneApply` with the array materialised after every gate (`theta` of shape `(d, d, Dl, d, d, Dr)`) -/
def zoneApplyM (cj : K → K) (d Dl Dr n : Nat) (conjugate : Bool) : List (Gate K) → Array K → Option (Array K)
  | [], a => some a
  | g :: gs, a =>
    match applyGate cj d g (ofTab6 d Dl d d Dr a) n (n + 1) conjugate with
    | none => none
    | some θ' => zoneApplyM cj d Dl Dr n conjugate gs (tab6 d d Dl d d Dr θ')

/-- `updateTheta`, materialised -/
def updateThetaM (cj : K → K) (d n : Nat) (A B : Site K) (gs1 gs2 : List (Gate K)) : Option (Array K) :=
  match zoneApplyM cj d A.dl B.dr n false gs1 (tab6 d d A.dl d d B.dr (thetaOf A B)) with
  | none => none
  | some a => zoneApplyM cj d A.dl B.dr n true gs2 a

end memo

end Yaqs.MpoUpdate
