import YaqsModel.Basic.CRatM
import YaqsModel.Model.Rank
/-!
  Executable model of the MPS gauge moves (core Lean only — no Mathlib), over Gaussian rationals.

  mirrors  core/data_structures/networks.py   MPS.to_vec                           → `amp`, `toVec`
                                              MPS.flip_network                     → `flip`
                                              MPS.shift_orthogonality_center_right → `shiftRightQR`, `shiftRightQRLast`,
                                                                                      `shiftRightSVD`, `shiftRightEv`
                                              MPS.shift_orthogonality_center_left  → `shiftLeftEv`
                                              MPS.set_canonical_form               → `setCanonEv`
                                              MPS.normalize                        → `normalizeEv`
                                              MPS.truncate                         → `truncateEv`
                                              MPS.pad_bond_dimension               → `padTargets`, `padAll`
                                              MPS.check_canonical_form             → `gramLeft`, `gramRight`, `checkCanonical`
           core/methods/decompositions.py     right_qr                             → `flattenRows`, `reshapeRows`
                                              two_site_svd                         → `thetaMat`, `twoSiteSVD`

  Tensor convention of the code: a site tensor has shape (phys, left, right); here `T[s][l][r]`.
  The numerical factorisations (LAPACK QR / SVD) are *inputs* of the moves: the model only does the
  index bookkeeping (reshape / einsum / transpose conventions) that surrounds them.
-/
namespace Yaqs.Mps

abbrev Mat := List (List CRat)
/-- site tensor, `T[s][l][r]`, numpy shape (phys, left, right) -/
abbrev Tensor := List Mat

/-! ### small dense linear algebra on lists -/

def csum (l : List CRat) : CRat := l.foldr (· + ·) 0

def dot (u v : List CRat) : CRat := csum (List.zipWith (· * ·) u v)

def nrows (m : Mat) : Nat := m.length
def ncols (m : Mat) : Nat := (m.headD []).length

def entry (m : Mat) (i j : Nat) : CRat := (m.getD i []).getD j 0

def col (m : Mat) (j : Nat) : List CRat := m.map (fun row => row.getD j 0)

def transpose (m : Mat) : Mat := (List.range (ncols m)).map (col m)

def conjMat (m : Mat) : Mat := m.map (fun row => row.map CRat.conj)

/-- `A @ B` (the inner dimension is the row length of `A` = number of rows of `B`) -/
def matMul (a b : Mat) : Mat :=
  a.map (fun row => (List.range (ncols b)).map (fun j => dot row (col b j)))

/-- row vector times matrix -/
def vecMat (v : List CRat) (b : Mat) : List CRat :=
  (List.range (ncols b)).map (fun j => dot v (col b j))

def matAdd (a b : Mat) : Mat := List.zipWith (List.zipWith (· + ·)) a b

def identity (n : Nat) : Mat :=
  (List.range n).map (fun i => (List.range n).map (fun j => if i = j then (1 : CRat) else 0))

/-- consecutive chunks of length `n` (numpy C-order reshape of the leading axis) -/
def chunks {α} (n : Nat) (l : List α) : List (List α) :=
  (List.range (l.length / n)).map (fun i => (l.drop (i * n)).take n)

/-! ### shapes -/

def physDim (t : Tensor) : Nat := t.length
def leftDim (t : Tensor) : Nat := nrows (t.headD [])
def rightDim (t : Tensor) : Nat := ncols (t.headD [])

/-- every slice is a `left × right` matrix with `left, right ≥ 1`, and there is at least one slice -/
def wellShaped (t : Tensor) : Bool :=
  t.length ≥ 1 && leftDim t ≥ 1 && rightDim t ≥ 1 &&
  t.all (fun m => m.length = leftDim t && m.all (fun row => row.length = rightDim t))

/-! ### the represented vector (`MPS.to_vec`) -/

/-- product `T₀[s₀] · T₁[s₁] ⋯` for a configuration; `none` if a physical index is out of range or the
    lengths differ -/
def chainMat : List Tensor → List Nat → Option Mat
  | [], [] => none
  | [t], [s] => t[s]?
  | t :: ts, s :: cfg => do
    let m ← t[s]?
    let rest ← chainMat ts cfg
    pure (matMul m rest)
  | _, _ => none

/-- amplitude `⟨s₀ s₁ … | ψ⟩`: the single entry of the chain product (boundary bonds are 1) -/
def amp (ts : List Tensor) (cfg : List Nat) : Option CRat :=
  match chainMat ts cfg with
  | some [[x]] => some x
  | _ => none

/-- `to_vec` puts site 0 in the least significant position: index = Σ sᵢ · Π_{j<i} dⱼ
    (the code flips the network and then merges indices in C order) -/
def cfgOfIndex : List Nat → Nat → List Nat
  | [], _ => []
  | d :: ds, idx => (idx % d) :: cfgOfIndex ds (idx / d)

def vecIndex : List Nat → List Nat → Nat
  | d :: ds, s :: cfg => s + d * vecIndex ds cfg
  | _, _ => 0

def toVec (ts : List Tensor) : List (Option CRat) :=
  let dims := ts.map physDim
  (List.range (dims.foldl (· * ·) 1)).map (fun idx => amp ts (cfgOfIndex dims idx))

/-! ### QR centre shift -/

/-- `mps_tensor.reshape(phys * left, right)` in `right_qr` -/
def flattenRows (t : Tensor) : Mat := t.flatten

/-- `q_mat.reshape(phys, left, new)` in `right_qr` -/
def reshapeRows (left : Nat) (q : Mat) : Tensor := chunks left q

/-- `oe.contract("ij, ajc->aic", R, B)` -/
def contractLeft (r : Mat) (b : Tensor) : Tensor := b.map (matMul r)

/-- `shift_orthogonality_center_right`, QR branch with a right neighbour:
    `A' = reshape Q`, `B' = R` contracted into the left bond of `B`.  `q`, `r` come from `np.linalg.qr`. -/
def shiftRightQR (a b : Tensor) (q r : Mat) : Tensor × Tensor :=
  (reshapeRows (leftDim a) q, contractLeft r b)

/-- same at the last site: `R` is thrown away ("If normalizing, we just throw away the R") -/
def shiftRightQRLast (a : Tensor) (q : Mat) : Tensor := reshapeRows (leftDim a) q

/-! ### SVD centre shift (`two_site_svd`) -/

/-- `np.tensordot(a, b, axes=(2, 1)).reshape(phys_i * left, phys_j * right)` -/
def thetaMat (a b : Tensor) : Mat :=
  (flattenRows a).map (fun arow => (b.map (fun bt => vecMat arow bt)).flatten)

/-- steps 5 and 6 of `two_site_svd` for given SVD factors and kept rank:
    `a_new = u[:, :keep].reshape(phys_i, left, keep)`,
    `b_new = (diag(s[:keep]) @ v[:keep, :]).reshape(keep, phys_j, right).transpose(1, 0, 2)` -/
def twoSiteSVD (a b : Tensor) (u : Mat) (s : List Rat) (v : Mat) (keep : Nat) : Tensor × Tensor :=
  let physJ := physDim b
  let right := rightDim b
  let aNew := reshapeRows (leftDim a) (u.map (fun row => row.take keep))
  let sv : Mat := (List.zipWith (fun sk vrow => vrow.map (fun x => CRat.ofRat sk * x)) s v).take keep
  let bNew := (List.range physJ).map (fun t => sv.map (fun row => (row.drop (t * right)).take right))
  (aNew, bNew)

/-- the call made by `shift_orthogonality_center_right(…, "SVD")`:
    `two_site_svd(a, b, threshold=1e-12, max_bond_dim=None)`; `thr` is the binary64 value of `1e-12` -/
def shiftRightSVD (a b : Tensor) (u : Mat) (s : List Rat) (v : Mat) (thr : Rat) : Tensor × Tensor :=
  twoSiteSVD a b u s v (Yaqs.Rank.keepTwoSite s thr none)

/-! ### flip and pad -/

/-- `np.transpose(tensor, (0, 2, 1))` -/
def flipTensor (t : Tensor) : Tensor := t.map transpose

/-- `flip_network`: transpose the bond axes of every tensor and reverse the list -/
def flip (ts : List Tensor) : List Tensor := (ts.map flipTensor).reverse

/-- `(left_target, right_target)` of site `i` in `pad_bond_dimension` -/
def padTargets (len target i : Nat) : Nat × Nat :=
  (if i = 0 then 1 else min target (2 ^ min i (len - i)),
   if i + 1 = len then 1 else min target (2 ^ min (i + 1) (len - 1 - i)))

/-- `new = zeros((phys, lt, rt)); new[:, :chi_l, :chi_r] = tensor` -/
def padTensor (t : Tensor) (lt rt : Nat) : Tensor :=
  t.map (fun m => (List.range lt).map (fun i => (List.range rt).map (fun j =>
    if i < nrows m ∧ j < ncols m then entry m i j else 0)))

/-- the enlargement loop of `pad_bond_dimension` (before the final `normalize()`);
    `none` = `ValueError("Target bond dim must be at least current bond dim.")` -/
def padAll (ts : List Tensor) (target : Nat) : Option (List Tensor) :=
  let len := ts.length
  let rec go : Nat → List Tensor → Option (List Tensor)
    | _, [] => some []
    | i, t :: rest =>
      let (lt, rt) := padTargets len target i
      if leftDim t > lt ∨ rightDim t > rt then none
      else (go (i + 1) rest).map (fun r => padTensor t lt rt :: r)
  go 0 ts

/-! ### `check_canonical_form` -/

/-- `oe.contract("ijk, ijl->kl", conj T, T)` = Σ_s T_s† T_s -/
def gramLeft (t : Tensor) : Mat :=
  let m := flattenRows t
  matMul (transpose (conjMat m)) m

/-- `oe.contract("ijk, ilk->jl", T, conj T)` = Σ_s T_s T_s† -/
def gramRight (t : Tensor) : Mat :=
  let m := flattenRows (flipTensor t)
  matMul (transpose m) (conjMat m)

def isLeftIso (t : Tensor) : Bool := gramLeft t == identity (rightDim t)
def isRightIso (t : Tensor) : Bool := gramRight t == identity (leftDim t)

/-- the truth-table part: `a[i]` = "site i passed the left test", `b[i]` = "site i passed the right test";
    `mixed_truth[i] = all(a_truth[:i]) and all(b_truth[i + 1:])`, and the sites with `mixed_truth` are returned
    in increasing order -/
def checkCanonical (a b : List Bool) : List Nat :=
  (List.range a.length).filter (fun i => (a.take i).all id && (b.drop (i + 1)).all id)

/-- exact version on rational tensors (used for constructed tensors only) -/
def checkCanonicalOf (ts : List Tensor) : List Nat :=
  checkCanonical (ts.map isLeftIso) (ts.map isRightIso)

/-! ### which primitive is called when (the folds) -/

inductive Ev where
  | flip
  | qr (site : Nat)       -- right_qr at `site`, R contracted into `site + 1`
  | qrDrop (site : Nat)   -- right_qr at the last site, R thrown away
  | svd (site : Nat)      -- two_site_svd(site, site + 1, 1e-12, None)
  | svdT (site : Nat)     -- two_site_svd(site, site + 1, threshold, max_bond_dim) inside `truncate`
deriving DecidableEq, Repr

def Ev.show : Ev → String
  | .flip => "F"
  | .qr i => s!"Q{i}"
  | .qrDrop i => s!"D{i}"
  | .svd i => s!"S{i}"
  | .svdT i => s!"T{i}"

/-- `shift_orthogonality_center_right(i, decomposition)`;
    `decomposition == "QR" or i == length - 1` → QR, `elif decomposition == "SVD"` → two-site SVD,
    any other string → nothing happens -/
def shiftRightEv (len i : Nat) (dec : String) : List Ev :=
  if dec = "QR" ∨ i + 1 = len then
    (if i + 1 < len then [.qr i] else [.qrDrop i])
  else if dec = "SVD" then [.svd i]
  else []

/-- `shift_orthogonality_center_left(i, decomposition)` = flip, right shift at `len - i - 1`, flip -/
def shiftLeftEv (len i : Nat) (dec : String) : List Ev :=
  [.flip] ++ shiftRightEv len (len - i - 1) dec ++ [.flip]

/-- `sweep_decomposition(stop, decomposition)`: sites `0, 1, …` until `site == stop`
    (`stop = none`: the comparison never succeeds, i.e. a negative or too large centre) -/
def sweepEv (len : Nat) (stop : Option Nat) (dec : String) : List Ev :=
  let n := match stop with
    | some c => min c len
    | none => len
  (List.range n).flatMap (fun site => shiftRightEv len site dec)

/-- `set_canonical_form(c, decomposition)` -/
def setCanonEv (len c : Nat) (dec : String) : List Ev :=
  sweepEv len (some c) dec ++ [.flip] ++
  sweepEv len (if c + 1 ≤ len then some (len - 1 - c) else none) dec ++ [.flip]

/-- `normalize(form, decomposition)` -/
def normalizeEv (len : Nat) (form dec : String) : List Ev :=
  let f := if form = "B" then [Ev.flip] else []
  f ++ setCanonEv len (len - 1) dec ++ shiftRightEv len (len - 1) dec ++ f

/-- `truncate(threshold, max_bond_dim)` with `c = check_canonical_form()[0]` -/
def truncateEv (len c : Nat) : List Ev :=
  if len = 1 then []
  else (List.range c).map .svdT ++ [.flip] ++ (List.range (len - 1 - c)).map .svdT ++ [.flip]

end Yaqs.Mps
