/-
  Model.Sched — `run_backend_parallel` as a transition system, the stitching loops of its four callers and
  the serial paths (core Lean only).

  mirrors
    simulator.py  run_backend_parallel          → init / fill / step / stepBatch / run / runBatches
    simulator.py  _run_strong_sim, _run_analog  → stitchObs   (`observable.trajectories[i] = result[obs_index]`)
    simulator.py  _run_weak_sim                 → stitchMeas  (`sim_params.measurements[i] = result`)
    tomography.py run                           → accumulate  (`aggregated_outputs[seq] += rho * weight`)
    simulator.py  serial `for i, arg in enumerate(args): result = _call_backend(backend, arg)` → serialLoop

  The real loop, line by line (simulator.py 481-519):

      retries = dict.fromkeys(range(n_jobs), 0)                       retries := replicate nJobs 0
      futures = {}; next_job_idx = 0                                   inflight := []; next := 0
      def submit_job(idx): futures[ex.submit(worker_fn, idx)] = idx    submit s idx  (new future = new attempt id,
                                                                         appended: a dict keeps insertion order)
      while next_job_idx < n_jobs and len(futures) < max_inflight:     fill
          submit_job(next_job_idx); next_job_idx += 1
      while futures:                                                   loop ends when inflight = []  (`done`)
          done, _ = wait(futures, return_when=FIRST_COMPLETED)         one *batch*: a non-empty set of in-flight attempts,
          for fut in done:                                               fixed when `wait` returns, iterated in some order
              i = futures.pop(fut)                                     eraseIdx pos
              try: res = fut.result()
              except retry_exceptions:
                  if retries[i] < max_retries:                         Outcome.retryable, budget left:
                      retries[i] += 1; submit_job(i); continue           retries[i]+1, re-submit i as a NEW attempt (at the end)
                  raise                                                Outcome.retryable, budget used up: status := raised
              (any other exception propagates)                         Outcome.fatal: status := raised
              yield i, res                                             yielded ++ [(i, attempt)]
              pbar.update(1)
              if next_job_idx < n_jobs:                                after the yield, one new job is submitted
                  submit_job(next_job_idx); next_job_idx += 1

  An *attempt* is one call of `ex.submit`; its id is the number of submissions made before it.  `subs[a]` is the job
  index attempt `a` was submitted for, i.e. the argument `worker_fn` is called with; the result of attempt `a` is
  therefore "the result computed for index `subs[a]`".  `yielded` records `(i, a)`: the generator yielded index `i`
  together with the result of attempt `a`.
-/
namespace Yaqs.Sched

/-- how a future completes: `fut.result()` returns, raises one of `retry_exceptions`, or raises anything else -/
inductive Outcome where
  | ok
  | retryable
  | fatal
  deriving DecidableEq, Repr

inductive Status where
  | running
  /-- the exception of attempt `attempt` on job `job` left the generator -/
  | raised (job : Nat) (attempt : Nat)
  deriving DecidableEq, Repr

structure State where
  nJobs : Nat
  maxInflight : Nat
  maxRetries : Nat
  /-- the `futures` dict in insertion order: (attempt id, job index) -/
  inflight : List (Nat × Nat)
  /-- `next_job_idx` -/
  next : Nat
  /-- `retries[i]` -/
  retries : List Nat
  /-- what the generator yielded so far, in order: (job index, attempt whose result was yielded) -/
  yielded : List (Nat × Nat)
  status : Status
  /-- submission history: `subs[a]` = job index of attempt `a` (every `ex.submit(worker_fn, idx)` call, in order) -/
  subs : List Nat
  deriving DecidableEq, Repr

/-- `submit_job(idx)`: `futures[ex.submit(worker_fn, idx)] = idx` -/
def submit (s : State) (idx : Nat) : State :=
  { s with inflight := s.inflight ++ [(s.subs.length, idx)], subs := s.subs ++ [idx] }

/-- `submit_job(next_job_idx); next_job_idx += 1` -/
def submitNext (s : State) : State :=
  { submit s s.next with next := s.next + 1 }

/-- initial batch submission: `while next_job_idx < n_jobs and len(futures) < max_inflight` (fuel = an upper bound
    on the number of iterations; `fill_fuel_enough` in `Lemmas/Sched.lean` shows `nJobs` is enough). -/
def fill (s : State) : Nat → State
  | 0 => s
  | fuel + 1 =>
    if s.next < s.nJobs ∧ s.inflight.length < s.maxInflight then fill (submitNext s) fuel else s

/-- state before the initial submission loop; `max_inflight = max_workers * inflight_factor`, `inflight_factor = 2` -/
def start (nJobs workers maxRetries : Nat) : State :=
  { nJobs, maxInflight := workers * 2, maxRetries, inflight := [], next := 0,
    retries := List.replicate nJobs 0, yielded := [], status := .running, subs := [] }

/-- state at the first `wait` -/
def init (nJobs workers maxRetries : Nat) : State :=
  fill (start nJobs workers maxRetries) nJobs

/-- `complete pos o`: the loop body is run for the in-flight attempt at position `pos` (insertion order of the
    `futures` dict at that moment) whose `fut.result()` behaves as `o`. -/
inductive Event where
  | complete (pos : Nat) (o : Outcome)
  deriving DecidableEq, Repr

/-- one execution of the body of `for fut in done:`.  An event that cannot happen (generator already left by an
    exception, or no such in-flight attempt) leaves the state unchanged. -/
def step (s : State) : Event → State
  | .complete pos o =>
    match s.status with
    | .raised _ _ => s
    | .running =>
      match s.inflight[pos]? with
      | none => s
      | some (a, i) =>
        -- i = futures.pop(fut)
        let s1 := { s with inflight := s.inflight.eraseIdx pos }
        match o with
        | .ok =>
          -- yield i, res ; then submit the next job if there is one
          let s2 := { s1 with yielded := s1.yielded ++ [(i, a)] }
          if s2.next < s2.nJobs then submitNext s2 else s2
        | .retryable =>
          if s1.retries.getD i 0 < s1.maxRetries then
            submit { s1 with retries := s1.retries.set i (s1.retries.getD i 0 + 1) } i
          else
            { s1 with status := .raised i a }
        | .fatal => { s1 with status := .raised i a }

def run (s : State) (evs : List Event) : State := evs.foldl step s

/-- the event can happen in `s` -/
def Event.valid (s : State) : Event → Bool
  | .complete pos _ => s.status == .running && decide (pos < s.inflight.length)

/-- the generator returned normally (`while futures:` fell through) -/
def State.done (s : State) : Bool := s.status == .running && s.inflight.isEmpty

/-- would this (valid) event make the generator raise?  fatal, or retryable with the budget of that job used up -/
def raises (s : State) : Event → Bool
  | .complete pos o =>
    match s.inflight[pos]? with
    | none => false
    | some (_, i) =>
      match o with
      | .ok => false
      | .retryable => !(decide (s.retries.getD i 0 < s.maxRetries))
      | .fatal => true

/-! ### batches: `done, _ = wait(futures, FIRST_COMPLETED); for fut in done: …`

A batch is fixed when `wait` returns: a list of positions **in the in-flight list at that moment**, each with the
outcome of that future, in the order the `for` loop visits them.  Attempts submitted while the batch is processed
are not part of it.  Each member is looked up by its attempt id in the current in-flight list. -/

/-- loop body for the in-flight attempt with id `a` -/
def stepId (s : State) (a : Nat) (o : Outcome) : State :=
  match s.inflight.findIdx? (fun p => p.1 == a) with
  | some p => step s (.complete p o)
  | none => s

def stepBatch (s : State) (b : List (Nat × Outcome)) : State :=
  let snap := s.inflight
  b.foldl (fun t po => match snap[po.1]? with
                       | some (a, _) => stepId t a po.2
                       | none => t) s

def runBatches (s : State) (bs : List (List (Nat × Outcome))) : State := bs.foldl stepBatch s

/-- termination measure of the drain loop: 0 once raised; otherwise every undelivered job may still consume
    `maxRetries + 1` attempts -/
def measure (s : State) : Nat :=
  match s.status with
  | .raised _ _ => 0
  | .running => 1 + (s.nJobs - s.yielded.length) * (s.maxRetries + 1) + (s.nJobs * s.maxRetries - s.retries.sum)

/-! ### what the driver prints: the observable actions of one step, by comparing the state before and after.
Inside one loop body the code's order is fixed: (yield), then (submit), or (raise). -/

inductive Out where
  | submit (job : Nat) (nInflight : Nat)      -- `ex.submit(worker_fn, job)`; size of `futures` right after
  | yield (job : Nat) (resultOf : Nat) (attempt : Nat)  -- `yield job, res`, res computed for index `resultOf`
  | raise (job : Nat) (attempt : Nat)
  deriving DecidableEq, Repr

def outputs (s s' : State) : List Out :=
  let ys := (s'.yielded.drop s.yielded.length).map (fun p => Out.yield p.1 (s'.subs.getD p.2 0) p.2)
  let nNew := s'.subs.length - s.subs.length
  let base := s'.inflight.length - nNew
  let ss := (s'.subs.drop s.subs.length).zipIdx.map (fun p => Out.submit p.1 (base + p.2 + 1))
  let rs := match s.status, s'.status with
    | .running, .raised j a => [Out.raise j a]
    | _, _ => []
  ys ++ ss ++ rs

/-! ### stitching -/

/-- `_run_strong_sim` / `_run_analog`: `for obs_index, observable in enumerate(sorted_observables):
    observable.trajectories[i] = result[obs_index]`.  `tab[k]` is `sorted_observables[k].trajectories`;
    a slot never written is `none`.  (A result with fewer entries than observables raises `IndexError` in the
    code; here the slot gets `none`.) -/
def stitchObs {α} (tab : List (List (Option α))) (i : Nat) (res : List α) : List (List (Option α)) :=
  tab.mapIdx (fun k row => row.set i res[k]?)

/-- all yields of a run, in order; `work i a` is the result attempt `a` computed for index `i` -/
def stitchAll {α} (nObs nJobs : Nat) (work : Nat → Nat → List α) (ys : List (Nat × Nat)) :
    List (List (Option α)) :=
  ys.foldl (fun tab y => stitchObs tab y.1 (work y.1 y.2)) (List.replicate nObs (List.replicate nJobs none))

/-- `_run_weak_sim`: `sim_params.measurements[i] = result`, starting from `[None] * shots` -/
def stitchMeas {α} (nJobs : Nat) (work : Nat → Nat → α) (ys : List (Nat × Nat)) : List (Option α) :=
  ys.foldl (fun m y => m.set y.1 (some (work y.1 y.2))) (List.replicate nJobs none)

/-- `tomography.run`: `aggregated_weights[worker_seq_idx] += sequence_weight` with
    `worker_seq_idx = job_idx // num_trajectories` taken from the *result* (the worker decodes its own argument). -/
def accumulate (nSeq nTraj : Nat) (weight : Nat → Nat → Int) (ys : List (Nat × Nat)) : List Int :=
  ys.foldl (fun acc y => acc.set (y.1 / nTraj) (acc.getD (y.1 / nTraj) 0 + weight y.1 y.2)) (List.replicate nSeq 0)

/-! ### serial paths

`for i, arg in enumerate(args): result = _call_backend(backend, arg); …[i] = result…` with
`args = [(i, …) for i in range(num_traj)]`.  `_call_backend` (after the repair 930217c) only ignores a failure of
*entering* `threadpool_limits`; the backend is called once and its exception propagates to the caller.
`fails i` says whether the backend call for index `i` raises. -/

structure SerialState where
  /-- (index, call number whose result was stored) -/
  yielded : List (Nat × Nat)
  /-- index of every backend call, in order -/
  calls : List Nat
  raisedAt : Option Nat
  deriving DecidableEq, Repr

def serialLoop (fails : Nat → Bool) : List Nat → SerialState → SerialState
  | [], st => st
  | i :: rest, st =>
    if !fails i then
      serialLoop fails rest { st with yielded := st.yielded ++ [(i, 0)], calls := st.calls ++ [i] }
    else
      { st with calls := st.calls ++ [i], raisedAt := some i }

def serialRun (n : Nat) (fails : Nat → Bool) : SerialState :=
  serialLoop fails (List.range n) { yielded := [], calls := [], raisedAt := none }

/-- the code as found (before 930217c), kept as a second definition for the counterexample lemma:

    with contextlib.suppress(Exception), threadpool_limits(limits=n_threads):
        return backend(arg)
    return backend(arg)

    the first `Exception` of a trajectory is swallowed and the backend is called a second time; only a second
    failure reaches the caller.  `fails i k`: does call number `k` (0 or 1) for index `i` raise. -/
def serialLoopOld (fails : Nat → Nat → Bool) : List Nat → SerialState → SerialState
  | [], st => st
  | i :: rest, st =>
    if !fails i 0 then
      serialLoopOld fails rest { st with yielded := st.yielded ++ [(i, 0)], calls := st.calls ++ [i] }
    else if !fails i 1 then
      serialLoopOld fails rest { st with yielded := st.yielded ++ [(i, 1)], calls := st.calls ++ [i, i] }
    else
      { st with calls := st.calls ++ [i, i], raisedAt := some i }

def serialRunOld (n : Nat) (fails : Nat → Nat → Bool) : SerialState :=
  serialLoopOld fails (List.range n) { yielded := [], calls := [], raisedAt := none }

end Yaqs.Sched
