/-
  Model.LanczosH — the Lanczos recurrence of `expm_krylov` for a complex (Hermitian) operator, exact over ℚ(i)
  (core Lean only).  Complex analogue of `lanczosRat` in `Model/Krylov.lean`.

  mirrors  core/methods/matrix_exponential.py  expm_krylov  (pure-Python branch; `lanczos_numba.orthogonalize_step` performs
           the same statements): `aj = np.vdot(vj, w).real`, `w -= aj * vj`, `w -= beta[j-1] * v[:, j-1]`, `bj = ‖w‖`,
           `v[:, j+1] = w / bj` — three-term recurrence, no re-orthogonalisation.

  Unnormalised vectors (no square roots): `u₀ = v`, `u_{j+1} = A u_j − a_j u_j − b_j u_{j-1}` with
  `a_j = Re⟨u_j, A u_j⟩ / ⟨u_j, u_j⟩`, `b_j = ⟨u_j, u_j⟩ / ⟨u_{j-1}, u_{j-1}⟩`.  With `v_j = u_j / ‖u_j‖` these are the code's
  vectors, `alpha[j] = a_j`, `beta[j]² = ⟨u_{j+1}, u_{j+1}⟩ / ⟨u_j, u_j⟩`.
-/
import YaqsModel.Basic.CRat

namespace Yaqs.Krylov

/-- `np.vdot(x, y) = Σ conj(x_i) y_i` -/
def vdotC : List CRat → List CRat → CRat
  | x :: xs, y :: ys => CRat.conj x * y + vdotC xs ys
  | _, _ => 0

/-- `Σ a_i x_i` (no conjugation: a matrix row times a vector) -/
def rowDotC : List CRat → List CRat → CRat
  | x :: xs, y :: ys => x * y + rowDotC xs ys
  | _, _ => 0

def matVecC (a : List (List CRat)) (x : List CRat) : List CRat := a.map (fun row => rowDotC row x)

/-- `y + c x` for a real scalar `c` (`alpha`, `beta` are float64 in the code) -/
def axpyC (c : Rat) : List CRat → List CRat → List CRat
  | x :: xs, y :: ys => (y + CRat.smul c x) :: axpyC c xs ys
  | _, _ => []

structure LanczosCOut where
  alpha : List Rat
  betaSq : List Rat
  deriving Repr

/-- `m` more steps; stops at an exact breakdown `⟨u,u⟩ = 0` -/
def lanczosCLoop (a : List (List CRat)) : (m : Nat) → (uPrev : Option (List CRat × Rat)) → (u : List CRat) → LanczosCOut
  | 0, _, _ => ⟨[], []⟩
  | m + 1, uPrev, u =>
    let nU := (vdotC u u).re
    if nU = 0 then ⟨[], []⟩
    else
      let w := matVecC a u
      -- `aj = np.vdot(vj, w).real`
      let aj := (vdotC u w).re / nU
      let w1 := axpyC (-aj) u w
      let w2 := match uPrev with
        | some (p, nP) => axpyC (-(nU / nP)) p w1
        | none => w1
      let rest := lanczosCLoop a m (some (u, nU)) w2
      ⟨aj :: rest.alpha, ((vdotC w2 w2).re / nU) :: rest.betaSq⟩

def lanczosC (a : List (List CRat)) (v : List CRat) (m : Nat) : LanczosCOut := lanczosCLoop a m none v

end Yaqs.Krylov
