/-
  Model.Attribution — which observable object gets which number (core Lean only).

  mirrors
    core/data_structures/simulation_parameters.py
        AnalogSimParams.__init__ / StrongSimParams.__init__   `sorted_observables`   → `sortedObservables`
        aggregate_trajectories (mean over trajectories)                               → `aggregate`
    core/data_structures/networks.py
        MPS.evaluate_observables (centre walk, row k of `results` ↔ sorted[k])        → `walk` / `evaluateObservables`
    simulator.py  _run_strong_sim / _run_analog
        `observable.trajectories[i] = result[obs_index]` over `enumerate(sorted_observables)` → `stitchRow` / `stitchAll`

  An observable *object* is identified by `id` (Python `id(obj)`; in the tie: its position in the user's list).
  `sorted_observables` holds the very same objects as the user's list, so writing to `sorted[k]` writes to the user's
  object with the same `id`.
-/
namespace Yaqs.Attribution

/-- what `observable.gate.name` selects in the code -/
inductive Kind
  | local1        -- one-site operator (2×2 matrix)
  | local2        -- adjacent two-site operator (4×4 matrix)
  | entropy
  | schmidt       -- "schmidt_spectrum"
  | runtimeCost   -- "runtime_cost"
  | maxBond       -- "max_bond"
  | totalBond     -- "total_bond"
  | pvm
  deriving DecidableEq, Repr

structure Obs where
  id : Nat
  kind : Kind
  /-- `obs.sites[0] if isinstance(obs.sites, list) else obs.sites` (not used for diagnostics) -/
  site : Nat
  deriving DecidableEq, Repr

/-- `obs.gate.name in {"pvm", "runtime_cost", "max_bond", "total_bond"}` — the `unsorted` group of the constructors -/
def Kind.unsorted : Kind → Bool
  | .pvm | .runtimeCost | .maxBond | .totalBond => true
  | _ => false

/-- evaluated on the centre-walked copy `temp_state`: local operators (`expect`) and — since the repair 0704f22 —
    the cuts of `entropy` / `schmidt_spectrum` (walked to `min(sites)`; the model takes `sites` ascending, so that
    is `sites[0]`) -/
def Kind.moves : Kind → Bool
  | .local1 | .local2 | .entropy | .schmidt => true
  | _ => false

/-- code as found (before 0704f22): entropy and Schmidt spectrum were computed on `self` without moving the centre -/
def Kind.movesOld : Kind → Bool
  | .local1 | .local2 => true
  | _ => false

/-- stable insertion by first site (Python's `sorted` is stable: an element goes in front of the first element
    that is not smaller, and it is inserted in front of the elements that followed it in the input) -/
def insertSorted (o : Obs) : List Obs → List Obs
  | [] => [o]
  | x :: xs => if o.site ≤ x.site then o :: x :: xs else x :: insertSorted o xs

/-- `sorted(sortable, key=first site)` -/
def sortBySite : List Obs → List Obs
  | [] => []
  | o :: os => insertSorted o (sortBySite os)

/-- `self.sorted_observables = sorted_obs + unsorted` (and `[]` for an empty list) -/
def sortedObservables (obs : List Obs) : List Obs :=
  sortBySite (obs.filter fun o => !o.kind.unsorted) ++ obs.filter fun o => o.kind.unsorted

/-- events of one call of `evaluate_observables` -/
inductive Ev
  /-- `temp_state.shift_orthogonality_center_right(site)` -/
  | shift (site : Nat)
  /-- `results[row, col] = temp_state.expect(observable)` (or `temp_state.get_entropy(cut)` /
      `temp_state.get_schmidt_spectrum(cut)`) with `last_site = centre` -/
  | evalLocal (row id centre : Nat)
  /-- `results[row, col] = self.get_cost()` / `get_max_bond()` / `get_total_bond()` / `project_onto_bitstring(…)`:
      evaluated on `self`, no centre involved -/
  | evalSelf (row id : Nat)
  deriving DecidableEq, Repr

/-- the loop body of `evaluate_observables`, `last` = `last_site`, `row` = `obs_index` -/
def walk : Nat → Nat → List Obs → List Ev
  | _, _, [] => []
  | last, row, o :: os =>
    if o.kind.moves then
      if o.site > last then
        (List.range' last (o.site - last)).map Ev.shift ++ Ev.evalLocal row o.id o.site :: walk o.site (row + 1) os
      else
        Ev.evalLocal row o.id last :: walk last (row + 1) os
    else
      Ev.evalSelf row o.id :: walk last (row + 1) os

/-- `evaluate_observables`: `last_site = 0`, rows from 0 -/
def evaluateObservables (sorted : List Obs) : List Ev := walk 0 0 sorted

/-- the loop as found before 0704f22 (`movesOld`): kept for the counterexample only -/
def walkOld : Nat → Nat → List Obs → List Ev
  | _, _, [] => []
  | last, row, o :: os =>
    if o.kind.movesOld then
      if o.site > last then
        (List.range' last (o.site - last)).map Ev.shift ++ Ev.evalLocal row o.id o.site :: walkOld o.site (row + 1) os
      else
        Ev.evalLocal row o.id last :: walkOld last (row + 1) os
    else
      Ev.evalSelf row o.id :: walkOld last (row + 1) os

/-- the centre shifts issued, in order -/
def shiftsOf : List Ev → List Nat
  | [] => []
  | .shift s :: es => s :: shiftsOf es
  | _ :: es => shiftsOf es

/-- `(row, id)` of every write into `results`, in order -/
def rowsOf : List Ev → List (Nat × Nat)
  | [] => []
  | .shift _ :: es => rowsOf es
  | .evalLocal row id _ :: es => (row, id) :: rowsOf es
  | .evalSelf row id :: es => (row, id) :: rowsOf es

/-- `(id, tracked centre, number of shifts issued before)` of every local evaluation.  The real orthogonality
    centre of a state that came in with its centre at site 0 is the number of shifts issued so far. -/
def centresFrom (nshift : Nat) : List Ev → List (Nat × Nat × Nat)
  | [] => []
  | .shift _ :: es => centresFrom (nshift + 1) es
  | .evalLocal _ id c :: es => (id, c, nshift) :: centresFrom nshift es
  | .evalSelf _ _ :: es => centresFrom nshift es

/-! ### stitching rows back to objects (`simulator._run_strong_sim`, `_run_analog`) -/

/-- `observable.trajectories`: object id ↦ trajectory index ↦ value -/
abbrev Store := Nat → Nat → Option Rat

def Store.empty : Store := fun _ _ => none

def Store.set (st : Store) (id i : Nat) (v : Rat) : Store :=
  fun id' t => if id' = id ∧ t = i then some v else st id' t

/-- `for obs_index, observable in enumerate(sorted_observables): observable.trajectories[i] = result[obs_index]` -/
def stitchRow (i : Nat) : List Obs → List Rat → Store → Store
  | o :: os, v :: vs, st => stitchRow i os vs (st.set o.id i v)
  | _, _, st => st

/-- … for the trajectories `i0, i0+1, …` in the order their results arrive -/
def stitchAll (sorted : List Obs) : Nat → List (List Rat) → Store → Store
  | _, [], st => st
  | i, r :: rs, st => stitchAll sorted (i + 1) rs (stitchRow i sorted r st)

/-- the pre-repair variant is not in the code; this is the *wrong* rule "row k belongs to the user's k-th
    observable", kept for the counterexample -/
def stitchByUserIndex (obs : List Obs) : Nat → List (List Rat) → Store → Store := stitchAll obs

def mean (xs : List Rat) : Rat := xs.sum / (xs.length : Rat)

/-- `np.mean(observable.trajectories, axis=0)` over `T` trajectories (one column) -/
def aggregate (st : Store) (T : Nat) (id : Nat) : Rat :=
  mean ((List.range T).map fun i => (st id i).getD 0)

end Yaqs.Attribution
