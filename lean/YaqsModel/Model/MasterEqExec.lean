import YaqsModel.Model.MasterEq

/-!
# Model.MasterEqExec — what else can be *observed* of one pass of the MCWF loop (core Lean only)

Extension of `Model.MasterEq` (which is left untouched).  Mirrors, in `analog/mcwf.py::mcwf`:

  * `psi` at the end of a pass of the time loop (`ctx.output_state = psi` when `sim_params.get_state`), read as the
    rank-one density matrix `|psi><psi|`.  `postState` keeps the state as a pair `(v, c)` meaning `v/√c`
    (`np.sqrt` / `np.linalg.norm` are not rational operations); the density matrix `v vᴴ / c` *is* rational      → `pureRho`
  * which entries of `ctx.jump_ops` are multiplied onto a vector during the pass, in program order:
      - `r >= p_jump`                       : none
      - `r < p_jump`                        : `for op in ctx.jump_ops: l_psi = op @ param_psi` (all of them, list order)
      - … and `normalization_sum >= 1e-15`  : once more `ctx.jump_ops[k_idx] @ param_psi`                          → `opCalls`
    (every one of these products is taken with `param_psi = psi`, the state at the START of the step — the tie checks
    the argument of every recorded product against that vector)
  * `rho_initial = np.outer(psi, psi.conj())` of `lindblad`, the same matrix for `c = 1`                           → `pureRho`
  * the whole pass composed: initial `measure(psi, 0)`, branch, new `psi`, `measure(psi, 1)`, returned columns      → `oneStepCols`
-/
namespace Yaqs.MasterEq

/-- `|v><v| / c`, the density matrix of the state the pair `(v, c)` stands for (`np.outer(psi, psi.conj())` for `c = 1`) -/
def pureRho (n : Nat) (v : CVec) (c : Rat) : CMat :=
  tab n fun i j => CRat.ofRat (1 / c) * (vget v i * CRat.conj (vget v j))

/-- density matrix of the state after one pass (`ctx.output_state`) -/
def postRho (n : Nat) (Ls : List (Proc CMat)) (ψ ψnext : CVec) (t : Taken) : CMat :=
  let (v, c) := postState n Ls ψ ψnext t
  pureRho n v c

/-- indices of `ctx.jump_ops` multiplied onto `param_psi` during one pass, in program order (`nOps = len(jump_ops)`) -/
def opCalls (nOps : Nat) : Taken → List Nat
  | .noJump => []
  | .noJumpEps => List.range nOps
  | .jump k _ => List.range nOps ++ [k]

/-- the array one call of `mcwf` returns on a grid of two points (one pass of the loop), column by column, for the
    random numbers `r`, `k`: `measure(psi, 0)` on the initial state if `sample_timesteps`, then — after the state has been
    replaced by the jumped / renormalised one — `measure(psi, 1)`; `none` = `k` is not an index of `jump_ops` -/
def oneStepCols (n : Nat) (Ls : List (Proc CMat)) (obs : List Obs) (sample : Bool) (ψ ψnext : CVec) (r : Rat) (k : Nat) :
    Option (List (List Rat)) :=
  (mcwfTaken n Ls ψ ψnext r k).map fun t =>
    reportedOneStep sample (obs.map (obsValuePure n ψ (vnormSq ψ)))
      (obs.map (obsValuePure n (postState n Ls ψ ψnext t).1 (postState n Ls ψ ψnext t).2))

end Yaqs.MasterEq
