import YaqsModel.Basic.CRat
import YaqsModel.Model.Layers
import YaqsModel.Model.Gates
/-!
# Model.ColumnsExec — the VALUES of the result columns, executable over ℚ(i) (core Lean only, no Mathlib)

What `simulator.run` (strong simulation, `sample_layers=True`, one noise-free trajectory) leaves in `Observable.results`:
for every `evaluate_observables` call of the run (`Layers.runCircuit`) the numbers `re ⟨ψ|O|ψ⟩` of the state at that moment.

* a dense state of `n` qubits is a complete binary tree of depth `n` with `CRat` leaves (`Vec n`): the two subtrees of the
  root are the halves "site 0 = 0" / "site 0 = 1", i.e. the flattened leaves are the amplitude list with **site 0 most
  significant** — the index convention of `Layers.denseSem` / `Embed.embedL` (`Vec.get`, `Vec.build`, `Vec.flatten`);
* a 2×2 matrix on qubit `q` (`app1`), a 4×4 matrix with row / column index `(value of qargs[0], value of qargs[1])` on the
  ordered pair `(a, b)`, either orientation, any distance (`app2`) — the lenses `siteLens` / `pairLens` written out;
* the gate table by name (`gate1?`, `gate2?`: `Model/Gates.lean` at rational points `(c, s)` of the unit circle);
* `expectExec`: `Σ_c conj(ψ_c) (Oψ)_c` for a one-site operator or an operator on the adjacent pair `(p, p+1)`;
* `colStatesExec` / `colValuesExec`: the fold over the events of `Layers.runCircuit`.

`Props/C16.lean` (`colValuesExec_is_column_values`) proves that these are the `colStates` of the dense-operator instance and
the dense expectation values of `ObsData.op`; `harness/impl/C16.py` (kind `column-exact`) ties them to the real run.
-/
namespace Yaqs.ColumnsExec

open Yaqs Yaqs.Layers

/-- a configuration of `n` qubits: the value of every site -/
abbrev Cfg (n : Nat) := Fin n → Fin 2

/-- prepend the value of site 0 -/
def consBit {n : Nat} (b : Fin 2) (c : Cfg n) : Cfg (n + 1) :=
  fun i => if h : i.val = 0 then b else c ⟨i.val - 1, by omega⟩

/-- `Function.update` (core Lean has none) -/
def setBit {n : Nat} (c : Cfg n) (q : Fin n) (x : Fin 2) : Cfg n := fun i => if i = q then x else c i

/-- dense state: binary tree, site 0 at the root -/
def Vec : Nat → Type
  | 0 => CRat
  | n + 1 => Vec n × Vec n

/-- amplitude of a configuration -/
def Vec.get : (n : Nat) → Vec n → Cfg n → CRat
  | 0, v, _ => v
  | n + 1, v, c =>
    if c 0 = 0 then Vec.get n (show Vec n × Vec n from v).1 (fun i => c i.succ)
    else Vec.get n (show Vec n × Vec n from v).2 (fun i => c i.succ)

/-- tabulate an amplitude function -/
def Vec.build : (n : Nat) → (Cfg n → CRat) → Vec n
  | 0, f => f (fun i => i.elim0)
  | n + 1, f => ((Vec.build n (fun c => f (consBit 0 c)), Vec.build n (fun c => f (consBit 1 c))) : Vec n × Vec n)

/-- the amplitude list, site 0 most significant -/
def Vec.flatten : (n : Nat) → Vec n → List CRat
  | 0, v => [v]
  | n + 1, v => Vec.flatten n (show Vec n × Vec n from v).1 ++ Vec.flatten n (show Vec n × Vec n from v).2

/-- sum over all configurations -/
def sumCfg : (n : Nat) → (Cfg n → CRat) → CRat
  | 0, F => F (fun i => i.elim0)
  | n + 1, F => sumCfg n (fun c => F (consBit 0 c)) + sumCfg n (fun c => F (consBit 1 c))

/-- 2×2 matrix; 4×4 matrix with row / column index `(value of the first qubit, value of the second qubit)` -/
abbrev M2 := Fin 2 → Fin 2 → CRat
abbrev M4 := Fin 2 × Fin 2 → Fin 2 × Fin 2 → CRat

def sum2 (f : Fin 2 → CRat) : CRat := f 0 + f 1

/-- `G` on qubit `q`, identity elsewhere -/
def app1 {n : Nat} (G : M2) (q : Fin n) (ψ : Cfg n → CRat) : Cfg n → CRat :=
  fun c => sum2 fun x => G (c q) x * ψ (setBit c q x)

/-- `G` on the ordered pair `(a, b)`, identity elsewhere -/
def app2 {n : Nat} (G : M4) (a b : Fin n) (ψ : Cfg n → CRat) : Cfg n → CRat :=
  fun c => sum2 fun x => sum2 fun y => G (c a, c b) (x, y) * ψ (setBit (setBit c a x) b y)

/-- what an instruction does to the amplitudes (`Layers.denseSem`, written out) -/
def semExec (n : Nat) (g1 : Nat → M2) (g2 : Nat → M4) : Instr → (Cfg n → CRat) → Cfg n → CRat
  | .gate1 t q, ψ => if h : q < n then app1 (g1 t) ⟨q, h⟩ ψ else ψ
  | .gate2 t a b, ψ => if h : a < n ∧ b < n ∧ a ≠ b then app2 (g2 t) ⟨a, h.1⟩ ⟨b, h.2.1⟩ ψ else ψ
  | _, ψ => ψ

/-- one gate application on the tabulated state -/
def stepVec (n : Nat) (g1 : Nat → M2) (g2 : Nat → M4) (i : Instr) (v : Vec n) : Vec n :=
  Vec.build n (semExec n g1 g2 i (Vec.get n v))

/-- the states seen by the `evaluate_observables` calls, with their columns (`Layers.colStates`, executable) -/
def colStatesExec (n : Nat) (g1 : Nat → M2) (g2 : Nat → M4) : Vec n → List Event → List (Nat × Vec n)
  | _, [] => []
  | v, .eval c :: r => (c, v) :: colStatesExec n g1 g2 v r
  | v, .app1 t q :: r => colStatesExec n g1 g2 (stepVec n g1 g2 (.gate1 t q) v) r
  | v, .app2 t a b :: r => colStatesExec n g1 g2 (stepVec n g1 g2 (.gate2 t a b) v) r
  | v, .shots :: r => colStatesExec n g1 g2 v r

/-- an observable object: a 2×2 matrix on site `p`, or a 4×4 matrix on the adjacent pair `(p, p+1)` -/
inductive ObsExec (n : Nat) where
  | one (p : Fin n) (O : M2)
  | two (p : Fin n) (h : p.val + 1 < n) (O : M4)

def ObsExec.apply {n : Nat} : ObsExec n → (Cfg n → CRat) → Cfg n → CRat
  | .one p O, ψ => app1 O p ψ
  | .two p h O, ψ => app2 O p ⟨p.val + 1, h⟩ ψ

/-- `⟨ψ|O|ψ⟩ = Σ_c conj(ψ_c) (Oψ)_c` -/
def expectExec {n : Nat} (o : ObsExec n) (ψ : Cfg n → CRat) : CRat :=
  sumCfg n fun c => CRat.conj (ψ c) * o.apply ψ c

/-- **the result table**: for every evaluation event of the sampling run of `raw`, the column index and the value
    `re ⟨ψ|O|ψ⟩` of every observable of the list, in the list's order -/
def colValuesExec (n : Nat) (g1 : Nat → M2) (g2 : Nat → M4) (v0 : Vec n) (raw : List RawInstr)
    (obs : List (ObsExec n)) : Option (List (Nat × List Rat)) :=
  (runCircuit .strongSample raw).map fun evs =>
    (colStatesExec n g1 g2 v0 evs).map fun p => (p.1, obs.map fun o => (expectExec o (Vec.get n p.2)).re)

/-! ## initial state and gate table -/

/-- computational basis state `|bits⟩` (`MPS(n, state="basis", basis_string=…)`, site `i` = character `i`) -/
def basisVec (n : Nat) (bits : Cfg n) : Vec n :=
  Vec.build n fun c => if (List.finRange n).all (fun i => c i == bits i) then 1 else 0

def ofRat2 (c s : Rat) : CRat × CRat := (CRat.ofRat c, CRat.ofRat s)

/-- one-qubit gates by qiskit name; parametrised gates at the rational point `(c, s)` of the unit circle
    (`rx ry rz`: `(cos θ/2, sin θ/2)`; `p`: `(cos θ, sin θ)`) -/
def gate1? (name : String) (ps : List Rat) : Option M2 :=
  match name, ps with
  | "x", [] => some Gates.x
  | "y", [] => some (Gates.y CRat.I)
  | "z", [] => some Gates.z
  | "id", [] => some Gates.one2
  | "rx", [c, s] => if c * c + s * s = 1 then some (Gates.rx CRat.I (CRat.ofRat c) (CRat.ofRat s)) else none
  | "ry", [c, s] => if c * c + s * s = 1 then some (Gates.ry (CRat.ofRat c) (CRat.ofRat s)) else none
  | "rz", [c, s] => if c * c + s * s = 1 then some (Gates.rz CRat.I (CRat.ofRat c) (CRat.ofRat s)) else none
  | "p", [c, s] => if c * c + s * s = 1 then some (Gates.phase CRat.I (CRat.ofRat c) (CRat.ofRat s)) else none
  | _, _ => none

/-- a 4×4 matrix of `Model/Gates.lean` (row `2a+b`, `a` = first gate qubit) with pair indices -/
def ofM4 (M : Gates.M4 CRat) : M4 := fun x y => M (Gates.pair x.1 x.2) (Gates.pair y.1 y.2)

/-- two-qubit gates by qiskit name (`rxx ryy rzz`: `(cos θ/2, sin θ/2)`; `cp`: `(cos θ, sin θ)`) -/
def gate2? (name : String) (ps : List Rat) : Option M4 :=
  let par (g : Gates.G2) : Option M4 :=
    match ps with
    | [c, s] => if c * c + s * s = 1 then some (ofM4 (g.matrix CRat.I (CRat.ofRat c) (CRat.ofRat s))) else none
    | _ => none
  match name, ps with
  | "cx", [] => some (ofM4 Gates.cx)
  | "cz", [] => some (ofM4 Gates.cz)
  | "cp", _ => par .cp
  | "rxx", _ => par .rxx
  | "ryy", _ => par .ryy
  | "rzz", _ => par .rzz
  | _, _ => none

def pauli? : Char → Option M2
  | 'X' => some Gates.x
  | 'Y' => some (Gates.y CRat.I)
  | 'Z' => some Gates.z
  | _ => none

/-- `np.kron(P, Q)` with pair indices: `P` on the first site of the pair -/
def kronPair (P Q : M2) : M4 := fun x y => P x.1 y.1 * Q x.2 y.2

end Yaqs.ColumnsExec
