/-
  Model.Heff — index-level model of the local effective Hamiltonian of TDVP (core Lean only, no Mathlib).

  mirrors (index order, contraction order, reshapes and transposes of the code)
    core/methods/tdvp.py        project_site                      → projectSite
    core/methods/tdvp.py        project_bond                      → projectBond
    core/methods/tdvp.py        build_dense_heff_site             → denseHeffSite   (einsum "oplr,alA,brB->oABpab" + reshape)
    core/methods/tdvp.py        build_dense_heff_bond             → denseHeffBond   (einsum "uap,vaw->pwuv" + reshape)
    core/methods/tdvp_numba.py  build_dense_heff_site_numba       → denseHeffSiteNumba (two-stage loops, own index arithmetic)
    core/methods/tdvp_numba.py  build_dense_heff_bond_numba       → denseHeffBondNumba
    core/methods/tdvp.py        update_left_environment           → updateLeft
    core/methods/tdvp.py        update_right_environment          → updateRight
    core/methods/tdvp.py        initialize_right_environments /
                                the `left_identity` loops         → idEnv, leftEnvChain, rightEnvChain
    core/methods/tdvp.py        _evolve_local_tensor_krylov       → useDense, applyEffSite, applyEffBond (the size switch)

  Tensors are functions of their indices (natural numbers), in the index order of the numpy arrays:
    MPS tensor  (phys, left, right)        MPO tensor  (out, in, left, right)
    left  environment (ket-left a,  mpo l, bra-left A)      right environment (ket-right b, mpo r, bra-right B)
  The dimensions travel separately (`SiteDims`, `BondDims`).  Everything is generic in the number type
  (`Zero`, `Add`, `Mul`; conjugation is a parameter), so the same definitions are run by the driver over the
  Gaussian rationals `CRat` and reasoned about over an arbitrary commutative semiring in `Lemmas/Heff.lean`.
-/
import YaqsModel.Basic.CRat

namespace Yaqs.Heff

universe u

/-! ### sums and row-major flattening -/

section generic
variable {α : Type u} [Zero α] [Add α] [Mul α]

/-- `Σ_{i<n} f i`, in index order (`f 0 + f 1 + …`) -/
def sumTo : Nat → (Nat → α) → α
  | 0, _ => 0
  | n + 1, f => sumTo n f + f n

/-- `M @ v` for a matrix with `n` columns -/
def matVec (n : Nat) (M : Nat → Nat → α) (v : Nat → α) : Nat → α :=
  fun row => sumTo n fun c => M row c * v c

end generic

/-- row-major (C order) linear index of `[i, j]` in an array whose last dimension is `d1` -/
def flat2 (d1 : Nat) (i j : Nat) : Nat := i * d1 + j
/-- inverse of `flat2` -/
def unflat2 (d1 : Nat) (n : Nat) : Nat × Nat := (n / d1, n % d1)
/-- row-major (C order) linear index of `[i, j, k]` in an array of shape `(·, d1, d2)` -/
def flat3 (d1 d2 : Nat) (i j k : Nat) : Nat := (i * d1 + j) * d2 + k
/-- inverse of `flat3` -/
def unflat3 (d1 d2 : Nat) (n : Nat) : Nat × Nat × Nat := (n / (d1 * d2), n / d2 % d1, n % d2)
/-- row-major linear index of `[i0,…,i5]` in an array of shape `(·, d1, d2, d3, d4, d5)` (the 6-leg `h6` of
    `build_dense_heff_site` before its `reshape`) -/
def flat6 (d1 d2 d3 d4 d5 : Nat) (i0 i1 i2 i3 i4 i5 : Nat) : Nat :=
  ((((i0 * d1 + i1) * d2 + i2) * d3 + i3) * d4 + i4) * d5 + i5
/-- row-major linear index of `[i0,…,i3]` in an array of shape `(·, d1, d2, d3)` (`h4` of `build_dense_heff_bond`) -/
def flat4 (d1 d2 d3 : Nat) (i0 i1 i2 i3 : Nat) : Nat := ((i0 * d1 + i1) * d2 + i2) * d3 + i3

section generic
variable {α : Type u}

/-- `A.reshape(-1)` of a 3-leg tensor of shape `(·, d1, d2)` -/
def flattenT3 (d1 d2 : Nat) (A : Nat → Nat → Nat → α) : Nat → α :=
  fun n => A (unflat3 d1 d2 n).1 (unflat3 d1 d2 n).2.1 (unflat3 d1 d2 n).2.2
/-- `v.reshape(d0, d1, d2)` -/
def unflattenV3 (d1 d2 : Nat) (v : Nat → α) : Nat → Nat → Nat → α := fun i j k => v (flat3 d1 d2 i j k)
/-- `C.reshape(-1)` of a matrix with `d1` columns -/
def flattenT2 (d1 : Nat) (C : Nat → Nat → α) : Nat → α := fun n => C (unflat2 d1 n).1 (unflat2 d1 n).2
/-- `v.reshape(d0, d1)` -/
def unflattenV2 (d1 : Nat) (v : Nat → α) : Nat → Nat → α := fun i j => v (flat2 d1 i j)

end generic

/-! ### dimensions -/

/-- the eight dimensions of a single-site problem, named as in the comments of `build_dense_heff_site`:
    `op : (o, p, l, r)`, `left_env : (a, l, A)`, `right_env : (b, r, B)`, `ket : (p, a, b)`, result `(o, A, B)` -/
structure SiteDims where
  o : Nat
  p : Nat
  a : Nat
  aa : Nat
  b : Nat
  bb : Nat
  l : Nat
  r : Nat
  deriving Repr, DecidableEq

/-- the five dimensions of a bond problem, named as in `build_dense_heff_bond`:
    `left_env : (u, m, pp)`, `right_env : (v, m, w)`, `bond_tensor : (u, v)`, result `(pp, w)` (`m` is the MPO bond `a`) -/
structure BondDims where
  u : Nat
  v : Nat
  m : Nat
  pp : Nat
  w : Nat
  deriving Repr, DecidableEq

section generic
variable {α : Type u} [Zero α] [Add α] [Mul α]

/-! ### matrix-free projectors -/

/-- `project_site(left_env, right_env, op, ket)`; the result has legs `(o, A, B)` -/
def projectSite (d : SiteDims) (L R : Nat → Nat → Nat → α) (W : Nat → Nat → Nat → Nat → α)
    (A : Nat → Nat → Nat → α) : Nat → Nat → Nat → α :=
  -- tensor = np.tensordot(ket, right_env, axes=1)                      legs (p, a, r, B)
  let t1 : Nat → Nat → Nat → Nat → α := fun p a r B => sumTo d.b fun b => A p a b * R b r B
  -- tensor = np.tensordot(op, tensor, axes=((1, 3), (0, 2)))           legs (o, l, a, B)
  let t2 : Nat → Nat → Nat → Nat → α := fun o l a B => sumTo d.p fun p => sumTo d.r fun r => W o p l r * t1 p a r B
  -- tensor = np.tensordot(tensor, left_env, axes=((2, 1), (0, 1)))     legs (o, B, A)
  let t3 : Nat → Nat → Nat → α := fun o B A' => sumTo d.a fun a => sumTo d.l fun l => t2 o l a B * L a l A'
  -- tensor.transpose((0, 2, 1))                                        legs (o, A, B)
  fun o A' B => t3 o B A'

/-- `project_bond(left_env, right_env, bond_tensor)`; the result has legs `(pp, w)` -/
def projectBond (d : BondDims) (L R : Nat → Nat → Nat → α) (C : Nat → Nat → α) : Nat → Nat → α :=
  -- tensor = np.tensordot(bond_tensor, right_env, axes=1)              legs (u, m, w)
  let t : Nat → Nat → Nat → α := fun u a w => sumTo d.v fun v => C u v * R v a w
  -- np.tensordot(left_env, tensor, axes=((0, 1), (0, 1)))              legs (pp, w)
  fun p w => sumTo d.u fun u => sumTo d.m fun a => L u a p * t u a w

/-! ### dense builders -/

/-- the 6-leg array `h6[o,A,B,p,a,b] = Σ_{l,r} op[o,p,l,r] * left_env[a,l,A] * right_env[b,r,B]`
    (`np.einsum("oplr,alA,brB->oABpab", op, left_env, right_env)`) -/
def h6 (d : SiteDims) (L R : Nat → Nat → Nat → α) (W : Nat → Nat → Nat → Nat → α)
    (o A' B p a b : Nat) : α :=
  sumTo d.l fun l => sumTo d.r fun r => W o p l r * L a l A' * R b r B

/-- `build_dense_heff_site`: `h6.reshape(o*A*B, p*a*b)` — entry `[row, col]` is `h6` at the row-major
    un-flattening of `row` over `(o, A, B)` and of `col` over `(p, a, b)` -/
def denseHeffSite (d : SiteDims) (L R : Nat → Nat → Nat → α) (W : Nat → Nat → Nat → Nat → α)
    (row col : Nat) : α :=
  h6 d L R W (unflat3 d.aa d.bb row).1 (unflat3 d.aa d.bb row).2.1 (unflat3 d.aa d.bb row).2.2
    (unflat3 d.a d.b col).1 (unflat3 d.a d.b col).2.1 (unflat3 d.a d.b col).2.2

/-- `h4[p,w,u,v] = Σ_a left_env[u,a,p] * right_env[v,a,w]` (`np.einsum("uap,vaw->pwuv", …)`) -/
def h4 (d : BondDims) (L R : Nat → Nat → Nat → α) (p w u v : Nat) : α :=
  sumTo d.m fun a => L u a p * R v a w

/-- `build_dense_heff_bond`: `h4.reshape(p*w, u*v)` -/
def denseHeffBond (d : BondDims) (L R : Nat → Nat → Nat → α) (row col : Nat) : α :=
  h4 d L R (unflat2 d.w row).1 (unflat2 d.w row).2 (unflat2 d.v col).1 (unflat2 d.v col).2

/-- `build_dense_heff_site_numba`: stage 1 `t1[o,p,r,a,A] = Σ_l op[o,p,l,r] * left_env[a,l,A]`, stage 2 writes
    `out[row_idx, col_idx] = Σ_r t1[o,p,r,a,A] * right_env[b,r,B]` with the kernel's own index arithmetic
    `row_idx = o_aa * b_out + bb`, `o = o_aa // a_out`, `aa = o_aa % a_out`,
    `p = col // (a_in*b_in)`, `rem = col % (a_in*b_in)`, `a = rem // b_in`, `b = rem % b_in` -/
def denseHeffSiteNumba (d : SiteDims) (L R : Nat → Nat → Nat → α) (W : Nat → Nat → Nat → Nat → α)
    (row col : Nat) : α :=
  let t1 : Nat → Nat → Nat → Nat → Nat → α := fun o p r a aa => sumTo d.l fun l => W o p l r * L a l aa
  let oaa := row / d.bb
  let bb := row % d.bb
  let o := oaa / d.aa
  let aa := oaa % d.aa
  let p := col / (d.a * d.b)
  let rem := col % (d.a * d.b)
  let a := rem / d.b
  let b := rem % d.b
  sumTo d.r fun r => t1 o p r a aa * R b r bb

/-- `build_dense_heff_bond_numba`: `out[p * w_dim + w, u * v_dim + v] = Σ_a left_env[u,a,p] * right_env[v,a,w]` -/
def denseHeffBondNumba (d : BondDims) (L R : Nat → Nat → Nat → α) (row col : Nat) : α :=
  let p := row / d.w
  let w := row % d.w
  let u := col / d.v
  let v := col % d.v
  sumTo d.m fun a => L u a p * R v a w

/-! ### environment updates (`cj` is `np.conj`) -/

/-- `update_left_environment(ket, bra, op, left_env)`: from `left_env : (a, l, A)` to legs `(b, r, B)` -/
def updateLeft (cj : α → α) (d : SiteDims) (L : Nat → Nat → Nat → α) (W : Nat → Nat → Nat → Nat → α)
    (ket bra : Nat → Nat → Nat → α) : Nat → Nat → Nat → α :=
  -- tensor = np.tensordot(left_env, bra.conj(), axes=(2, 1))           legs (a, l, o, B)
  let t1 : Nat → Nat → Nat → Nat → α := fun a l o B => sumTo d.aa fun A' => L a l A' * cj (bra o A' B)
  -- tensor = np.tensordot(op, tensor, axes=((0, 2), (2, 1)))           legs (p, r, a, B)
  let t2 : Nat → Nat → Nat → Nat → α := fun p r a B => sumTo d.o fun o => sumTo d.l fun l => W o p l r * t1 a l o B
  -- np.tensordot(ket, tensor, axes=((0, 1), (0, 2)))                   legs (b, r, B)
  fun b r B => sumTo d.p fun p => sumTo d.a fun a => ket p a b * t2 p r a B

/-- `update_right_environment(ket, bra, op, right_env)`: from `right_env : (b, r, B)` to legs `(a, l, A)` -/
def updateRight (cj : α → α) (d : SiteDims) (R : Nat → Nat → Nat → α) (W : Nat → Nat → Nat → Nat → α)
    (ket bra : Nat → Nat → Nat → α) : Nat → Nat → Nat → α :=
  -- tensor = np.tensordot(ket, right_env, axes=1)                      legs (p, a, r, B)
  let t1 : Nat → Nat → Nat → Nat → α := fun p a r B => sumTo d.b fun b => ket p a b * R b r B
  -- tensor = np.tensordot(op, tensor, axes=((1, 3), (0, 2)))           legs (o, l, a, B)
  let t2 : Nat → Nat → Nat → Nat → α := fun o l a B => sumTo d.p fun p => sumTo d.r fun r => W o p l r * t1 p a r B
  -- tensor = tensor.transpose((2, 1, 0, 3))                            legs (a, l, o, B)
  let t3 : Nat → Nat → Nat → Nat → α := fun a l o B => t2 o l a B
  -- np.tensordot(tensor, bra.conj(), axes=((2, 3), (0, 2)))            legs (a, l, A)
  fun a l A' => sumTo d.o fun o => sumTo d.bb fun B => t3 a l o B * cj (bra o A' B)

/-- the boundary blocks `left_identity[i, a, i] = 1` / `right_identity[i, a, i] = 1` -/
def idEnv [One α] : Nat → Nat → Nat → α := fun i _ j => if i = j then 1 else 0

/-- one site of a chain: its dimensions, its MPS tensor (used as ket and as bra, as every caller does) and its MPO tensor -/
structure Site (α : Type u) where
  d : SiteDims
  ket : Nat → Nat → Nat → α
  W : Nat → Nat → Nat → Nat → α

/-- `left_blocks[i+1] = update_left_environment(A_i, A_i, W_i, left_blocks[i])`, site by site from the left -/
def leftEnvChain (cj : α → α) (L0 : Nat → Nat → Nat → α) : List (Site α) → Nat → Nat → Nat → α
  | [] => L0
  | s :: ss => leftEnvChain cj (updateLeft cj s.d L0 s.W s.ket s.ket) ss

/-- `right_blocks[i] = update_right_environment(A_{i+1}, A_{i+1}, W_{i+1}, right_blocks[i+1])`
    (`initialize_right_environments`); the list is in chain order, the rightmost site is absorbed first -/
def rightEnvChain (cj : α → α) (R0 : Nat → Nat → Nat → α) : List (Site α) → Nat → Nat → Nat → α
  | [] => R0
  | s :: ss => updateRight cj s.d (rightEnvChain cj R0 ss) s.W s.ket s.ket

/-! ### the size switch of `_evolve_local_tensor_krylov` -/

/-- `DENSE_THRESHOLD` -/
def denseThreshold : Nat := 128

/-- `if n_loc <= dense_threshold:` — dense operator, else matrix-free -/
def useDense (nLoc thr : Nat) : Bool := decide (nLoc ≤ thr)

/-- `apply_effective_operator` of `update_site`: `h_eff @ x_flat` on the dense path,
    `projector(*proj_args, x_flat.reshape(tensor_shape)).reshape(-1)` on the matrix-free path -/
def applyEffSite (thr : Nat) (d : SiteDims) (L R : Nat → Nat → Nat → α) (W : Nat → Nat → Nat → Nat → α)
    (x : Nat → α) : Nat → α :=
  if useDense (d.p * d.a * d.b) thr then matVec (d.p * d.a * d.b) (denseHeffSite d L R W) x
  else flattenT3 d.aa d.bb (projectSite d L R W (unflattenV3 d.a d.b x))

/-- `apply_effective_operator` of `update_bond` -/
def applyEffBond (thr : Nat) (d : BondDims) (L R : Nat → Nat → Nat → α) (x : Nat → α) : Nat → α :=
  if useDense (d.u * d.v) thr then matVec (d.u * d.v) (denseHeffBond d L R) x
  else flattenT2 d.w (projectBond d L R (unflattenV2 d.v x))

end generic

/-! ### executable instances over the Gaussian rationals (used by the driver) -/

/-- a tensor given by its row-major entry list (`arr[i,j,k]` enumerated with the last index fastest) -/
def ofFlat3 (d1 d2 : Nat) (xs : Array CRat) : Nat → Nat → Nat → CRat :=
  fun i j k => xs.getD (flat3 d1 d2 i j k) 0
def ofFlat4 (d1 d2 d3 : Nat) (xs : Array CRat) : Nat → Nat → Nat → Nat → CRat :=
  fun i j k m => xs.getD (flat4 d1 d2 d3 i j k m) 0
def ofFlat2 (d1 : Nat) (xs : Array CRat) : Nat → Nat → CRat :=
  fun i j => xs.getD (flat2 d1 i j) 0

/-- all entries `[i,j,k]`, `i<d0`, `j<d1`, `k<d2`, enumerated with explicit nested loops (last index fastest) -/
def entries3 {α : Type u} (d0 d1 d2 : Nat) (t : Nat → Nat → Nat → α) : List α :=
  (List.range d0).flatMap fun i => (List.range d1).flatMap fun j => (List.range d2).map fun k => t i j k
def entries2 {α : Type u} (d0 d1 : Nat) (t : Nat → Nat → α) : List α :=
  (List.range d0).flatMap fun i => (List.range d1).map fun j => t i j

/-- `initialize_right_environments`: `right_blocks[n-1]` = identity, then
    `right_blocks[site] = update_right_environment(A[site+1], A[site+1], W[site+1], right_blocks[site+1])` for
    `site = n-2 … 0`; returns the blocks in chain order, each as its shape `(b, r, B)` and its row-major entry array
    (every block is materialised, as numpy does, before the next one is computed from it) -/
def rightBlocksLoop : List (Site CRat) → List ((Nat × Nat × Nat) × Array CRat)
  | [] => []
  | [s] => [((s.d.b, s.d.r, s.d.bb), (entries3 s.d.b s.d.r s.d.bb (idEnv : Nat → Nat → Nat → CRat)).toArray)]
  | _ :: t :: rest =>
    match rightBlocksLoop (t :: rest) with
    | [] => []
    | (sh, arr) :: more =>
      -- the block of site `s` absorbs site `t` into the block of `t`; its shape is (left bond of t, left MPO bond of t, ·)
      let E := ofFlat3 sh.2.1 sh.2.2 arr
      ((t.d.a, t.d.l, t.d.aa), (entries3 t.d.a t.d.l t.d.aa (updateRight CRat.conj t.d E t.W t.ket t.ket)).toArray)
        :: (sh, arr) :: more

/-- the one-hot vector `e_col` -/
def oneHot (col : Nat) : Nat → CRat := fun n => if n = col then 1 else 0

end Yaqs.Heff
