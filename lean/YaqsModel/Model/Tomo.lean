import YaqsModel.Basic.CRatT
/-!
# Model.Tomo — process-tensor tomography (C17)

Mirrors `src/mqt/yaqs/characterization/tomography/tomography.py` and `process_tensor.py`
(core Lean only; exact arithmetic over ℚ(i) — the basis contains only `1/2` and `i`).

| model | code |
|---|---|
| `psiVec`, `psiScale`, `rho` | `get_basis_states` (`psi = √scale · vec`, `rho = outer(psi, psi.conj())`) |
| `kron2`, `choiB`, `choiIdx` | `get_choi_basis` (`np.kron(rho_p, e_m.T)`, `alpha = 4 p + m`) |
| `dual1`, `choiD` | `calculate_dual_choi_basis` on that basis (the frame is square and invertible, so `pinv` is the inverse and the dual is the unique solution of `Tr(D_aᴴ B_b) = δ_ab` — proved in `Props/C17.lean`, value-tied to the code's `pinv` on every run) |
| `hsInner` | `np.trace(d.conj().T @ j_choi)` |
| `unitM`, `choiOf`, `coeffs` | Choi builder and dual projection inside `ProcessTensor.predict_final_state` |
| `ofFlat`, `flatIdx` | `self.tensor` in numpy C order, `to_linear_map_matrix` (`reshape(4, 16^k)`) |
| `TensK`, `contractLast`, `predict` | the `for step in reversed(range(k_steps)): tensordot(result, c_maps[step], axes=([-1],[0]))` loop |
| `envRaw`, `prob`, `reprepDensity` | `_reprepare_site_zero_vector_forced` / `_reprepare_site_zero_forced` |
| `seqWalk`, `expectedCalls` | `sequence_weight *= step_prob; if sequence_weight < 1e-15: break` in `_tomography_sequence_worker` |
-/
namespace Yaqs.Tomo
open Yaqs CRatT

abbrev M2 := Fin 2 → Fin 2 → CRatT
abbrev M4 := Fin 4 → Fin 4 → CRatT

/-- row-wise literal of a 2×2 matrix -/
def mk2 (a b c d : CRatT) : M2 := fun i j =>
  if i.val = 0 then (if j.val = 0 then a else b) else (if j.val = 0 then c else d)

/-! ## `get_basis_states` -/

/-- the state vectors without their normalisation: `zeros`, `ones`, `x+`, `y+`
    (`psi_0=[1,0]`, `psi_1=[0,1]`, `psi_plus=[1,1]/√2`, `psi_i_plus=[1,1j]/√2`) -/
def psiVec (p : Fin 4) : Fin 2 → CRatT := fun s =>
  match p.val with
  | 0 => if s.val = 0 then 1 else 0
  | 1 => if s.val = 0 then 0 else 1
  | 2 => 1
  | _ => if s.val = 0 then 1 else I

/-- squared normalisation factor: `psi = √scale · psiVec` -/
def psiScale (p : Fin 4) : Rat := if p.val < 2 then 1 else 1/2

/-- `rho = np.outer(psi, psi.conj())` — the four preparation density matrices, which the code also
    uses as the four measurement effects `E_m` -/
def rho (p : Fin 4) : M2 := fun i j => rsmul (psiScale p) (psiVec p i * conj (psiVec p j))

/-- the measurement effects are the same four matrices (`for m, (_, _, e_m) in enumerate(basis_set)`) -/
abbrev eff : Fin 4 → M2 := rho

/-! ## `get_choi_basis` -/

def hi (r : Fin 4) : Fin 2 := ⟨r.val / 2, by omega⟩
def lo (r : Fin 4) : Fin 2 := ⟨r.val % 2, by omega⟩

/-- `np.kron(A, B)[2a+i, 2b+j] = A[a,b] * B[i,j]` -/
def kron2 (A B : M2) : M4 := fun r c => A (hi r) (hi c) * B (lo r) (lo c)

def transpose2 (A : M2) : M2 := fun i j => A j i

/-- `choi_indices[alpha] = (p, m)` with `alpha = 4 p + m` (outer loop `p`, inner loop `m`) -/
def choiIdx (a : Fin 16) : Fin 4 × Fin 4 := (⟨a.val / 4, by omega⟩, ⟨a.val % 4, by omega⟩)

/-- `b_pm = np.kron(rho_p, e_m.T)` -/
def choiB (a : Fin 16) : M4 := kron2 (rho (choiIdx a).1) (transpose2 (eff (choiIdx a).2))

/-! ## `calculate_dual_choi_basis` (on the basis above) -/

/-- single-qubit dual frame: `Tr(d_pᴴ ρ_q) = δ_pq`.
    `d_0 = (1 - X - Y + Z)/2`, `d_1 = (1 - X - Y - Z)/2`, `d_2 = X`, `d_3 = Y`. -/
def dual1 (p : Fin 4) : M2 :=
  match p.val with
  | 0 => mk2 1 ⟨-1/2, 1/2⟩ ⟨-1/2, -1/2⟩ 0
  | 1 => mk2 0 ⟨-1/2, 1/2⟩ ⟨-1/2, -1/2⟩ 1
  | 2 => mk2 0 1 1 0
  | _ => mk2 0 ⟨0, -1⟩ ⟨0, 1⟩ 0

/-- the dual Choi frame: `D_{p,m} = d_p ⊗ d_mᵀ` -/
def choiD (a : Fin 16) : M4 := kron2 (dual1 (choiIdx a).1) (transpose2 (dual1 (choiIdx a).2))

/-- Hilbert–Schmidt pairing `Tr(Dᴴ J)` (`np.trace(d.conj().T @ j_choi)`) -/
def hsInner {n : Nat} (D J : Fin n → Fin n → CRatT) : CRatT :=
  fsum n (fun i => fsum n (fun j => conj (D i j) * J i j))

/-! ## `ProcessTensor.predict_final_state` -/

/-- `e_in = zeros((2,2)); e_in[i,j] = 1` -/
def unitM (i j : Fin 2) : M2 := fun a b => if a = i ∧ b = j then 1 else 0

/-- the Choi builder of `predict_final_state`: `j_choi = Σ_ij np.kron(emap(e_ij), e_ij)` -/
def choiOf (emap : M2 → M2) : M4 := fun r c =>
  fsum 2 (fun i => fsum 2 (fun j => kron2 (emap (unitM i j)) (unitM i j) r c))

/-- the map with Choi matrix `J` in that convention: `A(σ)[a,b] = Σ_ij J[2a+i, 2b+j] σ[i,j]` -/
def mapOfChoi (J : M4) : M2 → M2 := fun σ a b =>
  fsum 2 (fun i => fsum 2 (fun j =>
    J ⟨2 * a.val + i.val, by omega⟩ ⟨2 * b.val + j.val, by omega⟩ * σ i j))

/-- the basis CP map `A_{p,m}(σ) = Tr(E_m σ) ρ_p` -/
def basisMap (E P : M2) : M2 → M2 := fun σ a b =>
  fsum 2 (fun i => fsum 2 (fun j => E i j * σ j i)) * P a b

/-- `c_a = np.trace(d.conj().T @ j_choi) for d in self.choi_duals` -/
def coeffs (J : M4) : Fin 16 → CRatT := fun a => hsInner (choiD a) J

/-- a tensor with `k` input slots of dimension 16 (one output component of `self.tensor`):
    first slot = outermost axis (numpy C order) -/
@[reducible] def TensK : Nat → Type
  | 0 => CRatT
  | k + 1 => Fin 16 → TensK k

/-- `np.tensordot(result, c, axes=([-1],[0]))`: sum out the *last* axis against `c` -/
def contractLast : (k : Nat) → TensK (k + 1) → (Fin 16 → CRatT) → TensK k
  | 0, t, c => (fsum 16 (fun a => (show CRatT from t a) * c a) : CRatT)
  | k + 1, t, c => fun a => contractLast k (t a) c

/-- the loop `for step in reversed(range(k)): result = tensordot(result, c_maps[step], ([-1],[0]))`:
    the last axis meets the coefficient vector of the last slot -/
def predict : (k : Nat) → TensK k → (Fin k → Fin 16 → CRatT) → CRatT
  | 0, t, _ => t
  | k + 1, t, cs => predict k (contractLast k t (cs (Fin.last k))) (fun i => cs i.castSucc)

/-- entry `T[a_0, …, a_{k-1}]` -/
def entry : (k : Nat) → TensK k → (Fin k → Fin 16) → CRatT
  | 0, t, _ => t
  | k + 1, t, r => entry k (t (r 0)) (fun i => r i.succ)

/-- read a `TensK k` out of a flat C-ordered array starting at offset `off·16^k` -/
def ofFlat (arr : Array CRatT) : (k : Nat) → Nat → TensK k
  | 0, off => arr.getD off 0
  | k + 1, off => fun a => ofFlat arr k (off * 16 + a.val)

/-- C-order flat index of `[off, a_0, …, a_{k-1}]` in an array of shape `(·, 16, …, 16)` -/
def flatIdx : (k : Nat) → Nat → (Fin k → Fin 16) → Nat
  | 0, off, _ => off
  | k + 1, off, r => flatIdx k (off * 16 + (r 0).val) (fun i => r i.succ)

/-- full prediction: the four output components (`result_tensor.reshape(2,2)` row-major),
    tensor given flat in C order with shape `(4, 16, …, 16)` -/
def predictFlat (k : Nat) (arr : Array CRatT) (Js : Fin k → M4) : Fin 4 → CRatT :=
  fun o => predict k (ofFlat arr k o.val) (fun t => coeffs (Js t))

/-! ## forced projection / re-preparation of site 0 -/

/-- `(⟨vec_m| ⊗ 1) ψ` for `ψ` of shape `(2, d)`: `proj_state.conj() @ psi_reshaped`, without the
    factor `√scale_m` -/
def envRaw (d : Nat) (m : Fin 4) (ψ : Fin 2 → Fin d → CRatT) : Fin d → CRatT :=
  fun c => fsum 2 (fun s => conj (psiVec m s) * ψ s c)

/-- `prob = ‖env_vec‖²` -/
def prob (d : Nat) (m : Fin 4) (ψ : Fin 2 → Fin d → CRatT) : Rat :=
  psiScale m * fsum d (fun c => normSq (envRaw d m ψ c))

/-- the literal `1e-15` (as a rational; decisions closer than 1e-17 to it are skipped by the tie) -/
def thr15 : Rat := 1 / 1000000000000000

/-- density matrix `|new_psi⟩⟨new_psi|` of the state returned by the forced re-preparation:
    `new_psi = outer(new_state, env_vec / √prob)` when `prob > 1e-15`, not normalised otherwise -/
def reprepDensity (d : Nat) (m p : Fin 4) (ψ : Fin 2 → Fin d → CRatT) :
    (Fin 2 × Fin d) → (Fin 2 × Fin d) → CRatT :=
  let pr := prob d m ψ
  let e := envRaw d m ψ
  let nrm : Rat := if pr > thr15 then psiScale m / pr else psiScale m
  fun x y => rsmul nrm (rho p x.1 y.1 * (e x.2 * conj (e y.2)))

/-- `(A_{p,m} ⊗ id)(ρ)` with `A_{p,m}(σ) = Tr(E_m σ) ρ_p`: the unnormalised comb entry -/
def applyBasisMap (d : Nat) (m p : Fin 4) (ρ : (Fin 2 × Fin d) → (Fin 2 × Fin d) → CRatT) :
    (Fin 2 × Fin d) → (Fin 2 × Fin d) → CRatT :=
  fun x y => rho p x.1 y.1 * fsum 2 (fun t => fsum 2 (fun t' => eff m t' t * ρ (t, x.2) (t', y.2)))

/-- `|ψ⟩⟨ψ|` -/
def outer (d : Nat) (ψ : Fin 2 → Fin d → CRatT) : (Fin 2 × Fin d) → (Fin 2 × Fin d) → CRatT :=
  fun x y => ψ x.1 x.2 * conj (ψ y.1 y.2)

/-- the weight bookkeeping of `_tomography_sequence_worker`:
    `sequence_weight *= step_prob; if sequence_weight < 1e-15: break`.
    Returns (weight, number of re-preparations performed, dead?). -/
def seqWalk : List Rat → Rat → Nat → Rat × Nat × Bool
  | [], w, n => (w, n, false)
  | p :: ps, w, n =>
    let w' := w * p
    if w' < thr15 then (w', n + 1, true) else seqWalk ps w' (n + 1)

/-- given the probabilities that were observed and the number of segments `k`: the weight the worker
    must return and the number of re-preparations it must have performed (`k` unless the branch died) -/
def expectedCalls (k : Nat) (probs : List Rat) : Rat × Nat :=
  let r := seqWalk probs 1 0
  (r.1, if r.2.2 then r.2.1 else k)

/-- the plain product of the step probabilities -/
def weightProd : List Rat → Rat
  | [] => 1
  | p :: ps => p * weightProd ps

end Yaqs.Tomo
