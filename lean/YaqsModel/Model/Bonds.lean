import YaqsModel.Model.Rank
/-
  Model.Bonds — effect of every bond-changing primitive of yaqs on the vector of internal bond dimensions
  (core Lean only).

  primitives (everything else in the code only multiplies tensors by operators on the physical leg):
    split   core/methods/tdvp.py split_mps_tensor          bond i := keepDW / keepRel (spectrum of the merged pair)
            (two-site TDVP updates, two-qubit gates through two_site_tdvp, two-site dissipators, two-site jumps,
             two-site scheduled jumps)
    qr      core/methods/decompositions.py right_qr        bond i := min (d * left) bond_i   (reduced QR)
            (shift_orthogonality_center_right/left with decomposition="QR", set_canonical_form, normalize)
    svd     core/methods/decompositions.py two_site_svd    bond i := keepTwoSite spectrum thr none
            (shift_orthogonality_center_* with decomposition="SVD": apply_dissipation, normalize("B","SVD") after a jump)
    trunc   MPS.truncate → two_site_svd with the caller's cap
-/
namespace Yaqs.Bonds
open Yaqs.Rank

inductive Mode | dw | rel deriving DecidableEq, Repr

structure Cfg where
  mode : Mode
  thr : Rat
  minB : Nat
  maxB : Nat

inductive Op
  | split (i : Nat) (s : List Rat)
  | qr (i : Nat) (d : Nat)
  | svd (i : Nat) (s : List Rat) (thr : Rat)
  | trunc (i : Nat) (s : List Rat) (thr : Rat) (cap : Nat)

/-- kept rank of a split under the configuration (relative mode on an empty spectrum cannot happen; it keeps 0) -/
def splitKeep (c : Cfg) (s : List Rat) : Nat :=
  match c.mode with
  | .dw => keepDW s c.thr c.minB c.maxB
  | .rel => (keepRel s c.thr c.minB c.maxB).getD 0

def leftBond (bs : List Nat) (i : Nat) : Nat := if i = 0 then 1 else bs.getD (i - 1) 1

/-- new value of bond `i` -/
def newBond (c : Cfg) (bs : List Nat) : Op → Nat
  | .split _ s => splitKeep c s
  | .qr i d => min (d * leftBond bs i) (bs.getD i 1)
  | .svd _ s thr => keepTwoSite s thr none
  | .trunc _ s thr cap => keepTwoSite s thr (some cap)

def Op.bond : Op → Nat
  | .split i _ => i
  | .qr i _ => i
  | .svd i _ _ => i
  | .trunc i _ _ _ => i

def apply (c : Cfg) (bs : List Nat) (op : Op) : List Nat := bs.set op.bond (newBond c bs op)

def run (c : Cfg) (bs : List Nat) (ops : List Op) : List Nat := ops.foldl (apply c) bs

/-- the bound the property allows for bond `i`, plus the floor `2` of the SVD centre shift -/
def bound (c : Cfg) (init : List Nat) (i : Nat) : Nat := max (max c.maxB c.minB) (max 2 (init.getD i 1))

/-- hypotheses under which an SVD shift cannot enlarge a bond (spec-tied on every call seen):
    * numerical rank: the two-site matrix has rank at most the old bond, so the weight of the singular values
      beyond it is below the shift's threshold;
    * the state is not numerically zero: its total weight reaches the threshold (otherwise the loop never breaks
      and the code keeps every singular value). -/
def OpOk (bs : List Nat) : Op → Prop
  | .svd i s thr => tailWeight s (bs.getD i 1) < thr ∧ thr ≤ sqsum s ∧ 0 < thr
  | .trunc i s thr _ => tailWeight s (bs.getD i 1) < thr ∧ thr ≤ sqsum s ∧ 0 < thr
  | _ => True

/-- every op of the sequence meets `OpOk` in the state it is applied to -/
def AllOk (c : Cfg) : List Nat → List Op → Prop
  | _, [] => True
  | bs, op :: ops => OpOk bs op ∧ AllOk c (apply c bs op) ops

end Yaqs.Bonds
