import YaqsModel.Model.Mps
/-!
  Model.LocalOp — applying a local operator to one site / two adjacent sites of an MPS (core Lean only, no Mathlib),
  on the exact Gaussian-rational tensors of `Model/Mps.lean` (`Tensor = T[s][l][r]`, numpy shape (phys, left, right)).

  mirrors
    `oe.contract("ab, bcd->acd", op, state.tensors[site])`                                   → `applyOne`
        digital/digital_tjm.py        apply_single_qubit_gate
        core/methods/stochastic_process.py   stochastic_process (1-site jump; both factors of a long-range Pauli pair),
                                             create_probability_distribution
        core/methods/scheduled_jumps.py      apply_scheduled_jumps (1-site jump)
        core/methods/dissipation.py          apply_dissipation
    core/methods/tdvp.py  merge_mps_tensors  (`"abc,dce->adbe"` + `reshape(a*d, b, e)`)        → `mergeKet2`
    `merge_mps_tensors` followed by `oe.contract("ab, bcd->acd", op, merged)`                  → `applyTwoMerged`
        (stochastic_process, apply_scheduled_jumps, apply_dissipation: the tensor handed to `split_mps_tensor`)
    core/methods/tdvp.py  split_mps_tensor: `reshape(d0, d1, D0, D2).transpose(0, 2, 1, 3).reshape(d0·D0, d1·D2)`
                                                                                              → `splitTheta`

  Index conventions read off the code:
    * `"ab, bcd->acd"`: the ROW index `a` of the operator is the new physical index, the COLUMN index `b` is contracted with
      the old one — `new[a] = Σ_b op[a][b] · T[b]`;
    * `"abc,dce->adbe"` then C-order `reshape`: merged physical index `s·d_right + t` with `s` the index of the LEFT tensor
      (the more significant digit), value `A[s] @ B[t]`.
-/
namespace Yaqs.LocalOp
open Yaqs.Mps

/-- `oe.contract("ab, bcd->acd", op, T)`: slice `a` of the result is `Σ_b op[a][b] · T[b]`, entry by entry; the result has
    one slice per row of `op` and the bond dimensions of `T` -/
def applyOne (op : Mat) (t : Tensor) : Tensor :=
  op.map fun row => (List.range (leftDim t)).map fun l => (List.range (rightDim t)).map fun r =>
    dot row (t.map fun m => entry m l r)

/-- the transposed contraction `"ba, bcd->acd"` (`new[a] = Σ_b op[b][a] · T[b]`) — NOT what the code does; kept so that a
    slip of the two operator indices is recognisable (`applyOne_transposed_differs`) -/
def applyOneT (op : Mat) (t : Tensor) : Tensor := applyOne (transpose op) t

/-- `merge_mps_tensors(A, B)`: slice `s·|B| + t` is the matrix product `A[s] @ B[t]` (left tensor = major index) -/
def mergeKet2 (a b : Tensor) : Tensor := (a.map fun am => b.map fun bm => matMul am bm).flatten

/-- the merged index with the roles of the two sites exchanged (`t·|A| + s`) — NOT what the code does
    (`mergeKet2_swapped_differs`) -/
def mergeKet2Swapped (a b : Tensor) : Tensor := (b.map fun bm => a.map fun am => matMul am bm).flatten

/-- `merged = merge_mps_tensors(A, B); merged = oe.contract("ab, bcd->acd", op, merged)`: the tensor that is handed to
    `split_mps_tensor` -/
def applyTwoMerged (op : Mat) (a b : Tensor) : Tensor := applyOne op (mergeKet2 a b)

/-- the matrix `split_mps_tensor(merged, …, [dL, dR])` hands to the SVD: row `s·D0 + l`, column `t·D2 + r` holds
    `merged[s·dR + t][l][r]` -/
def splitTheta (dL dR : Nat) (merged : Tensor) : Mat :=
  (List.range dL).flatMap fun s => (List.range (leftDim merged)).map fun l =>
    (List.range dR).flatMap fun t => (List.range (rightDim merged)).map fun r =>
      entry (merged.getD (s * dR + t) []) l r

/-- two one-site applications: `factors[0]` on the first tensor, `factors[1]` on the second (the long-range Pauli branch of
    `stochastic_process`; the tensors in between are untouched) -/
def applyFactors (op0 op1 : Mat) (a b : Tensor) : Tensor × Tensor := (applyOne op0 a, applyOne op1 b)

end Yaqs.LocalOp
