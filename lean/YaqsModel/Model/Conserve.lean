/-
  Model.Conserve — the fixed-branch integrators with their gauge moves written out (core Lean only).

  mirrors
    core/methods/tdvp.py  single_site_tdvp   → singleSiteFull   (update_site / np.linalg.qr / update_bond / oe.contract)
    core/methods/tdvp.py  local_dynamic_tdvp → lrLoopFull / rlLoopFull / ldtdvpFull
    core/methods/tdvp.py  two_site_tdvp      → twoSiteFull      (merge_mps_tensors / update_site / split_mps_tensor)

  `Model/Sweep.lean` lists only the *primitives* (the calls the correspondence check records).  Here every statement of the
  loop bodies that touches the state is a `Step`: the primitives, plus the QR factorisation of the updated site tensor
  (`np.linalg.qr`), the contraction of the bond matrix into the neighbour (`oe.contract`) and the merge of two site tensors.
  `prims` erases the extra steps; `prims (singleSiteFull L d) = singleSite L d` is proved in `Props/C05.lean`, so the list
  compared with the real call trace is the erasure of this one.

  `Centre` is the position of the only tensor that is not an isometry (mixed canonical form); `walk` says which centre a
  step needs and where it leaves it.  A primitive conserves norm and energy exactly only if the centre is where it acts.
-/
import YaqsModel.Model.Sweep

namespace Yaqs.Sweep

/-- where the non-isometric tensor of the MPS sits -/
inductive Centre
  /-- site tensor `i` (all sites left of it left-isometric, all sites right of it right-isometric) -/
  | site (i : Nat)
  /-- the bond matrix `C` between sites `b` and `b+1`, held outside the MPS between `np.linalg.qr` and `oe.contract` -/
  | bond (b : Nat)
  /-- the merged two-site tensor of sites `p`, `p+1` -/
  | pair (p : Nat)
  deriving DecidableEq, Repr

inductive Step
  /-- a primitive of `Model/Sweep.lean` -/
  | prim (o : Op)
  /-- `Q, C = np.linalg.qr(A_i.reshape(p·a, b))`, `A_i := Q` (left-to-right) -/
  | qrRight (i : Nat)
  /-- `A_{b+1} := C · A_{b+1}` (`oe.contract(state.tensors[i+1], (0,3,2), bond_tensor, (1,3), (0,1,2))`) -/
  | absorbRight (b : Nat)
  /-- QR of the transposed tensor: `A_i = C · Q`, `A_i := Q` (right-to-left) -/
  | qrLeft (i : Nat)
  /-- `A_b := A_b · C` (`oe.contract(state.tensors[i-1], (0,1,3), bond_tensor, (3,2), (0,1,2))`) -/
  | absorbLeft (b : Nat)
  /-- `merge_mps_tensors(A_p, A_{p+1})` -/
  | merge (p : Nat)
  deriving DecidableEq, Repr

/-- the primitives of a step list, in order (what the call trace of the real function shows) -/
def prims : List Step → List Op
  | [] => []
  | Step.prim o :: rest => o :: prims rest
  | _ :: rest => prims rest

/-- centre needed by a step → centre after it; `none`: the step is applied to a tensor that is not the centre -/
def walk (c : Centre) : Step → Option Centre
  | .prim (.site i _) => if c = .site i then some (.site i) else none
  | .prim (.bond b _) => if c = .bond b then some (.bond b) else none
  | .prim (.pair p _) => if c = .pair p then some (.pair p) else none
  | .prim (.split p right) => if c = .pair p then some (if right then .site (p + 1) else .site p) else none
  | .prim .trunc => none
  | .qrRight i => if c = .site i then some (.bond i) else none
  | .absorbRight b => if c = .bond b then some (.site (b + 1)) else none
  | .qrLeft i => if c = .site i ∧ 1 ≤ i then some (.bond (i - 1)) else none
  | .absorbLeft b => if c = .bond b then some (.site b) else none
  | .merge p => if c = .site p ∨ c = .site (p + 1) then some (.pair p) else none

def walkAll : Centre → List Step → Option Centre
  | c, [] => some c
  | c, st :: rest => match walk c st with
    | some c' => walkAll c' rest
    | none => none

/-- steps that may lose norm (truncating SVDs) -/
def Step.lossless : Step → Bool
  | .prim (.split _ _) => false
  | .prim .trunc => false
  | _ => true

/-- `single_site_tdvp`, left-to-right loop body for site `i`: update_site(+h), QR, update_bond(-h), contract into `i+1` -/
def ssLRFull (h : Rat) : (n i : Nat) → List Step
  | 0, _ => []
  | n + 1, i => .prim (.site i h) :: .qrRight i :: .prim (.bond i (-h)) :: .absorbRight i :: ssLRFull h n (i + 1)

/-- right-to-left loop body for site `i+1`: QR of the transposed tensor, update_bond(-h) on bond `(i, i+1)`, contract into
    `i`, update_site(i, +h) -/
def ssRLFull (h : Rat) : Nat → List Step
  | 0 => []
  | i + 1 => .qrLeft (i + 1) :: .prim (.bond i (-h)) :: .absorbLeft i :: .prim (.site i h) :: ssRLFull h i

def singleSiteFull (L : Nat) (digital : Bool) : List Step :=
  if digital then ssLRFull 1 (L - 1) 0 ++ [.prim (.site (L - 1) 1)]
  else ssLRFull (1 / 2) (L - 1) 0 ++ [.prim (.site (L - 1) 1)] ++ ssRLFull (1 / 2) (L - 1)

/-- `two_site_tdvp`, left-to-right loop body: merge, update_site on the pair (+h), split "right", update_site(i+1, -h) -/
def tsLRFull (h : Rat) : (n i : Nat) → List Step
  | 0, _ => []
  | n + 1, i => .merge i :: .prim (.pair i h) :: .prim (.split i true) :: .prim (.site (i + 1) (-h)) :: tsLRFull h n (i + 1)

/-- right-to-left loop body: update_site(i+1, -h), merge, update_site on the pair (+h), split "left" -/
def tsRLFull (h : Rat) : Nat → List Step
  | 0 => []
  | i + 1 => .prim (.site (i + 1) (-h)) :: .merge i :: .prim (.pair i h) :: .prim (.split i false) :: tsRLFull h i

def twoSiteFull (L : Nat) (digital : Bool) : Option (List Step) :=
  if L < 2 then none
  else if digital then
    some (tsLRFull 1 (L - 2) 0 ++ [.merge (L - 2), .prim (.pair (L - 2) 1), .prim (.split (L - 2) true)])
  else
    some (tsLRFull (1 / 2) (L - 2) 0 ++ [.merge (L - 2), .prim (.pair (L - 2) 1), .prim (.split (L - 2) false)] ++
      tsRLFull (1 / 2) (L - 2))

/-- left-to-right half of `local_dynamic_tdvp` with the gauge steps written out; same branch structure as `lrLoop` -/
def lrLoopFull (L : Nat) (d : Nat → Bool) (h : Rat) : (n i : Nat) → (lock : Bool) → List Step
  | 0, _, _ => []
  | n + 1, i, lock =>
    if d i || lock then
      .prim (.site i h) :: ((if i ≠ L - 1 then [.qrRight i, .prim (.bond i (-h)), .absorbRight i] else []) ++
        lrLoopFull L d h n (i + 1) (lock || decide (i = L - 2)))
    else if i = L - 1 then
      lrLoopFull L d h n (i + 1) lock
    else if i = L - 2 then
      .merge i :: .prim (.pair i h) :: .prim (.split i true) :: lrLoopFull L d h n (i + 1) lock
    else
      .merge i :: .prim (.pair i h) :: .prim (.split i true) :: .prim (.site (i + 1) (-h)) ::
        lrLoopFull L d h n (i + 1) lock

/-- right-to-left half of `local_dynamic_tdvp` with the gauge steps written out; same branch structure as `rlLoop` -/
def rlLoopFull (d : Nat → Bool) (h : Rat) : (n : Nat) → (lock : Bool) → List Step
  | 0, _ => []
  | i + 1, lock =>
    if d i || lock then
      .prim (.site i h) :: ((if i ≠ 0 then [.qrLeft i, .prim (.bond (i - 1) (-h)), .absorbLeft (i - 1)] else []) ++
        rlLoopFull d h i (lock || decide (i = 1)))
    else if i = 0 then
      rlLoopFull d h i lock
    else
      .merge (i - 1) :: .prim (.pair (i - 1) h) :: .prim (.split (i - 1) false) ::
        ((if i ≠ 1 then [.prim (.site (i - 1) (-h))] else []) ++ rlLoopFull d h i lock)

/-- `local_dynamic_tdvp` with the gauge steps written out (`ldtdvpD` of `Model/Sweep.lean` is its erasure) -/
def ldtdvpFull (L : Nat) (dLR dRL : Nat → Bool) (digital : Bool) : List Step :=
  if L = 1 then singleSiteFull 1 digital
  else if digital then lrLoopFull L dLR 1 L 0 false
  else lrLoopFull L dLR (1 / 2) L 0 false ++ rlLoopFull dRL (1 / 2) L false

end Yaqs.Sweep
