/-
  Model.Krylov — exit logic of the adaptive Lanczos / Arnoldi loops and the exact three-term recurrence
  (core Lean only).

  mirrors
    core/methods/matrix_exponential.py  expm_krylov    → lanczosExit  (pure-Python and numba branch: same control flow;
                                                         lanczos_numba.orthogonalize_step writes `beta[j]` only `if j < len(beta)`)
    core/methods/matrix_exponential.py  expm_arnoldi   → arnoldiExit
    the Lanczos recurrence itself                      → lanczosRat (exact, over ℚ, unnormalised vectors: no square roots)

  The numerical quantities the control flow looks at are inputs:
    β j   = `bj = np.linalg.norm(w)` computed in iteration `j`         (η j = `h[j+1, j]` for Arnoldi)
    φ j   = `abs(phi_last)` computed in iteration `j ≥ 1` from the eigendecomposition of `T_{j+1}`
            (resp. `abs(expm(-i dt H_{j+1})[j, 0])`)
-/
namespace Yaqs.Krylov

inductive Kind
  | zero        -- `vec_norm == 0`: the input vector is returned, no iteration
  | breakdown   -- `bj < eps_cut` (resp. `h[j+1,j] < 1e-12`)
  | converged   -- `err < tol`
  | exhausted   -- loop ran to `m_max`
  deriving DecidableEq, Repr

structure Exit where
  kind : Kind
  /-- subspace size: the result is `V[:, :k] @ f(T_k) e_1 * nrm` -/
  k : Nat
  /-- `_compute_krylov_result` was called (fresh eigendecomposition) — otherwise the one of the error check is reused -/
  fresh : Bool
  /-- number of `eigh_tridiagonal` (resp. `scipy.linalg.expm`) calls -/
  nsolve : Nat
  /-- indices of the array `beta` (length `m_max - 1`) that were read, in order -/
  reads : List Nat
  /-- indices of `beta` written -/
  writes : List Nat
  deriving Repr

/-- `beta[:k-1]` touches the indices `0 … k-2` -/
def slice (k : Nat) : List Nat := List.range (k - 1)

/-- `for j in range(m_max)` of `expm_krylov`; `n` iterations remain, the current one is `j`.
    `rd`/`wr`: reads/writes of `beta` so far, `ns`: eigendecompositions so far. -/
def lanczosLoop (mMax : Nat) (epsCut tol : Rat) (β φ : Nat → Rat) :
    (n j : Nat) → (rd wr : List Nat) → (ns : Nat) → Exit
  | 0, _, rd, wr, ns =>
    -- fell out of the loop: `cached_k == m_max` iff the error check ran in the last iteration (m_max ≥ 2)
    if mMax ≥ 2 then ⟨.exhausted, mMax, false, ns, rd, wr⟩
    else ⟨.exhausted, mMax, true, ns + 1, rd ++ slice mMax, wr⟩
  | n + 1, j, rd, wr, ns =>
    -- `if j > 0: w -= beta[j-1] * v[:, j-1]`
    let rd1 := if j > 0 then rd ++ [j - 1] else rd
    -- `if j < m_max - 1: beta[j] = bj`
    let wr1 := if j < mMax - 1 then wr ++ [j] else wr
    if j < mMax - 1 ∧ β j < epsCut then
      -- breakdown: `_compute_krylov_result(alpha[:k], beta[:k-1], v[:, :k], …)` with `k = j + 1`
      ⟨.breakdown, j + 1, true, ns + 1, rd1 ++ slice (j + 1), wr1⟩
    else if j ≥ 1 then
      -- error check: `eigh_tridiagonal(alpha[:k], beta[:k-1])`, `k = j + 1`
      let rd2 := rd1 ++ slice (j + 1)
      if j < mMax - 1 then
        -- `err = beta[j] * abs(phi_last)`
        if β j * φ j < tol then ⟨.converged, j + 1, false, ns + 1, rd2 ++ [j], wr1⟩
        else lanczosLoop mMax epsCut tol β φ n (j + 1) (rd2 ++ [j]) wr1 (ns + 1)
      else lanczosLoop mMax epsCut tol β φ n (j + 1) rd2 wr1 (ns + 1)
    else lanczosLoop mMax epsCut tol β φ n (j + 1) rd1 wr1 ns

/-- `expm_krylov` control flow.  `none` = `ValueError` (`np.zeros(m_max - 1)` with `m_max = 0`). -/
def lanczosExit (normZero : Bool) (mMax : Nat) (epsCut tol : Rat) (β φ : Nat → Rat) : Option Exit :=
  if normZero then some ⟨.zero, 0, false, 0, [], []⟩
  else if mMax = 0 then none
  else some (lanczosLoop mMax epsCut tol β φ mMax 0 [] [] 0)

/-- `for j in range(m_max)` of `expm_arnoldi`; `η j = h[j+1, j]`, `thr = 1e-12`.  `reads` lists the column
    indices `j+1` of `v` written (`v` has `m_max + 1` columns). -/
def arnoldiLoop (mMax : Nat) (thr tol : Rat) (η φ : Nat → Rat) : (n j : Nat) → (cols : List Nat) → (ns : Nat) → Exit
  | 0, _, cols, ns => ⟨.exhausted, mMax, true, ns + 1, [], cols⟩
  | n + 1, j, cols, ns =>
    if η j < thr then ⟨.breakdown, j + 1, true, ns + 1, [], cols⟩
    else
      let cols1 := cols ++ [j + 1]
      if j ≥ 1 then
        if η j * φ j < tol then ⟨.converged, j + 1, false, ns + 1, [], cols1⟩
        else arnoldiLoop mMax thr tol η φ n (j + 1) cols1 (ns + 1)
      else arnoldiLoop mMax thr tol η φ n (j + 1) cols1 ns

/-- `expm_arnoldi` control flow.  `none` = `IndexError` (`m_max = 0`: the loop does not run and
    `_compute_arnoldi_result` indexes column 0 of the empty `expm` result). -/
def arnoldiExit (normZero : Bool) (mMax : Nat) (thr tol : Rat) (η φ : Nat → Rat) : Option Exit :=
  if normZero then some ⟨.zero, 0, false, 0, [], []⟩
  else if mMax = 0 then none
  else some (arnoldiLoop mMax thr tol η φ mMax 0 [] 0)

/-- the iteration at which the Lanczos loop leaves early -/
def lanczosStops (mMax : Nat) (epsCut tol : Rat) (β φ : Nat → Rat) (j : Nat) : Prop :=
  j < mMax - 1 ∧ (β j < epsCut ∨ (1 ≤ j ∧ β j * φ j < tol))

def arnoldiStops (mMax : Nat) (thr tol : Rat) (η φ : Nat → Rat) (j : Nat) : Prop :=
  j < mMax ∧ (η j < thr ∨ (1 ≤ j ∧ η j * φ j < tol))

/-! ### exact Lanczos recurrence over ℚ (real symmetric matrix, unnormalised vectors)

  `u₀ = v`, `u_{j+1} = A u_j − a_j u_j − b_j u_{j-1}` with `a_j = ⟨u_j, A u_j⟩ / ⟨u_j, u_j⟩`,
  `b_j = ⟨u_j, u_j⟩ / ⟨u_{j-1}, u_{j-1}⟩`.  With `v_j = u_j / ‖u_j‖` this is the recurrence of the code:
  `alpha[j] = a_j`, `beta[j]² = ⟨u_{j+1}, u_{j+1}⟩ / ⟨u_j, u_j⟩`. -/

def dot : List Rat → List Rat → Rat
  | x :: xs, y :: ys => x * y + dot xs ys
  | _, _ => 0

def matVec (a : List (List Rat)) (x : List Rat) : List Rat := a.map (fun row => dot row x)

def axpy (c : Rat) : List Rat → List Rat → List Rat   -- y + c x
  | x :: xs, y :: ys => (y + c * x) :: axpy c xs ys
  | _, _ => []

structure LanczosOut where
  alpha : List Rat
  betaSq : List Rat
  /-- the unnormalised vectors `u_0 … ` -/
  us : List (List Rat)
  deriving Repr

/-- `m` more steps from `(uPrev, nPrev, u, nU)`; stops at an exact breakdown `⟨u,u⟩ = 0` -/
def lanczosRatLoop (a : List (List Rat)) : (m : Nat) → (uPrev : Option (List Rat × Rat)) → (u : List Rat) → LanczosOut
  | 0, _, _ => ⟨[], [], []⟩
  | m + 1, uPrev, u =>
    let nU := dot u u
    if nU = 0 then ⟨[], [], []⟩
    else
      let w := matVec a u
      let aj := dot u w / nU
      let w1 := axpy (-aj) u w
      let w2 := match uPrev with
        | some (p, nP) => axpy (-(nU / nP)) p w1
        | none => w1
      let rest := lanczosRatLoop a m (some (u, nU)) w2
      ⟨aj :: rest.alpha, (dot w2 w2 / nU) :: rest.betaSq, u :: rest.us⟩

def lanczosRat (a : List (List Rat)) (v : List Rat) (m : Nat) : LanczosOut := lanczosRatLoop a m none v

end Yaqs.Krylov
