/-
  Model.Bug — one call of `bug` (core/methods/bug.py) with every state-touching statement written out (core Lean only).

  mirrors
    bug.py  prepare_canonical_site_tensors → prepSteps      (right_qr / np.tensordot / update_left_environment)
    bug.py  choose_stack_tensor            → BStep.stack    (leaf: the state's own tensor, otherwise the canonical centre tensor)
    bug.py  find_new_q                     → BStep.newQ     (np.concatenate along the left leg, left_qr)
    bug.py  build_basis_change_tensor      → BStep.basis    (M_k = Σ_s A_k[s] · M_{k+1} · new_q[s]ᴴ)
    bug.py  local_update                   → localUpdate
    bug.py  bug                            → bugFull, bugBonds

  `Model/Sweep.lean` lists only the primitives of a `bug` call (`bug L`: `update_site` on sites L-1 … 1, 0 with the full step,
  then `truncate`).  Here every statement of `prepare_canonical_site_tensors`, `local_update` and `bug` that touches the MPS, the
  list of canonical centre tensors, the basis-change matrix or an environment is a `BStep`; `bprims` erases the extra steps
  (`bprims (bugFull L) = bug L` is `bug_full_erases_to_trace` in `Props/C05.lean`).

  This is the rank-augmenting variant of the basis-update & Galerkin integrator: the sweep runs from the last site to site 1,
  the new basis of a site is the orthonormalised stack [old tensor ; updated tensor] along the LEFT leg (so the new tensors are
  right-isometric and the left bond of site k grows to at most twice its size), and the old state is carried into the new basis
  by the matrices `M_k`.  Site 0 (the root) is then evolved in the new basis (Galerkin step) and `truncate` cuts the bonds back.
-/
import YaqsModel.Model.Sweep

namespace Yaqs.Sweep

inductive BStep
  /-- `left_q, left_r = right_qr(canon_tensors[i])` inside `prepare_canonical_site_tensors` (loop index `i+1`) -/
  | prepQR (i : Nat)
  /-- `canon_tensors[i+1] = tensordot(left_r, state.tensors[i+1], (1,1)).transpose(1,0,2)` — the centre tensor of site `i+1` -/
  | prepCentre (i : Nat)
  /-- `left_blocks.append(update_left_environment(left_q, left_q, mpo.tensors[i], left_blocks[i]))` -/
  | prepEnv (i : Nat)
  /-- a primitive of `Model/Sweep.lean` (`update_site` with coefficient 1, or `truncate`) -/
  | prim (o : Op)
  /-- `choose_stack_tensor(site, …)`: `leaf = true` returns `state.tensors[site]`, otherwise `canon_center_tensors[site]` -/
  | stack (k : Nat) (leaf : Bool)
  /-- `find_new_q`: `np.concatenate((old_stack_tensor, updated_tensor), axis=1)` followed by `left_qr` -/
  | newQ (k : Nat)
  /-- `build_basis_change_tensor(state.tensors[k], new_q, right_m_block)` -/
  | basis (k : Nat)
  /-- `state.tensors[k] = new_q` -/
  | setQ (k : Nat)
  /-- `canon_center_tensors[k-1] = tensordot(canon_center_tensors[k-1], basis_change_m, (2,0))` -/
  | pass (k : Nat)
  /-- `new_right_block = update_right_environment(new_q, new_q, mpo.tensors[k], right_block)` -/
  | rightEnv (k : Nat)
  /-- `state.tensors[0] = updated_tensor` -/
  | setRoot
  deriving DecidableEq, Repr

/-- the primitives of a step list, in order (what the call trace of `update_site` / `truncate` shows) -/
def bprims : List BStep → List Op
  | [] => []
  | BStep.prim o :: rest => o :: bprims rest
  | _ :: rest => bprims rest

/-- `prepare_canonical_site_tensors`: `for i, … in enumerate(canon_tensors[1:], start=1)`; `n` iterations remain, the current
    one factorises site `i` (the code's `i - 1`) and produces the centre tensor and the left block of site `i+1` -/
def prepSteps : (n i : Nat) → List BStep
  | 0, _ => []
  | n + 1, i => .prepQR i :: .prepCentre i :: .prepEnv i :: prepSteps n (i + 1)

/-- `local_update(…, site = k, …)` on a chain of length `L` -/
def localUpdate (L k : Nat) : List BStep :=
  [.prim (.site k 1), .stack k (decide (k = L - 1)), .newQ k, .basis k, .setQ k, .pass k, .rightEnv k]

/-- `for site in range(num_sites - 1, 0, -1): local_update(…)`; the call with `s` visits sites `s, s-1, …, 1` -/
def bugDownFull (L : Nat) : Nat → List BStep
  | 0 => []
  | s + 1 => localUpdate L (s + 1) ++ bugDownFull L s

/-- one call of `bug` on `L ≥ 1` sites -/
def bugFull (L : Nat) : List BStep :=
  prepSteps (L - 1) 0 ++ bugDownFull L (L - 1) ++ [.prim (.site 0 1), .setRoot, .prim .trunc]

/-! ### bond dimensions before `truncate`

`b = [b₁, …, b_{L-1}]` are the internal bonds of the MPS handed to `bug` (boundary bonds 1), `d` the physical dimension.  The left
dimension of the centre tensor of site `k` is the row count of the `R` factor of `np.linalg.qr` (reduced mode) of site `k-1`:
`c₀ = 1`, `c_k = min(d·c_{k-1}, b_k)`.  The stack of site `k` has `c_k + c_k` rows (inner site: centre tensor twice) resp.
`b_k + c_k` rows (last site: the state's own tensor on top), its QR (reduced) keeps `min(d·r, rows)` of them, where `r` is the
NEW right bond of the site. -/

/-- `c_1 … c_{L-1}` from `c_0 = prev` -/
def centreDims (d : Nat) : Nat → List Nat → List Nat
  | _, [] => []
  | prev, b :: bs => min (d * prev) b :: centreDims d (min (d * prev) b) bs

/-- new left bonds of sites `k … L-1` given `(b_k, c_k)` for these sites; returns the list of new bonds (first = site `k`) -/
def newBondsAux (d : Nat) : List (Nat × Nat) → List Nat
  | [] => []
  | [(b, c)] => [min (d * 1) (b + c)]
  | (_, c) :: rest =>
    let tail := newBondsAux d rest
    min (d * tail.headD 1) (c + c) :: tail

/-- the internal bonds of the MPS after the sweep of `bug`, before `truncate` -/
def bugBonds (d : Nat) (b : List Nat) : List Nat := newBondsAux d (b.zip (centreDims d 1 b))

end Yaqs.Sweep
