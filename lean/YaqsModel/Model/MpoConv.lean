/-
  Model.MpoConv — executable model of the MPO conversions and the SVD compression of the model library
  (property C07, clauses "dense and sparse conversions agree", "compression changes it by no more than the tolerance",
  "a dense matrix factorised into an MPO converts back to itself").  Core Lean only.

  Mirrors  core/data_structures/networks.py :
    MPO.to_matrix            → `denseStep`, `denseAcc`, `toMatrixCode`      (einsum `abcd,efdg->aebfcg` + reshape, squeeze)
    MPO.to_sparse_matrix     → `spStep`, `spAcc`, `toSparseCode`            (dict of bond index ↦ accumulated Kronecker sum)
    MPO.from_matrix          → `inferN`, `fmX`, `fmSite`, `fmRem`, `fmLast`, `fromMatrixGo`, `fromMatrix`
    MPO.compress             → `schedule`, `compressPlan`
    MPO._compress_one_sweep  → `sweepOrder`, `theta`, `cLeft`, `cRight`, `compressStep`, `compressSweep`
    MPO.identity / rotate / custom / to_mps / check_if_valid_mpo → `identityMpo`, `rotateSite`, `customSite`,
                                                                     `toMpsEntry`, `checkValid`

  A site tensor `tensor[a, b, l, r]` (phys_out, phys_in, left bond, right bond) is a function of four naturals together
  with its shape.  The external primitive (LAPACK SVD) enters as data `Dec` (`u`, spectrum, `vh` as returned by
  `np.linalg.svd(x, full_matrices=False)`); what the theorems assume about it is spelled out as hypotheses there and
  spec-tied by the harness.  Coefficients live in an arbitrary type `K`; the driver runs everything over `Trotter.GRat`.
-/
import YaqsModel.Model.Index
import YaqsModel.Model.Rank

namespace Yaqs.MpoConv
open Yaqs.Index (Mat kronIdx dimProd unflat)
open Yaqs.Rank (keepCompress keepFromMatrix)

/-- one MPO tensor of shape `(d, d, dl, dr)`; `e a b l r = tensor[a, b, l, r]` -/
structure Site (K : Type) where
  d : Nat
  dl : Nat
  dr : Nat
  e : Nat → Nat → Nat → Nat → K

/-- `Σ_{i<n} f i`, accumulated in ascending order -/
def sumTo {K : Type} [Zero K] [Add K] : Nat → (Nat → K) → K
  | 0, _ => 0
  | n + 1, f => sumTo n f + f n

section generic
variable {K : Type} [Zero K] [One K] [Add K] [Mul K]

/-! ## The definition: sum over bond paths -/

/-- value of every left bond index of the chain `ts` at the configuration pair `(σ, σ')`: the sum over all bond paths
    of the product of the tensor entries, `(W_i[σ_i σ'_i] ⋯ W_{L-1}[σ_{L-1} σ'_{L-1}] · 1)_l`.
    (Same recursion as `Trotter.vals` / `Trotter.blkVals`, for arbitrary tensors.) -/
def vals : List (Site K) → List Nat → List Nat → Nat → K
  | [], _, _ => fun _ => 1
  | t :: ts, σ, σ' => fun l => sumTo t.dr fun r => t.e (σ.headD 0) (σ'.headD 0) l r * vals ts σ.tail σ'.tail r

/-- `⟨σ| O |σ'⟩` of the operator an MPO stands for: the bond path sum starting at left bond index 0 -/
def toMatrixEntry (ts : List (Site K)) (σ σ' : List Nat) : K := vals ts σ σ' 0

/-- local dimensions of the chain -/
def physDims (ts : List (Site K)) : List Nat := ts.map (·.d)

/-! ## `check_if_valid_mpo` -/

/-- `right_bond = tensors[0].shape[3]; for t in tensors[1:]: assert t.shape[2] == right_bond; right_bond = t.shape[3]` -/
def chainFrom (right : Nat) : List (Site K) → Bool
  | [] => true
  | t :: ts => decide (t.dl = right) && chainFrom t.dr ts

/-- `check_if_valid_mpo`: `none` = `IndexError` (no tensors), `some false` = the `assert` fails -/
def checkValid : List (Site K) → Option Bool
  | [] => none
  | t :: ts => some (chainFrom t.dr ts)

/-- right bond of the last tensor (`dflt` for an empty chain) -/
def lastDr (dflt : Nat) : List (Site K) → Nat
  | [] => dflt
  | t :: ts => lastDr t.dr ts

/-- what `to_matrix` needs in order not to raise: consecutive bonds match, outer bonds are 1 -/
def wellFormed : List (Site K) → Bool
  | [] => false
  | t :: ts => decide (t.dl = 1) && chainFrom t.dr ts && decide (lastDr t.dr ts = 1)

/-! ## `to_matrix` -/

/-- the running array `mat` of `to_matrix`, shape `(rows, cols, dl, dr)` -/
structure Acc (K : Type) where
  rows : Nat
  cols : Nat
  dl : Nat
  dr : Nat
  e : Nat → Nat → Nat → Nat → K

/-- `mat = self.tensors[0]` -/
def accOfSite (t : Site K) : Acc K := ⟨t.d, t.d, t.dl, t.dr, t.e⟩

/-- `mat = contract("abcd, efdg->aebfcg", mat, tensor); mat = reshape(mat, (a*e, b*f, c, g))`:
    the new physical index is the *least* significant digit of the row / column index -/
def denseStep (m : Acc K) (t : Site K) : Acc K :=
  ⟨m.rows * t.d, m.cols * t.d, m.dl, t.dr,
   fun i j c g => sumTo m.dr fun x => m.e (i / t.d) (j / t.d) c x * t.e (i % t.d) (j % t.d) x g⟩

def denseAcc (t : Site K) (ts : List (Site K)) : Acc K := ts.foldl denseStep (accOfSite t)

/-- `MPO.to_matrix`; `none` where the code raises (no tensors, bond mismatch in the contraction, `squeeze` of an outer
    bond that is not 1) -/
def toMatrixCode (ts : List (Site K)) : Option (Mat K) :=
  match ts with
  | [] => none
  | t :: rest =>
    if wellFormed ts then
      let m := denseAcc t rest
      some ⟨m.rows, m.cols, fun i j => m.e i j 0 0⟩
    else none

/-! ## `to_sparse_matrix` -/

/-- `current_operators`: which bond indices are keys of the dict, and the matrix stored under each -/
structure SpAcc (K : Type) where
  rows : Nat
  cols : Nat
  present : Nat → Bool
  e : Nat → Nat → Nat → K

/-- `{0: csr_matrix(np.eye(1))}` -/
def spInit : SpAcc K := ⟨1, 1, fun al => al == 0, fun _ i j => if i = j then 1 else 0⟩

variable [DecidableEq K]

/-- `np.all(tensor[:, :, alpha, beta] == 0)` -/
def blockZero (t : Site K) (al be : Nat) : Bool :=
  (List.range t.d).all fun a => (List.range t.d).all fun b => decide (t.e a b al be = 0)

/-- does `alpha` contribute a term to `next_operators[beta]`: `alpha in current_operators` and the block is not zero -/
def contrib (c : SpAcc K) (t : Site K) (be al : Nat) : Bool := c.present al && !blockZero t al be

/-- one tensor of the loop of `to_sparse_matrix`:
    `next[beta] = Σ_{alpha contributing, ascending} scipy.sparse.kron(current[alpha], tensor[:, :, alpha, beta])`,
    with `kron(A, B)[i, j] = A[i / rB, j / cB] * B[i % rB, j % cB]`; `beta` becomes a key iff some `alpha` contributes -/
def spStep (c : SpAcc K) (t : Site K) : SpAcc K :=
  ⟨c.rows * t.d, c.cols * t.d,
   fun be => decide (be < t.dr) && (List.range t.dl).any (contrib c t be),
   fun be i j => sumTo t.dl fun al =>
     if contrib c t be al then c.e al (i / t.d) (j / t.d) * t.e (i % t.d) (j % t.d) al be else 0⟩

def spAcc (ts : List (Site K)) : SpAcc K := ts.foldl spStep spInit

/-- `MPO.to_sparse_matrix`: `current_operators[0]`, or the zero matrix of dimension `d ** length` (the fields
    `physical_dimension`, `length` of the object) when the key `0` is absent -/
def toSparseCode (physDim length : Nat) (ts : List (Site K)) : Mat K :=
  let c := spAcc ts
  if c.present 0 then ⟨c.rows, c.cols, c.e 0⟩ else ⟨physDim ^ length, physDim ^ length, fun _ _ => 0⟩

end generic

/-! ## `from_matrix` -/

/-- `from_matrix`, inference of the chain length: `none` where the code raises `ValueError`
    (`d ≤ 0`; `d = 1` with a matrix that is not `1 × 1`; `rows` not a power `d ^ n` with `n ≥ 1`; the non-square case is
    checked by the caller).  `fuel` bounds the search for the exponent (`rows` itself suffices). -/
def findPow (d rows : Nat) : Nat → Nat → Option Nat
  | 0, _ => none
  | fuel + 1, n => if d ^ n = rows then some n else if rows < d ^ n then none else findPow d rows fuel (n + 1)

def inferN (d rows cols : Nat) : Option Nat :=
  if d = 0 then none
  else if rows ≠ cols then none
  else if d = 1 then (if rows = 1 then some 1 else none)
  else findPow d rows (rows + 1) 1

/-- what `np.linalg.svd(x, full_matrices=False)` returned: `u`, the singular values (as exact rationals, for the rank
    rule, and as elements of `K`, for the arithmetic) and `vh` -/
structure Dec (K : Type) where
  U : Nat → Nat → K
  s : List Rat
  sv : Nat → K
  Vh : Nat → Nat → K

section generic
variable {K : Type} [Zero K] [One K] [Add K] [Mul K]

/-- the remainder `rem` of `from_matrix` as an array of shape `(left_rank, d * rest, d * rest)`:
    `rem.reshape(left_rank, d, rest, d, rest)[l, a, i, b, j] = rem l (a * rest + i) (b * rest + j)` -/
abbrev Rem (K : Type) := Nat → Nat → Nat → K

/-- step `k` of `from_matrix`, index regrouping:
    `x = transpose(rem.reshape(lr, d, rest, d, rest), (1, 3, 0, 2, 4)).reshape(d * d * lr, rest * rest)`;
    row index `(a * d + b) * lr + l` (physical pair most significant, left bond least), column index `i * rest + j` -/
def fmX (d lr rest : Nat) (rem : Rem K) : Nat → Nat → K :=
  fun r c => rem (r % lr) ((r / lr) / d * rest + c / rest) ((r / lr) % d * rest + c % rest)

/-- `t_k = u[:, :r_keep].reshape(d, d, left_rank, r_keep)` -/
def fmSite (d lr r : Nat) (U : Nat → Nat → K) : Site K := ⟨d, lr, r, fun a b l p => U ((a * d + b) * lr + l) p⟩

/-- `rem = (s[:, None] * vh)[:r_keep].reshape(r_keep, rest, rest)` -/
def fmRem (rest : Nat) (sv : Nat → K) (Vh : Nat → Nat → K) : Rem K := fun p i j => sv p * Vh p (i * rest + j)

/-- `t_last = transpose(rem.reshape(left_rank, d, d), (1, 2, 0)).reshape(d, d, left_rank, 1)` -/
def fmLast (d lr : Nat) (rem : Rem K) : Site K := ⟨d, lr, 1, fun a b l _ => rem l a b⟩

/-- the loop of `from_matrix` with `m` splitting steps still to do (`rest = d ^ m` at the step about to run) and the
    decompositions of those steps in call order; `r_keep = _truncate(s)` is `Rank.keepFromMatrix` -/
def fromMatrixGo (d : Nat) (cutoff : Rat) (maxB : Option Nat) : Nat → Nat → Rem K → List (Dec K) → List (Site K)
  | 0, lr, rem, _ => [fmLast d lr rem]
  | m + 1, lr, _, dec :: decs =>
    let r := keepFromMatrix dec.s cutoff maxB
    fmSite d lr r dec.U :: fromMatrixGo d cutoff maxB m r (fmRem (d ^ (m + 1)) dec.sv dec.Vh) decs
  | _ + 1, _, _, [] => []

/-- the matrices handed to `np.linalg.svd`, in call order, with their shapes -/
def fromMatrixXs (d : Nat) (cutoff : Rat) (maxB : Option Nat) : Nat → Nat → Rem K → List (Dec K) → List (Mat K)
  | 0, _, _, _ => []
  | m + 1, lr, rem, dec :: decs =>
    let rest := d ^ (m + 1)
    let r := keepFromMatrix dec.s cutoff maxB
    ⟨d * d * lr, rest * rest, fmX d lr rest rem⟩ :: fromMatrixXs d cutoff maxB m r (fmRem rest dec.sv dec.Vh) decs
  | _ + 1, _, _, [] => []

/-- `rem = mat.reshape(1, rows, cols)` -/
def remOfMat (M : Nat → Nat → K) : Rem K := fun _ i j => M i j

/-- `MPO.from_matrix(mat, d, max_bond, cutoff)` given the SVD results of its `n - 1` steps; `none` = `ValueError` -/
def fromMatrix (d rows cols : Nat) (M : Nat → Nat → K) (cutoff : Rat) (maxB : Option Nat) (decs : List (Dec K)) :
    Option (List (Site K)) :=
  match inferN d rows cols with
  | none => none
  | some n => some (fromMatrixGo d cutoff maxB (n - 1) 1 (remOfMat M) decs)

/-! ## `compress` / `_compress_one_sweep` -/

inductive Dir | lr | rl
deriving DecidableEq, Repr

def Dir.toString : Dir → String
  | .lr => "lr" | .rl => "rl"

/-- the `schedule` dict of `compress`; `none` = `ValueError` (unknown `directions`) -/
def schedule : String → Option (List Dir)
  | "lr" => some [.lr]
  | "rl" => some [.rl]
  | "lr_rl" => some [.lr, .rl]
  | "rl_lr" => some [.rl, .lr]
  | _ => none

/-- `compress(n_sweeps, directions)`: the sequence of `_compress_one_sweep` calls; `none` = `ValueError` -/
def compressPlan (nSweeps : Int) (directions : String) : Option (List Dir) :=
  if nSweeps < 0 then none
  else match schedule directions with
    | none => none
    | some sch => some (List.replicate nSweeps.toNat sch).flatten

/-- `rng = range(length - 1) if direction == "lr" else range(length - 2, -1, -1)` -/
def sweepOrder (dir : Dir) (length : Nat) : List Nat :=
  match dir with
  | .lr => List.range (length - 1)
  | .rl => (List.range (length - 1)).reverse

/-- `theta = contract("stlr,uvrw->stuvlw", a, b).transpose(4, 0, 1, 2, 3, 5).reshape(Dl * d * d, d * d * Dr)` with
    `d = a.shape[0]`, `Dl = a.shape[2]`, `Dr = b.shape[3]`: row index `(l * d + s) * d + t`, column `(u * d + v) * Dr + w` -/
def theta (a b : Site K) : Nat → Nat → K :=
  fun i j => sumTo a.dr fun r =>
    a.e (i / a.d % a.d) (i % a.d) (i / a.d / a.d) r * b.e (j / b.dr / a.d) (j / b.dr % a.d) r (j % b.dr)

/-- `left = u[:, :keep].reshape(Dl, d, d, keep).transpose(1, 2, 0, 3)` -/
def cLeft (a : Site K) (keep : Nat) (U : Nat → Nat → K) : Site K :=
  ⟨a.d, a.dl, keep, fun s t l p => U ((l * a.d + s) * a.d + t) p⟩

/-- `right = (s[:keep, None] * vh[:keep]).reshape(keep, d, d, Dr).transpose(1, 2, 0, 3)` — the singular values go into
    the *right* factor in both sweep directions -/
def cRight (a b : Site K) (keep : Nat) (sv : Nat → K) (Vh : Nat → Nat → K) : Site K :=
  ⟨a.d, keep, b.dr, fun u v p w => sv p * Vh p ((u * a.d + v) * b.dr + w)⟩

/-- one iteration of the loop of `_compress_one_sweep` at bond `(k, k+1)`;
    `keep = max(1, min(sum(tol < s), max_bond_dim))` is `Rank.keepCompress` -/
def compressStep (tol : Rat) (maxB : Option Nat) (ts : List (Site K)) (k : Nat) (dec : Dec K) : List (Site K) :=
  match ts[k]?, ts[k + 1]? with
  | some a, some b =>
    let keep := keepCompress dec.s tol maxB
    (ts.set k (cLeft a keep dec.U)).set (k + 1) (cRight a b keep dec.sv dec.Vh)
  | _, _ => ts

/-- fold of `compressStep` over the bonds `ks` with the decompositions in call order -/
def compressFold (tol : Rat) (maxB : Option Nat) : List (Site K) → List Nat → List (Dec K) → List (Site K)
  | ts, k :: ks, dec :: decs => compressFold tol maxB (compressStep tol maxB ts k dec) ks decs
  | ts, _, _ => ts

/-- `_compress_one_sweep(direction, tol, max_bond_dim)` given the SVD results in call order -/
def compressSweep (dir : Dir) (tol : Rat) (maxB : Option Nat) (ts : List (Site K)) (decs : List (Dec K)) : List (Site K) :=
  compressFold tol maxB ts (sweepOrder dir ts.length) decs

/-- the matrices handed to `np.linalg.svd` during a sweep, in call order -/
def compressThetas (tol : Rat) (maxB : Option Nat) : List (Site K) → List Nat → List (Dec K) → List (Mat K)
  | ts, k :: ks, dec :: decs =>
    match ts[k]?, ts[k + 1]? with
    | some a, some b =>
      ⟨a.dl * a.d * a.d, a.d * a.d * b.dr, theta a b⟩ :: compressThetas tol maxB (compressStep tol maxB ts k dec) ks decs
    | _, _ => []
  | _, _, _ => []

/-- bond dimensions `[dl_0, dr_0, dr_1, …]` -/
def bondDims : List (Site K) → List Nat
  | [] => []
  | t :: ts => t.dl :: (t :: ts).map (·.dr)

/-! ## `identity`, `rotate`, `custom`, `to_mps` -/

/-- `np.expand_dims(np.eye(d), (2, 3))` -/
def identitySite (d : Nat) : Site K := ⟨d, 1, 1, fun a b _ _ => if a = b then 1 else 0⟩

/-- `MPO.identity(length, physical_dimension)` -/
def identityMpo (length d : Nat) : List (Site K) := List.replicate length (identitySite d)

/-- `np.transpose(tensor, (1, 0, 2, 3))`, after `np.conj` when `conjugate` (`cj` is the conjugation, `id` otherwise) -/
def rotateSite (cj : K → K) (t : Site K) : Site K := ⟨t.d, t.dl, t.dr, fun a b l r => cj (t.e b a l r)⟩

/-- `MPO.rotate(conjugate)` -/
def rotateMpo (cj : K → K) (ts : List (Site K)) : List (Site K) := ts.map (rotateSite cj)

/-- `MPO.custom(tensors, transpose=True)`: the caller's layout `(left, right, σ, σ')` becomes `(σ, σ', left, right)`:
    `np.transpose(tensor, (2, 3, 0, 1))[a, b, l, r] = tensor[l, r, a, b]` -/
def customSite (d dl dr : Nat) (raw : Nat → Nat → Nat → Nat → K) : Site K := ⟨d, dl, dr, fun a b l r => raw l r a b⟩

/-- `MPO.to_mps`: `np.reshape(tensor, (d * d, Dl, Dr))[p, l, r] = tensor[p / d, p % d, l, r]` -/
def toMpsEntry (t : Site K) (p l r : Nat) : K := t.e (p / t.d) (p % t.d) l r

end generic

end Yaqs.MpoConv
