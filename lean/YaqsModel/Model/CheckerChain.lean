/-
  Model.CheckerChain — `iterate` of the equivalence checker on the tensor list, for circuits of one-qubit and
  nearest-neighbour two-qubit gates (C04, end-to-end extension).  Core Lean only.

  mirrors  digital/utils/mpo_utils.py
    update_mpo(mpo, dag1, dag2, [m, m+1], threshold)
        theta = contract(mpo.tensors[m], mpo.tensors[m+1]); zone of dag1 on top; zone of dag2 conjugated from below;
        mpo.tensors[m], mpo.tensors[m+1] = decompose_theta(theta, threshold)                       → `updateMpo`
    apply_layer / the `while` loop of iterate when every remaining gate is nearest-neighbour          → `runSteps`
    iterate(mpo, dag1, dag2, threshold)                                                               → `iterateMpo`
  and      digital/equivalence_checker.py
    run(circuit1, circuit2, threshold, fidelity)                                                      → `checkerRun`

  The *order* of the updates and the gates each one consumes come from `Model/Verdict.iterate` (trace-tied by the `iter`
  cases); the contractions of one update are `Model/MpoUpdate.updateTheta` / `decomposeTheta` (value-tied by the `t-update`
  and `e2e-update` cases).  This file only strings them together: two consecutive zone events `z1:m:…`, `z2:m:…` of the event
  list are one `update_mpo` at sites `(m, m+1)`.  The LAPACK SVD of every update enters as data (`Svd`), in call order.
  A long-range event (`apply_long_range_layer`) is outside this model: `stepsOf` returns `none`.
-/
import YaqsModel.Model.MpoUpdate

namespace Yaqs.CheckerChain
open Yaqs.MpoConv (Site identityMpo)
open Yaqs.MpoUpdate
open Yaqs.Verdict

/-- one call `update_mpo(mpo, dag1, dag2, [m, m+1], threshold)`: the pair of sites and the gates its two temporal zones
    consume (circuit 1, circuit 2), in the order they are applied -/
structure Step where
  m : Nat
  is1 : List Instr
  is2 : List Instr
deriving DecidableEq, Repr

/-- the two zone events of one `update_mpo` in the event list of `Verdict.iterate` -/
def Step.evs (s : Step) : List Ev := [Ev.zone 1 s.m s.is1, Ev.zone 2 s.m s.is2]

/-- read an event list as a sequence of `update_mpo` calls; `none` if it contains a long-range event (not modelled here)
    or is not made of `z1:m`, `z2:m` pairs -/
def stepsOf : List Ev → Option (List Step)
  | [] => some []
  | Ev.zone c m a :: Ev.zone c' m' b :: rest =>
    if c = 1 ∧ c' = 2 ∧ m = m' then
      match stepsOf rest with
      | some ss => some (⟨m, a, b⟩ :: ss)
      | none => none
    else none
  | _ => none

section generic
variable {K : Type} [Zero K] [One K] [Add K] [Mul K]

/-- `update_mpo(mpo, dag1, dag2, [m, m+1], threshold)` on the tensor list, given what `np.linalg.svd` returned inside
    `decompose_theta`; `gate1`, `gate2` are the gate objects `convert_dag_to_tensor_algorithm` builds for the instructions
    of the two circuits; `none` = an assertion of `apply_gate` fails or the pair is out of range (`IndexError`) -/
def updateMpo (cj : K → K) (d : Nat) (thr : Rat) (gate1 gate2 : Instr → Gate K) (ts : List (Site K)) (s : Step)
    (dec : Svd K) : Option (List (Site K)) :=
  match ts[s.m]?, ts[s.m + 1]? with
  | some A, some B =>
    match updateTheta cj d s.m A B (s.is1.map gate1) (s.is2.map gate2) with
    | some _ =>
      let r := decomposeTheta d A.dl B.dr dec thr
      some ((ts.set s.m r.1).set (s.m + 1) r.2)
    | none => none
  | _, _ => none

/-- the sequence of `update_mpo` calls of `iterate`, with the SVD results in call order -/
def runSteps (cj : K → K) (d : Nat) (thr : Rat) (gate1 gate2 : Instr → Gate K) :
    List (Site K) → List Step → List (Svd K) → Option (List (Site K))
  | ts, [], _ => some ts
  | ts, s :: ss, dec :: decs =>
    match updateMpo cj d thr gate1 gate2 ts s dec with
    | some ts' => runSteps cj d thr gate1 gate2 ts' ss decs
    | none => none
  | _, _ :: _, [] => none

/-- `mpo.identity(n); iterate(mpo, dag1, dag2, threshold)` for nearest-neighbour circuits: the final tensor list -/
def iterateMpo (cj : K → K) (d : Nat) (thr : Rat) (gate1 gate2 : Instr → Gate K) (n : Nat) (c1 c2 : Dag)
    (decs : List (Svd K)) : Option (List (Site K)) :=
  match iterate n c1 c2 (c1.length + c2.length) with
  | .done evs =>
    match stepsOf evs with
    | some steps => runSteps cj d thr gate1 gate2 (identityMpo n d) steps decs
    | none => none
  | _ => none

end generic

/-- `equivalence_checker.run(circuit1, circuit2, threshold, fidelity)["equivalent"]` (qubits: `d = 2`) -/
def checkerRun (thr : Rat) (gate1 gate2 : Instr → Gate CRat) (n : Nat) (c1 c2 : Dag) (decs : List (Svd CRat)) (f : Rat) :
    Option Bool :=
  match iterateMpo CRat.conj 2 thr gate1 gate2 n c1 c2 decs with
  | some ts =>
    match identityTrace CRat.conj ts with
    | some tr => some (identityDecision tr n f)
    | none => none
  | none => none

end Yaqs.CheckerChain
