/-
  Model.CheckerChain — `iterate` of the equivalence checker on the tensor list, for circuits of one-qubit and
  nearest-neighbour two-qubit gates (C04, end-to-end extension).  Core Lean only.

  mirrors  digital/utils/mpo_utils.py
    update_mpo(mpo, dag1, dag2, [m, m+1], threshold)
        theta = contract(mpo.tensors[m], mpo.tensors[m+1]); zone of dag1 on top; zone of dag2 conjugated from below;
        mpo.tensors[m], mpo.tensors[m+1] = decompose_theta(theta, threshold)                       → `updateMpo`
    apply_layer / the `while` loop of iterate when every remaining gate is nearest-neighbour          → `runSteps`
    iterate(mpo, dag1, dag2, threshold)                                                               → `iterateMpo`
  and      digital/equivalence_checker.py
    run(circuit1, circuit2, threshold, fidelity)                                                      → `checkerRun`

  The *order* of the updates and the gates each one consumes come from `Model/Verdict.iterate` (trace-tied by the `iter`
  cases); the contractions of one update are `Model/MpoUpdate.updateTheta` / `decomposeTheta` (value-tied by the `t-update`
  and `e2e-update` cases).  This file only strings them together: two consecutive zone events `z1:m:…`, `z2:m:…` of the event
  list are one `update_mpo` at sites `(m, m+1)`.  The LAPACK SVD of every update enters as data (`Svd`), in call order.
  A long-range event (`apply_long_range_layer`) is outside this model: `stepsOf` returns `none`.
-/
import YaqsModel.Model.MpoUpdate

namespace Yaqs.CheckerChain
open Yaqs.MpoConv (Site identityMpo)
open Yaqs.MpoUpdate
open Yaqs.Verdict

/-- one call `update_mpo(mpo, dag1, dag2, [m, m+1], threshold)`: the pair of sites and the gates its two temporal zones
    consume (circuit 1, circuit 2), in the order they are applied -/
structure Step where
  m : Nat
  is1 : List Instr
  is2 : List Instr
deriving DecidableEq, Repr

/-- the two zone events of one `update_mpo` in the event list of `Verdict.iterate` -/
def Step.evs (s : Step) : List Ev := [Ev.zone 1 s.m s.is1, Ev.zone 2 s.m s.is2]

/-- read an event list as a sequence of `update_mpo` calls; `none` if it contains a long-range event (not modelled here)
    or is not made of `z1:m`, `z2:m` pairs -/
def stepsOf : List Ev → Option (List Step)
  | [] => some []
  | Ev.zone c m a :: Ev.zone c' m' b :: rest =>
    if c = 1 ∧ c' = 2 ∧ m = m' then
      match stepsOf rest with
      | some ss => some (⟨m, a, b⟩ :: ss)
      | none => none
    else none
  | _ => none

section generic
variable {K : Type} [Zero K] [One K] [Add K] [Mul K]

/-- `update_mpo(mpo, dag1, dag2, [m, m+1], threshold)` on the tensor list, given what `np.linalg.svd` returned inside
    `decompose_theta`; `gate1`, `gate2` are the gate objects `convert_dag_to_tensor_algorithm` builds for the instructions
    of the two circuits; `none` = an assertion of `apply_gate` fails or the pair is out of range (`IndexError`) -/
def updateMpo (cj : K → K) (d : Nat) (thr : Rat) (gate1 gate2 : Instr → Gate K) (ts : List (Site K)) (s : Step)
    (dec : Svd K) : Option (List (Site K)) :=
  match ts[s.m]?, ts[s.m + 1]? with
  | some A, some B =>
    match updateTheta cj d s.m A B (s.is1.map gate1) (s.is2.map gate2) with
    | some _ =>
      let r := decomposeTheta d A.dl B.dr dec thr
      some ((ts.set s.m r.1).set (s.m + 1) r.2)
    | none => none
  | _, _ => none

/-- the sequence of `update_mpo` calls of `iterate`, with the SVD results in call order -/
def runSteps (cj : K → K) (d : Nat) (thr : Rat) (gate1 gate2 : Instr → Gate K) :
    List (Site K) → List Step → List (Svd K) → Option (List (Site K))
  | ts, [], _ => some ts
  | ts, s :: ss, dec :: decs =>
    match updateMpo cj d thr gate1 gate2 ts s dec with
    | some ts' => runSteps cj d thr gate1 gate2 ts' ss decs
    | none => none
  | _, _ :: _, [] => none

/-- `mpo.identity(n); iterate(mpo, dag1, dag2, threshold)` for nearest-neighbour circuits: the final tensor list -/
def iterateMpo (cj : K → K) (d : Nat) (thr : Rat) (gate1 gate2 : Instr → Gate K) (n : Nat) (c1 c2 : Dag)
    (decs : List (Svd K)) : Option (List (Site K)) :=
  match iterate n c1 c2 (c1.length + c2.length) with
  | .done evs =>
    match stepsOf evs with
    | some steps => runSteps cj d thr gate1 gate2 (identityMpo n d) steps decs
    | none => none
  | _ => none

end generic

/-- `equivalence_checker.run(circuit1, circuit2, threshold, fidelity)["equivalent"]` (qubits: `d = 2`) -/
def checkerRun (thr : Rat) (gate1 gate2 : Instr → Gate CRat) (n : Nat) (c1 c2 : Dag) (decs : List (Svd CRat)) (f : Rat) :
    Option Bool :=
  match iterateMpo CRat.conj 2 thr gate1 gate2 n c1 c2 decs with
  | some ts =>
    match identityTrace CRat.conj ts with
    | some tr => some (identityDecision tr n f)
    | none => none
  | none => none

/-! ## extension (xl04): long-range layers — `apply_long_range_layer` on the tensor list

  mirrors  digital/utils/mpo_utils.py::apply_long_range_layer(mpo, dag1, dag2, threshold, conjugate=…)
    gate_ = convert_dag_to_tensor_algorithm(node)[0]; gate_mpo.custom(gate_.mpo_tensors, transpose=False)
    if conjugate: gate_mpo.rotate(conjugate=True)                                         → `lrGateTensors`
    sites = range(location, location + distance)   (= range(mpo.length) when the gate MPO spans the whole chain)
    for every even gate-MPO site (not the last): the pair einsum stacks gate tensors i, i+1 on MPO tensors loc+i, loc+i+1
       (`MpoUpdate.lrPairTop/lrPairBottom` = `thetaOf` of the two site products, C04.21), the two temporal zones of the pair,
       `decompose_theta`; a hanging last gate tensor is stacked on its MPO tensor (`lrHangTop/Bottom`), merged with the
       ALREADY UPDATED previous tensor, zones, `decompose_theta`                            → `lrMul` + `runSteps`
  The code stacks the gate tensors on a pair immediately before it updates that pair; the pairs are disjoint and the hanging
  site is only read by the last update, so the data flow is the same as stacking all gate tensors first (`lrMul`) and then
  running the pair updates (`runSteps` over `Verdict.lrPairs`) — that is how the model is written; the tie compares the block
  handed to every SVD and both tensors written back by every pair update with the real run.
  `swap` is not decomposed by the code: `GateLibrary.swap` is a gate object with its own `mpo_tensors` (`extend_gate` of the
  4×4 swap matrix, bond dimension 4) and takes exactly this path; nothing special is modelled for it.
  The gate-MPO tensors `gate_.mpo_tensors` (output of `split_tensor`'s SVD + `extend_gate`) enter as data, like the SVDs. -/

/-- one iteration of the `while` loop of `iterate` at tensor level: an `update_mpo` of `apply_layer`, or one whole
    `apply_long_range_layer` (the gate removed from circuit `c` and the pair updates of its layer) -/
inductive Blk where
  | upd (s : Step)
  | lr (c : Nat) (g : Instr) (steps : List Step)
deriving DecidableEq, Repr

/-- `location = min(gate.qubits[0]._index, gate.qubits[-1]._index)` -/
def lrLoc (g : Instr) : Nat := min (g.qs.head?.getD 0) (g.qs.getLast?.getD 0)

/-- the events of `Verdict.iterate` a block stands for -/
def Blk.evs : Blk → List Ev
  | .upd s => s.evs
  | .lr c g ss => Ev.lr c g :: ss.flatMap Step.evs

/-- read the pair updates of one long-range layer (one `z1:m z2:m` pair of events per entry of `ms`, in that order);
    returns the steps and the unread events -/
def parseLayer : List Nat → List Ev → Option (List Step × List Ev)
  | [], evs => some ([], evs)
  | m :: ms, Ev.zone c m1 a :: Ev.zone c' m2 b :: rest =>
    if c = 1 ∧ c' = 2 ∧ m1 = m ∧ m2 = m then
      match parseLayer ms rest with
      | some r => some (⟨m, a, b⟩ :: r.1, r.2)
      | none => none
    else none
  | _ :: _, _ => none

/-- read an event list of `Verdict.iterate` as a sequence of blocks: `g<c>:<id>` opens a long-range layer whose pair
    updates are at `lrPairs location distance`; anything else must be a `z1:m z2:m` pair (`stepsOf`).  `fuel` bounds the
    number of blocks (the length of the event list suffices); `none` = the list is not of that form. -/
def stepsOfLR : Nat → List Ev → Option (List Blk)
  | _, [] => some []
  | 0, _ :: _ => none
  | k + 1, Ev.lr c g :: rest =>
    match parseLayer (lrPairs (lrLoc g) (dist g.qs)) rest with
    | some r =>
      match stepsOfLR k r.2 with
      | some bs => some (Blk.lr c g r.1 :: bs)
      | none => none
    | none => none
  | k + 1, Ev.zone c m a :: Ev.zone c' m' b :: rest =>
    if c = 1 ∧ c' = 2 ∧ m = m' then
      match stepsOfLR k rest with
      | some bs => some (Blk.upd ⟨m, a, b⟩ :: bs)
      | none => none
    else none
  | _ + 1, _ => none

section genericLR
variable {K : Type} [Zero K] [One K] [Add K] [Mul K]

/-- site-wise combination of a short chain `gs` with the first `gs.length` tensors of `ws` (the rest of `ws` is kept) -/
def zipSites (f : Site K → Site K → Site K) : List (Site K) → List (Site K) → List (Site K)
  | g :: gs, w :: ws => f g w :: zipSites f gs ws
  | _, ws => ws

/-- the tensors `gate_mpo` holds when they are stacked on the MPO: `gate_.mpo_tensors` for a gate of the first circuit,
    `gate_mpo.rotate(conjugate=True)` of them for a gate of the second circuit -/
def lrGateTensors (cj : K → K) (conj : Bool) (gm : List (Site K)) : List (Site K) :=
  if conj then MpoConv.rotateMpo cj gm else gm

/-- all gate-MPO tensors stacked on the MPO tensors at sites `loc, loc+1, …`: from above with the gate bond most significant
    (`mulSite` = the einsums `"abcd,edfg,chij,fjkl->aebhikgl"` / `"abcd,cefg->abefdg"` + reshape, C04.21) for a gate of the first
    circuit; from below with the MPO bond most significant (`lrHangBottom` = `mpo.rotate()`, `"…->ikhbaelg"` / `"…->febagd"`,
    `mpo.rotate()`) for a gate of the second circuit.  `gs` are the tensors as `gate_mpo` holds them (`lrGateTensors`). -/
def lrMul (conj : Bool) (gs : List (Site K)) (loc : Nat) (ts : List (Site K)) : List (Site K) :=
  ts.take loc ++ zipSites (if conj then lrHangBottom else mulSite) gs (ts.drop loc)

/-- `apply_long_range_layer(mpo, dag1, dag2, threshold, conjugate = (c == 2))` on the tensor list, for the gate `g` the layer
    logic removed from circuit `c`, its gate-MPO tensors `gm = gate_.mpo_tensors`, the pair updates `ss` (sites and consumed
    gates, from the event list) and the SVD results of those updates in call order.  `none`: the gate MPO does not have one
    tensor per site of the gate's span or does not fit into the chain (`assert gate_mpo.length <= mpo.length`; a shorter / longer
    tensor list would raise inside the einsums or at "Not all gate tensors were applied"), an assertion of `apply_gate`, a
    missing SVD result. -/
def lrLayer (cj : K → K) (d : Nat) (thr : Rat) (gate1 gate2 : Instr → Gate K) (ts : List (Site K)) (c : Nat) (g : Instr)
    (gm : List (Site K)) (ss : List Step) (decs : List (Svd K)) : Option (List (Site K)) :=
  if gm.length = dist g.qs ∧ lrLoc g + gm.length ≤ ts.length then
    runSteps cj d thr gate1 gate2 (lrMul (decide (c = 2)) (lrGateTensors cj (decide (c = 2)) gm) (lrLoc g) ts) ss decs
  else none

/-- the `while` loop of `iterate` on the tensor list, long-range layers included: `gms` are the `gate_.mpo_tensors` of the
    long-range gates in the order their layers run, `decs` the SVD results of all `decompose_theta` calls in call order -/
def runStepsLR (cj : K → K) (d : Nat) (thr : Rat) (gate1 gate2 : Instr → Gate K) :
    List (Site K) → List Blk → List (List (Site K)) → List (Svd K) → Option (List (Site K))
  | ts, [], _, _ => some ts
  | ts, Blk.upd s :: bs, gms, dec :: decs =>
    match updateMpo cj d thr gate1 gate2 ts s dec with
    | some ts' => runStepsLR cj d thr gate1 gate2 ts' bs gms decs
    | none => none
  | ts, Blk.lr c g ss :: bs, gm :: gms, decs =>
    match lrLayer cj d thr gate1 gate2 ts c g gm ss (decs.take ss.length) with
    | some ts' => runStepsLR cj d thr gate1 gate2 ts' bs gms (decs.drop ss.length)
    | none => none
  | _, Blk.upd _ :: _, _, [] => none
  | _, Blk.lr _ _ _ :: _, [], _ => none

/-- `mpo.identity(n); iterate(mpo, dag1, dag2, threshold)` for circuits of one- and two-qubit gates at any distance -/
def iterateMpoLR (cj : K → K) (d : Nat) (thr : Rat) (gate1 gate2 : Instr → Gate K) (n : Nat) (c1 c2 : Dag)
    (gms : List (List (Site K))) (decs : List (Svd K)) : Option (List (Site K)) :=
  match iterate n c1 c2 (c1.length + c2.length) with
  | .done evs =>
    match stepsOfLR evs.length evs with
    | some bs => runStepsLR cj d thr gate1 gate2 (identityMpo n d) bs gms decs
    | none => none
  | _ => none

end genericLR

/-- `equivalence_checker.run(circuit1, circuit2, threshold, fidelity)["equivalent"]` for circuits that may contain long-range
    two-qubit gates and swaps -/
def checkerRunLR (thr : Rat) (gate1 gate2 : Instr → Gate CRat) (n : Nat) (c1 c2 : Dag) (gms : List (List (Site CRat)))
    (decs : List (Svd CRat)) (f : Rat) : Option Bool :=
  match iterateMpoLR CRat.conj 2 thr gate1 gate2 n c1 c2 gms decs with
  | some ts =>
    match identityTrace CRat.conj ts with
    | some tr => some (identityDecision tr n f)
    | none => none
  | none => none

end Yaqs.CheckerChain
