import YaqsModel.Model.Born
import YaqsModel.Basic.Dist
/-
  Model.WeakCounts — what a noise-free weak run RETURNS (core Lean only).

  mirrors
    core/data_structures/networks.py   MPS.measure_shots      → `tally` (the histogram `results[r] = results.get(r, 0) + 1`
                                                                 over the `shots` calls of `measure_single_shot`)
    digital/digital_tjm.py             `return state.measure_shots(sim_params.shots)` (noise-free: all shots from the one
                                                                 final chain)
  and, as a statement about distributions (trusted base: `Generator.choice(p=…)` is distributed as `p`, one fresh
  generator per shot):
    `shotDist b sites`   the distribution of the bit list ONE call of `measure_single_shot` produces: weight of `σ` =
                         product of the conditionals handed to `choice` along the branch `σ` (`branchProb`)
    `draws d shots`      `shots` independent draws
-/
namespace Yaqs.Born

/-- `results[k] = results.get(k, 0) + 1` on an insertion-ordered dict -/
def bump (k : Nat) : List (Nat × Nat) → List (Nat × Nat)
  | [] => [(k, 1)]
  | (k', c) :: r => if k' = k then (k', c + 1) :: r else (k', c) :: bump k r

/-- `measure_shots`: the histogram of the keys returned by the shots, in the order the shots complete -/
def tally (ks : List Nat) : List (Nat × Nat) := ks.foldl (fun acc k => bump k acc) []

/-- `results.get(k, 0)` -/
def countOf (k : Nat) (cs : List (Nat × Nat)) : Nat := ((cs.filter fun p => p.1 == k).map (·.2)).sum

/-- `sum(results.values())` -/
def total (cs : List (Nat × Nat)) : Nat := (cs.map (·.2)).sum

/-- distribution of the bit list one `measure_single_shot` call produces (generator distributed as `p`) -/
def shotDist {n : Nat} (b : Basis) (sites : List (Site n)) : Dist (List (Fin 2)) :=
  (allBits sites.length).map fun σ => (branchProb b sites σ, σ)

/-- `shots` independent draws from `d`, first draw first -/
def draws {α : Type} (d : Dist α) : Nat → Dist (List α)
  | 0 => Dist.point []
  | s + 1 => Dist.bind d fun a => Dist.mapD (fun l => a :: l) (draws d s)

/-- the counts a weak run returns when the shots produced the bit lists `l` -/
def weakCounts (l : List (List (Fin 2))) : List (Nat × Nat) := tally (l.map encode)

end Yaqs.Born
