import YaqsModel.Basic.Parse
import YaqsModel.Model.Pipeline
import YaqsModel.Model.SJump
import YaqsModel.Model.Grid
import YaqsModel.Model.Storage
import YaqsModel.Model.LocalOp
/-!
line protocol for the time-step pipelines, the scheduled-jump matching rule and the time grid

  trace <backend> <n> <samp> <noise> | J…             → event tokens of one trajectory
  cols  <backend> <n> <samp> <noise> | J…             → returned columns, each as a comma-joined history
  steps <backend> <n> <samp> <noise> | J…             → returned columns, each as its number of evolution steps
  sim   <backend> <samp> <noise> <bitsT> <bitsDt> | jump times (rationals)
        → `n` then the event tokens: grid from `Model.Grid` (Float), firing indices from `Model.SJump`, trace from `Model.Pipeline`
  match|matchold <tj> <t> <dt>                        → 1 / 0
  has|hasold <t> <dt> | tj…                           → 1 / 0
  applied <t> <dt> | tj…                              → positions applied, `-` if none
  firing <dt> | times… | tj…                          → grid indices at which `has_scheduled_jump` is true
  grid|gridold <bitsT> <bitsDt>                       → `len` then selected points as IEEE bit patterns (`err` if the code raises)

  result storage (`Model/Storage.lean`; modes analog strong weak, kinds loc diag entropy schmidt pvm):
  stinit <mode> <numTraj> <shots> <samp> <nMid> <kind> <T> | times…
        → `rows cols f64|c128 len(results)` then `grid t…` / `scalar T` / `unset`          (`Observable.initialize`)
  stcols <mode> <samp> <nMid> <nTimes>                 → columns of the array one back-end call returns (`none` for weak)
  stagg <kind> <cols> | row | row …                    → `values v…` / `nan <len>` / `valueError`   (`aggregate_trajectories`)
  staggc <kind> <cols> | re im re im … | …             → the same for the real parts, `I`, the same for the imaginary parts
  stcells | c c ; c c | …                              → concatenation of a table whose cells are vectors
  strun <mode> <requested> <single> <shots> <samp> <nMid> <kind> <T> | times… | row of trajectory 0 | row of trajectory 1 …
        → allocation as for `stinit`, `T` stored table (row-major), `R` reduction; `err broadcast <got> <want>` if a row does not fit
  stweak | slot | slot …   (slot = `none`, `empty`, or `k:v k:v …`)   → `ok k:v …` / `err assertFirstNone`   (`aggregate_measurements`)
  strunweak <shots> <noisefree> | dict of trajectory 0 | …            → `<None in measurements> S slots… R ok k:v …` / `indexError`

  local operator application (`Model/LocalOp.lean`; tensor := `d l r` + d·l·r pairs `re im` in C order; matrix := `m n` + m·n pairs):
  lo1 OP T                 → `oe.contract("ab, bcd->acd", OP, T)`                                   (`applyOne`)
  lomerge A B              → `merge_mps_tensors(A, B)`                                              (`mergeKet2`)
  lo2 OP A B               → the merged tensor with OP contracted in (input of `split_mps_tensor`)  (`applyTwoMerged`)
  lotheta dL dR T          → the matrix `split_mps_tensor(T, …, [dL, dR])` hands to the SVD          (`splitTheta`)
  lovec1 site OP N T…      → `to_vec()` of the chain after OP was contracted into `site`             (`applyOne`, `Mps.toVec`)
  lovecf i j OP0 OP1 N T…  → `to_vec()` after OP0 on site i and OP1 on site j (long-range pair)       (`applyFactors`)

backends: tjm2 tjm1 mcwf lindblad tjm2old.  Booleans are 1/0.  Numbers of `match…firing` are exact rationals.
-/
open Yaqs Yaqs.Pipeline

def fracTok : Frac → String
  | .half => "h"
  | .full => "f"

def opTok : Op → String
  | .U => "U"
  | .Ueff => "V"
  | .Flow => "W"
  | .D f => "D" ++ fracTok f
  | .Lot => "L"
  | .SJ k => "S" ++ toString k

def regTok : Reg → String
  | .main => ""
  | .copy => "c"

def evTok : Ev → String
  | .fork => "F"
  | .op r o => regTok r ++ opTok o
  | .chk k => "C" ++ toString k
  | .eval r c => regTok r ++ "E" ++ toString c

def histTok (h : List Op) : String := if h.isEmpty then "-" else ",".intercalate (h.map opTok)

def colTok : Option (List Op) → String
  | none => "none"
  | some h => histTok h

def isStep : Op → Bool
  | .U | .Ueff | .Flow => true
  | _ => false

def stepsTok : Option (List Op) → String
  | none => "none"
  | some h => toString (h.filter isStep).length

def parseBool? (s : String) : Option Bool :=
  if s = "1" then some true else if s = "0" then some false else none

def traceOf (backend : String) (J : List Nat) (samp noise : Bool) (n : Nat) : Option (List Ev) :=
  if n < 2 then none else   -- the model mirrors the loops for at least one step (n = 1: see Props/C15 header)
  match backend with
  | "tjm2" => some (tjm2Trace J samp n)
  | "tjm2old" => some (tjm2TraceOld J samp n)
  | "tjm1" => some (tjm1Trace J samp noise n)
  | "mcwf" => some (mcwfTrace samp n)
  | "lindblad" => some (lindbladTrace n)
  | _ => none

def outOf (backend : String) (J : List Nat) (samp noise : Bool) (n : Nat) : Option (List (Option (List Op))) :=
  if n < 2 then none else
  match backend with
  | "tjm2" => some (tjm2Out J samp n)
  | "tjm2old" => some (tjm2OutOld J samp n)
  | "tjm1" => some (tjm1Out J samp noise n)
  | "mcwf" => some (mcwfOut samp n)
  | "lindblad" => some (lindbladOut samp n)
  | _ => none

def bitsOf (x : Float) : String := toString x.toBits.toNat

/-- indices reported for a grid of `len` points: everything up to 48 points, else the first 32 and the last 8 -/
def selIdx (len : Nat) : List Nat :=
  if len ≤ 48 then List.range len else List.range 32 ++ (List.range 8).map (fun i => len - 8 + i)

def floatQ (x : Float) : Option Rat := Grid.decode64 x.toBits.toNat

def allSome {α} : List (Option α) → Option (List α)
  | [] => some []
  | none :: _ => none
  | some a :: rest => (allSome rest).map (a :: ·)

def gridReply (old : Bool) (bT bDt : Nat) : String :=
  let T := Float.ofBits bT.toUInt64
  let dt := Float.ofBits bDt.toUInt64
  match Grid.decode64 bT, Grid.decode64 bDt with
  | some tq, some dq =>
    let lf := if old then Grid.lenOldF T dt else Grid.lenF T dt
    let lq := if old then Grid.lenOldQ tq dq else Grid.lenQ tq dq
    match lf, lq with
    | none, none => "err"
    | some len, some len' =>
      if len ≠ len' then "model-split" else
        let idx := selIdx len
        let pf := fun i => if old then Grid.pointOldF dt i else Grid.pointF (len - 1) dt i
        let pq := fun i => if old then Grid.pointOldQ dq i else Grid.pointQ (len - 1) dq i
        if !(idx.all (fun i => floatQ (pf i) == some (pq i))) then "model-split" else
          joinWith " " (toString len :: idx.map (fun i => bitsOf (pf i)))
    | _, _ => "model-split"
  | _, _ => "bad-op"

def handle (line : String) : String :=
  match splitBar (words line) with
  | [[kind, backend, n, samp, noise], js] =>
    match n.toNat?, parseBool? samp, parseBool? noise, parseAll? String.toNat? js with
    | some n, some samp, some noise, some J =>
      if kind = "trace" then
        match traceOf backend J samp noise n with
        | some tr => joinWith " " (tr.map evTok)
        | none => "bad-op"
      else if kind = "cols" then
        match outOf backend J samp noise n with
        | some o => joinWith " " (o.map colTok)
        | none => "bad-op"
      else if kind = "steps" then
        match outOf backend J samp noise n with
        | some o => joinWith " " (o.map stepsTok)
        | none => "bad-op"
      else "bad-op"
    | _, _, _, _ => "bad-op"
  | [["sim", backend, samp, noise, bT, bDt], js] =>
    match parseBool? samp, parseBool? noise, bT.toNat?, bDt.toNat?, parseAll? parseRat? js with
    | some samp, some noise, some bT, some bDt, some jumps =>
      match Grid.timesF (Float.ofBits bT.toUInt64) (Float.ofBits bDt.toUInt64), Grid.decode64 bDt with
      | some ts, some dq =>
        match allSome (ts.map floatQ) with
        | some tq =>
          let J := SJump.firing jumps tq dq
          match traceOf backend J samp noise ts.length with
          | some tr => joinWith " " (toString ts.length :: tr.map evTok)
          | none => "bad-op"
        | none => "bad-op"
      | _, _ => "err"
    | _, _, _, _, _ => "bad-op"
  | [[kind, a, b, c]] =>
    match parseRat? a, parseRat? b, parseRat? c with
    | some tj, some t, some dt =>
      if kind = "match" then showBool (SJump.jmatch tj t dt)
      else if kind = "matchold" then showBool (SJump.jmatchOld tj t dt)
      else "bad-op"
    | _, _, _ => "bad-op"
  | [[kind, t, dt], js] =>
    match parseRat? t, parseRat? dt, parseAll? parseRat? js with
    | some t, some dt, some jumps =>
      if kind = "has" then showBool (SJump.hasJump jumps t dt)
      else if kind = "hasold" then showBool (SJump.hasJumpOld jumps t dt)
      else if kind = "applied" then
        let a := SJump.applied jumps t dt
        if a.isEmpty then "-" else joinWith " " (a.map toString)
      else "bad-op"
    | _, _, _ => "bad-op"
  | [["firing", dt], ts, js] =>
    match parseRat? dt, parseAll? parseRat? ts, parseAll? parseRat? js with
    | some dt, some times, some jumps =>
      let a := SJump.firing jumps times dt
      if a.isEmpty then "-" else joinWith " " (a.map toString)
    | _, _, _ => "bad-op"
  | [[kind, bT, bDt]] =>
    match bT.toNat?, bDt.toNat? with
    | some bT, some bDt =>
      if kind = "grid" then gridReply false bT bDt
      else if kind = "gridold" then gridReply true bT bDt
      else "bad-op"
    | _, _ => "bad-op"
  | _ => "bad-op"

/-! ### result storage -/
open Yaqs.Storage in
def parseMode? : String → Option Storage.Mode
  | "analog" => some .analog
  | "strong" => some .strong
  | "weak" => some .weak
  | _ => none

def parseKind? : String → Option Storage.ObsKind
  | "loc" => some .loc
  | "diag" => some .diag
  | "entropy" => some .entropy
  | "schmidt" => some .schmidt
  | "pvm" => some .pvm
  | _ => none

def dtypeTok : Storage.DType → String
  | .f64 => "f64"
  | .c128 => "c128"

def timesTok : Storage.TimesAttr → List String
  | .grid ts => "grid" :: ts.map showRat
  | .scalar t => ["scalar", showRat t]
  | .untouched => ["unset"]

def allocToks (a : Storage.Alloc) : List String :=
  [toString a.rows, toString a.cols, dtypeTok a.dtype, toString a.resultsLen] ++ timesTok a.times

def aggToks : Storage.Agg → List String
  | .values v => "values" :: v.map showRat
  | .nan n => ["nan", toString n]
  | .valueError => ["valueError"]

def mapAll? {α β : Type} (f : α → Option β) : List α → Option (List β)
  | [] => some []
  | x :: xs => match f x, mapAll? f xs with
    | some a, some as => some (a :: as)
    | _, _ => none

def parseTable? (rows : List (List String)) : Option (List (List Rat)) := mapAll? (parseAll? parseRat?) rows

/-- `re im re im …` → list of pairs -/
def pairUp : List Rat → Option (List (Rat × Rat))
  | [] => some []
  | [_] => none
  | a :: b :: rest => (pairUp rest).map ((a, b) :: ·)

/-- split a token list at every `";"` token -/
def splitSemi (ws : List String) : List (List String) :=
  let rec go (acc : List String) (out : List (List String)) : List String → List (List String)
    | [] => (acc.reverse :: out).reverse
    | w :: rest => if w = ";" then go [] (acc.reverse :: out) rest else go (w :: acc) out rest
  go [] [] ws

def parseKV? (s : String) : Option (Nat × Nat) :=
  match s.splitOn ":" with
  | [k, v] => match k.toNat?, v.toNat? with
    | some k, some v => some (k, v)
    | _, _ => none
  | _ => none

def parseDict? (ws : List String) : Option Params.Counts :=
  if ws = ["empty"] then some [] else if ws.isEmpty then none else parseAll? parseKV? ws

def parseSlot? (ws : List String) : Option (Option Params.Counts) :=
  if ws = ["none"] then some none else (parseDict? ws).map some

def countsToks (c : Params.Counts) : List String := c.map (fun kv => toString kv.1 ++ ":" ++ toString kv.2)

def slotTok : Option Params.Counts → String
  | none => "none"
  | some [] => "empty"
  | some c => ",".intercalate (countsToks c)

def weakResToks : Except Params.Err Params.Counts → List String
  | .ok c => "ok" :: countsToks c
  | .error .assertFirstNone => ["err", "assertFirstNone"]
  | .error .assertGetState => ["err", "assertGetState"]
  | .error .indexError => ["err", "indexError"]

def settingsOf (mode numTraj shots samp nMid T : String) (times : List String) : Option Storage.Settings :=
  match parseMode? mode, numTraj.toNat?, shots.toNat?, parseBool? samp, nMid.toNat?, parseRat? T, parseAll? parseRat? times with
  | some m, some nt, some sh, some sa, some nm, some t, some ts => some ⟨m, nt, sh, sa, nm, ts, t⟩
  | _, _, _, _, _, _, _ => none

def handleStorage (line : String) : Option String :=
  match splitBar (words line) with
  | [["stinit", mode, numTraj, shots, samp, nMid, kind, T], times] =>
    some (match settingsOf mode numTraj shots samp nMid T times, parseKind? kind with
      | some s, some k => joinWith " " (allocToks (Storage.allocate s k))
      | _, _ => "bad-op")
  | [["stcols", mode, samp, nMid, nTimes]] =>
    some (match parseMode? mode, parseBool? samp, nMid.toNat?, nTimes.toNat? with
      | some m, some sa, some nm, some nt =>
        match Storage.backendCols ⟨m, 0, 0, sa, nm, List.replicate nt 0, 0⟩ with
        | some c => toString c
        | none => "none"
      | _, _, _, _ => "bad-op")
  | ["stagg", kind, cols] :: rows =>
    some (match parseKind? kind, cols.toNat?, parseTable? rows with
      | some k, some c, some t => joinWith " " (aggToks (Storage.aggregateObs k c t))
      | _, _, _ => "bad-op")
  | ["staggc", kind, cols] :: rows =>
    some (match parseKind? kind, cols.toNat?, (parseTable? rows).bind (mapAll? pairUp) with
      | some k, some c, some t =>
        joinWith " " (aggToks (Storage.aggregateObs k c (t.map (·.map Prod.fst))) ++ ["I"]
          ++ aggToks (Storage.aggregateObs k c (t.map (·.map Prod.snd))))
      | _, _, _ => "bad-op")
  | ["stcells"] :: rows =>
    some (match mapAll? (fun r => parseTable? (splitSemi r)) rows with
      | some t => joinWith " " (aggToks (Storage.concatCells t))
      | none => "bad-op")
  | ["strun", mode, requested, single, shots, samp, nMid, kind, T] :: times :: rows =>
    some (match requested.toNat?, parseBool? single, parseKind? kind, parseTable? rows with
      | some rq, some sg, some k, some t =>
        match settingsOf mode (toString (Storage.effTraj rq sg)) shots samp nMid T times with
        | some s =>
          match Storage.runObservable s k (fun i => t.getD i []) with
          | .ok o => joinWith " " (allocToks o.alloc ++ ["T"] ++ o.trajectories.flatten.map showRat ++ ["R"] ++ aggToks o.results)
          | .error (.broadcast g w) => s!"err broadcast {g} {w}"
          | .error .sequence => "err sequence"
        | none => "bad-op"
      | _, _, _, _ => "bad-op")
  | ["stweak"] :: slots =>
    some (match mapAll? parseSlot? slots with
      | some ms => joinWith " " (weakResToks (Storage.aggregateMeasurements ms))
      | none => "bad-op")
  | ["strunweak", shots, nf] :: dicts =>
    some (match shots.toNat?, parseBool? nf, mapAll? parseDict? dicts with
      | some sh, some nf, some ds =>
        match Storage.runWeakStore sh nf (fun i => ds.getD i []) with
        | none => "indexError"
        | some o => joinWith " " ([showBool o.sawNone, "S"] ++ o.slots.map slotTok ++ ["R"] ++ weakResToks o.result)
      | _, _, _ => "bad-op")
  | _ => none

/-! ### local operator application (`Model/LocalOp.lean`) -/
namespace LocalOpDriver
open Yaqs.Mps Yaqs.LocalOp

abbrev P := StateT (List String) Option

def tok : P String := fun s => match s with
  | [] => none
  | w :: rest => some (w, rest)

def pNat : P Nat := do
  let w ← tok
  match w.toNat? with
  | some n => pure n
  | none => failure

def pC : P Mps.CRat := do
  let a ← tok
  let b ← tok
  match parseRat? a, parseRat? b with
  | some x, some y => pure ⟨x, y⟩
  | _, _ => failure

def pMany {α} (p : P α) : Nat → P (List α)
  | 0 => pure []
  | n + 1 => do
    let a ← p
    let as ← pMany p n
    pure (a :: as)

def pMat : P Mat := do
  let m ← pNat
  let n ← pNat
  if m = 0 ∨ n = 0 ∨ m * n > 100000 then failure
  pMany (pMany pC n) m

def pTensor : P Tensor := do
  let d ← pNat
  let l ← pNat
  let r ← pNat
  if d = 0 ∨ l = 0 ∨ r = 0 ∨ d * l * r > 100000 then failure
  pMany (pMany (pMany pC r) l) d

def pTensors : P (List Tensor) := do
  let n ← pNat
  if n = 0 ∨ n > 64 then failure
  pMany pTensor n

def pEnd : P Unit := fun s => match s with
  | [] => some ((), [])
  | _ => none

def runP {α} (p : P α) (ws : List String) : Option α := (p ws).map (·.1)

def showC (c : Mps.CRat) : String := showRat c.re ++ " " ++ showRat c.im

def showMatBody (m : Mat) : String := joinWith " " (m.flatten.map showC)

def showMat (m : Mat) : String := s!"{nrows m} {ncols m} " ++ showMatBody m

def showTensor (t : Tensor) : String := s!"{physDim t} {leftDim t} {rightDim t} " ++ joinWith " " (t.map showMatBody)

def showVec (v : List (Option Mps.CRat)) : String :=
  joinWith " " (v.map fun o => match o with | some c => showC c | none => "none")

/-- the operator must be square with one row per physical index it acts on -/
def squareOf (op : Mat) (d : Nat) : Bool := op.length = d && op.all (fun row => row.length = d)

def handle (ws : List String) : Option String :=
  match ws with
  | "lo1" :: rest =>
    some (match runP (do let op ← pMat; let t ← pTensor; pEnd; pure (op, t)) rest with
      | some (op, t) => if squareOf op (physDim t) then showTensor (applyOne op t) else "bad-op"
      | none => "bad-op")
  | "lomerge" :: rest =>
    some (match runP (do let a ← pTensor; let b ← pTensor; pEnd; pure (a, b)) rest with
      | some (a, b) => if rightDim a = leftDim b then showTensor (mergeKet2 a b) else "bad-op"
      | none => "bad-op")
  | "lo2" :: rest =>
    some (match runP (do let op ← pMat; let a ← pTensor; let b ← pTensor; pEnd; pure (op, a, b)) rest with
      | some (op, a, b) =>
        if rightDim a = leftDim b ∧ squareOf op (physDim a * physDim b) then showTensor (applyTwoMerged op a b) else "bad-op"
      | none => "bad-op")
  | "lotheta" :: rest =>
    some (match runP (do let dl ← pNat; let dr ← pNat; let t ← pTensor; pEnd; pure (dl, dr, t)) rest with
      | some (dl, dr, t) => if dl * dr = physDim t then showMat (splitTheta dl dr t) else "bad-op"
      | none => "bad-op")
  | "lovec1" :: rest =>
    some (match runP (do let i ← pNat; let op ← pMat; let ts ← pTensors; pEnd; pure (i, op, ts)) rest with
      | some (i, op, ts) =>
        match ts[i]? with
        | some t =>
          if ts.all wellShaped ∧ squareOf op (physDim t) then showVec (toVec (ts.set i (applyOne op t))) else "bad-op"
        | none => "bad-op"
      | none => "bad-op")
  | "lovecf" :: rest =>
    some (match runP (do let i ← pNat; let j ← pNat; let o0 ← pMat; let o1 ← pMat; let ts ← pTensors; pEnd
                         pure (i, j, o0, o1, ts)) rest with
      | some (i, j, o0, o1, ts) =>
        match ts[i]?, ts[j]? with
        | some a, some b =>
          if i < j ∧ ts.all wellShaped ∧ squareOf o0 (physDim a) ∧ squareOf o1 (physDim b) then
            let ab := applyFactors o0 o1 a b
            showVec (toVec ((ts.set i ab.1).set j ab.2))
          else "bad-op"
        | _, _ => "bad-op"
      | none => "bad-op")
  | _ => none

end LocalOpDriver

def handleAll (line : String) : String :=
  match LocalOpDriver.handle (words line) with
  | some r => r
  | none =>
  match handleStorage line with
  | some r => r
  | none => handle line

def main : IO Unit := do lineLoop (← IO.getStdin) handleAll
