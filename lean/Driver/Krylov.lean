import YaqsModel.Basic.Parse
import YaqsModel.Model.Krylov
import YaqsModel.Model.Heff
import YaqsModel.Model.LanczosH
/-! line protocol for the Krylov exit logic and the exact recurrence:
    `lanczos <normZero> <mMax> <epsCut> <tol> | β_0 … | φ_1 …`  → `<kind> <k> <fresh> <nsolve>` | `err`
    `lanczosw …` (same arguments as `lanczos`)                   → `<kind> <k> <fresh> <nsolve> w i_0 i_1 …`: the indices of `beta` the loop
                                                                    wrote a non-zero value to, in order (what the array shows afterwards)
    `arnoldi <normZero> <mMax> <thr> <tol> | η_0 … | φ_1 …`     → `<kind> <k> <fresh> <nsolve>`
    `lanczosrat <n> <m> | A (row-major) | v`                     → `alpha_0 … alpha_{m-1} | betaSq_0 … betaSq_{m-2}`
    A request whose number lists are too short for the indices the model looks at is `bad-op`. -/
open Yaqs Yaqs.Krylov

def showKind : Kind → String
  | .zero => "zero" | .breakdown => "breakdown" | .converged => "converged" | .exhausted => "exhausted"

def parseFlag? (w : String) : Option Bool := if w = "1" then some true else if w = "0" then some false else none

/-- number of leading entries of `β` (resp. `φ`, shifted by one) an exit at size `k` has looked at -/
def needed (kind : Kind) (k mMax : Nat) : Nat × Nat :=
  match kind with
  | .zero => (0, 0)
  | .breakdown => (k, k - 2)
  | .converged => (k, k - 1)
  | .exhausted => (mMax - 1, mMax - 2)

def chunk (n : Nat) (l : List Rat) : List (List Rat) := (List.range n).map (fun r => (l.drop (r * n)).take n)


/-! ### requests for the effective-Hamiltonian model `Model/Heff.lean` (x19 extension)

    tensors travel as row-major entry lists, every entry a pair `re im` of exact rationals
    `heffsite <what> o p a aa b bb l r | L | R | W [| X]`   what ∈ dense | numba | apply | onehot:<col> | switch:<thr> | switchdef
        dense / numba  → `rows cols` and all entries of the (o·aa·bb) × (p·a·b) matrix, row-major
        apply          → all entries `[o, A, B]` of `project_site(L, R, W, X)`, `X` of shape (p, a, b)
        onehot:<col>   → `project_site(L, R, W, e_col.reshape(p, a, b)).reshape(-1)`
        switch:<thr>   → `dense`|`free` followed by `apply_effective_operator(X.reshape(-1))` of `_evolve_local_tensor_krylov`
        switchdef      → the same with the model's own `DENSE_THRESHOLD = 128`
        (apply / onehot / env answers are prefixed with the shape of the result)
    `heffbond <what> u v m pp w | L | R [| C]`               the same for the bond problem
    `envleft o p a aa b bb l r | L | W | ket | bra`          → entries `[b, r, B]` of `update_left_environment`
    `envright o p a aa b bb l r | R | W | ket | bra`         → entries `[a, l, A]` of `update_right_environment`
    `rightchain <n> | dims_1 | ket_1 | W_1 | … | dims_n | ket_n | W_n`  (dims = d p a b l r: phys, left, right bond, MPO bonds)
        → the blocks `right_blocks[0] … right_blocks[n-1]` of `initialize_right_environments`, each row-major, separated by `|`
    a request whose entry lists do not have exactly the announced sizes is `bad-op`. -/
namespace HeffDrv
open Yaqs.Heff

def parseC? : List String → Option (List CRat)
  | [] => some []
  | [_] => none
  | r :: i :: rest => do
    let re ← parseRat? r
    let im ← parseRat? i
    let tl ← parseC? rest
    pure (⟨re, im⟩ :: tl)

def parseArr? (n : Nat) (ws : List String) : Option (Array CRat) :=
  match parseC? ws with
  | some l => if l.length = n then some l.toArray else none
  | none => none

def showC (z : CRat) : String := showRat z.re ++ " " ++ showRat z.im
def showCs (l : List CRat) : String := joinWith " " (l.map showC)

def siteDims? : List String → Option SiteDims
  | [o, p, a, aa, b, bb, l, r] => do
    pure ⟨← o.toNat?, ← p.toNat?, ← a.toNat?, ← aa.toNat?, ← b.toNat?, ← bb.toNat?, ← l.toNat?, ← r.toNat?⟩
  | _ => none

def bondDims? : List String → Option BondDims
  | [u, v, m, pp, w] => do pure ⟨← u.toNat?, ← v.toNat?, ← m.toNat?, ← pp.toNat?, ← w.toNat?⟩
  | _ => none

/-- `onehot:7` → `("onehot", some 7)` -/
def splitWhat (w : String) : String × Option Nat :=
  match w.splitOn ":" with
  | [k, n] => (k, n.toNat?)
  | _ => (w, none)

def site (what : String) (d : SiteDims) (parts : List (List String)) : String :=
  let nL := d.a * d.l * d.aa
  let nR := d.b * d.r * d.bb
  let nW := d.o * d.p * d.l * d.r
  let nX := d.p * d.a * d.b
  let rows := d.o * d.aa * d.bb
  match parts with
  | lw :: rw :: ww :: rest =>
    match parseArr? nL lw, parseArr? nR rw, parseArr? nW ww with
    | some la, some ra, some wa =>
      let L := ofFlat3 d.l d.aa la
      let R := ofFlat3 d.r d.bb ra
      let W := ofFlat4 d.p d.l d.r wa
      match splitWhat what, rest with
      | ("dense", none), [] => s!"{rows} {nX} " ++ showCs (entries2 rows nX (denseHeffSite d L R W))
      | ("numba", none), [] => s!"{rows} {nX} " ++ showCs (entries2 rows nX (denseHeffSiteNumba d L R W))
      | ("apply", none), [xw] =>
        match parseArr? nX xw with
        | some xa => s!"{d.o} {d.aa} {d.bb} " ++ showCs (entries3 d.o d.aa d.bb (projectSite d L R W (ofFlat3 d.a d.b xa)))
        | none => "bad-op"
      | ("onehot", some col), [] =>
        if col < nX then
          s!"{rows} " ++ showCs ((List.range rows).map (flattenT3 d.aa d.bb (projectSite d L R W (unflattenV3 d.a d.b (oneHot col)))))
        else "bad-op"
      | ("switch", some thr), [xw] =>
        match parseArr? nX xw with
        | some xa =>
          (if useDense nX thr then "dense " else "free ") ++
            showCs ((List.range rows).map (applyEffSite thr d L R W (fun n => xa.getD n 0)))
        | none => "bad-op"
      | ("switchdef", none), [xw] =>
        match parseArr? nX xw with
        | some xa =>
          (if useDense nX denseThreshold then "dense " else "free ") ++
            showCs ((List.range rows).map (applyEffSite denseThreshold d L R W (fun n => xa.getD n 0)))
        | none => "bad-op"
      | _, _ => "bad-op"
    | _, _, _ => "bad-op"
  | _ => "bad-op"

def bond (what : String) (d : BondDims) (parts : List (List String)) : String :=
  let nL := d.u * d.m * d.pp
  let nR := d.v * d.m * d.w
  let nX := d.u * d.v
  let rows := d.pp * d.w
  match parts with
  | lw :: rw :: rest =>
    match parseArr? nL lw, parseArr? nR rw with
    | some la, some ra =>
      let L := ofFlat3 d.m d.pp la
      let R := ofFlat3 d.m d.w ra
      match splitWhat what, rest with
      | ("dense", none), [] => s!"{rows} {nX} " ++ showCs (entries2 rows nX (denseHeffBond d L R))
      | ("numba", none), [] => s!"{rows} {nX} " ++ showCs (entries2 rows nX (denseHeffBondNumba d L R))
      | ("apply", none), [xw] =>
        match parseArr? nX xw with
        | some xa => s!"{d.pp} {d.w} " ++ showCs (entries2 d.pp d.w (projectBond d L R (ofFlat2 d.v xa)))
        | none => "bad-op"
      | ("onehot", some col), [] =>
        if col < nX then
          s!"{rows} " ++ showCs ((List.range rows).map (flattenT2 d.w (projectBond d L R (unflattenV2 d.v (oneHot col)))))
        else "bad-op"
      | ("switch", some thr), [xw] =>
        match parseArr? nX xw with
        | some xa =>
          (if useDense nX thr then "dense " else "free ") ++
            showCs ((List.range rows).map (applyEffBond thr d L R (fun n => xa.getD n 0)))
        | none => "bad-op"
      | ("switchdef", none), [xw] =>
        match parseArr? nX xw with
        | some xa =>
          (if useDense nX denseThreshold then "dense " else "free ") ++
            showCs ((List.range rows).map (applyEffBond denseThreshold d L R (fun n => xa.getD n 0)))
        | none => "bad-op"
      | _, _ => "bad-op"
    | _, _ => "bad-op"
  | _ => "bad-op"

def env (left : Bool) (d : SiteDims) (parts : List (List String)) : String :=
  match parts with
  | [ew, ww, kw, bw] =>
    let nE := if left then d.a * d.l * d.aa else d.b * d.r * d.bb
    match parseArr? nE ew, parseArr? (d.o * d.p * d.l * d.r) ww, parseArr? (d.p * d.a * d.b) kw,
        parseArr? (d.o * d.aa * d.bb) bw with
    | some ea, some wa, some ka, some ba =>
      let W := ofFlat4 d.p d.l d.r wa
      let ket := ofFlat3 d.a d.b ka
      let bra := ofFlat3 d.aa d.bb ba
      if left then
        s!"{d.b} {d.r} {d.bb} " ++ showCs (entries3 d.b d.r d.bb (updateLeft CRat.conj d (ofFlat3 d.l d.aa ea) W ket bra))
      else s!"{d.a} {d.l} {d.aa} " ++ showCs (entries3 d.a d.l d.aa (updateRight CRat.conj d (ofFlat3 d.r d.bb ea) W ket bra))
    | _, _, _, _ => "bad-op"
  | _ => "bad-op"

/-- `dims ket W` triples of a chain: `dims = d p a b l r` with `d` = physical dimension of the MPS tensor and of the
    MPO's out leg, `p` = the MPO's in leg -/
def parseSites? : List (List String) → Option (List (Site CRat))
  | [] => some []
  | [dw, pw, aw, bw, lw, rw] :: kw :: ww :: rest => do
    let dd ← dw.toNat?
    let p ← pw.toNat?
    let a ← aw.toNat?
    let b ← bw.toNat?
    let l ← lw.toNat?
    let r ← rw.toNat?
    let ka ← parseArr? (p * a * b) kw
    let wa ← parseArr? (dd * p * l * r) ww
    let tl ← parseSites? rest
    pure (⟨⟨dd, p, a, a, b, b, l, r⟩, ofFlat3 a b ka, ofFlat4 p l r wa⟩ :: tl)
  | _ => none

/-- `right_blocks[i]` for `i = 0 … n-1` (the loop of `initialize_right_environments`, every block materialised) -/
def rightBlocks (sites : List (Site CRat)) : List (List CRat) :=
  (rightBlocksLoop sites).map fun (_, arr) => arr.toList

def handle (line : String) : String :=
  match splitBar (words line) with
  | ("heffsite" :: what :: ds) :: parts =>
    match siteDims? ds with
    | some d => site what d parts
    | none => "bad-op"
  | ("heffbond" :: what :: ds) :: parts =>
    match bondDims? ds with
    | some d => bond what d parts
    | none => "bad-op"
  | ("envleft" :: ds) :: parts =>
    match siteDims? ds with
    | some d => env true d parts
    | none => "bad-op"
  | ("envright" :: ds) :: parts =>
    match siteDims? ds with
    | some d => env false d parts
    | none => "bad-op"
  | [["lanczosc", n, m], aw, vw] =>
    -- `lanczosc <n> <m> | A (row-major, re im pairs) | v (re im pairs)` → `alpha_0 … | betaSq_0 … betaSq_{m-2}` (complex Hermitian A)
    match n.toNat?, m.toNat?, parseC? aw, parseC? vw with
    | some n, some m, some a, some v =>
      if n = 0 ∨ a.length ≠ n * n ∨ v.length ≠ n then "bad-op"
      else
        let rows := (List.range n).map (fun r => (a.drop (r * n)).take n)
        let out := Yaqs.Krylov.lanczosC rows v m
        joinWith " " (out.alpha.map showRat) ++ " | " ++ joinWith " " ((out.betaSq.take (m - 1)).map showRat)
    | _, _, _, _ => "bad-op"
  | ["rightchain", n] :: parts =>
    match n.toNat?, parseSites? parts with
    | some n, some sites =>
      if sites.length = n ∧ 0 < n then joinWith " | " ((rightBlocks sites).map showCs) else "bad-op"
    | _, _ => "bad-op"
  | _ => "bad-op"

end HeffDrv

def handle (line : String) : String :=
  match splitBar (words line) with
  | [["lanczos", z, m, e, t], bs, ps] =>
    match parseFlag? z, m.toNat?, parseRat? e, parseRat? t, parseAll? parseRat? bs, parseAll? parseRat? ps with
    | some z, some mMax, some eps, some tol, some b, some p =>
      match lanczosExit z mMax eps tol (fun j => b.getD j 0) (fun j => p.getD (j - 1) 0) with
      | none => "err"
      | some x =>
        let (nb, np) := needed x.kind x.k mMax
        if b.length < nb ∨ p.length < np then "bad-op"
        else s!"{showKind x.kind} {x.k} {showBool x.fresh} {x.nsolve}"
    | _, _, _, _, _, _ => "bad-op"
  | [["lanczosw", z, m, e, t], bs, ps] =>
    match parseFlag? z, m.toNat?, parseRat? e, parseRat? t, parseAll? parseRat? bs, parseAll? parseRat? ps with
    | some z, some mMax, some eps, some tol, some b, some p =>
      match lanczosExit z mMax eps tol (fun j => b.getD j 0) (fun j => p.getD (j - 1) 0) with
      | none => "err"
      | some x =>
        let (nb, np) := needed x.kind x.k mMax
        if b.length < nb ∨ p.length < np ∨ x.writes.any (fun j => b.length ≤ j) then "bad-op"
        else
          let ws := x.writes.filter fun j => b.getD j 0 != 0
          joinWith " " ([showKind x.kind, toString x.k, showBool x.fresh, toString x.nsolve, "w"] ++ ws.map toString)
    | _, _, _, _, _, _ => "bad-op"
  | [["arnoldi", z, m, e, t], bs, ps] =>
    match parseFlag? z, m.toNat?, parseRat? e, parseRat? t, parseAll? parseRat? bs, parseAll? parseRat? ps with
    | some z, some mMax, some thr, some tol, some b, some p =>
      match arnoldiExit z mMax thr tol (fun j => b.getD j 0) (fun j => p.getD (j - 1) 0) with
      | none => "err"
      | some x =>
        let nb := match x.kind with | .zero => 0 | .exhausted => mMax | _ => x.k
        let np := match x.kind with | .zero => 0 | .breakdown => x.k - 2 | .exhausted => mMax - 1 | .converged => x.k - 1
        if b.length < nb ∨ p.length < np then "bad-op"
        else s!"{showKind x.kind} {x.k} {showBool x.fresh} {x.nsolve}"
    | _, _, _, _, _, _ => "bad-op"
  | [["lanczosrat", n, m], a, v] =>
    match n.toNat?, m.toNat?, parseAll? parseRat? a, parseAll? parseRat? v with
    | some n, some m, some a, some v =>
      if n = 0 ∨ a.length ≠ n * n ∨ v.length ≠ n then "bad-op"
      else
        let out := lanczosRat (chunk n a) v m
        joinWith " " (out.alpha.map showRat) ++ " | " ++ joinWith " " ((out.betaSq.take (m - 1)).map showRat)
    | _, _, _, _ => "bad-op"
  | _ => HeffDrv.handle line

def main : IO Unit := do lineLoop (← IO.getStdin) handle
