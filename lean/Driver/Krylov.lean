import YaqsModel.Basic.Parse
import YaqsModel.Model.Krylov
/-! line protocol for the Krylov exit logic and the exact recurrence:
    `lanczos <normZero> <mMax> <epsCut> <tol> | β_0 … | φ_1 …`  → `<kind> <k> <fresh> <nsolve>` | `err`
    `arnoldi <normZero> <mMax> <thr> <tol> | η_0 … | φ_1 …`     → `<kind> <k> <fresh> <nsolve>`
    `lanczosrat <n> <m> | A (row-major) | v`                     → `alpha_0 … alpha_{m-1} | betaSq_0 … betaSq_{m-2}`
    A request whose number lists are too short for the indices the model looks at is `bad-op`. -/
open Yaqs Yaqs.Krylov

def showKind : Kind → String
  | .zero => "zero" | .breakdown => "breakdown" | .converged => "converged" | .exhausted => "exhausted"

def parseFlag? (w : String) : Option Bool := if w = "1" then some true else if w = "0" then some false else none

/-- number of leading entries of `β` (resp. `φ`, shifted by one) an exit at size `k` has looked at -/
def needed (kind : Kind) (k mMax : Nat) : Nat × Nat :=
  match kind with
  | .zero => (0, 0)
  | .breakdown => (k, k - 2)
  | .converged => (k, k - 1)
  | .exhausted => (mMax - 1, mMax - 2)

def chunk (n : Nat) (l : List Rat) : List (List Rat) := (List.range n).map (fun r => (l.drop (r * n)).take n)

def handle (line : String) : String :=
  match splitBar (words line) with
  | [["lanczos", z, m, e, t], bs, ps] =>
    match parseFlag? z, m.toNat?, parseRat? e, parseRat? t, parseAll? parseRat? bs, parseAll? parseRat? ps with
    | some z, some mMax, some eps, some tol, some b, some p =>
      match lanczosExit z mMax eps tol (fun j => b.getD j 0) (fun j => p.getD (j - 1) 0) with
      | none => "err"
      | some x =>
        let (nb, np) := needed x.kind x.k mMax
        if b.length < nb ∨ p.length < np then "bad-op"
        else s!"{showKind x.kind} {x.k} {showBool x.fresh} {x.nsolve}"
    | _, _, _, _, _, _ => "bad-op"
  | [["arnoldi", z, m, e, t], bs, ps] =>
    match parseFlag? z, m.toNat?, parseRat? e, parseRat? t, parseAll? parseRat? bs, parseAll? parseRat? ps with
    | some z, some mMax, some thr, some tol, some b, some p =>
      match arnoldiExit z mMax thr tol (fun j => b.getD j 0) (fun j => p.getD (j - 1) 0) with
      | none => "err"
      | some x =>
        let nb := match x.kind with | .zero => 0 | .exhausted => mMax | _ => x.k
        let np := match x.kind with | .zero => 0 | .breakdown => x.k - 2 | .exhausted => mMax - 1 | .converged => x.k - 1
        if b.length < nb ∨ p.length < np then "bad-op"
        else s!"{showKind x.kind} {x.k} {showBool x.fresh} {x.nsolve}"
    | _, _, _, _, _, _ => "bad-op"
  | [["lanczosrat", n, m], a, v] =>
    match n.toNat?, m.toNat?, parseAll? parseRat? a, parseAll? parseRat? v with
    | some n, some m, some a, some v =>
      if n = 0 ∨ a.length ≠ n * n ∨ v.length ≠ n then "bad-op"
      else
        let out := lanczosRat (chunk n a) v m
        joinWith " " (out.alpha.map showRat) ++ " | " ++ joinWith " " ((out.betaSq.take (m - 1)).map showRat)
    | _, _, _, _ => "bad-op"
  | _ => "bad-op"

def main : IO Unit := do lineLoop (← IO.getStdin) handle
