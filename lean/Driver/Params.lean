import YaqsModel.Basic.Parse
import YaqsModel.Model.Params
import YaqsModel.Model.NoiseNorm
/-! line protocol for run histories on one parameter object (C20)

    hist <new|old|assertlate> <s|w|a> <numTraj> <shots> <getState 0|1> <lindblad 0|1> | <noise> <noise> …
      noise = `N` (noise_model is None) or `S:<strength>,<strength>,…` (possibly empty)
    reply: one block per run, blocks separated by `;`
      x <#executed> i <indices…> e <ok|getstate|index|firstnone> nt <num_traj> sh <shots> ml <len(measurements)>
      seen <shots seen by the back-end, `-` if it never ran> r <results|none> c <outcome:count …>

    The stub back-ends are fixed functions of (run index r, trajectory index i, shots s), the same ones the
    harness installs in the simulator namespace:
      strong / analog : value 100 r + i + 1
      weak            : {(i+r) % 4 : s - s/2, (i+r+1) % 4 : s/2} without zero counts
-/
open Yaqs Yaqs.Params

def stubBe (r : Nat) (i : Nat) : Rat := ((100 * r + i + 1 : Nat) : Rat)

def stubBw (r : Nat) (i s : Nat) : Counts :=
  [((i + r) % 4, s - s / 2), ((i + r + 1) % 4, s / 2)].filter (·.2 ≠ 0)

def parseNoise? (w : String) : Option (Option (List Rat)) :=
  if w = "N" then some none
  else if w.startsWith "S:" then
    let body := (w.drop 2).toString
    if body = "" then some (some [])
    else (parseAll? parseRat? (body.splitOn ",")).map some
  else none

def showErr : Option Err → String
  | none => "ok"
  | some .assertGetState => "getstate"
  | some .indexError => "index"
  | some .assertFirstNone => "firstnone"

def showOut (o : Out) : String :=
  joinWith " " ([ "x", toString o.executed.length, "i" ] ++ o.executed.map toString ++
    [ "e", showErr o.err, "nt", toString o.obj.numTraj, "sh", toString o.obj.shots,
      "ml", toString o.obj.measurements.length, "seen", (if o.executed.isEmpty then "-" else toString o.shotsSeen),
      "r", (match o.obj.results with | some q => showRat q | none => "none"), "c" ] ++
    o.obj.counts.map fun (k, v) => toString k ++ ":" ++ toString v)

def mkArgs (ns : List (Option (List Rat))) : List Arg :=
  (List.range ns.length).zip ns |>.map fun (r, n) => ⟨n, stubBe r, stubBw r⟩

/-! noise-model requests (Model.NoiseNorm)

    nnorm <known,names,…> | <proc> <proc> …      proc = name;s0,s1;<strength>;<hasMatrix 0|1>;<hasFactors 0|1>
                                                 strength = v:<rat>  or  d:<kind|->:<mean>:<std>
      reply: `ok` then per process name;sites;<fill>;<keptFactors>   or   err:assertion | err:attribute
    nsample <strength> … | <draw> …              one draw per process (ignored for numbers)
      reply: `ok` then the sampled strengths   or   err:value
-/
open Yaqs.NoiseNorm in
def parseStrength? (w : String) : Option Strength :=
  match w.splitOn ":" with
  | ["v", q] => (parseRat? q).map Strength.val
  | ["d", kind, m, sd] =>
    match parseRat? m, parseRat? sd with
    | some m, some sd => some (Strength.dist (if kind = "-" then none else some kind) m sd)
    | _, _ => none
  | _ => none

open Yaqs.NoiseNorm in
def parseProc? (w : String) : Option ProcIn :=
  match w.splitOn ";" with
  | [name, sites, st, m, f] =>
    let ss? := if sites = "" then some [] else parseAll? parseNat? (sites.splitOn ",")
    let b? (w : String) : Option Bool := if w = "1" then some true else if w = "0" then some false else none
    match ss?, parseStrength? st, b? m, b? f with
    | some ss, some st, some m, some f => some ⟨name.toList, ss, st, m, f⟩
    | _, _, _, _ => none
  | _ => none

open Yaqs.NoiseNorm in
def showFill : Fill → String
  | .callerMatrix => "callerMatrix" | .libMatrix => "libMatrix" | .kronMatrix => "kronMatrix"
  | .callerFactors => "callerFactors" | .pauliFactors => "pauliFactors"

open Yaqs.NoiseNorm in
def showNErr : NoiseNorm.Err → String
  | .assertion => "err:assertion" | .attribute => "err:attribute" | .value => "err:value"

open Yaqs.NoiseNorm in
def handleNoise (line : String) : Option String :=
  match splitBar (words line) with
  | ["nnorm" :: known, procs] =>
    let names : List Name := (known.flatMap (·.splitOn ",")).filter (· ≠ "") |>.map String.toList
    match parseAll? parseProc? procs with
    | some ps =>
      match normalize (fun n => names.contains n) ps with
      | .ok qs => some (joinWith " " ("ok" :: qs.map fun q =>
          String.ofList q.name ++ ";" ++ joinWith "," (q.sites.map toString) ++ ";" ++ showFill q.fill ++ ";" ++ showBool q.keptFactors))
      | .error e => some (showNErr e)
    | none => some "bad-op"
  | ["nsample" :: sts, draws] =>
    match parseAll? parseStrength? sts, parseAll? parseRat? draws with
    | some ss, some ds =>
      if ds.length ≠ ss.length then some "bad-op"
      else match sample ss ds with
        | .ok qs => some (joinWith " " ("ok" :: qs.map showRat))
        | .error e => some (showNErr e)
    | _, _ => some "bad-op"
  | _ => none

def handle (line : String) : String :=
  match handleNoise line with
  | some r => r
  | none =>
  match splitBar (words line) with
  | [["hist", variant, kind, nt, sh, gs, lb], noises] =>
    let k? : Option Kind := if kind = "s" then some .strong else if kind = "w" then some .weak
      else if kind = "a" then some .analog else none
    let b? (w : String) : Option Bool := if w = "1" then some true else if w = "0" then some false else none
    match k?, nt.toNat?, sh.toNat?, b? gs, b? lb, parseAll? parseNoise? noises with
    | some k, some nt, some sh, some gs, some lb, some ns =>
      let p := fresh k nt sh gs lb
      let outs := if variant = "new" then some (history p (mkArgs ns))
        else if variant = "old" then some (historyOld p (mkArgs ns))
        else if variant = "assertlate" then some (historyAssertLate p (mkArgs ns)) else none
      match outs with
      | some outs => joinWith " ; " (outs.map showOut)
      | none => "bad-op"
    | _, _, _, _, _, _ => "bad-op"
  | _ => "bad-op"

def main : IO Unit := do lineLoop (← IO.getStdin) handle
