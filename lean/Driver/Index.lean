import YaqsModel.Basic.Parse
import YaqsModel.Model.Index
/-! line protocol for the index maps and Kronecker embeddings (C06)

    kron      d… | b…            → kronIdx            (`err` if the digits are not valid for the dimensions)
    tovec     d… | b…            → toVecIdx
    toveccode d… | b…            → toVecIdxCode
    solver    b…                 → solverIdx          (qubits)
    solverold b…                 → solverIdxOld
    solverd   d… | b…            → solverIdxD
    unflat    d… | k             → digits
    kronall   r c r c … | M | M … → `rows cols e…`  entries at the (r,c) pairs; a matrix is `rows cols e00 e01 …`
    embed1    L i    | M | r c … ;  embed2 L s1 s2 | M | r c … ;  embedf L s1 s2 | M | M | r c …
-/
open Yaqs Yaqs.Index

def natList? (ws : List String) : Option (List Nat) := parseAll? parseNat? ws

def mat? (ws : List String) : Option (Mat Rat) :=
  match ws with
  | r :: c :: es =>
    match r.toNat?, c.toNat?, parseAll? parseRat? es with
    | some r, some c, some xs => if xs.length = r * c then some (ofList r c xs) else none
    | _, _, _ => none
  | _ => none

def pairs : List Nat → Option (List (Nat × Nat))
  | [] => some []
  | r :: c :: rest => (pairs rest).map ((r, c) :: ·)
  | _ => none

def showEntries (M : Option (Mat Rat)) (ps : List (Nat × Nat)) : String :=
  match M with
  | none => "err"
  | some M => joinWith " " (toString M.rows :: toString M.cols :: ps.map fun (r, c) => showRat (M.e r c))

def showNats (xs : List Nat) : String := joinWith " " (xs.map toString)

def handle (line : String) : String :=
  match splitBar (words line) with
  | ("kronall" :: ps) :: ms =>
    match (natList? ps).bind pairs, ms.mapM mat? with
    | some ps, some ms => showEntries (kronAll ms) ps
    | _, _ => "bad-op"
  | [op :: ds, bs] =>
    match natList? ds, natList? bs with
    | some d, some b =>
      if !(["unflat", "kron", "tovec", "toveccode", "solverd"].contains op) then "bad-op"
      else if op = "unflat" then
        match b with
        | [k] => if k < dimProd d then showNats (unflat d k) else "err"
        | _ => "bad-op"
      else if !validB d b then "err"
      else if op = "kron" then toString (kronIdx d b)
      else if op = "tovec" then toString (toVecIdx d b)
      else if op = "toveccode" then toString (toVecIdxCode d b)
      else if op = "solverd" then toString (solverIdxD d b)
      else "bad-op"
    | _, _ => "bad-op"
  | [op :: bs] =>
    match natList? bs with
    | some b =>
      if !(["solver", "solverold"].contains op) then "bad-op"
      else if !b.all (· < 2) then "err"
      else if op = "solver" then toString (solverIdx b)
      else if op = "solverold" then toString (solverIdxOld b)
      else "bad-op"
    | none => "bad-op"
  | [["embed1", l, i], m, ps] =>
    match l.toNat?, i.toNat?, mat? m, (natList? ps).bind pairs with
    | some l, some i, some m, some ps => showEntries (embed1 l i m) ps
    | _, _, _, _ => "bad-op"
  | [["embed2", l, s1, s2], m, ps] =>
    match l.toNat?, s1.toNat?, s2.toNat?, mat? m, (natList? ps).bind pairs with
    | some l, some s1, some s2, some m, some ps => showEntries (embed2 l s1 s2 m) ps
    | _, _, _, _, _ => "bad-op"
  | [["embedf", l, s1, s2], m1, m2, ps] =>
    match l.toNat?, s1.toNat?, s2.toNat?, mat? m1, mat? m2, (natList? ps).bind pairs with
    | some l, some s1, some s2, some m1, some m2, some ps => showEntries (embedF l s1 s2 m1 m2) ps
    | _, _, _, _, _, _ => "bad-op"
  | _ => "bad-op"

def main : IO Unit := do lineLoop (← IO.getStdin) handle
