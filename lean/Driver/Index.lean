import YaqsModel.Basic.Parse
import YaqsModel.Model.Index
import YaqsModel.Model.MasterEq
import YaqsModel.Model.MasterEqExec
/-! line protocol for the index maps and Kronecker embeddings (C06)

    kron      d… | b…            → kronIdx            (`err` if the digits are not valid for the dimensions)
    tovec     d… | b…            → toVecIdx
    toveccode d… | b…            → toVecIdxCode
    solver    b…                 → solverIdx          (qubits)
    solverold b…                 → solverIdxOld
    solverd   d… | b…            → solverIdxD
    unflat    d… | k             → digits
    kronall   r c r c … | M | M … → `rows cols e…`  entries at the (r,c) pairs; a matrix is `rows cols e00 e01 …`
    embed1    L i    | M | r c … ;  embed2 L s1 s2 | M | r c … ;  embedf L s1 s2 | M | M | r c …
-/
open Yaqs Yaqs.Index

def natList? (ws : List String) : Option (List Nat) := parseAll? parseNat? ws

def mat? (ws : List String) : Option (Mat Rat) :=
  match ws with
  | r :: c :: es =>
    match r.toNat?, c.toNat?, parseAll? parseRat? es with
    | some r, some c, some xs => if xs.length = r * c then some (ofList r c xs) else none
    | _, _, _ => none
  | _ => none

def pairs : List Nat → Option (List (Nat × Nat))
  | [] => some []
  | r :: c :: rest => (pairs rest).map ((r, c) :: ·)
  | _ => none

def showEntries (M : Option (Mat Rat)) (ps : List (Nat × Nat)) : String :=
  match M with
  | none => "err"
  | some M => joinWith " " (toString M.rows :: toString M.cols :: ps.map fun (r, c) => showRat (M.e r c))

def showNats (xs : List Nat) : String := joinWith " " (xs.map toString)

def handle (line : String) : String :=
  match splitBar (words line) with
  | ("kronall" :: ps) :: ms =>
    match (natList? ps).bind pairs, ms.mapM mat? with
    | some ps, some ms => showEntries (kronAll ms) ps
    | _, _ => "bad-op"
  | [op :: ds, bs] =>
    match natList? ds, natList? bs with
    | some d, some b =>
      if !(["unflat", "kron", "tovec", "toveccode", "solverd"].contains op) then "bad-op"
      else if op = "unflat" then
        match b with
        | [k] => if k < dimProd d then showNats (unflat d k) else "err"
        | _ => "bad-op"
      else if !validB d b then "err"
      else if op = "kron" then toString (kronIdx d b)
      else if op = "tovec" then toString (toVecIdx d b)
      else if op = "toveccode" then toString (toVecIdxCode d b)
      else if op = "solverd" then toString (solverIdxD d b)
      else "bad-op"
    | _, _ => "bad-op"
  | [op :: bs] =>
    match natList? bs with
    | some b =>
      if !(["solver", "solverold"].contains op) then "bad-op"
      else if !b.all (· < 2) then "err"
      else if op = "solver" then toString (solverIdx b)
      else if op = "solverold" then toString (solverIdxOld b)
      else "bad-op"
    | none => "bad-op"
  | [["embed1", l, i], m, ps] =>
    match l.toNat?, i.toNat?, mat? m, (natList? ps).bind pairs with
    | some l, some i, some m, some ps => showEntries (embed1 l i m) ps
    | _, _, _, _ => "bad-op"
  | [["embed2", l, s1, s2], m, ps] =>
    match l.toNat?, s1.toNat?, s2.toNat?, mat? m, (natList? ps).bind pairs with
    | some l, some s1, some s2, some m, some ps => showEntries (embed2 l s1 s2 m) ps
    | _, _, _, _, _ => "bad-op"
  | [["embedf", l, s1, s2], m1, m2, ps] =>
    match l.toNat?, s1.toNat?, s2.toNat?, mat? m1, mat? m2, (natList? ps).bind pairs with
    | some l, some s1, some s2, some m1, some m2, some ps => showEntries (embedF l s1 s2 m1 m2) ps
    | _, _, _, _, _, _ => "bad-op"
  | _ => "bad-op"

/-! ## extension: content of the Lindblad / MCWF solvers (`Model.MasterEq`)

    complex numbers travel as two rationals `re im`; a matrix of dimension `n = 2^L` as `2·n²` tokens, row major.
    process segments  `p1 γ site  m(2×2)` · `p2 γ s1 s2 m(4×4)` · `pf γ s1 s2 a(2×2) b(2×2)`   (local operators, unscaled)
    observable segments `o1 site m(2×2)` · `o2 s1 s2 m(4×4)` · `od` (structural diagnostic)

    lindrhs L | H | ρ | proc…          → entries of `lindbladOfProcs` (the real `lindblad_rhs` closure on ρ)
    lindrhstr L | H | ρ | proc…        → trace of the same
    ldagl   L | proc…                  → entries of `l_dag_l_sum`
    heff    L | H | proc…              → entries of `preprocess_mcwf(...).heff`
    jumpops L | proc…                  → `count` then, per kept operator, the entries `γ·L_ij·|L_ij|²`
                                          (= `J_ij·|J_ij|` of the real `J = sqrt(γ)·L` when `|L_ij| ∈ {0,1}`)
    lindobs L | ρ | obs…               → `Re Tr(O ρ)` per observable, `0` for a diagnostic
    lindtol thr                        → `rtol atol`
    mcwfstep L sample r k | ψ | ψnext | obs… proc…
         → `p_jump  renorm|jump k pv… cols v…`  (the reported columns, initial one first if `sample = 1`; `renorm` is
           what can be observed of both `noJump` and `noJumpEps`: no call of `choice`, `psi_next/sqrt(norm_sq)` measured)
    any embedding error (`IndexError` / `ValueError` in `_embed_generic`) → `err`
-/
open Yaqs.MasterEq

def cList? : List String → Option (List CRat)
  | [] => some []
  | a :: b :: rest =>
    match parseRat? a, parseRat? b, cList? rest with
    | some x, some y, some zs => some (⟨x, y⟩ :: zs)
    | _, _, _ => none
  | _ => none

def chunks (n : Nat) (xs : List CRat) : CMat :=
  (List.range n).map fun i => (xs.drop (i * n)).take n

def cmat? (n : Nat) (ws : List String) : Option CMat :=
  match cList? ws with
  | some xs => if xs.length = n * n then some (chunks n xs) else none
  | none => none

def cvec? (n : Nat) (ws : List String) : Option CVec :=
  match cList? ws with
  | some xs => if xs.length = n then some xs else none
  | none => none

def localMat? (d : Nat) (ws : List String) : Option (Mat CRat) :=
  match cList? ws with
  | some xs => if xs.length = d * d then some (ofList d d xs) else none
  | none => none

/-- a process segment: `none` = ill-formed, `some none` = the embedding raises -/
def proc? (L : Nat) (ws : List String) : Option (Option (Proc CMat)) :=
  let n := 2 ^ L
  match ws with
  | "p1" :: g :: s :: m =>
    match parseRat? g, s.toNat?, localMat? 2 m with
    | some g, some s, some m => some ((embed1 L s m).map fun E => ⟨g, ofIndexMat n E⟩)
    | _, _, _ => none
  | "p2" :: g :: s1 :: s2 :: m =>
    match parseRat? g, s1.toNat?, s2.toNat?, localMat? 4 m with
    | some g, some s1, some s2, some m => some ((embed2 L s1 s2 m).map fun E => ⟨g, ofIndexMat n E⟩)
    | _, _, _, _ => none
  | "pf" :: g :: s1 :: s2 :: ms =>
    match parseRat? g, s1.toNat?, s2.toNat?, localMat? 2 (ms.take 8), localMat? 2 (ms.drop 8) with
    | some g, some s1, some s2, some a, some b => some ((embedF L s1 s2 a b).map fun E => ⟨g, ofIndexMat n E⟩)
    | _, _, _, _, _ => none
  | _ => none

def obs? (L : Nat) (ws : List String) : Option (Option Obs) :=
  let n := 2 ^ L
  match ws with
  | ["od"] => some (some .diagnostic)
  | "o1" :: s :: m =>
    match s.toNat?, localMat? 2 m with
    | some s, some m => some ((embed1 L s m).map fun E => .op (ofIndexMat n E))
    | _, _ => none
  | "o2" :: s1 :: s2 :: m =>
    match s1.toNat?, s2.toNat?, localMat? 4 m with
    | some s1, some s2, some m => some ((embed2 L s1 s2 m).map fun E => .op (ofIndexMat n E))
    | _, _, _ => none
  | _ => none

def showC (z : CRat) : String := showRat z.re ++ " " ++ showRat z.im
def showCMat (A : CMat) : String := joinWith " " (A.flatMap fun row => row.map showC)
def showRats (xs : List Rat) : String := joinWith " " (xs.map showRat)

/-- all segments must parse (`none` → bad-op); an embedding error in any of them → `some none` -/
def allProcs? (L : Nat) (segs : List (List String)) : Option (Option (List (Proc CMat))) :=
  match segs.mapM (proc? L) with
  | none => none
  | some ps => some (ps.mapM id)

def allObs? (L : Nat) (segs : List (List String)) : Option (Option (List Obs)) :=
  match segs.mapM (obs? L) with
  | none => none
  | some os => some (os.mapM id)

def isObsSeg (ws : List String) : Bool :=
  match ws with
  | t :: _ => t = "o1" || t = "o2" || t = "od"
  | [] => false

def handleME (line : String) : String :=
  match splitBar (words line) with
  | ["lindrhs", l] :: h :: r :: ps =>
    match l.toNat? with
    | some L =>
      let n := 2 ^ L
      match cmat? n h, cmat? n r, allProcs? L ps with
      | some H, some ρ, some (some procs) => showCMat (lindbladOfProcs (listOps n) H procs ρ)
      | some _, some _, some none => "err"
      | _, _, _ => "bad-op"
    | none => "bad-op"
  | ["lindrhstr", l] :: h :: r :: ps =>
    match l.toNat? with
    | some L =>
      let n := 2 ^ L
      match cmat? n h, cmat? n r, allProcs? L ps with
      | some H, some ρ, some (some procs) => showC (mtrace n (lindbladOfProcs (listOps n) H procs ρ))
      | some _, some _, some none => "err"
      | _, _, _ => "bad-op"
    | none => "bad-op"
  | ["ldagl", l] :: ps =>
    match l.toNat? with
    | some L =>
      let n := 2 ^ L
      match allProcs? L ps with
      | some (some procs) => showCMat (lDagLSum (listOps n) (jumpOps procs))
      | some none => "err"
      | none => "bad-op"
    | none => "bad-op"
  | ["heff", l] :: h :: ps =>
    match l.toNat? with
    | some L =>
      let n := 2 ^ L
      match cmat? n h, allProcs? L ps with
      | some H, some (some procs) => showCMat (heffOfProcs (listOps n) H procs)
      | some _, some none => "err"
      | _, _ => "bad-op"
    | none => "bad-op"
  | ["jumpops", l] :: ps =>
    match l.toNat? with
    | some L =>
      let n := 2 ^ L
      match allProcs? L ps with
      | some (some procs) =>
        let kept := jumpOps procs
        joinWith " " (toString kept.length :: kept.map fun p =>
          showCMat (tab n fun i j => CRat.smul (p.gamma * CRat.normSq (get p.op i j)) (get p.op i j)))
      | some none => "err"
      | none => "bad-op"
    | none => "bad-op"
  | ["lindobs", l] :: r :: os =>
    match l.toNat? with
    | some L =>
      let n := 2 ^ L
      match cmat? n r, allObs? L os with
      | some ρ, some (some obs) => showRats (obs.map (obsValue n ρ))
      | some _, some none => "err"
      | _, _ => "bad-op"
    | none => "bad-op"
  | [["lindtol", t]] =>
    match parseRat? t with
    | some thr => let (a, b) := solverTol thr; showRat a ++ " " ++ showRat b
    | none => "bad-op"
  | ["mcwfstep", l, smp, r, k] :: p0 :: p1 :: segs =>
    match l.toNat?, smp.toNat?, parseRat? r, k.toNat? with
    | some L, some smp, some r, some k =>
      let n := 2 ^ L
      let osegs := segs.filter isObsSeg
      let psegs := segs.filter (fun s => !isObsSeg s)
      match cvec? n p0, cvec? n p1, allObs? L osegs, allProcs? L psegs with
      | some ψ, some ψnext, some (some obs), some (some procs) =>
        if smp > 1 then "bad-op" else
        let Ls := jumpOps procs
        match mcwfTaken n Ls ψ ψnext r k with
        | none => "bad-op"
        | some t =>
          let (v, c) := postState n Ls ψ ψnext t
          let v0 := obs.map (obsValuePure n ψ (vnormSq ψ))
          let v1 := obs.map (obsValuePure n v c)
          let cols := (reportedOneStep (smp == 1) v0 v1).flatMap id
          let br := match t with
            | .noJump => "renorm"
            | .noJumpEps => "renorm"
            | .jump k pv => "jump " ++ toString k ++ " pv " ++ showRats pv
          showRat (pJump ψnext) ++ " " ++ br ++ " cols " ++ showRats cols
      | some _, some _, some none, some _ => "err"
      | some _, some _, some _, some none => "err"
      | _, _, _, _ => "bad-op"
    | _, _, _, _ => "bad-op"
  | _ => "bad-op"

def handleAll (line : String) : String :=
  match words line with
  | op :: _ =>
    if ["lindrhs", "lindrhstr", "ldagl", "heff", "jumpops", "lindobs", "lindtol", "mcwfstep"].contains op then handleME line
    else handle line
  | [] => handle line

/-! ## extension 2: everything that can be observed of one pass of the MCWF loop (`Model.MasterEqExec`)

    mcwfstep2 L sample r k | ψ | ψnext | obs… proc…
         → `p_jump  nojump|nojumpeps|jump k pv…  calls i…  rho ρ…  cols v…`
           `calls` = indices of `ctx.jump_ops` multiplied onto the start-of-step state, in program order (`opCalls`);
           `rho`   = density matrix of the state after the pass (`postRho`; the real `ctx.output_state`, as `|ψ⟩⟨ψ|`);
           `cols`  = the returned array, column by column (`oneStepCols`)
    purerho L c | v                   → entries of `|v⟩⟨v|/c` (`np.outer(psi, psi.conj())` handed to `solve_ivp`, `c = 1`)
-/

def showNatsSp (xs : List Nat) : String := joinWith " " (xs.map toString)

def handleME2 (line : String) : String :=
  match splitBar (words line) with
  | ["mcwfstep2", l, smp, r, k] :: p0 :: p1 :: segs =>
    match l.toNat?, smp.toNat?, parseRat? r, k.toNat? with
    | some L, some smp, some r, some k =>
      let n := 2 ^ L
      let osegs := segs.filter isObsSeg
      let psegs := segs.filter (fun s => !isObsSeg s)
      match cvec? n p0, cvec? n p1, allObs? L osegs, allProcs? L psegs with
      | some ψ, some ψnext, some (some obs), some (some procs) =>
        if smp > 1 then "bad-op" else
        let Ls := jumpOps procs
        match mcwfTaken n Ls ψ ψnext r k, oneStepCols n Ls obs (smp == 1) ψ ψnext r k with
        | some t, some cols =>
          let br := match t with
            | .noJump => "nojump"
            | .noJumpEps => "nojumpeps"
            | .jump k pv => joinWith " " (["jump", toString k, "pv"] ++ pv.map showRat)
          joinWith " " ([showRat (pJump ψnext), br, "calls"] ++ (opCalls Ls.length t).map toString
            ++ ["rho", showCMat (postRho n Ls ψ ψnext t), "cols"] ++ (cols.flatMap id).map showRat)
        | _, _ => "bad-op"
      | some _, some _, some none, some _ => "err"
      | some _, some _, some _, some none => "err"
      | _, _, _, _ => "bad-op"
    | _, _, _, _ => "bad-op"
  | [["purerho", l, c], v] =>
    match l.toNat?, parseRat? c with
    | some L, some c =>
      let n := 2 ^ L
      match cvec? n v with
      | some v => if c = 0 then "err" else showCMat (pureRho n v c)
      | none => "bad-op"
    | _, _ => "bad-op"
  | _ => "bad-op"

def handleAll2 (line : String) : String :=
  match words line with
  | op :: _ => if ["mcwfstep2", "purerho"].contains op then handleME2 line else handleAll line
  | [] => handleAll line

def main : IO Unit := do lineLoop (← IO.getStdin) handleAll2
