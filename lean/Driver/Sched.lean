import YaqsModel.Basic.Parse
import YaqsModel.Model.Sched
/-!
line protocol for the scheduler model

  `sched <nJobs> <workers> <maxRetries> | w c:<pos>:<ok|retry|fatal> c:… w c:… …`
      every `w` is one `wait(...)` call; the `c:` tokens after it are the members of that batch, positions refer
      to the in-flight list at the moment of the `w`, listed in the order the `for fut in done` loop visits them.
      → `<log> | hw=<max in flight> | order=<yielded indices> | end=<done|open|raised:<job>:<attempt>>`
      log tokens: `s:<job>:<in flight after>`  `w:<in flight>`  `y:<job>:<result of job>:<attempt>`  `x:<job>:<attempt>`
  `front <nObs> <nJobs> <workers> <maxRetries> | …same events…`
      → the stitched table `row k = v v v …` with v = 10000*job + 10*attempt + k of the result stored in slot i (`-` = never written)
  `meas <nJobs> <workers> <maxRetries> | …`     → measurement slots (weak mode), v = 10000*job + 10*attempt
  `tomo <nSeq> <nTraj> <workers> <maxRetries> | …` → accumulated weights per sequence, weight = 10000*job + 10*attempt + 1
  `serial <n> | f0 f1 …`     (fi = 1: backend call for index i raises) → `calls=… | order=… | end=done|raised:<i>`
  `serialold <n> | a0:b0 a1:b1 …`  (first / second call raises)        → same, for the code as found
-/
open Yaqs Yaqs.Sched

def parseOutcome? : String → Option Outcome
  | "ok" => some .ok
  | "retry" => some .retryable
  | "fatal" => some .fatal
  | _ => none

/-- `c:<pos>:<outcome>` -/
def parseCompl? (w : String) : Option (Nat × Outcome) :=
  match w.splitOn ":" with
  | ["c", p, o] =>
    match p.toNat?, parseOutcome? o with
    | some p, some o => some (p, o)
    | _, _ => none
  | _ => none

/-- token list → batches (`cur` = members of the batch being read, reversed; `none` before the first `w`) -/
def parseBatchesGo (cur : Option (List (Nat × Outcome))) (out : List (List (Nat × Outcome))) :
    List String → Option (List (List (Nat × Outcome)))
  | [] => match cur with
    | none => some out.reverse
    | some c => some (c.reverse :: out).reverse
  | w :: rest =>
    if w = "w" then
      match cur with
      | none => parseBatchesGo (some []) out rest
      | some c => parseBatchesGo (some []) (c.reverse :: out) rest
    else
      match cur, parseCompl? w with
      | some c, some m => parseBatchesGo (some (m :: c)) out rest
      | _, _ => none

def parseBatches? (ws : List String) : Option (List (List (Nat × Outcome))) := parseBatchesGo none [] ws

def showOut : Out → String
  | .submit j n => s!"s:{j}:{n}"
  | .yield j r a => s!"y:{j}:{r}:{a}"
  | .raise j a => s!"x:{j}:{a}"

/-- one batch, member by member (same as `stepBatch`, but collecting the outputs); `none` = impossible event -/
def batchLog (s : State) (b : List (Nat × Outcome)) : Option (State × List String × Nat) :=
  if !(s.status == .running) || s.inflight.isEmpty || b.isEmpty then none else
  let snap := s.inflight
  b.foldl (fun acc po =>
    match acc with
    | none => none
    | some (t, log, hw) =>
      match snap[po.1]? with
      | none => none
      | some (a, _) =>
        -- members after the one that raised are never looked at by the loop
        if !(t.status == .running) then some (t, log, hw) else
        match t.inflight.findIdx? (fun p => p.1 == a) with
        | none => none
        | some _ =>
          let t' := stepId t a po.2
          some (t', log ++ (outputs t t').map showOut, max hw t'.inflight.length))
    (some (s, [s!"w:{s.inflight.length}"], s.inflight.length))

def runLog (n w r : Nat) (bs : List (List (Nat × Outcome))) : Option (State × List String × Nat) :=
  let s0 := init n w r
  let log0 := (outputs (start n w r) s0).map showOut
  bs.foldl (fun acc b =>
    match acc with
    | none => none
    | some (s, log, hw) =>
      match batchLog s b with
      | none => none
      | some (s', l, h) => some (s', log ++ l, max hw h))
    (some (s0, log0, s0.inflight.length))

def showEnd (s : State) : String :=
  match s.status with
  | .raised j a => s!"end=raised:{j}:{a}"
  | .running => if s.inflight.isEmpty then "end=done" else "end=open"

def showNats (xs : List Nat) : String :=
  if xs.isEmpty then "-" else joinWith "," (xs.map toString)

def showOpt : Option Nat → String
  | some v => toString v
  | none => "-"

def withRun (hd : List String) (ev : List String) (k : State → String) : String :=
  match parseAll? parseNat? hd, parseBatches? ev with
  | some [n, w, r], some bs =>
    match runLog n w r bs with
    | none => "bad-event"
    | some (s, _, _) =>
      -- the model must agree with the fold of `stepBatch`
      if runBatches (init n w r) bs == s then k s else "model-inconsistent"
  | _, _ => "bad-op"

def handle (line : String) : String :=
  match splitBar (words line) with
  | [("sched" :: hd), ev] =>
    match parseAll? parseNat? hd, parseBatches? ev with
    | some [n, w, r], some bs =>
      match runLog n w r bs with
      | none => "bad-event"
      | some (s, log, hw) =>
        if runBatches (init n w r) bs == s then
          joinWith " " log ++ s!" | hw={hw} | order=" ++ showNats (s.yielded.map (·.1)) ++ " | " ++ showEnd s
        else "model-inconsistent"
    | _, _ => "bad-op"
  | [("front" :: nObs :: hd), ev] =>
    match nObs.toNat? with
    | none => "bad-op"
    | some nObs =>
      withRun hd ev (fun s =>
        let work := fun (i a : Nat) => (List.range nObs).map (fun k => 10000 * i + 10 * a + k)
        let tab := stitchAll nObs s.nJobs work s.yielded
        joinWith " | " (tab.map (fun row => joinWith " " (row.map showOpt))) ++ " | " ++ showEnd s)
  | [("meas" :: hd), ev] =>
    withRun hd ev (fun s =>
      let m := stitchMeas s.nJobs (fun i a => 10000 * i + 10 * a) s.yielded
      joinWith " " (m.map showOpt) ++ " | " ++ showEnd s)
  | [["tomo", nSeq, nTraj, w, r], ev] =>
    match nSeq.toNat?, nTraj.toNat? with
    | some nSeq, some nTraj =>
      withRun [toString (nSeq * nTraj), w, r] ev (fun s =>
        let acc := accumulate nSeq nTraj (fun i a => ((10000 * i + 10 * a + 1 : Nat) : Int)) s.yielded
        joinWith " " (acc.map toString) ++ " | " ++ showEnd s)
    | _, _ => "bad-op"
  | [["serial", n], fs] =>
    match n.toNat?, parseAll? parseNat? fs with
    | some n, some fl =>
      if fl.length ≠ n then "bad-op" else
      let st := serialRun n (fun i => fl.getD i 0 != 0)
      "calls=" ++ showNats st.calls ++ " | order=" ++ showNats (st.yielded.map (·.1)) ++ " | end=" ++
        (match st.raisedAt with | none => "done" | some i => s!"raised:{i}")
    | _, _ => "bad-op"
  | [["serialold", n], fs] =>
    match n.toNat? with
    | none => "bad-op"
    | some n =>
      let parsePair? : String → Option (Nat × Nat) := fun w =>
        match w.splitOn ":" with
        | [a, b] => match a.toNat?, b.toNat? with
          | some a, some b => some (a, b)
          | _, _ => none
        | _ => none
      match parseAll? parsePair? fs with
      | none => "bad-op"
      | some fl =>
        if fl.length ≠ n then "bad-op" else
        let st := serialRunOld n (fun i k => if k = 0 then (fl.getD i (0, 0)).1 != 0 else (fl.getD i (0, 0)).2 != 0)
        "calls=" ++ showNats st.calls ++ " | order=" ++ showNats (st.yielded.map (·.1)) ++ " | end=" ++
          (match st.raisedAt with | none => "done" | some i => s!"raised:{i}")
  | _ => "bad-op"

def main : IO Unit := do lineLoop (← IO.getStdin) handle
