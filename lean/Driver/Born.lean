import YaqsModel.Basic.Parse
import YaqsModel.Model.Born
import YaqsModel.Model.WeakCounts
/-!
  line protocol for the Born model

    shot <basis> | b0 b1 … | l r e… | l r e… …      →  p0 p1 p0 p1 … ; done <key>   |   … ; dead   |  err ValueError
    measure <basis> <a> | l r e…                    →  p0 p1 scaleSq ; t…            |   dead        |  err ValueError
    mcall <L> <site>                                →  ok s0 s1 …                    |   err ValueError
    encode | b0 b1 …                                →  <key>
    tally | k0 k1 …                                 →  k:c k:c … ; total      (histogram of `measure_shots`, insertion order)

  A site segment `l r e…` is a tensor of shape `(2, l, r)` in C order, every entry as two rationals `re im`.
  All bond matrices are zero-padded to the largest bond dimension of the request.
-/
open Yaqs Yaqs.CB Yaqs.Born

structure RawSite where
  l : Nat
  r : Nat
  e : Array CRat

def parseCRats : List Rat → Option (List CRat)
  | [] => some []
  | [_] => none
  | a :: b :: rest => (parseCRats rest).map (fun t => ⟨a, b⟩ :: t)

def parseSite? (ws : List String) : Option RawSite :=
  match ws with
  | l :: r :: es =>
    match l.toNat?, r.toNat?, parseAll? parseRat? es with
    | some l, some r, some qs =>
      match parseCRats qs with
      | some cs => if cs.length = 2 * l * r ∧ 0 < l ∧ 0 < r then some ⟨l, r, cs.toArray⟩ else none
      | none => none
    | _, _, _ => none
  | _ => none

def toSite (n : Nat) (s : RawSite) : Site n :=
  Site.ofFn fun p => Mat.ofFn fun i j =>
    if i.val < s.l ∧ j.val < s.r then s.e.getD ((p.val * s.l + i.val) * s.r + j.val) 0 else 0

def parseBit? (w : String) : Option (Fin 2) :=
  if w = "0" then some 0 else if w = "1" then some 1 else none

def bondMax (ss : List RawSite) : Nat := ss.foldl (fun m s => max m (max s.l s.r)) 1

def showP (p : Fin 2 → Rat) : String := showRat (p 0) ++ " " ++ showRat (p 1)

def showC (z : CRat) : String := showRat z.re ++ " " ++ showRat z.im

def handle (line : String) : String :=
  match splitBar (words line) with
  | ["shot", basis] :: bits :: segs =>
    match basisOf? basis with
    | none => "err ValueError"
    | some b =>
      match parseAll? parseBit? bits, segs.mapM parseSite? with
      | some σ, some raws =>
        let n := bondMax raws
        let sites := raws.map (toSite n)
        let tr := measureSingleShot b sites σ
        let ps := joinWith " " (tr.map showP)
        match shotOutcome b sites σ with
        | some k => ps ++ " ; done " ++ toString k
        | none => ps ++ " ; dead"
      | _, _ => "bad-op"
  | [["measure", basis, a], seg] =>
    match basisOf? basis with
    | none => "err ValueError"
    | some b =>
      match parseBit? a, parseSite? seg with
      | some a, some raw =>
        let n := max raw.l raw.r
        match measureSite b (toSite n raw) a with
        | none => "dead"
        | some out =>
          let idx : List (Fin 2 × Nat × Nat) :=
            (List.finRange 2).flatMap fun p => (List.range raw.l).flatMap fun i => (List.range raw.r).map fun j => (p, i, j)
          let ents := idx.map fun (p, i, j) =>
            if h : i < n ∧ j < n then showC ((out.tensor.get p).get ⟨i, h.1⟩ ⟨j, h.2⟩) else "bad"
          showP out.p ++ " " ++ showRat out.scaleSq ++ " ; " ++ joinWith " " ents
      | _, _ => "bad-op"
  | [["mcall", L, site]] =>
    match L.toNat?, site.toInt? with
    | some L, some site =>
      match measureCall L site with
      | .ok shifts => joinWith " " ("ok" :: shifts.map toString)
      | .error e => "err " ++ e
    | _, _ => "bad-op"
  | [["encode"], bits] =>
    match parseAll? parseBit? bits with
    | some σ => toString (encode σ)
    | none => "bad-op"
  | [["tally"], keys] =>
    match parseAll? (fun w => w.toNat?) keys with
    | some ks =>
      let cs := tally ks
      joinWith " " (cs.map fun p => toString p.1 ++ ":" ++ toString p.2) ++ " ; " ++ toString (total cs)
    | none => "bad-op"
  | _ => "bad-op"

def main : IO Unit := do lineLoop (← IO.getStdin) handle
