import YaqsModel.Basic.Parse
import YaqsModel.Basic.CRat
import YaqsModel.Model.Gates
/-!
line protocol for the gate table (`Model/Gates.lean` evaluated on `CRat`); all numbers exact rationals `num/den`

  mat <gate> <params…>                      → entries row-major, `re im` each
      fixed:  x y z id sx destroy create p0 p1 cx cz swap xx yy zz
      h <hh> ; rx|ry|rz|p|cp|rxx|ryy|rzz <c> <s> ; u <c> <s> <cφ> <sφ> <cλ> <sλ> ; u2 <hh> <cφ> <sφ> <cλ> <sλ>
  tensor <cx|cz|cp|swap|rxx|ryy|rzz> <rev 0|1> <c> <s>   → 16 entries, index order (a,b,c,d)
  gen <cx|cz|cp|rxx|ryy|rzz|czold|cpold> <lam>          → A (4 entries) then B (4 entries)
  mpo <nId> <rev> <chi> | <T1: a,c,k  re im …> | <T2: b,d,k  re im …>   → dense operator on nId+2 sites
  mpog <2q gate> <rev> <nId> <c> <s>       → dense operator of extend_gate on the trivial exact split
  expect <2q gate> <rev> <nId> <c> <s>     → the gate on the end sites, identity in between
  slots <q0> <q1> <length>                 → A / B / I per site
-/
open Yaqs Yaqs.Gates

def cr (q : Rat) : CRat := ⟨q, 0⟩
def half : CRat := ⟨1/2, 0⟩
def showC (z : CRat) : String := showRat z.re ++ " " ++ showRat z.im

def fin2s : List (Fin 2) := [0, 1]
def fin4s : List (Fin 4) := [0, 1, 2, 3]

def showM2 (m : M2 CRat) : String :=
  joinWith " " (fin2s.flatMap fun r => fin2s.map fun c => showC (m r c))
def showM4 (m : M4 CRat) : String :=
  joinWith " " (fin4s.flatMap fun r => fin4s.map fun c => showC (m r c))
def showT4 (t : T4 CRat) : String :=
  joinWith " " (fin2s.flatMap fun a => fin2s.flatMap fun b => fin2s.flatMap fun c => fin2s.map fun d => showC (t a b c d))

def g2? : String → Option G2
  | "cx" => some .cx | "cz" => some .cz | "cp" => some .cp | "swap" => some .swap
  | "rxx" => some .rxx | "ryy" => some .ryy | "rzz" => some .rzz
  | _ => none

def bool? : String → Option Bool
  | "0" => some false | "1" => some true | _ => none

def matOp (name : String) (ps : List Rat) : Option String :=
  let i := CRat.I
  match name, ps with
  | "x", [] => some (showM2 (x : M2 CRat))
  | "y", [] => some (showM2 (y i))
  | "z", [] => some (showM2 (z : M2 CRat))
  | "id", [] => some (showM2 (one2 : M2 CRat))
  | "sx", [] => some (showM2 (sx i half))
  | "destroy", [] => some (showM2 (destroy : M2 CRat))
  | "create", [] => some (showM2 (create : M2 CRat))
  | "p0", [] => some (showM2 (p0 : M2 CRat))
  | "p1", [] => some (showM2 (p1 : M2 CRat))
  | "h", [hh] => some (showM2 (h (cr hh)))
  | "rx", [c, s] => some (showM2 (rx i (cr c) (cr s)))
  | "ry", [c, s] => some (showM2 (ry (cr c) (cr s)))
  | "rz", [c, s] => some (showM2 (rz i (cr c) (cr s)))
  | "p", [c, s] => some (showM2 (phase i (cr c) (cr s)))
  | "u", [c, s, cp', sp, cl, sl] => some (showM2 (u (cr c) (cr s) (cis i (cr cp') (cr sp)) (cis i (cr cl) (cr sl))))
  | "u2", [hh, cp', sp, cl, sl] => some (showM2 (u2 (cr hh) (cis i (cr cp') (cr sp)) (cis i (cr cl) (cr sl))))
  | "xx", [] => some (showM4 (xx : M4 CRat))
  | "yy", [] => some (showM4 (yy i))
  | "zz", [] => some (showM4 (zz : M4 CRat))
  | nm, ps =>
    match g2? nm, ps with
    | some g, [] => if g = .cx ∨ g = .cz ∨ g = .swap then some (showM4 (g.matrix i 0 0)) else none
    | some g, [c, s] => if g = .cx ∨ g = .cz ∨ g = .swap then none else some (showM4 (g.matrix i (cr c) (cr s)))
    | _, _ => none

def genOp (name : String) (lam : Rat) : Option String :=
  let i := CRat.I
  let sh (p : M2 CRat × M2 CRat) := showM2 p.1 ++ " " ++ showM2 p.2
  match name with
  | "cx" => some (sh (GG.cx.generator i (cr lam)))
  | "cz" => some (sh (GG.cz.generator i (cr lam)))
  | "cp" => some (sh (GG.cp.generator i (cr lam)))
  | "rxx" => some (sh (GG.rxx.generator i (cr lam)))
  | "ryy" => some (sh (GG.ryy.generator i (cr lam)))
  | "rzz" => some (sh (GG.rzz.generator i (cr lam)))
  | "czold" => some (sh (czGenOld (cr lam)))
  | "cpold" => some (sh (cpGenOld (cr lam)))
  | _ => none

/-- all `2^L × 2^L` entries of an MPO, row-major, rows/columns read as bit strings with site 0 most significant -/
def showDense (L : Nat) (entry : List (Fin 2) → List (Fin 2) → CRat) : String :=
  let idx := List.range (2 ^ L)
  let cfgs := idx.map (bitsOf L)
  joinWith " " (cfgs.flatMap fun o => cfgs.map fun i => showC (entry o i))

/-- complex list from a flat list of rationals `re im re im …` -/
def pairs? : List Rat → Option (List CRat)
  | [] => some []
  | re :: im :: rest => (pairs? rest).map (⟨re, im⟩ :: ·)
  | _ => none

/-- factor tensor `T[p, q, k]` from a flat list in index order (p, q, k), `k` fastest -/
def factorOf (chi : Nat) (l : Array CRat) : Fin 2 → Fin 2 → Nat → CRat :=
  fun p q k => l.getD ((p.val * 2 + q.val) * chi + k) 0

def handle (line : String) : String :=
  match splitBar (words line) with
  | [["slots", q0, q1, len]] =>
    match q0.toNat?, q1.toNat?, len.toNat? with
    | some a, some b, some l =>
      if a = b ∨ a ≥ l ∨ b ≥ l then "bad-op" else
      joinWith " " ((generatorSlots a b l).map fun s => match s with | .A => "A" | .B => "B" | .I => "I")
    | _, _, _ => "bad-op"
  | [["mpo", n, rev, chi], t1, t2] =>
    match n.toNat?, bool? rev, chi.toNat?, parseAll? parseRat? t1, parseAll? parseRat? t2 with
    | some n, some rev, some chi, some l1, some l2 =>
      match pairs? l1, pairs? l2 with
      | some c1, some c2 =>
        if c1.length ≠ 4 * chi ∨ c2.length ≠ 4 * chi ∨ chi = 0 ∨ n > 5 then "bad-op" else
        let ws := extendGate chi (factorOf chi c1.toArray) (factorOf chi c2.toArray) n rev
        showDense (n + 2) (mpoEntry ws)
      | _, _ => "bad-op"
    | _, _, _, _, _ => "bad-op"
  | [op :: name :: rest] =>
    match op with
    | "mat" =>
      match parseAll? parseRat? rest with
      | some ps => (matOp name ps).getD "bad-op"
      | none => "bad-op"
    | "gen" =>
      match rest with
      | [lam] => match parseRat? lam with
        | some l => (genOp name l).getD "bad-op"
        | none => "bad-op"
      | _ => "bad-op"
    | "tensor" =>
      match g2? name, rest with
      | some g, [rev, c, s] =>
        match bool? rev, parseRat? c, parseRat? s with
        | some rev, some c, some s => showT4 (g.tensor CRat.I (cr c) (cr s) rev)
        | _, _, _ => "bad-op"
      | _, _ => "bad-op"
    | "mpog" | "expect" =>
      match g2? name, rest with
      | some g, [rev, n, c, s] =>
        match bool? rev, n.toNat?, parseRat? c, parseRat? s with
        | some rev, some n, some c, some s =>
          if n > 5 then "bad-op" else
          let G := g.matrix CRat.I (cr c) (cr s)
          if op = "mpog" then showDense (n + 2) (mpoEntry (extendGate 4 (trivialT1 G) trivialT2 n rev))
          else showDense (n + 2) (expectedEntry G rev)
        | _, _, _, _ => "bad-op"
      | _, _ => "bad-op"
    | _ => "bad-op"
  | _ => "bad-op"

def main : IO Unit := do lineLoop (← IO.getStdin) handle
