import YaqsModel.Basic.Parse
import YaqsModel.Basic.CRatT
import YaqsModel.Model.Tomo
import YaqsModel.Model.TomoComb
/-!
line protocol for the tomography model (complex numbers travel as two exact rationals `re im`)

* `rho p`                                   → the 2×2 density matrix of preparation `p` (row-major, 8 rationals)
* `choi a`                                  → `p m` and the 4×4 Choi basis matrix `B_a` (row-major)
* `dual a`                                  → the 4×4 dual matrix `D_a`
* `biorth | D (16 complex)`                 → `Tr(Dᴴ B_b)` for `b = 0..15` against the model's exact basis
* `predict k | tensor (4·16^k complex, C order) | J_0 | … | J_{k-1}` → the four output components
* `reprep d m p | ψ (2·d complex, shape (2,d) C order)` → `prob` and the density matrix of the new state
* `flatidx k o | a_0 … a_{k-1}`            → C-order flat index of `tensor[o, a_0, …]`
* `weights k | p_0 p_1 …`                   → weight returned and number of re-preparations performed
* `applychoi d | J (16 complex) | X ((2d)² complex, row-major, joint index s·d+c)` → `(A_J ⊗ id)(X)`, same layout
* `comb k d | U_0 | … | U_{k-1} | X0 | J_0 | … | J_{k-1}` → the four output components of the exact comb
  `Tr_env[U_{k-1}(A_{J_{k-1}}⊗id)( … U_0 (A_{J_0}⊗id)(X0) U_0ᴴ … )U_{k-1}ᴴ]` (`Model/TomoComb.lean`)
* `krauschoi | A_1 (4 complex, row-major) | … | A_n` → the 4×4 Choi matrix `Σ_n vec(A_n) vec(A_n)ᴴ` (code convention)
-/
open Yaqs Yaqs.CRatT Yaqs.Tomo

def pairUp : List Rat → Option (List CRatT)
  | [] => some []
  | [_] => none
  | a :: b :: rest => (pairUp rest).map (fun l => (⟨a, b⟩ : CRatT) :: l)

def parseC? (ws : List String) : Option (Array CRatT) := do
  let rs ← parseAll? parseRat? ws
  let cs ← pairUp rs
  pure cs.toArray

def showC (z : CRatT) : String := showRat z.re ++ " " ++ showRat z.im

def showMat {n : Nat} (A : Fin n → Fin n → CRatT) : String :=
  joinWith " " ((List.finRange n).flatMap (fun i => (List.finRange n).map (fun j => showC (A i j))))

def toM4 (a : Array CRatT) : M4 := fun i j => a.getD (4 * i.val + j.val) 0

def fin? (n : Nat) (s : String) : Option (Fin n) :=
  match s.toNat? with
  | some v => if h : v < n then some ⟨v, h⟩ else none
  | none => none

def allOpt {α β} (f : α → Option β) : List α → Option (List β)
  | [] => some []
  | x :: xs => do
    let a ← f x
    let as ← allOpt f xs
    pure (a :: as)

def pow16 : Nat → Nat
  | 0 => 1
  | k + 1 => 16 * pow16 k

def handle (line : String) : String :=
  match splitBar (words line) with
  | [["rho", p]] =>
    match fin? 4 p with
    | some p => showMat (rho p)
    | none => "bad-op"
  | [["choi", a]] =>
    match fin? 16 a with
    | some a => toString (choiIdx a).1.val ++ " " ++ toString (choiIdx a).2.val ++ " " ++ showMat (choiB a)
    | none => "bad-op"
  | [["dual", a]] =>
    match fin? 16 a with
    | some a => showMat (choiD a)
    | none => "bad-op"
  | [["biorth"], dws] =>
    match parseC? dws with
    | some d =>
      if d.size ≠ 16 then "bad-op" else
      joinWith " " ((List.finRange 16).map (fun b => showC (hsInner (toM4 d) (choiB b))))
    | none => "bad-op"
  | ["predict", ks] :: tws :: jws =>
    match ks.toNat?, parseC? tws with
    | some k, some t =>
      if t.size ≠ 4 * pow16 k ∨ jws.length ≠ k then "bad-op" else
      match allOpt (fun ws => (parseC? ws).bind (fun a => if a.size = 16 then some a else none)) jws with
      | some js =>
        let carrs : Array (Array CRatT) := (js.map (fun j => Array.ofFn (coeffs (toM4 j)))).toArray
        let cs : Fin k → Fin 16 → CRatT := fun i a => (carrs.getD i.val #[]).getD a.val 0
        joinWith " " ((List.finRange 4).map (fun o => showC (predict k (ofFlat t k o.val) cs)))
      | none => "bad-op"
    | _, _ => "bad-op"
  | [["reprep", ds, ms, ps], pws] =>
    match ds.toNat?, fin? 4 ms, fin? 4 ps, parseC? pws with
    | some d, some m, some p, some v =>
      if d = 0 ∨ v.size ≠ 2 * d then "bad-op" else
      let ψ : Fin 2 → Fin d → CRatT := fun s c => v.getD (s.val * d + c.val) 0
      let ρ := reprepDensity d m p ψ
      let idx : List (Fin 2 × Fin d) := (List.finRange 2).flatMap (fun s => (List.finRange d).map (fun c => (s, c)))
      showRat (prob d m ψ) ++ " " ++
        joinWith " " (idx.flatMap (fun x => idx.map (fun y => showC (ρ x y))))
    | _, _, _, _ => "bad-op"
  | [["flatidx", ks, os], aws] =>
    match ks.toNat?, os.toNat?, allOpt (fin? 16) aws with
    | some k, some o, some as =>
      if as.length ≠ k ∨ o ≥ 4 then "bad-op" else
      toString (flatIdx k o (fun i => as.getD i.val 0))
    | _, _, _ => "bad-op"
  | [["weights", ks], pws] =>
    match ks.toNat?, parseAll? parseRat? pws with
    | some k, some ps =>
      let r := expectedCalls k ps
      showRat r.1 ++ " " ++ toString r.2
    | _, _ => "bad-op"
  | [["applychoi", ds], jws, xws] =>
    match ds.toNat?, parseC? jws, parseC? xws with
    | some d, some j, some x =>
      if d = 0 ∨ j.size ≠ 16 ∨ x.size ≠ (2 * d) * (2 * d) then "bad-op" else
      let Y := applyChoiE d (toM4 j) (jointOfFlat d x)
      let idx : List (Fin 2 × Fin d) := (List.finRange 2).flatMap (fun s => (List.finRange d).map (fun c => (s, c)))
      joinWith " " (idx.flatMap (fun a => idx.map (fun b => showC (Y a b))))
    | _, _, _ => "bad-op"
  | ["krauschoi"] :: aws =>
    match allOpt (fun ws => (parseC? ws).bind (fun a => if a.size = 4 then some a else none)) aws with
    | some as =>
      if as.isEmpty then "bad-op" else
      let ms : List M2 := as.map (fun a => (fun i j => a.getD (2 * i.val + j.val) 0 : M2))
      showMat (krausChoiE ms)
    | none => "bad-op"
  | ["comb", ks, ds] :: rest =>
    match ks.toNat?, ds.toNat? with
    | some k, some d =>
      if d = 0 ∨ rest.length ≠ 2 * k + 1 then "bad-op" else
      let sz := (2 * d) * (2 * d)
      match allOpt (fun ws => (parseC? ws).bind (fun a => if a.size = sz then some a else none)) (rest.take (k + 1)),
            allOpt (fun ws => (parseC? ws).bind (fun a => if a.size = 16 then some a else none)) (rest.drop (k + 1)) with
      | some ux, some js =>
        let us := ux.take k
        match ux.drop k with
        | [x0] =>
          let segs : List (Tab × M4) := (us.zip js).map (fun p => (tabJ d (jointOfFlat d p.1), toM4 p.2))
          let X0 := tabJ d (jointOfFlat d x0)
          joinWith " " ((List.finRange 4).map (fun o => showC (physCombT d segs X0 o)))
        | _ => "bad-op"
      | _, _ => "bad-op"
    | _, _ => "bad-op"
  | _ => "bad-op"

def main : IO Unit := do lineLoop (← IO.getStdin) handle
