import YaqsModel.Basic.Parse
import YaqsModel.Model.Sweep
/-! line protocol for the sweep schedules:
    `ldtdvp <L> <maxBond> <digital> | seenLR… | seenRL…`, `single <L> <digital>`, `two <L> <digital>`, `bug <L>`
    → the primitive updates as `s:i:c` (site), `b:i:c` (bond), `p:i:c` (pair), `x:i:R|L` (split), `t` (truncate) -/
open Yaqs Yaqs.Sweep

def showOp : Op → String
  | .site i c => s!"s:{i}:{showRat c}"
  | .bond i c => s!"b:{i}:{showRat c}"
  | .pair i c => s!"p:{i}:{showRat c}"
  | .split i r => s!"x:{i}:{if r then "R" else "L"}"
  | .trunc => "t"

def showOps (l : List Op) : String := if l.isEmpty then "none" else joinWith " " (l.map showOp)

def parseFlag? (w : String) : Option Bool := if w = "1" then some true else if w = "0" then some false else none

def handle (line : String) : String :=
  match splitBar (words line) with
  | [["ldtdvp", l, mx, dg], lr, rl] =>
    match l.toNat?, mx.toNat?, parseFlag? dg, parseAll? String.toNat? lr, parseAll? String.toNat? rl with
    | some L, some m, some d, some a, some b =>
      if L = 0 ∨ a.length ≠ L ∨ (¬ d ∧ b.length ≠ L) then "bad-op"
      else showOps (ldtdvp L m (fun i => a.getD i 0) (fun i => b.getD i 0) d)
    | _, _, _, _, _ => "bad-op"
  | [["single", l, dg]] =>
    match l.toNat?, parseFlag? dg with
    | some L, some d => if L = 0 then "bad-op" else showOps (singleSite L d)
    | _, _ => "bad-op"
  | [["two", l, dg]] =>
    match l.toNat?, parseFlag? dg with
    | some L, some d => if L = 0 then "bad-op" else match twoSite L d with
      | some ops => showOps ops
      | none => "err"
    | _, _ => "bad-op"
  | [["bug", l]] =>
    match l.toNat? with
    | some L => if L = 0 then "bad-op" else showOps (bug L)
    | none => "bad-op"
  | _ => "bad-op"

def main : IO Unit := do lineLoop (← IO.getStdin) handle
