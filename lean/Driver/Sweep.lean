import YaqsModel.Basic.Parse
import YaqsModel.Model.Sweep
import YaqsModel.Model.Conserve
/-! line protocol for the sweep schedules:
    `ldtdvp <L> <maxBond> <digital> | seenLR… | seenRL…`, `single <L> <digital>`, `two <L> <digital>`, `bug <L>`
    → the primitive updates as `s:i:c` (site), `b:i:c` (bond), `p:i:c` (pair), `x:i:R|L` (split), `t` (truncate)
    `fullsingle <L> <digital>`, `fulltwo <L> <digital>`, `fullldtdvp <L> <maxBond> <digital> | seenLR… | seenRL…`
    → the same lists with the gauge steps of `Model/Conserve.lean` written out: `q:i` (QR of site i, centre moves right),
      `a:b` (bond matrix absorbed into site b+1), `Q:i` (QR of the transposed site i, centre moves left), `A:b` (absorbed
      into site b), `m:p` (merge of sites p, p+1) -/
open Yaqs Yaqs.Sweep

def showOp : Op → String
  | .site i c => s!"s:{i}:{showRat c}"
  | .bond i c => s!"b:{i}:{showRat c}"
  | .pair i c => s!"p:{i}:{showRat c}"
  | .split i r => s!"x:{i}:{if r then "R" else "L"}"
  | .trunc => "t"

def showStep : Step → String
  | .prim o => showOp o
  | .qrRight i => s!"q:{i}"
  | .absorbRight b => s!"a:{b}"
  | .qrLeft i => s!"Q:{i}"
  | .absorbLeft b => s!"A:{b}"
  | .merge p => s!"m:{p}"

def showSteps (l : List Step) : String := if l.isEmpty then "none" else joinWith " " (l.map showStep)

def showOps (l : List Op) : String := if l.isEmpty then "none" else joinWith " " (l.map showOp)

def parseFlag? (w : String) : Option Bool := if w = "1" then some true else if w = "0" then some false else none

def handle (line : String) : String :=
  match splitBar (words line) with
  | [["ldtdvp", l, mx, dg], lr, rl] =>
    match l.toNat?, mx.toNat?, parseFlag? dg, parseAll? String.toNat? lr, parseAll? String.toNat? rl with
    | some L, some m, some d, some a, some b =>
      if L = 0 ∨ a.length ≠ L ∨ (¬ d ∧ b.length ≠ L) then "bad-op"
      else showOps (ldtdvp L m (fun i => a.getD i 0) (fun i => b.getD i 0) d)
    | _, _, _, _, _ => "bad-op"
  | [["fullldtdvp", l, mx, dg], lr, rl] =>
    match l.toNat?, mx.toNat?, parseFlag? dg, parseAll? String.toNat? lr, parseAll? String.toNat? rl with
    | some L, some m, some d, some a, some b =>
      if L = 0 ∨ a.length ≠ L ∨ (¬ d ∧ b.length ≠ L) then "bad-op"
      else showSteps (ldtdvpFull L (fun i => capped (a.getD i 0) m) (fun i => capped (b.getD i 0) m) d)
    | _, _, _, _, _ => "bad-op"
  | [["fullsingle", l, dg]] =>
    match l.toNat?, parseFlag? dg with
    | some L, some d => if L = 0 then "bad-op" else showSteps (singleSiteFull L d)
    | _, _ => "bad-op"
  | [["fulltwo", l, dg]] =>
    match l.toNat?, parseFlag? dg with
    | some L, some d => if L = 0 then "bad-op" else match twoSiteFull L d with
      | some st => showSteps st
      | none => "err"
    | _, _ => "bad-op"
  | [["single", l, dg]] =>
    match l.toNat?, parseFlag? dg with
    | some L, some d => if L = 0 then "bad-op" else showOps (singleSite L d)
    | _, _ => "bad-op"
  | [["two", l, dg]] =>
    match l.toNat?, parseFlag? dg with
    | some L, some d => if L = 0 then "bad-op" else match twoSite L d with
      | some ops => showOps ops
      | none => "err"
    | _, _ => "bad-op"
  | [["bug", l]] =>
    match l.toNat? with
    | some L => if L = 0 then "bad-op" else showOps (bug L)
    | none => "bad-op"
  | _ => "bad-op"

def main : IO Unit := do lineLoop (← IO.getStdin) handle
