import YaqsModel.Basic.Parse
import YaqsModel.Model.Sweep
import YaqsModel.Model.Conserve
import YaqsModel.Model.Bug
/-! line protocol for the sweep schedules:
    `ldtdvp <L> <maxBond> <digital> | seenLR… | seenRL…`, `single <L> <digital>`, `two <L> <digital>`, `bug <L>`
    → the primitive updates as `s:i:c` (site), `b:i:c` (bond), `p:i:c` (pair), `x:i:R|L` (split), `t` (truncate)
    `fullsingle <L> <digital>`, `fulltwo <L> <digital>`, `fullldtdvp <L> <maxBond> <digital> | seenLR… | seenRL…`
    → the same lists with the gauge steps of `Model/Conserve.lean` written out: `q:i` (QR of site i, centre moves right),
      `a:b` (bond matrix absorbed into site b+1), `Q:i` (QR of the transposed site i, centre moves left), `A:b` (absorbed
      into site b), `m:p` (merge of sites p, p+1)
    xb05: `fullbug <L>` → one `bug` call with every statement of `Model/Bug.lean`: `pq:i` (right_qr of the centre tensor of site i),
      `pc:i` (centre tensor of site i+1 := R·A), `pe:i` (left block of site i+1), `s:k:1`, `k:k:L|C` (stack tensor: the state's Leaf
      tensor / the Centre tensor), `n:k` (concatenate + left_qr), `B:k` (basis-change matrix), `S:k` (state.tensors[k] := new_q),
      `P:k` (centre tensor of site k-1 := · M_k), `r:k` (right block), `root` (state.tensors[0] := updated), `t`;
      `bugbonds <d> | b1 … b_{L-1}` → the internal bonds after the sweep of `bug`, before `truncate` -/
open Yaqs Yaqs.Sweep

def showOp : Op → String
  | .site i c => s!"s:{i}:{showRat c}"
  | .bond i c => s!"b:{i}:{showRat c}"
  | .pair i c => s!"p:{i}:{showRat c}"
  | .split i r => s!"x:{i}:{if r then "R" else "L"}"
  | .trunc => "t"

def showStep : Step → String
  | .prim o => showOp o
  | .qrRight i => s!"q:{i}"
  | .absorbRight b => s!"a:{b}"
  | .qrLeft i => s!"Q:{i}"
  | .absorbLeft b => s!"A:{b}"
  | .merge p => s!"m:{p}"

def showBStep : BStep → String
  | .prepQR i => s!"pq:{i}"
  | .prepCentre i => s!"pc:{i}"
  | .prepEnv i => s!"pe:{i}"
  | .prim o => showOp o
  | .stack k leaf => s!"k:{k}:{if leaf then "L" else "C"}"
  | .newQ k => s!"n:{k}"
  | .basis k => s!"B:{k}"
  | .setQ k => s!"S:{k}"
  | .pass k => s!"P:{k}"
  | .rightEnv k => s!"r:{k}"
  | .setRoot => "root"

def showSteps (l : List Step) : String := if l.isEmpty then "none" else joinWith " " (l.map showStep)

def showOps (l : List Op) : String := if l.isEmpty then "none" else joinWith " " (l.map showOp)

def parseFlag? (w : String) : Option Bool := if w = "1" then some true else if w = "0" then some false else none

def handle (line : String) : String :=
  match splitBar (words line) with
  | [["ldtdvp", l, mx, dg], lr, rl] =>
    match l.toNat?, mx.toNat?, parseFlag? dg, parseAll? String.toNat? lr, parseAll? String.toNat? rl with
    | some L, some m, some d, some a, some b =>
      if L = 0 ∨ a.length ≠ L ∨ (¬ d ∧ b.length ≠ L) then "bad-op"
      else showOps (ldtdvp L m (fun i => a.getD i 0) (fun i => b.getD i 0) d)
    | _, _, _, _, _ => "bad-op"
  | [["fullldtdvp", l, mx, dg], lr, rl] =>
    match l.toNat?, mx.toNat?, parseFlag? dg, parseAll? String.toNat? lr, parseAll? String.toNat? rl with
    | some L, some m, some d, some a, some b =>
      if L = 0 ∨ a.length ≠ L ∨ (¬ d ∧ b.length ≠ L) then "bad-op"
      else showSteps (ldtdvpFull L (fun i => capped (a.getD i 0) m) (fun i => capped (b.getD i 0) m) d)
    | _, _, _, _, _ => "bad-op"
  | [["fullsingle", l, dg]] =>
    match l.toNat?, parseFlag? dg with
    | some L, some d => if L = 0 then "bad-op" else showSteps (singleSiteFull L d)
    | _, _ => "bad-op"
  | [["fulltwo", l, dg]] =>
    match l.toNat?, parseFlag? dg with
    | some L, some d => if L = 0 then "bad-op" else match twoSiteFull L d with
      | some st => showSteps st
      | none => "err"
    | _, _ => "bad-op"
  | [["single", l, dg]] =>
    match l.toNat?, parseFlag? dg with
    | some L, some d => if L = 0 then "bad-op" else showOps (singleSite L d)
    | _, _ => "bad-op"
  | [["two", l, dg]] =>
    match l.toNat?, parseFlag? dg with
    | some L, some d => if L = 0 then "bad-op" else match twoSite L d with
      | some ops => showOps ops
      | none => "err"
    | _, _ => "bad-op"
  | [["bug", l]] =>
    match l.toNat? with
    | some L => if L = 0 then "bad-op" else showOps (bug L)
    | none => "bad-op"
  | [["fullbug", l]] =>
    match l.toNat? with
    | some L => if L = 0 then "bad-op" else joinWith " " ((bugFull L).map showBStep)
    | none => "bad-op"
  | [["bugbonds", d], bs] =>
    match d.toNat?, parseAll? String.toNat? bs with
    | some d, some b => if d = 0 ∨ b.any (· == 0) then "bad-op" else
        (if b.isEmpty then "none" else joinWith " " ((bugBonds d b).map toString))
    | _, _ => "bad-op"
  | [["bugbonds", d]] =>
    match d.toNat? with
    | some d => if d = 0 then "bad-op" else "none"
    | none => "bad-op"
  | _ => "bad-op"

def main : IO Unit := do lineLoop (← IO.getStdin) handle
