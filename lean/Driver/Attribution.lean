import YaqsModel.Basic.Parse
import YaqsModel.Model.Attribution
/-!
  line protocol for the attribution model; an observable is `<kind>:<first site>`, its id is its position

    sort | o0 o1 …          →  ids of `sorted_observables`, in order
    walk | o0 o1 …          →  events of `evaluate_observables` on the sorted list:  S<site>  L<row>:<id>@<centre>  D<row>:<id>
    walkraw | o0 o1 …       →  the same on the list as given (a params object with a hand-made `sorted_observables`)
    stitch <T> | o0 o1 …    →  backend rows `result_j[k] = 1000·j + k` stitched and aggregated:
                               t<id>=v_0,v_1,…  for every user object in listing order, then the means
-/
open Yaqs Yaqs.Attribution

def parseKind? : String → Option Kind
  | "l1" => some .local1
  | "l2" => some .local2
  | "ent" => some .entropy
  | "sch" => some .schmidt
  | "cost" => some .runtimeCost
  | "maxb" => some .maxBond
  | "totb" => some .totalBond
  | "pvm" => some .pvm
  | _ => none

def parseObs? (w : String) : Option (Kind × Nat) :=
  match w.splitOn ":" with
  | [k, s] =>
    match parseKind? k, s.toNat? with
    | some k, some s => some (k, s)
    | _, _ => none
  | _ => none

def parseObsList? (ws : List String) : Option (List Obs) :=
  (parseAll? parseObs? ws).map fun l => (l.zipIdx 0).map fun p => ⟨p.2, p.1.1, p.1.2⟩

def showEv : Ev → String
  | .shift s => "S" ++ toString s
  | .evalLocal r i c => "L" ++ toString r ++ ":" ++ toString i ++ "@" ++ toString c
  | .evalSelf r i => "D" ++ toString r ++ ":" ++ toString i

def showRow (st : Store) (T : Nat) (id : Nat) : String :=
  "t" ++ toString id ++ "=" ++ joinWith "," ((List.range T).map fun i =>
    match st id i with
    | some v => showRat v
    | none => "none")

def handle (line : String) : String :=
  match splitBar (words line) with
  | [["sort"], os] =>
    match parseObsList? os with
    | some obs => joinWith " " ("sorted" :: (sortedObservables obs).map (fun o => toString o.id))
    | none => "bad-op"
  | [["walk"], os] =>
    match parseObsList? os with
    | some obs => joinWith " " ("ev" :: (evaluateObservables (sortedObservables obs)).map showEv)
    | none => "bad-op"
  | [["walkraw"], os] =>
    match parseObsList? os with
    | some obs => joinWith " " ("ev" :: (evaluateObservables obs).map showEv)
    | none => "bad-op"
  | [["stitch", t], os] =>
    match parseObsList? os, t.toNat? with
    | some obs, some T =>
      let sorted := sortedObservables obs
      let results : List (List Rat) :=
        (List.range T).map fun j => (List.range sorted.length).map fun k => ((1000 * j + k : Nat) : Rat)
      let st := stitchAll sorted 0 results Store.empty
      joinWith " " (obs.map (fun o => showRow st T o.id) ++ obs.map (fun o => showRat (aggregate st T o.id)))
    | _, _ => "bad-op"
  | _ => "bad-op"

def main : IO Unit := do lineLoop (← IO.getStdin) handle
