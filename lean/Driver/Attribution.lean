import YaqsModel.Basic.Parse
import YaqsModel.Model.Attribution
import YaqsModel.Model.Schmidt
import YaqsModel.Model.Grid
import YaqsModel.Basic.CRat
/-!
  line protocol for the attribution model; an observable is `<kind>:<first site>`, its id is its position

    sort | o0 o1 …          →  ids of `sorted_observables`, in order
    walk | o0 o1 …          →  events of `evaluate_observables` on the sorted list:  S<site>  L<row>:<id>@<centre>  D<row>:<id>
    walkraw | o0 o1 …       →  the same on the list as given (a params object with a hand-made `sorted_observables`)
    stitch <T> | o0 o1 …    →  backend rows `result_j[k] = 1000·j + k` stitched and aggregated:
                               t<id>=v_0,v_1,…  for every user object in listing order, then the means

  extension (Model.Schmidt — what get_entropy / get_schmidt_spectrum compute from the two site tensors of a cut):
    theta <d> <χl> <χ> <d'> <χr> | a… | b…   →  `theta <rows> <cols>` then the entries `re im` (row-major) of
                               `tensordot(a, b, (2, 1)).reshape(χl·d, d'·χr)`; a, b as `re im` pairs in C order of the
                               numpy shapes (d, χl, χ) and (d', χ, χr)
    entropy <bond> | b0 b1 …   →  `ent <x>`: `entropyCode` in binary64 (`Float.log`, eps = float64 tiny) on the singular
                               values given as IEEE-754 bit patterns; x as the exact rational of the double, or `nan`
    schpad <top> <bond> | s0 s1 …   →  `pad` then `top` tokens: the value or `nan`
-/
open Yaqs Yaqs.Attribution

def parseKind? : String → Option Kind
  | "l1" => some .local1
  | "l2" => some .local2
  | "ent" => some .entropy
  | "sch" => some .schmidt
  | "cost" => some .runtimeCost
  | "maxb" => some .maxBond
  | "totb" => some .totalBond
  | "pvm" => some .pvm
  | _ => none

def parseObs? (w : String) : Option (Kind × Nat) :=
  match w.splitOn ":" with
  | [k, s] =>
    match parseKind? k, s.toNat? with
    | some k, some s => some (k, s)
    | _, _ => none
  | _ => none

def parseObsList? (ws : List String) : Option (List Obs) :=
  (parseAll? parseObs? ws).map fun l => (l.zipIdx 0).map fun p => ⟨p.2, p.1.1, p.1.2⟩

def showEv : Ev → String
  | .shift s => "S" ++ toString s
  | .evalLocal r i c => "L" ++ toString r ++ ":" ++ toString i ++ "@" ++ toString c
  | .evalSelf r i => "D" ++ toString r ++ ":" ++ toString i

def showRow (st : Store) (T : Nat) (id : Nat) : String :=
  "t" ++ toString id ++ "=" ++ joinWith "," ((List.range T).map fun i =>
    match st id i with
    | some v => showRat v
    | none => "none")

/-! ### extension: entropy / Schmidt spectrum (Model.Schmidt) -/

open Yaqs.Schmidt in
/-- split a flat list into consecutive chunks of length `n` -/
def chunks {α} (n : Nat) (l : List α) : List (List α) :=
  if n = 0 then [] else
    let rec go (fuel : Nat) (l : List α) : List (List α) :=
      match fuel with
      | 0 => []
      | fuel + 1 => if l.isEmpty then [] else l.take n :: go fuel (l.drop n)
    go l.length l

def parseCRats? (ws : List String) : Option (List CRat) :=
  match parseAll? parseRat? ws with
  | some qs => if qs.length % 2 = 0 then some ((chunks 2 qs).map fun p => ⟨p.getD 0 0, p.getD 1 0⟩) else none
  | none => none

/-- flat C-order entries of a numpy array of shape `(d, l, r)` as `t[σ][l][r]` -/
def tensor3? (d l r : Nat) (xs : List CRat) : Option (List (List (List CRat))) :=
  if xs.length = d * l * r ∧ 0 < r ∧ 0 < l then some ((chunks (l * r) xs).map (chunks r)) else none

def showCRat (z : CRat) : String := showRat z.re ++ " " ++ showRat z.im

instance : Zero Float := ⟨0.0⟩

/-- `np.finfo(np.float64).tiny` -/
def tinyF : Float := Float.ofBits 0x0010000000000000

def showFloatExact (x : Float) : String :=
  match Grid.decode64 x.toBits.toNat with
  | some q => showRat q
  | none => "nan"

def handleSchmidt (line : String) : String :=
  match splitBar (words line) with
  | [["theta", d, cl, c, d', cr], as, bs] =>
    match d.toNat?, cl.toNat?, c.toNat?, d'.toNat?, cr.toNat?, parseCRats? as, parseCRats? bs with
    | some d, some cl, some c, some d', some cr, some as, some bs =>
      match tensor3? d cl c as, tensor3? d' c cr bs with
      | some a, some b =>
        let m := Schmidt.thetaMat cr a b
        joinWith " " (["theta", toString m.length, toString (m.headD []).length] ++ m.flatten.map showCRat)
      | _, _ => "bad-op"
    | _, _, _, _, _, _, _ => "bad-op"
  | [["entropy", bond], bits] =>
    match bond.toNat?, parseAll? String.toNat? bits with
    | some bond, some bits =>
      "ent " ++ showFloatExact (Schmidt.entropyCode Float.log tinyF bond (bits.map fun b => Float.ofBits b.toUInt64))
    | _, _ => "bad-op"
  | [["schpad", top, bond], ss] =>
    match top.toNat?, bond.toNat?, parseAll? parseRat? ss with
    | some top, some bond, some ss =>
      joinWith " " ("pad" :: (Schmidt.schmidtPad top bond ss).map fun o => match o with
        | some q => showRat q
        | none => "nan")
    | _, _, _ => "bad-op"
  | _ => "bad-op"

def handle (line : String) : String :=
  match splitBar (words line) with
  | [["sort"], os] =>
    match parseObsList? os with
    | some obs => joinWith " " ("sorted" :: (sortedObservables obs).map (fun o => toString o.id))
    | none => "bad-op"
  | [["walk"], os] =>
    match parseObsList? os with
    | some obs => joinWith " " ("ev" :: (evaluateObservables (sortedObservables obs)).map showEv)
    | none => "bad-op"
  | [["walkraw"], os] =>
    match parseObsList? os with
    | some obs => joinWith " " ("ev" :: (evaluateObservables obs).map showEv)
    | none => "bad-op"
  | [["stitch", t], os] =>
    match parseObsList? os, t.toNat? with
    | some obs, some T =>
      let sorted := sortedObservables obs
      let results : List (List Rat) :=
        (List.range T).map fun j => (List.range sorted.length).map fun k => ((1000 * j + k : Nat) : Rat)
      let st := stitchAll sorted 0 results Store.empty
      joinWith " " (obs.map (fun o => showRow st T o.id) ++ obs.map (fun o => showRat (aggregate st T o.id)))
    | _, _ => "bad-op"
  | _ => handleSchmidt line

def main : IO Unit := do lineLoop (← IO.getStdin) handle
