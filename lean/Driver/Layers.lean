import YaqsModel.Basic.Parse
import YaqsModel.Model.Layers
/-!
line protocol for the layer loop (C02, C16)

  instruction segments (separated by `|`):
      `g1 <tag> <q>` · `g2 <tag> <a> <b>` · `m <q> <c>` · `b <label> <q…>`
      `<label>` is `-` (no label) or `L<code>,<code>,…` (ASCII code points, `L` alone = empty string)

  `run <new|oldloop|oldlabel> <ss|sp|weak> | instr | instr …`
        → `cols=<n> <events…>` or `hang`;  events `e<col>` · `a1:<tag>:<q>` · `a2:<tag>:<a>:<b>` · `shots`
  `front | instr …`   → the front layer, as instruction tokens sorted lexicographically (barriers unclassified)
  `layer | instr …`   → `S <singles…> E <evens…> O <odds…> B <#sampling barriers> R <#nodes left by process_layer>`
  `count | instr …`   → `<countMid> <#sampling barriers process_layer would see>`
  `gen <a> <b>`       → `first_site last_site first_gen second_gen`
  `win <L> <first> <last>` → `lo hi`
-/
open Yaqs Yaqs.Layers

def parseLabel? (w : String) : Option (Option (List Nat)) :=
  if w = "-" then some none
  else if w.startsWith "L" then
    let body := (w.drop 1).toString
    if body = "" then some (some [])
    else
      match parseAll? String.toNat? (body.splitOn ",") with
      | some cs => if cs.all (· < 128) then some (some cs) else none
      | none => none
  else none

def parseInstr? : List String → Option RawInstr
  | ["g1", t, q] => do pure (.gate1 (← t.toNat?) (← q.toNat?))
  | ["g2", t, a, b] => do
    let a' ← a.toNat?
    let b' ← b.toNat?
    if a' = b' then none else pure (.gate2 (← t.toNat?) a' b')
  | ["m", q, c] => do pure (.measure (← q.toNat?) (← c.toNat?))
  | "b" :: l :: qs => do
    let lab ← parseLabel? l
    let qs' ← parseAll? String.toNat? qs
    if qs'.isEmpty then none else pure (.barrier qs' lab)
  | _ => none

def mapAll? {α β} (f : α → Option β) : List α → Option (List β)
  | [] => some []
  | x :: xs => do
    let a ← f x
    let as ← mapAll? f xs
    pure (a :: as)

def showInstr : Instr → String
  | .gate1 t q => s!"g1:{t}:{q}"
  | .gate2 t a b => s!"g2:{t}:{a}:{b}"
  | .measure q c => s!"m:{q}:{c}"
  | .barrier qs => "b:" ++ joinWith "," (qs.map toString)
  | .sbarrier qs => "sb:" ++ joinWith "," (qs.map toString)

/-- for the front-layer tie: a barrier is printed without its classification -/
def showNode : Instr → String
  | .sbarrier qs => "b:" ++ joinWith "," (qs.map toString)
  | i => showInstr i

def showEvent : Event → String
  | .app1 t q => s!"a1:{t}:{q}"
  | .app2 t a b => s!"a2:{t}:{a}:{b}"
  | .eval c => s!"e{c}"
  | .shots => "shots"

def parseMode? : String → Option Mode
  | "ss" => some .strongSample
  | "sp" => some .strongPlain
  | "weak" => some .weak
  | _ => none

def handleRun (variant : String) (mode : Mode) (raw : List RawInstr) : String :=
  let res : Option (Option (List Event) × Nat) :=
    match variant with
    | "new" => some (runCircuit mode raw, numColumns isSampleLabel mode raw)
    | "oldloop" => some (runCircuitWith stayOld isSampleLabel isSampleLabel mode raw, numColumns isSampleLabel mode raw)
    | "oldlabel" => some (runCircuitWith (fun _ => stayNew) isSampleLabelOld isSampleLabel mode raw,
                          numColumns isSampleLabel mode raw)
    | _ => none
  match res with
  | none => "bad-op"
  | some (none, _) => "hang"
  | some (some evs, n) => joinWith " " (s!"cols={n}" :: evs.map showEvent)

def handle (line : String) : String :=
  match splitBar (words line) with
  | [["gen", a, b]] =>
    match a.toNat?, b.toNat? with
    | some a, some b =>
      if a = b then "bad-op" else
      let p := genPlacement a b
      s!"{p.1.1} {p.2.1} {p.1.2} {p.2.2}"
    | _, _ => "bad-op"
  | [["win", l, f, t]] =>
    match l.toNat?, f.toNat?, t.toNat? with
    | some l, some f, some t => let w := window l f t; s!"{w.1} {w.2}"
    | _, _, _ => "bad-op"
  | hd :: segs =>
    match mapAll? parseInstr? segs with
    | none => "bad-op"
    | some raw =>
      let c := raw.map (classify isSampleLabel)
      match hd with
      | ["run", variant, m] =>
        match parseMode? m with
        | some mode => handleRun variant mode raw
        | none => "bad-op"
      | ["front"] => joinWith " " ("F" :: (((front c).map showNode).toArray.qsort (· < ·)).toList)
      | ["layer"] =>
        let r := splitFront stayNew [] c
        let keep := (c.length - (r.1.filter Instr.isDropped).length)
        joinWith " " (["S"] ++ (singles r.1).map showInstr ++ ["E"] ++ (evens r.1).map showInstr ++
          ["O"] ++ (odds r.1).map showInstr ++ ["B", toString (sbarriers r.1).length, "R", toString keep])
      | ["count"] => s!"{countMid isSampleLabel raw} {(c.filter Instr.isSB).length}"
      | _ => "bad-op"
  | _ => "bad-op"

def main : IO Unit := do lineLoop (← IO.getStdin) handle
