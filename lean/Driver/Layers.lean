import YaqsModel.Basic.Parse
import YaqsModel.Model.Layers
import YaqsModel.Model.GateWindow
import YaqsModel.Model.ColumnsExec
/-!
line protocol for the layer loop (C02, C16)

  instruction segments (separated by `|`):
      `g1 <tag> <q>` · `g2 <tag> <a> <b>` · `m <q> <c>` · `b <label> <q…>`
      `<label>` is `-` (no label) or `L<code>,<code>,…` (ASCII code points, `L` alone = empty string)

  `run <new|oldloop|oldlabel> <ss|sp|weak> | instr | instr …`
        → `cols=<n> <events…>` or `hang`;  events `e<col>` · `a1:<tag>:<q>` · `a2:<tag>:<a>:<b>` · `shots`
  `front | instr …`   → the front layer, as instruction tokens sorted lexicographically (barriers unclassified)
  `layer | instr …`   → `S <singles…> E <evens…> O <odds…> B <#sampling barriers> R <#nodes left by process_layer>`
  `count | instr …`   → `<countMid> <#sampling barriers process_layer would see>`
  `gen <a> <b>`       → `first_site last_site first_gen second_gen`
  `win <L> <first> <last>` → `lo hi`

  requests for `Model/GateWindow.lean` (xg02 extension; tensors travel as row-major entry lists, every entry `re im`):
  `gplan <L> <a> <b>`  → `first last fgen sgen lo hi n p sh:<centre shifts of apply_window, or -> | <step tokens of the digital two-site sweep on the window>`
        step tokens: `m:<i>` · `P:<i>:<dt>:<idL|gate|idR>` · `x:<i>:R` · `s:<j>:<dt>:<idL|idR>`
  `mergeket p0 p1 a m b | A0 | A1`           → `p0*p1 a b` and the entries of `merge_mps_tensors(A0, A1)`
  `mergeop o0 p0 o1 p1 l m r | W0 | W1`      → `o0*o1 p0*p1 l r` and the entries of `merge_mpo_tensors(W0, W1)`
  `pairapply p0 p1 a m b l r | L | R | W0 | W1 | A0 | A1`
        → `p0*p1 a b` and the entries of `project_site(L, R, merge_mpo_tensors(W0, W1), merge_mps_tensors(A0, A1))`
          (`L : (a,l,a)`, `R : (b,r,b)`, `W0 : (p0,p0,l,1)`, `W1 : (p1,p1,1,r)`, `A0 : (p0,a,m)`, `A1 : (p1,m,b)`)

  request for `Model/ColumnsExec.lean` (x16d extension; the exact result table of a sampling run over ℚ(i)):
  `colvals <n> <bits> | seg | seg …`  with `<bits>` the initial basis state (character `i` = site `i`) and segments, in program order,
        `g1 <name> <q> [<c> <s>]` · `g2 <name> <a> <b> [<c> <s>]` · `m <q> <c>` · `b <label> <q…>`   (names: x y z id rx ry rz p /
        cx cz cp rxx ryy rzz; `(c, s)` a rational point of the unit circle — half angle for r*, full angle for p / cp)
        followed by the observable list `o1 <X|Y|Z> <site>` · `o2 <PQ> <site>` (Pauli pair on `(site, site+1)`)
        → `cols=<rows> e<col> <value per observable…> e<col> …`  (exact rationals), `hang`, or `bad-op`
-/
open Yaqs Yaqs.Layers

def parseLabel? (w : String) : Option (Option (List Nat)) :=
  if w = "-" then some none
  else if w.startsWith "L" then
    let body := (w.drop 1).toString
    if body = "" then some (some [])
    else
      match parseAll? String.toNat? (body.splitOn ",") with
      | some cs => if cs.all (· < 128) then some (some cs) else none
      | none => none
  else none

def parseInstr? : List String → Option RawInstr
  | ["g1", t, q] => do pure (.gate1 (← t.toNat?) (← q.toNat?))
  | ["g2", t, a, b] => do
    let a' ← a.toNat?
    let b' ← b.toNat?
    if a' = b' then none else pure (.gate2 (← t.toNat?) a' b')
  | ["m", q, c] => do pure (.measure (← q.toNat?) (← c.toNat?))
  | "b" :: l :: qs => do
    let lab ← parseLabel? l
    let qs' ← parseAll? String.toNat? qs
    if qs'.isEmpty then none else pure (.barrier qs' lab)
  | _ => none

def mapAll? {α β} (f : α → Option β) : List α → Option (List β)
  | [] => some []
  | x :: xs => do
    let a ← f x
    let as ← mapAll? f xs
    pure (a :: as)

def showInstr : Instr → String
  | .gate1 t q => s!"g1:{t}:{q}"
  | .gate2 t a b => s!"g2:{t}:{a}:{b}"
  | .measure q c => s!"m:{q}:{c}"
  | .barrier qs => "b:" ++ joinWith "," (qs.map toString)
  | .sbarrier qs => "sb:" ++ joinWith "," (qs.map toString)

/-- for the front-layer tie: a barrier is printed without its classification -/
def showNode : Instr → String
  | .sbarrier qs => "b:" ++ joinWith "," (qs.map toString)
  | i => showInstr i

def showEvent : Event → String
  | .app1 t q => s!"a1:{t}:{q}"
  | .app2 t a b => s!"a2:{t}:{a}:{b}"
  | .eval c => s!"e{c}"
  | .shots => "shots"

def parseMode? : String → Option Mode
  | "ss" => some .strongSample
  | "sp" => some .strongPlain
  | "weak" => some .weak
  | _ => none

def handleRun (variant : String) (mode : Mode) (raw : List RawInstr) : String :=
  let res : Option (Option (List Event) × Nat) :=
    match variant with
    | "new" => some (runCircuit mode raw, numColumns isSampleLabel mode raw)
    | "oldloop" => some (runCircuitWith stayOld isSampleLabel isSampleLabel mode raw, numColumns isSampleLabel mode raw)
    | "oldlabel" => some (runCircuitWith (fun _ => stayNew) isSampleLabelOld isSampleLabel mode raw,
                          numColumns isSampleLabel mode raw)
    | _ => none
  match res with
  | none => "bad-op"
  | some (none, _) => "hang"
  | some (some evs, n) => joinWith " " (s!"cols={n}" :: evs.map showEvent)


namespace GateDrv
open Yaqs.Heff Yaqs.GateWindow

def parseC? : List String → Option (List CRat)
  | [] => some []
  | [_] => none
  | r :: i :: rest => do
    let re ← parseRat? r
    let im ← parseRat? i
    let tl ← parseC? rest
    pure (⟨re, im⟩ :: tl)

def parseArr? (n : Nat) (ws : List String) : Option (Array CRat) :=
  match parseC? ws with
  | some l => if l.length = n then some l.toArray else none
  | none => none

def showC (z : CRat) : String := showRat z.re ++ " " ++ showRat z.im
def showCs (l : List CRat) : String := joinWith " " (l.map showC)

def entries4 (d0 d1 d2 d3 : Nat) (t : Nat → Nat → Nat → Nat → CRat) : List CRat :=
  (List.range d0).flatMap fun i => (List.range d1).flatMap fun j => (List.range d2).flatMap fun k =>
    (List.range d3).map fun m => t i j k m

def nats? (ws : List String) : Option (List Nat) := parseAll? String.toNat? ws

def gplan (l a b : Nat) : String :=
  if a = b ∨ l ≤ a ∨ l ≤ b then "bad-op" else
  let pl := gatePlan l a b
  joinWith " " ([toString pl.placement.1.1, toString pl.placement.2.1, toString pl.placement.1.2,
    toString pl.placement.2.2, toString pl.win.1, toString pl.win.2, toString pl.n, toString pl.p,
    "sh:" ++ (if pl.shifts.isEmpty then "-" else joinWith "," (pl.shifts.map toString)), "|"] ++ planTokens pl)

def mergeket (ds : List Nat) (parts : List (List String)) : String :=
  match ds, parts with
  | [p0, p1, a, m, b], [w0, w1] =>
    match parseArr? (p0 * a * m) w0, parseArr? (p1 * m * b) w1 with
    | some x0, some x1 =>
      s!"{p0 * p1} {a} {b} " ++ showCs (entries3 (p0 * p1) a b (mergeKet p1 m (ofFlat3 a m x0) (ofFlat3 m b x1)))
    | _, _ => "bad-op"
  | _, _ => "bad-op"

def mergeop (ds : List Nat) (parts : List (List String)) : String :=
  match ds, parts with
  | [o0, p0, o1, p1, l, m, r], [w0, w1] =>
    match parseArr? (o0 * p0 * l * m) w0, parseArr? (o1 * p1 * m * r) w1 with
    | some x0, some x1 =>
      s!"{o0 * o1} {p0 * p1} {l} {r} " ++
        showCs (entries4 (o0 * o1) (p0 * p1) l r (mergeOp o1 p1 m (ofFlat4 p0 l m x0) (ofFlat4 p1 m r x1)))
    | _, _ => "bad-op"
  | _, _ => "bad-op"

def pairapply (ds : List Nat) (parts : List (List String)) : String :=
  match ds, parts with
  | [p0, p1, a, m, b, l, r], [lw, rw, w0, w1, k0, k1] =>
    match parseArr? (a * l * a) lw, parseArr? (b * r * b) rw, parseArr? (p0 * p0 * l * 1) w0,
        parseArr? (p1 * p1 * 1 * r) w1, parseArr? (p0 * a * m) k0, parseArr? (p1 * m * b) k1 with
    | some la, some ra, some x0, some x1, some a0, some a1 =>
      let d0 : SiteDims := ⟨p0, p0, a, a, m, m, l, 1⟩
      let d1 : SiteDims := ⟨p1, p1, m, m, b, b, 1, r⟩
      let dP := pairDims d0 d1
      let W := mergeOp p1 p1 1 (ofFlat4 p0 l 1 x0) (ofFlat4 p1 1 r x1)
      let θ := mergeKet p1 m (ofFlat3 a m a0) (ofFlat3 m b a1)
      s!"{p0 * p1} {a} {b} " ++
        showCs (entries3 (p0 * p1) a b (projectSite dP (ofFlat3 l a la) (ofFlat3 r b ra) W θ))
    | _, _, _, _, _, _ => "bad-op"
  | _, _ => "bad-op"

end GateDrv

namespace ColDrv
open Yaqs.ColumnsExec

structure Parsed (n : Nat) where
  raw : List RawInstr := []
  t1 : List (Nat × M2) := []
  t2 : List (Nat × M4) := []
  obs : List (ObsExec n) := []

def lookup {α : Type} (d : α) (l : List (Nat × α)) (t : Nat) : α := ((l.find? (·.1 == t)).map (·.2)).getD d

/-- one segment; `tag` (the position of the segment) names the gate in the instruction list -/
def parseSeg (n tag : Nat) (p : Parsed n) : List String → Option (Parsed n)
  | "g1" :: name :: q :: ps => do
    let q ← q.toNat?
    let ps ← parseAll? parseRat? ps
    let m ← gate1? name ps
    if q < n ∧ p.obs.isEmpty then pure { p with raw := p.raw ++ [.gate1 tag q], t1 := (tag, m) :: p.t1 } else none
  | "g2" :: name :: a :: b :: ps => do
    let a ← a.toNat?
    let b ← b.toNat?
    let ps ← parseAll? parseRat? ps
    let m ← gate2? name ps
    if a < n ∧ b < n ∧ a ≠ b ∧ p.obs.isEmpty then
      pure { p with raw := p.raw ++ [.gate2 tag a b], t2 := (tag, m) :: p.t2 }
    else none
  | ["o1", P, s] => do
    let s ← s.toNat?
    match P.toList with
    | [c] => do
      let m ← pauli? c
      if h : s < n then pure { p with obs := p.obs ++ [.one ⟨s, h⟩ m] } else none
    | _ => none
  | ["o2", PQ, s] => do
    let s ← s.toNat?
    match PQ.toList with
    | [c, d] => do
      let m ← pauli? c
      let m' ← pauli? d
      if h : s + 1 < n then pure { p with obs := p.obs ++ [.two ⟨s, by omega⟩ h (kronPair m m')] } else none
    | _ => none
  | seg => do
    let i ← parseInstr? seg
    if !p.obs.isEmpty then none else
    match i with
    | .measure q _ => if q < n then pure { p with raw := p.raw ++ [i] } else none
    | .barrier qs _ => if qs.all (· < n) then pure { p with raw := p.raw ++ [i] } else none
    | _ => none

def parseSegs (n : Nat) : Nat → Parsed n → List (List String) → Option (Parsed n)
  | _, p, [] => some p
  | tag, p, seg :: rest => do
    let p' ← parseSeg n tag p seg
    parseSegs n (tag + 1) p' rest

def colvals (hd : List String) (segs : List (List String)) : String :=
  match hd with
  | [n, bits] =>
    match n.toNat? with
    | some n =>
      let bl := bits.toList
      if bl.length ≠ n ∨ !(bl.all fun c => c == '0' || c == '1') ∨ n = 0 then "bad-op" else
      match parseSegs n 1 {} segs with
      | none => "bad-op"
      | some p =>
        if p.obs.isEmpty then "bad-op" else
        let v0 := basisVec n fun i => if bl.getD i.val '0' == '1' then 1 else 0
        match colValuesExec n (lookup Gates.one2 p.t1) (lookup (ofM4 Gates.one4) p.t2) v0 p.raw p.obs with
        | none => "hang"
        | some rows =>
          joinWith " " (s!"cols={rows.length}" :: rows.flatMap fun r => s!"e{r.1}" :: r.2.map showRat)
    | none => "bad-op"
  | _ => "bad-op"

end ColDrv

def handle (line : String) : String :=
  match splitBar (words line) with
  | ("colvals" :: hd) :: segs => ColDrv.colvals hd segs
  | [["gplan", l, a, b]] =>
    match l.toNat?, a.toNat?, b.toNat? with
    | some l, some a, some b => GateDrv.gplan l a b
    | _, _, _ => "bad-op"
  | ("mergeket" :: ds) :: parts =>
    match GateDrv.nats? ds with
    | some ds => GateDrv.mergeket ds parts
    | none => "bad-op"
  | ("mergeop" :: ds) :: parts =>
    match GateDrv.nats? ds with
    | some ds => GateDrv.mergeop ds parts
    | none => "bad-op"
  | ("pairapply" :: ds) :: parts =>
    match GateDrv.nats? ds with
    | some ds => GateDrv.pairapply ds parts
    | none => "bad-op"
  | [["gen", a, b]] =>
    match a.toNat?, b.toNat? with
    | some a, some b =>
      if a = b then "bad-op" else
      let p := genPlacement a b
      s!"{p.1.1} {p.2.1} {p.1.2} {p.2.2}"
    | _, _ => "bad-op"
  | [["win", l, f, t]] =>
    match l.toNat?, f.toNat?, t.toNat? with
    | some l, some f, some t => let w := window l f t; s!"{w.1} {w.2}"
    | _, _, _ => "bad-op"
  | hd :: segs =>
    match mapAll? parseInstr? segs with
    | none => "bad-op"
    | some raw =>
      let c := raw.map (classify isSampleLabel)
      match hd with
      | ["run", variant, m] =>
        match parseMode? m with
        | some mode => handleRun variant mode raw
        | none => "bad-op"
      | ["front"] => joinWith " " ("F" :: (((front c).map showNode).toArray.qsort (· < ·)).toList)
      | ["layer"] =>
        let r := splitFront stayNew [] c
        let keep := (c.length - (r.1.filter Instr.isDropped).length)
        joinWith " " (["S"] ++ (singles r.1).map showInstr ++ ["E"] ++ (evens r.1).map showInstr ++
          ["O"] ++ (odds r.1).map showInstr ++ ["B", toString (sbarriers r.1).length, "R", toString keep])
      | ["count"] => s!"{countMid isSampleLabel raw} {(c.filter Instr.isSB).length}"
      | _ => "bad-op"
  | _ => "bad-op"

def main : IO Unit := do lineLoop (← IO.getStdin) handle
