import YaqsModel.Basic.Parse
import YaqsModel.Model.Mps
import YaqsModel.Model.MpsBonds
/-!
  line protocol for the MPS gauge moves (C10).  Tokens:
    tensor  := d l r  followed by d*l*r pairs `re im` (C order: s, l, r)
    matrix  := m n    followed by m*n pairs `re im`
    reals   := k      followed by k rationals
  requests
    vec N T…                     → all amplitudes in `to_vec` order
    qrmat A                      → the matrix `right_qr` hands to `np.linalg.qr`
    qr A B Q R                   → new A', B' of the QR centre shift
    qrlast A Q                   → new A' (R dropped)
    theta A B                    → the matrix `two_site_svd` hands to `robust_svd`
    svd thr A B U S V            → kept rank, new A', B' of the SVD centre shift
    flip N T…                    → flipped network
    pad target N T…              → padded tensors (before the final normalize) or `err`
    gram L|R T                   → the matrix `check_canonical_form` compares with the identity
    canon abits bbits            → list returned by `check_canonical_form` for these truth tables
    canonT N T…                  → same, truth tables computed exactly from rational tensors
    trace shiftR|shiftL len i dec | setcanon len c dec | normalize len form dec | truncate len c
    bonds truncate len c | bonds setcanon len c dec
                                 → physical bonds touched by the two-site primitives, in call order (flips replayed)
    iso T                        → exact left / right isometry tests of one (rational) tensor: two bits
-/
open Yaqs Yaqs.Mps

abbrev P := StateT (List String) Option

def tok : P String := fun s => match s with
  | [] => none
  | w :: rest => some (w, rest)

def pNat : P Nat := do
  let w ← tok
  match w.toNat? with
  | some n => pure n
  | none => failure

def pRat : P Rat := do
  let w ← tok
  match parseRat? w with
  | some q => pure q
  | none => failure

def pC : P CRat := do
  let a ← pRat
  let b ← pRat
  pure ⟨a, b⟩

def pMany {α} (p : P α) : Nat → P (List α)
  | 0 => pure []
  | n + 1 => do
    let a ← p
    let as ← pMany p n
    pure (a :: as)

def pMat : P Mat := do
  let m ← pNat
  let n ← pNat
  if m = 0 ∨ n = 0 ∨ m * n > 100000 then failure
  pMany (pMany pC n) m

def pTensor : P Tensor := do
  let d ← pNat
  let l ← pNat
  let r ← pNat
  if d = 0 ∨ l = 0 ∨ r = 0 ∨ d * l * r > 100000 then failure
  pMany (pMany (pMany pC r) l) d

def pTensors : P (List Tensor) := do
  let n ← pNat
  if n > 64 then failure
  pMany pTensor n

def pReals : P (List Rat) := do
  let k ← pNat
  if k > 100000 then failure
  pMany pRat k

def pEnd : P Unit := fun s => match s with
  | [] => some ((), [])
  | _ => none

/-- every numeric entry of an answer is multiplied by `q` (a power of two chosen by the harness, which scales the
    implementation's floats by the same — exact — factor; shapes, ranks and lists are never scaled) -/
def showC (q : Rat) (c : CRat) : String := showRat (q * c.re) ++ " " ++ showRat (q * c.im)

def showMatBody (q : Rat) (m : Mat) : String := joinWith " " (m.flatten.map (showC q))

def showMat (q : Rat) (m : Mat) : String := s!"{nrows m} {ncols m} " ++ showMatBody q m

def showTensor (q : Rat) (t : Tensor) : String :=
  s!"{physDim t} {leftDim t} {rightDim t} " ++ joinWith " " (t.map (showMatBody q))

def showTensors (q : Rat) (ts : List Tensor) : String := joinWith " ; " (ts.map (showTensor q))

/-- `@k` → 2^(-k) -/
def parseScale? (w : String) : Option Rat :=
  if w.startsWith "@" then
    match (w.drop 1).toString.toInt? with
    | some k => if k ≥ 0 then some (1 / (2 ^ k.toNat : Nat)) else some ((2 ^ (-k).toNat : Nat) : Rat)
    | none => none
  else none

def showEvs (es : List Ev) : String := if es.isEmpty then "-" else joinWith " " (es.map Ev.show)

def showNats (l : List Nat) : String := "c" ++ String.join (l.map (fun n => " " ++ toString n))

def parseBits? (w : String) : Option (List Bool) :=
  w.toList.mapM (fun c => if c = '1' then some true else if c = '0' then some false else none)

def run {α} (p : P α) (ws : List String) : Option α := (p ws).map (·.1)

def handleQ (sc : Rat) (ws : List String) : String :=
  match ws with
  | "vec" :: rest =>
    match run (do let ts ← pTensors; pEnd; pure ts) rest with
    | some ts =>
      if ts.all wellShaped then
        joinWith " " ((toVec ts).map (fun o => match o with | some c => showC sc c | none => "none"))
      else "bad-op"
    | none => "bad-op"
  | "qrmat" :: rest =>
    match run (do let a ← pTensor; pEnd; pure a) rest with
    | some a => showMat sc (flattenRows a)
    | none => "bad-op"
  | "qr" :: rest =>
    match run (do let a ← pTensor; let b ← pTensor; let q ← pMat; let r ← pMat; pEnd; pure (a, b, q, r)) rest with
    | some (a, b, q, r) =>
      let (a', b') := shiftRightQR a b q r
      showTensor sc a' ++ " ; " ++ showTensor sc b'
    | none => "bad-op"
  | "qrlast" :: rest =>
    match run (do let a ← pTensor; let q ← pMat; pEnd; pure (a, q)) rest with
    | some (a, q) => showTensor sc (shiftRightQRLast a q)
    | none => "bad-op"
  | "theta" :: rest =>
    match run (do let a ← pTensor; let b ← pTensor; pEnd; pure (a, b)) rest with
    | some (a, b) => showMat sc (thetaMat a b)
    | none => "bad-op"
  | "svd" :: rest =>
    match run (do let thr ← pRat; let a ← pTensor; let b ← pTensor; let u ← pMat; let s ← pReals; let v ← pMat
                  pEnd; pure (thr, a, b, u, s, v)) rest with
    | some (thr, a, b, u, s, v) =>
      let (a', b') := shiftRightSVD a b u s v thr
      s!"keep {Yaqs.Rank.keepTwoSite s thr none} " ++ showTensor sc a' ++ " ; " ++ showTensor sc b'
    | none => "bad-op"
  | "flip" :: rest =>
    match run (do let ts ← pTensors; pEnd; pure ts) rest with
    | some ts => showTensors sc (flip ts)
    | none => "bad-op"
  | "pad" :: rest =>
    match run (do let target ← pNat; let ts ← pTensors; pEnd; pure (target, ts)) rest with
    | some (target, ts) =>
      match padAll ts target with
      | some out => showTensors sc out
      | none => "err"
    | none => "bad-op"
  | "gram" :: side :: rest =>
    match run (do let a ← pTensor; pEnd; pure a) rest with
    | some a => if side = "L" then showMat sc (gramLeft a) else if side = "R" then showMat sc (gramRight a) else "bad-op"
    | none => "bad-op"
  | ["canon", aw, bw] =>
    match parseBits? aw, parseBits? bw with
    | some a, some b => if a.length = b.length then showNats (checkCanonical a b) else "bad-op"
    | _, _ => "bad-op"
  | "canonT" :: rest =>
    match run (do let ts ← pTensors; pEnd; pure ts) rest with
    | some ts => showNats (checkCanonicalOf ts)
    | none => "bad-op"
  | ["trace", "shiftR", len, i, dec] =>
    match len.toNat?, i.toNat? with
    | some l, some i => if i < l then showEvs (shiftRightEv l i dec) else "bad-op"
    | _, _ => "bad-op"
  | ["trace", "shiftL", len, i, dec] =>
    match len.toNat?, i.toNat? with
    | some l, some i => if i < l then showEvs (shiftLeftEv l i dec) else "bad-op"
    | _, _ => "bad-op"
  | ["trace", "setcanon", len, c, dec] =>
    match len.toNat?, c.toNat? with
    | some l, some c => if 1 ≤ l then showEvs (setCanonEv l c dec) else "bad-op"
    | _, _ => "bad-op"
  | ["trace", "normalize", len, form, dec] =>
    match len.toNat? with
    | some l => if 1 ≤ l then showEvs (normalizeEv l form dec) else "bad-op"
    | none => "bad-op"
  | ["trace", "truncate", len, c] =>
    match len.toNat?, c.toNat? with
    | some l, some c => if c < l then showEvs (truncateEv l c) else "bad-op"
    | _, _ => "bad-op"
  | ["bonds", "truncate", len, c] =>
    match len.toNat?, c.toNat? with
    | some l, some c => if c < l then showNats (truncateBonds l c) else "bad-op"
    | _, _ => "bad-op"
  | ["bonds", "setcanon", len, c, dec] =>
    match len.toNat?, c.toNat? with
    | some l, some c => if c < l ∧ (dec = "QR" ∨ dec = "SVD") then showNats (setCanonBonds l c dec) else "bad-op"
    | _, _ => "bad-op"
  | "iso" :: rest =>
    match run (do let a ← pTensor; pEnd; pure a) rest with
    | some a => (if isLeftIso a then "1" else "0") ++ (if isRightIso a then "1" else "0")
    | none => "bad-op"
  | _ => "bad-op"

def handle (line : String) : String :=
  match words line with
  | w :: rest =>
    match parseScale? w with
    | some q => handleQ q rest
    | none => if w.startsWith "@" then "bad-op" else handleQ 1 (w :: rest)
  | [] => "bad-op"

def main : IO Unit := do lineLoop (← IO.getStdin) handle
