import YaqsModel.Basic.Parse
import YaqsModel.Model.Verdict
import YaqsModel.Model.MpoUpdate
import YaqsModel.Model.CheckerChain
/-! line protocol of the C04 model

  verdict <t> <n> <f>            → 1 | 0                 (`MPO.check_if_identity`, repaired code)
  verdictRounded <t> <n> <f>     → 1 | 0                 (code as found, D5)
  start <n> | <gates>            → first_iterator ++ second_iterator of `select_starting_point`
  longest | <gates>              → `check_longest_gate`
  zone <m> | <gates>             → ids taken by `get_temporal_zone(dag, [m, m+1])` `|` ids left
  iter <n> | <gates1> | <gates2> → event list of `iterate`: `g<c>:<id>` long-range gate removed from circuit c,
                                   `z<c>:<m>:<id,id,…>` zone of circuit c at sites (m, m+1); then `done`,
                                   or `assert` (AssertionError) / `fuel`
  gates: one token per instruction in circuit order, `q` or `q0,q1`; `-` for "no gates".

  requests of the tensor model `Model/MpoUpdate.lean` (extension; handled by `MpoUpdDrv.handle`):
  complex entries travel as pairs `re im` of exact rationals, arrays row-major;
  <site>  = `d dl dr e…`        an MPO tensor of shape (d, d, dl, dr)
  <msite> = `p dl dr e…`        an MPS tensor of shape (p, dl, dr)
  <gate>  = `isId inter sites e…`  `sites` = `q` | `q0,q1` | `-`; entries: `gate.matrix` (d×d) when inter = 1,
                                   `gate.tensor` (d×d×d×d) when inter = 2, none otherwise
  thetaof | <site A> | <site B>                      → `d d Dl d d Dr` + entries of `update_mpo`'s merged theta
  applygate d Dl Dr s0 s1 conj | <gate> | theta      → entries of `apply_gate(gate, theta, s0, s1, conjugate=conj)` | `assert`
  zone d Dl Dr n conj k | <gate>×k | theta           → entries after the loop of `apply_temporal_zone` | `assert`
  update d n kf thr k1 k2 | <site A> | <site B> | <gate>×k1 | <gate>×k2 | U | s | Vh
        → `tm rows cols e… | keep k | <left tensor> | <right tensor>` of `update_mpo` (the matrix handed to the SVD, then
          `decompose_theta` on the factors `U` (rows×kf), `s` (kf rationals), `Vh` (kf×cols) the SVD returned) | `assert`
  decomp d Dl Dr kf thr | theta | U | s | Vh         → the same for `decompose_theta(theta, thr)` alone
  lrpair top|bottom | G0 | G1 | W0 | W1              → shape + entries of the reshaped einsum of `apply_long_range_layer`
  lrhang top|bottom | G | W | Wprev                  → shape + entries of the hanging-tensor theta
  sp n | <msite>×n | <msite>×n                       → `re im` of `MPS.scalar_product` | `assert`
  idtrace f | <site>×n                               → `tr re im dec b` of `MPO.check_if_identity(f)`
  requests of the chain-level long-range model `Model/CheckerChain.lean` (extension xl04):
  lrlayer c d thr q0 q1 nG n nsteps | <site G>×nG | <site W>×n | (m k1 k2 kf | <gate>×(k1+k2) | U | s | Vh)×nsteps
        → one whole `apply_long_range_layer(…, conjugate = (c == 2))` for the gate on qubits (q0, q1) of circuit c with
          `gate_.mpo_tensors = G` on the n-site chain W: `lrLayer` (`lrGateTensors`, `lrMul`, then `runSteps` over the pair
          updates with the SVD factors of each `decompose_theta`); answer `tm … | keep k` per pair update (the matrix handed
          to the SVD, the kept rank) then `chain | <site>×nG` (the tensors of the span afterwards) | `assert`
  lrblocks c d loc nG n | <site G>×nG | <site W>×n   → for every pair of the layer that is not the hanging one: shape + entries of the merged
          block of the two STACKED tensors of `lrMul` (what the code's pair einsum + reshape hands to `apply_temporal_zone`), joined by `|`
-/
open Yaqs Yaqs.Verdict

def parseGate? (w : String) : Option (List Nat) := parseAll? (fun s => s.toNat?) (w.splitOn ",")

def parseDag? (ws : List String) : Option Dag :=
  (parseAll? parseGate? (ws.filter (· ≠ "-"))).map mkDag

def ids (gs : List Instr) : String := ",".intercalate (gs.map (fun g => toString g.id))

def nats (xs : List Nat) : String := " ".intercalate (xs.map toString)

def showEv : Ev → String
  | .zone c m gs => s!"z{c}:{m}:{ids gs}"
  | .lr c g => s!"g{c}:{g.id}"

def showRes : Res → String
  | .done evs => " ".intercalate (evs.map showEv ++ ["done"])
  | .outOfFuel => "fuel"
  | .assertFail => "assert"

namespace MpoUpdDrv
open Yaqs.MpoUpdate Yaqs.MpoConv

def parseC? : List String → Option (List CRat)
  | [] => some []
  | [_] => none
  | r :: i :: rest => do
    let re ← parseRat? r
    let im ← parseRat? i
    let tl ← parseC? rest
    pure (⟨re, im⟩ :: tl)

def parseArr? (n : Nat) (ws : List String) : Option (Array CRat) :=
  match parseC? ws with
  | some l => if l.length = n then some l.toArray else none
  | none => none

def showC (z : CRat) : String := showRat z.re ++ " " ++ showRat z.im
def showArr (a : Array CRat) : String := joinWith " " (a.toList.map showC)

def parseSite? : List String → Option (Site CRat)
  | d :: dl :: dr :: es => do
    let d ← d.toNat?
    let dl ← dl.toNat?
    let dr ← dr.toNat?
    let a ← parseArr? (d * d * dl * dr) es
    pure ⟨d, dl, dr, ofTab4 d dl dr a⟩
  | _ => none

def parseMSite? : List String → Option (MpsSite CRat)
  | p :: dl :: dr :: es => do
    let p ← p.toNat?
    let dl ← dl.toNat?
    let dr ← dr.toNat?
    let a ← parseArr? (p * dl * dr) es
    pure ⟨p, dl, dr, fun i l r => a.getD ((i * dl + l) * dr + r) 0⟩
  | _ => none

def parseSites? (s : String) : Option (List Nat) :=
  if s = "-" then some [] else parseAll? (fun w => w.toNat?) (s.splitOn ",")

def parseGate? (d : Nat) : List String → Option (Gate CRat)
  | isId :: inter :: sites :: es => do
    let isId ← isId.toNat?
    let inter ← inter.toNat?
    let sites ← parseSites? sites
    if inter = 1 then
      let a ← parseArr? (d * d) es
      pure ⟨isId != 0, inter, sites, fun i j => a.getD (i * d + j) 0, fun _ _ _ _ => 0⟩
    else if inter = 2 then
      let a ← parseArr? (d * d * d * d) es
      pure ⟨isId != 0, inter, sites, fun _ _ => 0, ofTab4 d d d a⟩
    else if es.isEmpty then pure ⟨isId != 0, inter, sites, fun _ _ => 0, fun _ _ _ _ => 0⟩
    else none
  | _ => none

def allParts? {α} (f : List String → Option α) : List (List String) → Option (List α)
  | [] => some []
  | x :: xs => do
    let a ← f x
    let as ← allParts? f xs
    pure (a :: as)

def showSite (t : Site CRat) : String :=
  s!"{t.d} {t.dl} {t.dr} " ++ showArr (tab4 t.d t.d t.dl t.dr t.e)

/-- `decompose_theta` on the SVD factors: `keep k | left | right` -/
def showDecomp (d Dl Dr kf : Nat) (thr : Rat) (uw sw vw : List String) : Option String := do
  let rows := d * d * Dl
  let cols := d * d * Dr
  let ua ← parseArr? (rows * kf) uw
  let sl ← parseAll? parseRat? sw
  let va ← parseArr? (kf * cols) vw
  if sl.length ≠ kf then none
  else
    let sa := sl.toArray
    let dec : Svd CRat := ⟨fun i p => ua.getD (i * kf + p) 0, sl, fun p => CRat.ofRat (sa.getD p 0),
      fun p j => va.getD (p * cols + j) 0⟩
    let r := decomposeTheta d Dl Dr dec thr
    pure (s!"keep {r.1.dr} | " ++ showSite r.1 ++ " | " ++ showSite r.2)

def showTm (d Dl Dr : Nat) (θ : T6 CRat) : String :=
  let rows := d * d * Dl
  let cols := d * d * Dr
  let tm := thetaMatrix d Dl Dr θ
  s!"tm {rows} {cols} " ++ showArr (Array.ofFn (n := rows * cols) fun k => tm (k.val / cols) (k.val % cols))

/-! ### chain-level long-range layer (extension xl04) -/
open Yaqs.CheckerChain in
/-- the pair updates of one layer, parsed while the chain is stepped (the shapes of `U`, `Vh` depend on the current bonds):
    returns the `tm … | keep k` texts, the steps, the SVD data and the gate table -/
def lrSteps (d : Nat) (thr : Rat) (nsteps : Nat) (parts : List (List String)) (ts : List (Site CRat))
    (tab : Array (Gate CRat)) (acc : List String) (steps : List Step) (decs : List (Svd CRat)) :
    Option (List String × List Step × List (Svd CRat) × Array (Gate CRat)) :=
  match nsteps with
  | 0 => if parts.isEmpty then some (acc.reverse, steps.reverse, decs.reverse, tab) else none
  | k + 1 =>
    match parts with
    | [m, k1, k2, kf] :: rest =>
      match m.toNat?, k1.toNat?, k2.toNat?, kf.toNat? with
      | some m, some k1, some k2, some kf =>
        if rest.length < k1 + k2 + 3 then none
        else
          match allParts? (parseGate? d) (rest.take k1), allParts? (parseGate? d) ((rest.drop k1).take k2),
              ts[m]?, ts[m + 1]? with
          | some gs1, some gs2, some A, some B =>
            let id0 := tab.size
            let is1 : List Instr := (List.range gs1.length).zipWith (fun j g => ⟨id0 + j, g.sites⟩) gs1
            let is2 : List Instr := (List.range gs2.length).zipWith (fun j g => ⟨id0 + gs1.length + j, g.sites⟩) gs2
            let tab' := (tab ++ gs1.toArray) ++ gs2.toArray
            let step : Step := ⟨m, is1, is2⟩
            let tail := rest.drop (k1 + k2)
            let rows := d * d * A.dl
            let cols := d * d * B.dr
            match parseArr? (rows * kf) (tail.getD 0 []), parseAll? parseRat? (tail.getD 1 []), parseArr? (kf * cols) (tail.getD 2 []) with
            | some ua, some sl, some va =>
              if sl.length ≠ kf then none
              else
                let sa := sl.toArray
                let dec : Svd CRat := ⟨fun i p => ua.getD (i * kf + p) 0, sl, fun p => CRat.ofRat (sa.getD p 0),
                  fun p j => va.getD (p * cols + j) 0⟩
                let gate : Instr → Gate CRat := fun i => tab'.getD i.id ⟨false, 0, [], fun _ _ => 0, fun _ _ _ _ => 0⟩
                match updateThetaM CRat.conj d m A B gs1 gs2, updateMpo CRat.conj d thr gate gate ts step dec with
                | some a, some ts' =>
                  let txt := showTm d A.dl B.dr (ofTab6 d A.dl d d B.dr a) ++ s!" | keep {Rank.keepTheta dec.s thr}"
                  lrSteps d thr k (tail.drop 3) ts' tab' (txt :: acc) (step :: steps) (dec :: decs)
                | _, _ => none
            | _, _, _ => none
          | _, _, _, _ => none
      | _, _, _, _ => none
    | _ => none

open Yaqs.CheckerChain in
def handleLR (parts : List (List String)) : String :=
  match parts with
  | ["lrlayer", c, d, thr, q0, q1, nG, n, nsteps] :: rest =>
    match c.toNat?, d.toNat?, parseRat? thr, q0.toNat?, q1.toNat?, nG.toNat?, n.toNat?, nsteps.toNat? with
    | some c, some d, some thr, some q0, some q1, some nG, some n, some nsteps =>
      if rest.length < nG + n then "bad-op"
      else
        match allParts? parseSite? (rest.take nG), allParts? parseSite? ((rest.drop nG).take n) with
        | some gm, some ts =>
          let g : Instr := ⟨0, [q0, q1]⟩
          let conj := decide (c = 2)
          if ¬ (gm.length = dist g.qs ∧ lrLoc g + gm.length ≤ ts.length) then "assert"
          else
            let ts0 := lrMul conj (lrGateTensors CRat.conj conj gm) (lrLoc g) ts
            match lrSteps d thr nsteps (rest.drop (nG + n)) ts0 #[] [] [] [] with
            | some (txts, steps, decs, tab) =>
              let gate : Instr → Gate CRat := fun i => tab.getD i.id ⟨false, 0, [], fun _ _ => 0, fun _ _ _ _ => 0⟩
              match lrLayer CRat.conj d thr gate gate ts c g gm steps decs with
              | some ts' =>
                " | ".intercalate (txts ++ ["chain"] ++ ((ts'.drop (lrLoc g)).take nG).map showSite)
              | none => "assert"
            | none => "bad-op"
        | _, _ => "bad-op"
    | _, _, _, _, _, _, _, _ => "bad-op"
  | ["lrblocks", c, d, loc, nG, n] :: rest =>
    match c.toNat?, d.toNat?, loc.toNat?, nG.toNat?, n.toNat? with
    | some c, some d, some loc, some nG, some n =>
      if rest.length ≠ nG + n then "bad-op"
      else
        match allParts? parseSite? (rest.take nG), allParts? parseSite? (rest.drop nG) with
        | some gm, some ts =>
          if loc + nG > ts.length then "bad-op"
          else
            let conj := decide (c = 2)
            let M := lrMul conj (lrGateTensors CRat.conj conj gm) loc ts
            let ms := (lrPairs loc nG).filter fun m => (m - loc) % 2 == 0 && decide (m + 1 < loc + nG) && decide (m - loc ≠ nG - 1)
            let blocks := ms.filterMap fun m =>
              match M[m]?, M[m + 1]? with
              | some A, some B => some (s!"{d} {d} {A.dl} {d} {d} {B.dr} " ++ showArr (tab6 d d A.dl d d B.dr (thetaOf A B)))
              | _, _ => none
            " | ".intercalate blocks
        | _, _ => "bad-op"
    | _, _, _, _, _ => "bad-op"
  | _ => "bad-op"

def handle (parts : List (List String)) : String :=
  match parts with
  | [["thetaof"], aw, bw] =>
    match parseSite? aw, parseSite? bw with
    | some A, some B =>
      if A.d ≠ B.d ∨ A.dr ≠ B.dl then "bad-op"
      else s!"{A.d} {A.d} {A.dl} {A.d} {A.d} {B.dr} " ++ showArr (tab6 A.d A.d A.dl A.d A.d B.dr (thetaOf A B))
    | _, _ => "bad-op"
  | [["applygate", d, dl, dr, s0, s1, cj], gw, tw] =>
    match d.toNat?, dl.toNat?, dr.toNat?, s0.toNat?, s1.toNat?, cj.toNat? with
    | some d, some dl, some dr, some s0, some s1, some cj =>
      match parseGate? d gw, parseArr? (d * d * dl * d * d * dr) tw with
      | some g, some ta =>
        match applyGate CRat.conj d g (ofTab6 d dl d d dr ta) s0 s1 (cj != 0) with
        | some θ => showArr (tab6 d d dl d d dr θ)
        | none => "assert"
      | _, _ => "bad-op"
    | _, _, _, _, _, _ => "bad-op"
  | ["zone", d, dl, dr, n, cj, k] :: rest =>
    match d.toNat?, dl.toNat?, dr.toNat?, n.toNat?, cj.toNat?, k.toNat? with
    | some d, some dl, some dr, n?, some cj, some k =>
      match n? with
      | some n =>
        if rest.length ≠ k + 1 then "bad-op"
        else
          match allParts? (parseGate? d) (rest.take k), parseArr? (d * d * dl * d * d * dr) (rest.getD k []) with
          | some gs, some ta =>
            match zoneApplyM CRat.conj d dl dr n (cj != 0) gs ta with
            | some a => showArr a
            | none => "assert"
          | _, _ => "bad-op"
      | none => "bad-op"
    | _, _, _, _, _, _ => "bad-op"
  | ["update", d, n, kf, thr, k1, k2] :: aw :: bw :: rest =>
    match d.toNat?, n.toNat?, kf.toNat?, parseRat? thr, k1.toNat?, k2.toNat? with
    | some d, some n, some kf, some thr, some k1, some k2 =>
      if rest.length ≠ k1 + k2 + 3 then "bad-op"
      else
        match parseSite? aw, parseSite? bw, allParts? (parseGate? d) (rest.take k1),
            allParts? (parseGate? d) ((rest.drop k1).take k2) with
        | some A, some B, some gs1, some gs2 =>
          if A.d ≠ d ∨ B.d ≠ d ∨ A.dr ≠ B.dl then "bad-op"
          else
            match updateThetaM CRat.conj d n A B gs1 gs2 with
            | none => "assert"
            | some a =>
              let tail := rest.drop (k1 + k2)
              match showDecomp d A.dl B.dr kf thr (tail.getD 0 []) (tail.getD 1 []) (tail.getD 2 []) with
              | some s => showTm d A.dl B.dr (ofTab6 d A.dl d d B.dr a) ++ " | " ++ s
              | none => "bad-op"
        | _, _, _, _ => "bad-op"
    | _, _, _, _, _, _ => "bad-op"
  | [["decomp", d, dl, dr, kf, thr], tw, uw, sw, vw] =>
    match d.toNat?, dl.toNat?, dr.toNat?, kf.toNat?, parseRat? thr with
    | some d, some dl, some dr, some kf, some thr =>
      match parseArr? (d * d * dl * d * d * dr) tw, showDecomp d dl dr kf thr uw sw vw with
      | some ta, some s => showTm d dl dr (ofTab6 d dl d d dr ta) ++ " | " ++ s
      | _, _ => "bad-op"
    | _, _, _, _, _ => "bad-op"
  | [["lrpair", which], g0, g1, w0, w1] =>
    match parseSite? g0, parseSite? g1, parseSite? w0, parseSite? w1 with
    | some G0, some G1, some W0, some W1 =>
      if G0.dr ≠ G1.dl ∨ W0.dr ≠ W1.dl ∨ G0.d ≠ W0.d ∨ G1.d ≠ W1.d ∨ W0.d ≠ W1.d then "bad-op"
      else
        let d := W0.d
        if which = "top" then
          s!"{d} {d} {G0.dl * W0.dl} {d} {d} {G1.dr * W1.dr} " ++
            showArr (tab6 d d (G0.dl * W0.dl) d d (G1.dr * W1.dr) (lrPairTop G0 G1 W0 W1))
        else if which = "bottom" then
          s!"{d} {d} {W0.dl * G0.dl} {d} {d} {W1.dr * G1.dr} " ++
            showArr (tab6 d d (W0.dl * G0.dl) d d (W1.dr * G1.dr) (lrPairBottom G0 G1 W0 W1))
        else "bad-op"
    | _, _, _, _ => "bad-op"
  | [["lrhang", which], gw, ww, pw] =>
    match parseSite? gw, parseSite? ww, parseSite? pw with
    | some G, some W, some P =>
      if G.d ≠ W.d ∨ P.d ≠ W.d then "bad-op"
      else
        let d := W.d
        let H? : Option (Site CRat) :=
          if which = "top" then some (lrHangTop G W) else if which = "bottom" then some (lrHangBottom G W) else none
        match H? with
        | some H =>
          if P.dr ≠ H.dl then "bad-op"
          else s!"{d} {d} {P.dl} {d} {d} {H.dr} " ++ showArr (tab6 d d P.dl d d H.dr (lrHangTheta P H))
        | none => "bad-op"
    | _, _, _ => "bad-op"
  | ["sp", n] :: rest =>
    match n.toNat? with
    | some n =>
      if rest.length ≠ 2 * n then "bad-op"
      else
        match allParts? parseMSite? (rest.take n), allParts? parseMSite? (rest.drop n) with
        | some as, some bs =>
          match scalarProduct CRat.conj as bs with
          | some z => showC z
          | none => "assert"
        | _, _ => "bad-op"
    | none => "bad-op"
  | ["idtrace", f] :: rest =>
    match parseRat? f, allParts? parseSite? rest with
    | some f, some ts =>
      match identityTrace CRat.conj ts with
      | some z => "tr " ++ showC z ++ " dec " ++ showBool (identityDecision z ts.length f)
      | none => "assert"
    | _, _ => "bad-op"
  | ("lrlayer" :: _) :: _ => handleLR parts
  | ("lrblocks" :: _) :: _ => handleLR parts
  | _ => "bad-op"

end MpoUpdDrv

def handle (line : String) : String :=
  match splitBar (words line) with
  | [[op, t, n, f]] =>
    match parseRat? t, n.toNat?, parseRat? f with
    | some t, some n, some f =>
      if op = "verdict" then showBool (verdict t n f)
      else if op = "verdictRounded" then showBool (verdictRounded t n f)
      else "bad-op"
    | _, _, _ => "bad-op"
  | [["start", n], gs] =>
    match n.toNat?, parseDag? gs with
    | some n, some d => if n < 2 then "assert" else "its " ++ nats (startIts n (startOdd d))
    | _, _ => "bad-op"
  | [["longest"], gs] =>
    match parseDag? gs with
    | some d => toString (longest d)
    | none => "bad-op"
  | [["zone", m], gs] =>
    match m.toNat?, parseDag? gs with
    | some m, some d => let r := zone [m, m + 1] d; s!"t:{ids r.1} r:{ids r.2}"
    | _, _ => "bad-op"
  | [["iter", n], g1, g2] =>
    match n.toNat?, parseDag? g1, parseDag? g2 with
    | some n, some c1, some c2 => showRes (iterate n c1 c2 (c1.length + c2.length))
    | _, _, _ => "bad-op"
  | parts => MpoUpdDrv.handle parts

def main : IO Unit := do lineLoop (← IO.getStdin) handle
