import YaqsModel.Basic.Parse
import YaqsModel.Model.Verdict
/-! line protocol of the C04 model

  verdict <t> <n> <f>            → 1 | 0                 (`MPO.check_if_identity`, repaired code)
  verdictRounded <t> <n> <f>     → 1 | 0                 (code as found, D5)
  start <n> | <gates>            → first_iterator ++ second_iterator of `select_starting_point`
  longest | <gates>              → `check_longest_gate`
  zone <m> | <gates>             → ids taken by `get_temporal_zone(dag, [m, m+1])` `|` ids left
  iter <n> | <gates1> | <gates2> → event list of `iterate`: `g<c>:<id>` long-range gate removed from circuit c,
                                   `z<c>:<m>:<id,id,…>` zone of circuit c at sites (m, m+1); then `done`,
                                   or `assert` (AssertionError) / `fuel`
  gates: one token per instruction in circuit order, `q` or `q0,q1`; `-` for "no gates".
-/
open Yaqs Yaqs.Verdict

def parseGate? (w : String) : Option (List Nat) := parseAll? (fun s => s.toNat?) (w.splitOn ",")

def parseDag? (ws : List String) : Option Dag :=
  (parseAll? parseGate? (ws.filter (· ≠ "-"))).map mkDag

def ids (gs : List Instr) : String := ",".intercalate (gs.map (fun g => toString g.id))

def nats (xs : List Nat) : String := " ".intercalate (xs.map toString)

def showEv : Ev → String
  | .zone c m gs => s!"z{c}:{m}:{ids gs}"
  | .lr c g => s!"g{c}:{g.id}"

def showRes : Res → String
  | .done evs => " ".intercalate (evs.map showEv ++ ["done"])
  | .outOfFuel => "fuel"
  | .assertFail => "assert"

def handle (line : String) : String :=
  match splitBar (words line) with
  | [[op, t, n, f]] =>
    match parseRat? t, n.toNat?, parseRat? f with
    | some t, some n, some f =>
      if op = "verdict" then showBool (verdict t n f)
      else if op = "verdictRounded" then showBool (verdictRounded t n f)
      else "bad-op"
    | _, _, _ => "bad-op"
  | [["start", n], gs] =>
    match n.toNat?, parseDag? gs with
    | some n, some d => if n < 2 then "assert" else "its " ++ nats (startIts n (startOdd d))
    | _, _ => "bad-op"
  | [["longest"], gs] =>
    match parseDag? gs with
    | some d => toString (longest d)
    | none => "bad-op"
  | [["zone", m], gs] =>
    match m.toNat?, parseDag? gs with
    | some m, some d => let r := zone [m, m + 1] d; s!"t:{ids r.1} r:{ids r.2}"
    | _, _ => "bad-op"
  | [["iter", n], g1, g2] =>
    match n.toNat?, parseDag? g1, parseDag? g2 with
    | some n, some c1, some c2 => showRes (iterate n c1 c2 (c1.length + c2.length))
    | _, _, _ => "bad-op"
  | _ => "bad-op"

def main : IO Unit := do lineLoop (← IO.getStdin) handle
