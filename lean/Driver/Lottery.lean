import YaqsModel.Basic.Parse
import YaqsModel.Model.Lottery
import YaqsModel.Model.Dissipation
/-!
line protocol for the jump lottery (C01 / C03).  Segments are separated by `|`, processes and gates by `;`.

  process   `<pauli 0|1> <gamma> <nsites> <sites…> m <2·d² rationals>`      (`process["matrix"]`, d = 2^nsites, row-major re im)
            `<pauli 0|1> <gamma> 2 <s0> <s1> f <8 rationals> <8 rationals>`  (`process["factors"]`)
  state     `re im re im …`   (2^L amplitudes, site 0 most significant)

  lot L dt | procs | state      → `jp <1-n> pv <p_0 … p_{m-1}>`  or  `jp <1-n> err`   (ZeroDivisionError)
  bn L k | procs | state        → `‖L_k ψ‖²`  or `raise`
  avg L dt | procs | state      → closed form of C01.3:  ψψ† + ((1-n)/W)·Σ_k dt·γ_k·(L_kψ)(L_kψ)†, row-major `re im`
  mcwf L | procs | state        → `ops <#jump_ops> pv <…>`  or  `ops <#> skip`   (normalization_sum < 1e-15)
  mproj L k | procs | state     → projector onto `L_k ψ` for the `k`-th MCWF jump operator (strength > 0), row-major `re im`
  branch r dp                   → `nojump` | `jump`
  local a b | procs             → signatures of the local noise model, in order (`-` if empty)
  trace | procs | gates         → operation list of `digital_tjm`

  extension (Model.Dissipation):
  diss L dt | procs             → operation list of `apply_dissipation` (`Q<i>` `V<i>` `s <i|*> <c>` `x1 <i> <c·L†L>` `x2 <i-1> <i> <c·L†L>` `raise`)
  dissnone L dt                 → the same for `noise_model = None`
  dissany L dt | procs          → the `any`-variant of the early return (counterexample only; never requested by the harness)
  pipe L mode numMid | procs | instr ; instr ; …   → whole event list of a noisy `digital_tjm`
  pipenone L mode numMid | instr ; …               → the same for `noise_model = None`
      instr = `g1 <tag> <q>` · `g2 <tag> <a> <b>` · `m <q> <c>` · `b <label> <q…>` (label `-` or `L<code>,<code>,…`), mode = ss|sp|weak
-/
open Yaqs Yaqs.Lottery

def parseCRs? : List String → Option (List CR)
  | [] => some []
  | [_] => none
  | a :: b :: rest => do
    let x ← parseRat? a
    let y ← parseRat? b
    let r ← parseCRs? rest
    pure (⟨x, y⟩ :: r)

def chunk {α} (k : Nat) (xs : List α) : List (List α) :=
  if k = 0 then [] else
  let rec go (fuel : Nat) (xs : List α) : List (List α) :=
    match fuel, xs with
    | 0, _ => []
    | _, [] => []
    | fuel + 1, xs => xs.take k :: go fuel (xs.drop k)
  go xs.length xs

def toMat? (d : Nat) (ws : List String) : Option Mat := do
  if ws.length ≠ 2 * d * d then none
  let cs ← parseCRs? ws
  pure (chunk d cs)

def parseProc? (ws : List String) : Option Proc :=
  match ws with
  | pw :: gw :: nw :: rest => do
    let pauli ← if pw = "1" then some true else if pw = "0" then some false else none
    let gamma ← parseRat? gw
    let ns ← nw.toNat?
    if rest.length < ns + 1 then none
    let sites ← parseAll? parseNat? (rest.take ns)
    let tag := rest.getD ns ""
    let payload := rest.drop (ns + 1)
    if tag = "m" then do
      let m ← toMat? (2 ^ ns) payload
      pure ⟨sites, gamma, pauli, .mat m⟩
    else if tag = "f" then do
      if payload.length ≠ 16 then none
      let a ← toMat? 2 (payload.take 8)
      let b ← toMat? 2 (payload.drop 8)
      pure ⟨sites, gamma, pauli, .factors a b⟩
    else none
  | _ => none

/-- split a token list at every `;` token; an empty segment list for no tokens -/
def splitSemi (ws : List String) : List (List String) :=
  if ws.isEmpty then [] else
  let rec go (acc : List String) (out : List (List String)) : List String → List (List String)
    | [] => (acc.reverse :: out).reverse
    | w :: rest => if w = ";" then go [] (acc.reverse :: out) rest else go (w :: acc) out rest
  go [] [] ws

def parseProcs? (ws : List String) : Option (List Proc) := (splitSemi ws).mapM parseProc?

def parseGate? (ws : List String) : Option Gate :=
  match ws with
  | ["1", q] => (q.toNat?).map Gate.one
  | ["2", a, b] => do
    let x ← a.toNat?
    let y ← b.toNat?
    pure (Gate.two x y)
  | _ => none

def showRats (xs : List Rat) : String := joinWith " " (xs.map showRat)

def showNats (xs : List Nat) : String := joinWith "," (xs.map toString)

def sig (p : Proc) : String := showNats p.sites ++ "@" ++ showRat p.gamma

def showProcs (ps : List Proc) : String := if ps.isEmpty then "-" else joinWith "+" (ps.map sig)

def showGate : Gate → String
  | .one q => s!"g1:{q}"
  | .two a b => s!"g2:{a},{b}"

def showDOp : DOp → String
  | .gate g => showGate g
  | .diss dt ps => "D:" ++ showRat dt ++ ":" ++ showProcs ps
  | .lot dt ps => "S:" ++ showRat dt ++ ":" ++ showProcs ps
  | .normalize => "N"

/-- `ψψ†`-type outer product scaled by `c`, row-major -/
def outer (c : Rat) (v : Vec) : List CR :=
  v.flatMap fun x => v.map fun y => CR.smul c (CR.mul x (CR.conj y))

def addVec (a b : List CR) : List CR := List.zipWith CR.add a b

def showCRs (xs : List CR) : String := joinWith " " (xs.map fun c => showRat c.re ++ " " ++ showRat c.im)

/-- closed form of C01.3 on the dense vector -/
def closedAverage (L : Nat) (procs : List Proc) (dt : Rat) (v : Vec) : Option (List CR) :=
  let n := vecNormSq v
  let nrm := denseNrm L v
  let W := (slots L procs dt nrm n).sum
  if W = 0 then none else
  let c := (1 - n) / W
  let terms := procs.map fun p =>
    if visited L p then
      match applyProc L p v with
      | some w => outer (c * dt * p.gamma) w
      | none => outer 0 v
    else outer 0 v
  some (terms.foldl addVec (outer 1 v))


/-! ### extension: dissipation sweep and noisy pipeline (Model.Dissipation) -/

open Yaqs.Dissipation in
def showMatEntries (m : Mat) : String := showCRs (m.flatMap id)

open Yaqs.Dissipation in
/-- one operation of `apply_dissipation`; `none` = the process payload does not fit the operation (`KeyError` in the code) -/
def showDissOp (procs : List Proc) : Dissipation.Op → Option String
  | .qr i => some s!"Q{i}"
  | .svd i => some s!"V{i}"
  | .raise _ => some "raise"
  | .app _ [i] c .scalar => some ("s " ++ (if c = 0 then "*" else toString i) ++ " " ++ showRat c)
  | .app k [i] c .site =>
    match procs[k]? with
    | some ⟨_, _, _, .mat m⟩ => if m.length = 2 then some (s!"x1 {i} " ++ showMatEntries (scaledGram c m)) else none
    | _ => none
  | .app k [a, b] c .pair =>
    match procs[k]? with
    | some ⟨_, _, _, .mat m⟩ => if m.length = 4 then some (s!"x2 {a} {b} " ++ showMatEntries (scaledGram c m)) else none
    | _ => none
  | _ => none

def showDissOps (procs : List Proc) (ops : List Dissipation.Op) : String :=
  match ops.mapM (showDissOp procs) with
  | some ss => if ss.isEmpty then "-" else joinWith " " ss
  | none => "bad-op"

def parseLabelD? (w : String) : Option (Option (List Nat)) :=
  if w = "-" then some none
  else if w.startsWith "L" then
    let body := (w.drop 1).toString
    if body = "" then some (some [])
    else
      match parseAll? String.toNat? (body.splitOn ",") with
      | some cs => if cs.all (· < 128) then some (some cs) else none
      | none => none
  else none

def parseInstrD? : List String → Option Layers.RawInstr
  | ["g1", t, q] => do pure (.gate1 (← t.toNat?) (← q.toNat?))
  | ["g2", t, a, b] => do
    let a' ← a.toNat?
    let b' ← b.toNat?
    if a' = b' then none else pure (.gate2 (← t.toNat?) a' b')
  | ["m", q, c] => do pure (.measure (← q.toNat?) (← c.toNat?))
  | "b" :: l :: qs => do
    let lab ← parseLabelD? l
    let qs' ← parseAll? String.toNat? qs
    if qs'.isEmpty then none else pure (.barrier qs' lab)
  | _ => none

def parseModeD? : String → Option Layers.Mode
  | "ss" => some .strongSample
  | "sp" => some .strongPlain
  | "weak" => some .weak
  | _ => none

/-- one pipeline event; the operations inside `apply_dissipation` are printed against the *local* process list of the
    lottery that follows them, so the printer threads the list of the block it is in -/
def showPEvs (evs : List Dissipation.PEv) : Option (List String) :=
  let rec go : List Dissipation.PEv → Option (List String)
    | [] => some []
    | .app1 t q :: r => (go r).map (s!"a1:{t}:{q}" :: ·)
    | .app2 t a b :: r => (go r).map (s!"a2:{t}:{a}:{b}" :: ·)
    | .lot dt ps :: r => (go r).map (("S:" ++ showRat dt ++ ":" ++ showProcs ps) :: ·)
    | .normalize :: r => (go r).map ("N" :: ·)
    | .eval c :: r => (go r).map (s!"e{c}" :: ·)
    | .shots :: r => (go r).map ("shots" :: ·)
    | .dop o :: r =>
      -- the local list of this block is the argument of the next lottery event
      let ps := (r.findSome? fun e => match e with
        | .lot _ ps => some ps
        | _ => none).getD []
      match showDissOp ps o, go r with
      | some s, some rest => some (s :: rest)
      | _, _ => none
  go evs

def handlePipe (nm : Option (List Proc)) (Lw mw nw : String) (cw : List String) : String :=
  match Lw.toNat?, parseModeD? mw, nw.toNat?, (splitSemi cw).mapM parseInstrD? with
  | some L, some mode, some numMid, some raw =>
    match Dissipation.noisyDigitalTjm nm L mode numMid (raw.map (Layers.classify Layers.isSampleLabel)) with
    | none => "hang"
    | some evs =>
      match showPEvs evs with
      | some ss => if ss.isEmpty then "-" else joinWith " " ss
      | none => "bad-op"
  | _, _, _, _ => "bad-op"

def handle (line : String) : String :=
  match splitBar (words line) with
  | [["branch", r, dp]] =>
    match parseRat? r, parseRat? dp with
    | some r, some dp => if noJumpTaken r dp then "nojump" else "jump"
    | _, _ => "bad-op"
  | [["local", a, b], pw] =>
    match a.toNat?, b.toNat?, parseProcs? pw with
    | some a, some b, some procs => showProcs (localNoise procs a b)
    | _, _, _ => "bad-op"
  | [["trace"], pw, gw] =>
    match parseProcs? pw, (splitSemi gw).mapM parseGate? with
    | some procs, some gs => joinWith " " ((digitalOps (some procs) gs).map showDOp)
    | _, _ => "bad-op"
  | [["diss", Lw, dtw], pw] =>
    match Lw.toNat?, parseRat? dtw, parseProcs? pw with
    | some L, some dt, some procs => showDissOps procs (Dissipation.dissipationOps L (some procs) dt)
    | _, _, _ => "bad-op"
  | [["dissany", Lw, dtw], pw] =>
    match Lw.toNat?, parseRat? dtw, parseProcs? pw with
    | some L, some dt, some procs => showDissOps procs (Dissipation.dissipationOpsAny L (some procs) dt)
    | _, _, _ => "bad-op"
  | [["dissnone", Lw, dtw]] =>
    match Lw.toNat?, parseRat? dtw with
    | some L, some dt => showDissOps [] (Dissipation.dissipationOps L none dt)
    | _, _ => "bad-op"
  | [["pipe", Lw, mw, nw], pw, cw] =>
    match parseProcs? pw with
    | some procs => handlePipe (some procs) Lw mw nw cw
    | none => "bad-op"
  | [["pipenone", Lw, mw, nw], cw] => handlePipe none Lw mw nw cw
  | [["tracenone"], gw] =>
    match (splitSemi gw).mapM parseGate? with
    | some gs => joinWith " " ((digitalOps none gs).map showDOp)
    | _ => "bad-op"
  | [hd, pw, sw] =>
    match parseProcs? pw, parseCRs? sw with
    | some procs, some v =>
      match hd with
      | ["lot", Lw, dtw] =>
        match Lw.toNat?, parseRat? dtw with
        | some L, some dt =>
          if v.length ≠ 2 ^ L then "bad-op" else
          let n := vecNormSq v
          let head := "jp " ++ showRat (stochasticFactor n)
          match probVector L procs dt (denseNrm L v) n with
          | some pv => head ++ " pv " ++ showRats pv
          | none => head ++ " err"
        | _, _ => "bad-op"
      | ["bn", Lw, kw] =>
        match Lw.toNat?, kw.toNat? with
        | some L, some k =>
          if v.length ≠ 2 ^ L then "bad-op" else
          match procs[k]? with
          | some p =>
            match applyProc L p v with
            | some w => showRat (vecNormSq w)
            | none => "raise"
          | none => "bad-op"
        | _, _ => "bad-op"
      | ["avg", Lw, dtw] =>
        match Lw.toNat?, parseRat? dtw with
        | some L, some dt =>
          if v.length ≠ 2 ^ L then "bad-op" else
          match closedAverage L procs dt v with
          | some rho => showCRs rho
          | none => "err"
        | _, _ => "bad-op"
      | ["mproj", Lw, kw] =>
        match Lw.toNat?, kw.toNat? with
        | some L, some k =>
          if v.length ≠ 2 ^ L then "bad-op" else
          match (mcwfOps procs)[k]? with
          | some p =>
            match applyProc L p v with
            | some w =>
              let nn := vecNormSq w
              if nn = 0 then "zero" else showCRs (outer (1 / nn) w)
            | none => "raise"
          | none => "bad-op"
        | _, _ => "bad-op"
      | ["mcwf", Lw] =>
        match Lw.toNat? with
        | some L =>
          if v.length ≠ 2 ^ L then "bad-op" else
          let head := "ops " ++ toString (mcwfOps procs).length
          match mcwfProbVector (denseNrm L v) procs with
          | some pv => head ++ " pv " ++ showRats pv
          | none => head ++ " skip"
        | none => "bad-op"
      | _ => "bad-op"
    | _, _ => "bad-op"
  | _ => "bad-op"

def main : IO Unit := do lineLoop (← IO.getStdin) handle
