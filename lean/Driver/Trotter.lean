import YaqsModel.Basic.Parse
import YaqsModel.Model.Trotter
/-! line protocol for the model library (C07); see `harness/impl/C07.py` for the request grammar -/
open Yaqs Yaqs.Trotter

def showAng : Ang → List String
  | .q r => [showRat r]
  | .hpi => ["hpi"]
  | .mhpi => ["-hpi"]
  | .none => []

def showGate (g : Gate) : String :=
  joinWith " " ([g.name.toString] ++ g.qs.map toString ++ showAng g.ang)

def showGates (gs : List Gate) : String :=
  if gs.isEmpty then "empty" else joinWith " " (gs.map showGate)

def showG (z : GRat) : String := showRat z.re ++ " " ++ showRat z.im

def parseOp? : String → Option Op
  | "I" => some .I | "X" => some .X | "Y" => some .Y | "Z" => some .Z | _ => none

def mapAll? {α β} (f : α → Option β) : List α → Option (List β)
  | [] => some []
  | x :: xs => do
    let a ← f x
    let as ← mapAll? f xs
    pure (a :: as)

def parseBool? : String → Option Bool
  | "1" => some true | "0" => some false | _ => none

/-- `X 0 Z 3` -/
def parseSpecToks? : List String → Option Spec
  | [] => some []
  | o :: s :: rest => do
    let o ← parseOp? o
    let s ← s.toNat?
    let r ← parseSpecToks? rest
    pure ((o, s) :: r)
  | _ => none

/-- split a token list at every `;` token (empty trailing group dropped) -/
def splitSemi (ws : List String) : List (List String) :=
  let rec go (acc : List String) (out : List (List String)) : List String → List (List String)
    | [] => (if acc.isEmpty then out else acc.reverse :: out).reverse
    | w :: rest => if w = ";" then go [] (acc.reverse :: out) rest else go (w :: acc) out rest
  go [] [] ws

/-- `re im X 0 Z 3` -/
def parseTerm? : List String → Option (GRat × Spec)
  | re :: im :: rest => do
    let a ← parseRat? re
    let b ← parseRat? im
    let sp ← parseSpecToks? rest
    pure (⟨a, b⟩, sp)
  | _ => none

def parseTermList? (ws : List String) : Option (List (GRat × Spec)) :=
  if ws = ["none"] then some [] else mapAll? parseTerm? (splitSemi ws)

def showSpec (sp : Spec) : String := joinWith " " (sp.map fun t => t.1.toString ++ " " ++ toString t.2)

def showTermsG (ts : List (GRat × Spec)) : String :=
  if ts.isEmpty then "empty" else joinWith " ; " (ts.map fun t => showG t.1 ++ " " ++ showSpec t.2)

def showTermsR (ts : List (Rat × Spec)) : String :=
  if ts.isEmpty then "empty" else joinWith " ; " (ts.map fun t => showRat t.1 ++ " 0 " ++ showSpec t.2)

def cfgFun (xs : List Nat) (i : Nat) : Nat := xs.getD i 0

/-- all non-zero entries of the pre-compression tensors: `site a b l r re im`, in (site, a, b, l, r) order -/
def fsmEntries (terms : List (GRat × List Op)) (L : Nat) : List String :=
  match terms with
  | [] => []
  | _ =>
    let r := sweep (terms.map (·.2)) 1 (L - 1)
    let d1 := match r.1 with | [] => 1 | t :: _ => t.length
    let dims := r.1.map List.length ++ [1]
    let site0 := (List.range 2).flatMap fun a => (List.range 2).flatMap fun b =>
      let row := site0Row pauli a b terms r.2 d1
      (row.zipIdx).filterMap fun (x, k) =>
        if x = 0 then none else some (joinWith " " ["0", toString a, toString b, "0", toString k, showG x])
    let inner := ((r.1.zip (dims.drop 1)).zipIdx).flatMap fun ((tbl, dn), i) =>
      (List.range 2).flatMap fun a => (List.range 2).flatMap fun b =>
        (tbl.zipIdx).flatMap fun (sg, cur) =>
          (List.range dn).filterMap fun nxt =>
            let x : GRat := entry pauli a b sg nxt
            if x = 0 then none
            else some (joinWith " " [toString (i + 1), toString a, toString b, toString cur, toString nxt, showG x])
    site0 ++ inner

def blkOrder : List Blk := [.id, .hloc, .up, .dn, .upJ, .dnJ, .hq, .gx, .hr, .xr]

/-- per-site block values in `blkOrder`, `zero ↦ 0` -/
def blkFun (vals : List (List Rat)) (i : Nat) (s : Blk) (_ _ : Nat) : Rat :=
  match blkOrder.idxOf? s with
  | some k => (vals.getD i []).getD k 0
  | none => 0

def showBlkMat (m : BlkMat) : String :=
  toString m.length ++ "x" ++ toString (m.headD []).length ++ " " ++
    joinWith " " (m.flatMap fun row => row.map Blk.toString)

def handle (line : String) : String :=
  match splitBar (words line) with
  | [["circ", "ising", l, per, st], ps] =>
    match l.toNat?, parseBool? per, st.toNat?, parseAll? parseRat? ps with
    | some l, some per, some st, some [j, g, dt] => showGates (isingCircuit l per j g dt st)
    | _, _, _, _ => "bad-op"
  | [["circ", "ising2d", r, c, st], ps] =>
    match r.toNat?, c.toNat?, st.toNat?, parseAll? parseRat? ps with
    | some r, some c, some st, some [j, g, dt] => showGates (ising2dCircuit r c j g dt st)
    | _, _, _, _ => "bad-op"
  | [["circ", "heis", l, per, st], ps] =>
    match l.toNat?, parseBool? per, st.toNat?, parseAll? parseRat? ps with
    | some l, some per, some st, some [jx, jy, jz, h, dt] => showGates (heisenbergCircuit l per jx jy jz h dt st)
    | _, _, _, _ => "bad-op"
  | [["circ", "heis2d", r, c, st], ps] =>
    match r.toNat?, c.toNat?, st.toNat?, parseAll? parseRat? ps with
    | some r, some c, some st, some [jx, jy, jz, h, dt] => showGates (heisenberg2dCircuit r c jx jy jz h dt st)
    | _, _, _, _ => "bad-op"
  | [["circ", "fh1d", l, n, st], ps] =>
    match l.toNat?, n.toNat?, st.toNat?, parseAll? parseRat? ps with
    | some l, some n, some st, some [u, t, mu, dt] => showGates (fh1dCircuit l u t mu dt n st)
    | _, _, _, _ => "bad-op"
  | [["circ", "fh2d", lx, ly, n, st], ps] =>
    match lx.toNat?, ly.toNat?, n.toNat?, st.toNat?, parseAll? parseRat? ps with
    | some lx, some ly, some n, some st, some [u, t, mu, dt] => showGates (fh2dCircuit lx ly u t mu dt n st)
    | _, _, _, _, _ => "bad-op"
  | [["lri", i, j, op], [al], pre] =>
    match i.toNat?, j.toNat?, parseRat? al, parseAll? String.toNat? pre with
    | some i, some j, some al, some pre =>
      let outer := if op = "X" ∨ op = "x" then some true else if op = "Y" ∨ op = "y" then some false else none
      match addLongRange (pre.map fun q => ⟨.x, [q], .none⟩) i j outer al with
      | .ok g => showGates g
      | .error .index => "IndexError"
      | .error .value => "ValueError"
    | _, _, _, _ => "bad-op"
  | [["hop", i, j], [al], pre] =>
    match i.toNat?, j.toNat?, parseRat? al, parseAll? String.toNat? pre with
    | some i, some j, some al, some pre =>
      match addHopping (pre.map fun q => ⟨.x, [q], .none⟩) i j al with
      | .ok g => showGates g
      | .error .index => "IndexError"
      | .error .value => "ValueError"
    | _, _, _, _ => "bad-op"
  | [["lookup", p, s]] =>
    match p.toNat?, s.toNat? with
    | some p, some s => match lookupQiskitOrdering p s with | some k => toString k | none => "ValueError"
    | _, _ => "bad-op"
  | [["isingterms", l, per], ps] =>
    match l.toNat?, parseBool? per, parseAll? parseRat? ps with
    | some l, some per, some [j, g] => if l = 0 then "ValueError" else showTermsR (isingTerms l per j g)
    | _, _, _ => "bad-op"
  | [["heisterms", l, per], ps] =>
    match l.toNat?, parseBool? per, parseAll? parseRat? ps with
    | some l, some per, some [jx, jy, jz, h] => if l = 0 then "ValueError" else showTermsR (heisenbergTerms l per jx jy jz h)
    | _, _, _ => "bad-op"
  | [["terms", l, per], two, one] =>
    -- two: `re im A B ; …`   one: `re im A ; …`
    let p2 (ws : List String) : Option (GRat × Op × Op) :=
      match ws with
      | [re, im, a, b] => do pure (⟨← parseRat? re, ← parseRat? im⟩, ← parseOp? a, ← parseOp? b)
      | _ => none
    let p1 (ws : List String) : Option (GRat × Op) :=
      match ws with
      | [re, im, a] => do pure (⟨← parseRat? re, ← parseRat? im⟩, ← parseOp? a)
      | _ => none
    let two? := if two = ["none"] then some [] else mapAll? p2 (splitSemi two)
    let one? := if one = ["none"] then some [] else mapAll? p1 (splitSemi one)
    match l.toNat?, parseBool? per, two?, one? with
    | some l, some per, some two, some one => if l = 0 then "ValueError" else showTermsG (mpoTerms l per two one)
    | _, _, _, _ => "bad-op"
  | [["parse"], sp] =>
    match parseSpecToks? (if sp = ["none"] then [] else sp) with
    | some sp =>
      match parseSpec sp with
      | some m => if m.isEmpty then "empty" else joinWith " " (m.map fun t => toString t.1 ++ " " ++ t.2.toString)
      | none => "ValueError"
    | none => "bad-op"
  | [["oplist", l], sp] =>
    match l.toNat?, parseSpecToks? (if sp = ["none"] then [] else sp) with
    | some l, some sp =>
      match opList l sp with
      | some o => if o.isEmpty then "empty" else joinWith " " (o.map Op.toString)
      | none => "ValueError"
    | _, _ => "bad-op"
  | [["fsmdims", l], ts] =>
    match l.toNat?, parseTermList? ts with
    | some l, some ts =>
      if l = 0 then "ValueError" else
      match parseTerms l ts with
      | some pt => joinWith " " ((fsmDims pt l).map toString)
      | none => "ValueError"
    | _, _ => "bad-op"
  | [["fsmtensor", l], ts] =>
    match l.toNat?, parseTermList? ts with
    | some l, some ts =>
      if l = 0 then "ValueError" else
      match parseTerms l ts with
      | some pt => let e := fsmEntries pt l; if e.isEmpty then "empty" else joinWith " " e
      | none => "ValueError"
    | _, _ => "bad-op"
  | [["fsmpath", l], ts, cfgs] =>
    match l.toNat?, parseTermList? ts, mapAll? (parseAll? String.toNat?) (splitSemi cfgs) with
    | some l, some ts, some cfgs =>
      if l = 0 then "ValueError" else
      match parseTerms l ts with
      | some pt =>
        if cfgs.any (fun c => c.length ≠ 2 * l) then "bad-op" else
        joinWith " " (cfgs.map fun c => showG (fsmPathSum pauli pt l (cfgFun (c.take l)) (cfgFun (c.drop l))))
      | none => "ValueError"
    | _, _, _ => "bad-op"
  | [["blk", which, l]] =>
    match l.toNat? with
    | some l =>
      let ts := if which = "bh" then some (bhTensors l) else if which = "ct" then some (ctTensors l)
        else if which = "bhold" then some (bhTensorsOld l) else if which = "ctold" then some (ctTensorsOld l) else none
      match ts with
      | some ts => if ts.isEmpty then "empty" else joinWith " | " (ts.map showBlkMat)
      | none => "bad-op"
    | none => "bad-op"
  | ["blkpath", which, l] :: vals =>
    match l.toNat?, mapAll? (parseAll? parseRat?) vals with
    | some l, some vals =>
      let ts := if which = "bh" then some (bhTensors l) else if which = "ct" then some (ctTensors l)
        else if which = "bhold" then some (bhTensorsOld l) else if which = "ctold" then some (ctTensorsOld l) else none
      match ts with
      | some ts =>
        if vals.length ≠ l ∨ vals.any (fun v => v.length ≠ blkOrder.length) then "bad-op" else
        match blkPathSum (blkFun vals) ts (fun _ => 0) (fun _ => 0) with
        | some x => showRat x
        | none => "err"
      | none => "bad-op"
    | _, _ => "bad-op"
  | _ => "bad-op"

def main : IO Unit := do lineLoop (← IO.getStdin) handle
