import YaqsModel.Basic.Parse
import YaqsModel.Model.Trotter
import YaqsModel.Model.MpoConv
import YaqsModel.Model.TrotterHubbard
/-! line protocol for the model library (C07); see `harness/impl/C07.py` for the request grammar -/
open Yaqs Yaqs.Trotter

def showAng : Ang → List String
  | .q r => [showRat r]
  | .hpi => ["hpi"]
  | .mhpi => ["-hpi"]
  | .none => []

def showGate (g : Gate) : String :=
  joinWith " " ([g.name.toString] ++ g.qs.map toString ++ showAng g.ang)

def showGates (gs : List Gate) : String :=
  if gs.isEmpty then "empty" else joinWith " " (gs.map showGate)

def showG (z : GRat) : String := showRat z.re ++ " " ++ showRat z.im

def parseOp? : String → Option Op
  | "I" => some .I | "X" => some .X | "Y" => some .Y | "Z" => some .Z | _ => none

def mapAll? {α β} (f : α → Option β) : List α → Option (List β)
  | [] => some []
  | x :: xs => do
    let a ← f x
    let as ← mapAll? f xs
    pure (a :: as)

def parseBool? : String → Option Bool
  | "1" => some true | "0" => some false | _ => none

/-- `X 0 Z 3` -/
def parseSpecToks? : List String → Option Spec
  | [] => some []
  | o :: s :: rest => do
    let o ← parseOp? o
    let s ← s.toNat?
    let r ← parseSpecToks? rest
    pure ((o, s) :: r)
  | _ => none

/-- split a token list at every `;` token (empty trailing group dropped) -/
def splitSemi (ws : List String) : List (List String) :=
  let rec go (acc : List String) (out : List (List String)) : List String → List (List String)
    | [] => (if acc.isEmpty then out else acc.reverse :: out).reverse
    | w :: rest => if w = ";" then go [] (acc.reverse :: out) rest else go (w :: acc) out rest
  go [] [] ws

/-- `re im X 0 Z 3` -/
def parseTerm? : List String → Option (GRat × Spec)
  | re :: im :: rest => do
    let a ← parseRat? re
    let b ← parseRat? im
    let sp ← parseSpecToks? rest
    pure (⟨a, b⟩, sp)
  | _ => none

def parseTermList? (ws : List String) : Option (List (GRat × Spec)) :=
  if ws = ["none"] then some [] else mapAll? parseTerm? (splitSemi ws)

def showSpec (sp : Spec) : String := joinWith " " (sp.map fun t => t.1.toString ++ " " ++ toString t.2)

def showTermsG (ts : List (GRat × Spec)) : String :=
  if ts.isEmpty then "empty" else joinWith " ; " (ts.map fun t => showG t.1 ++ " " ++ showSpec t.2)

def showTermsR (ts : List (Rat × Spec)) : String :=
  if ts.isEmpty then "empty" else joinWith " ; " (ts.map fun t => showRat t.1 ++ " 0 " ++ showSpec t.2)

def cfgFun (xs : List Nat) (i : Nat) : Nat := xs.getD i 0

/-- all non-zero entries of the pre-compression tensors: `site a b l r re im`, in (site, a, b, l, r) order -/
def fsmEntries (terms : List (GRat × List Op)) (L : Nat) : List String :=
  match terms with
  | [] => []
  | _ =>
    let r := sweep (terms.map (·.2)) 1 (L - 1)
    let d1 := match r.1 with | [] => 1 | t :: _ => t.length
    let dims := r.1.map List.length ++ [1]
    let site0 := (List.range 2).flatMap fun a => (List.range 2).flatMap fun b =>
      let row := site0Row pauli a b terms r.2 d1
      (row.zipIdx).filterMap fun (x, k) =>
        if x = 0 then none else some (joinWith " " ["0", toString a, toString b, "0", toString k, showG x])
    let inner := ((r.1.zip (dims.drop 1)).zipIdx).flatMap fun ((tbl, dn), i) =>
      (List.range 2).flatMap fun a => (List.range 2).flatMap fun b =>
        (tbl.zipIdx).flatMap fun (sg, cur) =>
          (List.range dn).filterMap fun nxt =>
            let x : GRat := entry pauli a b sg nxt
            if x = 0 then none
            else some (joinWith " " [toString (i + 1), toString a, toString b, toString cur, toString nxt, showG x])
    site0 ++ inner

def blkOrder : List Blk := [.id, .hloc, .up, .dn, .upJ, .dnJ, .hq, .gx, .hr, .xr]

/-- per-site block values in `blkOrder`, `zero ↦ 0` -/
def blkFun (vals : List (List Rat)) (i : Nat) (s : Blk) (_ _ : Nat) : Rat :=
  match blkOrder.idxOf? s with
  | some k => (vals.getD i []).getD k 0
  | none => 0

def showBlkMat (m : BlkMat) : String :=
  toString m.length ++ "x" ++ toString (m.headD []).length ++ " " ++
    joinWith " " (m.flatMap fun row => row.map Blk.toString)

def handle (line : String) : String :=
  match splitBar (words line) with
  | [["circ", "ising", l, per, st], ps] =>
    match l.toNat?, parseBool? per, st.toNat?, parseAll? parseRat? ps with
    | some l, some per, some st, some [j, g, dt] => showGates (isingCircuit l per j g dt st)
    | _, _, _, _ => "bad-op"
  | [["circ", "ising2d", r, c, st], ps] =>
    match r.toNat?, c.toNat?, st.toNat?, parseAll? parseRat? ps with
    | some r, some c, some st, some [j, g, dt] => showGates (ising2dCircuit r c j g dt st)
    | _, _, _, _ => "bad-op"
  | [["circ", "heis", l, per, st], ps] =>
    match l.toNat?, parseBool? per, st.toNat?, parseAll? parseRat? ps with
    | some l, some per, some st, some [jx, jy, jz, h, dt] => showGates (heisenbergCircuit l per jx jy jz h dt st)
    | _, _, _, _ => "bad-op"
  | [["circ", "heis2d", r, c, st], ps] =>
    match r.toNat?, c.toNat?, st.toNat?, parseAll? parseRat? ps with
    | some r, some c, some st, some [jx, jy, jz, h, dt] => showGates (heisenberg2dCircuit r c jx jy jz h dt st)
    | _, _, _, _ => "bad-op"
  | [["circ", "fh1d", l, n, st], ps] =>
    match l.toNat?, n.toNat?, st.toNat?, parseAll? parseRat? ps with
    | some l, some n, some st, some [u, t, mu, dt] => showGates (fh1dCircuit l u t mu dt n st)
    | _, _, _, _ => "bad-op"
  | [["circ", "fh2d", lx, ly, n, st], ps] =>
    match lx.toNat?, ly.toNat?, n.toNat?, st.toNat?, parseAll? parseRat? ps with
    | some lx, some ly, some n, some st, some [u, t, mu, dt] => showGates (fh2dCircuit lx ly u t mu dt n st)
    | _, _, _, _, _ => "bad-op"
  | [["lri", i, j, op], [al], pre] =>
    match i.toNat?, j.toNat?, parseRat? al, parseAll? String.toNat? pre with
    | some i, some j, some al, some pre =>
      let outer := if op = "X" ∨ op = "x" then some true else if op = "Y" ∨ op = "y" then some false else none
      match addLongRange (pre.map fun q => ⟨.x, [q], .none⟩) i j outer al with
      | .ok g => showGates g
      | .error .index => "IndexError"
      | .error .value => "ValueError"
    | _, _, _, _ => "bad-op"
  | [["hop", i, j], [al], pre] =>
    match i.toNat?, j.toNat?, parseRat? al, parseAll? String.toNat? pre with
    | some i, some j, some al, some pre =>
      match addHopping (pre.map fun q => ⟨.x, [q], .none⟩) i j al with
      | .ok g => showGates g
      | .error .index => "IndexError"
      | .error .value => "ValueError"
    | _, _, _, _ => "bad-op"
  | [["lookup", p, s]] =>
    match p.toNat?, s.toNat? with
    | some p, some s => match lookupQiskitOrdering p s with | some k => toString k | none => "ValueError"
    | _, _ => "bad-op"
  | [["isingterms", l, per], ps] =>
    match l.toNat?, parseBool? per, parseAll? parseRat? ps with
    | some l, some per, some [j, g] => if l = 0 then "ValueError" else showTermsR (isingTerms l per j g)
    | _, _, _ => "bad-op"
  | [["heisterms", l, per], ps] =>
    match l.toNat?, parseBool? per, parseAll? parseRat? ps with
    | some l, some per, some [jx, jy, jz, h] => if l = 0 then "ValueError" else showTermsR (heisenbergTerms l per jx jy jz h)
    | _, _, _ => "bad-op"
  | [["terms", l, per], two, one] =>
    -- two: `re im A B ; …`   one: `re im A ; …`
    let p2 (ws : List String) : Option (GRat × Op × Op) :=
      match ws with
      | [re, im, a, b] => do pure (⟨← parseRat? re, ← parseRat? im⟩, ← parseOp? a, ← parseOp? b)
      | _ => none
    let p1 (ws : List String) : Option (GRat × Op) :=
      match ws with
      | [re, im, a] => do pure (⟨← parseRat? re, ← parseRat? im⟩, ← parseOp? a)
      | _ => none
    let two? := if two = ["none"] then some [] else mapAll? p2 (splitSemi two)
    let one? := if one = ["none"] then some [] else mapAll? p1 (splitSemi one)
    match l.toNat?, parseBool? per, two?, one? with
    | some l, some per, some two, some one => if l = 0 then "ValueError" else showTermsG (mpoTerms l per two one)
    | _, _, _, _ => "bad-op"
  | [["parse"], sp] =>
    match parseSpecToks? (if sp = ["none"] then [] else sp) with
    | some sp =>
      match parseSpec sp with
      | some m => if m.isEmpty then "empty" else joinWith " " (m.map fun t => toString t.1 ++ " " ++ t.2.toString)
      | none => "ValueError"
    | none => "bad-op"
  | [["oplist", l], sp] =>
    match l.toNat?, parseSpecToks? (if sp = ["none"] then [] else sp) with
    | some l, some sp =>
      match opList l sp with
      | some o => if o.isEmpty then "empty" else joinWith " " (o.map Op.toString)
      | none => "ValueError"
    | _, _ => "bad-op"
  | [["fsmdims", l], ts] =>
    match l.toNat?, parseTermList? ts with
    | some l, some ts =>
      if l = 0 then "ValueError" else
      match parseTerms l ts with
      | some pt => joinWith " " ((fsmDims pt l).map toString)
      | none => "ValueError"
    | _, _ => "bad-op"
  | [["fsmtensor", l], ts] =>
    match l.toNat?, parseTermList? ts with
    | some l, some ts =>
      if l = 0 then "ValueError" else
      match parseTerms l ts with
      | some pt => let e := fsmEntries pt l; if e.isEmpty then "empty" else joinWith " " e
      | none => "ValueError"
    | _, _ => "bad-op"
  | [["fsmpath", l], ts, cfgs] =>
    match l.toNat?, parseTermList? ts, mapAll? (parseAll? String.toNat?) (splitSemi cfgs) with
    | some l, some ts, some cfgs =>
      if l = 0 then "ValueError" else
      match parseTerms l ts with
      | some pt =>
        if cfgs.any (fun c => c.length ≠ 2 * l) then "bad-op" else
        joinWith " " (cfgs.map fun c => showG (fsmPathSum pauli pt l (cfgFun (c.take l)) (cfgFun (c.drop l))))
      | none => "ValueError"
    | _, _, _ => "bad-op"
  | [["blk", which, l]] =>
    match l.toNat? with
    | some l =>
      let ts := if which = "bh" then some (bhTensors l) else if which = "ct" then some (ctTensors l)
        else if which = "bhold" then some (bhTensorsOld l) else if which = "ctold" then some (ctTensorsOld l) else none
      match ts with
      | some ts => if ts.isEmpty then "empty" else joinWith " | " (ts.map showBlkMat)
      | none => "bad-op"
    | none => "bad-op"
  | ["blkpath", which, l] :: vals =>
    match l.toNat?, mapAll? (parseAll? parseRat?) vals with
    | some l, some vals =>
      let ts := if which = "bh" then some (bhTensors l) else if which = "ct" then some (ctTensors l)
        else if which = "bhold" then some (bhTensorsOld l) else if which = "ctold" then some (ctTensorsOld l) else none
      match ts with
      | some ts =>
        if vals.length ≠ l ∨ vals.any (fun v => v.length ≠ blkOrder.length) then "bad-op" else
        match blkPathSum (blkFun vals) ts (fun _ => 0) (fun _ => 0) with
        | some x => showRat x
        | none => "err"
      | none => "bad-op"
    | _, _ => "bad-op"
  | _ => "bad-op"


/-! ## MPO conversions, `from_matrix`, compression sweeps (extension of C07; model `Model/MpoConv.lean`)

  request grammar (groups separated by `|`, complex numbers as two rationals `re im`, arrays in C order):
    site   := `d dl dr` + `d*d*dl*dr` complex entries `tensor[a, b, l, r]`
    dec    := `R kf C` + `R*kf` complex (u) + `kf` rationals (s) + `kf*C` complex (vh)      — what `np.linalg.svd` returned
    tomat | site | …                 → `m rows cols entries…` by the contraction / reshape loop of `to_matrix`, or `err`
    tomatpath | site | …             → the same matrix by the bond path sum at the digits of each row / column index
    tosparse pd len | site | …       → the matrix `to_sparse_matrix` accumulates
    frommat d rows cols cutoff maxB | M | dec | …   → every matrix handed to SVD, then every tensor; `ValueError`
    sweep dir tol maxB | site | … | decs | dec | …  → every two-site matrix handed to SVD, then every tensor
    plan nSweeps directions          → the `_compress_one_sweep` calls of `compress`, or `ValueError`
    rotate conj | site   custom d dl dr | raw   identity L d   tomps | site   valid | d dl dr | …
-/
open Yaqs.MpoConv

def GRat.conj (z : GRat) : GRat := ⟨z.re, -z.im⟩

def parseGRats? : List String → Option (List GRat)
  | [] => some []
  | re :: im :: rest => do
    let a ← parseRat? re
    let b ← parseRat? im
    let r ← parseGRats? rest
    pure (⟨a, b⟩ :: r)
  | _ => none

def mkSite (d dl dr : Nat) (xs : Array GRat) : Site GRat :=
  ⟨d, dl, dr, fun a b l r => if a < d ∧ b < d ∧ l < dl ∧ r < dr then xs.getD (((a * d + b) * dl + l) * dr + r) 0 else 0⟩

def parseSite? : List String → Option (Site GRat)
  | d :: dl :: dr :: rest => do
    let d ← d.toNat?
    let dl ← dl.toNat?
    let dr ← dr.toNat?
    let xs ← parseGRats? rest
    if xs.length = d * d * dl * dr then pure (mkSite d dl dr xs.toArray) else none
  | _ => none

def mkMat (r c : Nat) (xs : Array GRat) : Nat → Nat → GRat :=
  fun i j => if i < r ∧ j < c then xs.getD (i * c + j) 0 else 0

def parseDec? : List String → Option (Dec GRat)
  | r :: kf :: c :: rest => do
    let r ← r.toNat?
    let kf ← kf.toNat?
    let c ← c.toNat?
    if rest.length = 2 * r * kf + kf + 2 * kf * c then
      let u ← parseGRats? (rest.take (2 * r * kf))
      let s ← parseAll? parseRat? ((rest.drop (2 * r * kf)).take kf)
      let vh ← parseGRats? (rest.drop (2 * r * kf + kf))
      let sa := s.toArray
      pure ⟨mkMat r kf u.toArray, s, fun p => GRat.ofRat (sa.getD p 0), mkMat kf c vh.toArray⟩
    else none
  | _ => none

def showEntries (xs : List GRat) : String := joinWith " " (xs.map showG)

def showSiteT (t : Site GRat) : String :=
  joinWith " " (["t", toString t.d, toString t.dl, toString t.dr] ++
    ((List.range t.d).flatMap fun a => (List.range t.d).flatMap fun b => (List.range t.dl).flatMap fun l =>
      (List.range t.dr).map fun r => showG (t.e a b l r)))

def showMatM (m : Index.Mat GRat) : String :=
  joinWith " " (["m", toString m.rows, toString m.cols] ++
    ((List.range m.rows).flatMap fun i => (List.range m.cols).map fun j => showG (m.e i j)))

def parseCap? (s : String) : Option (Option Nat) :=
  if s = "none" then some none else s.toNat?.map some

def handleMpo (line : String) : Option String :=
  match splitBar (words line) with
  | ["tomat"] :: sites =>
    some (match mapAll? parseSite? sites with
      | some ts => (match toMatrixCode ts with | some m => showMatM m | none => "err")
      | none => "bad-op")
  | ["tomatpath"] :: sites =>
    some (match mapAll? parseSite? sites with
      | some ts =>
        if wellFormed ts then
          let ds := physDims ts
          let n := Index.dimProd ds
          showMatM ⟨n, n, fun i j => toMatrixEntry ts (Index.unflat ds i) (Index.unflat ds j)⟩
        else "err"
      | none => "bad-op")
  | ["tosparse", pd, len] :: sites =>
    some (match pd.toNat?, len.toNat?, mapAll? parseSite? sites with
      | some pd, some len, some ts => showMatM (toSparseCode pd len ts)
      | _, _, _ => "bad-op")
  | ["frommat", d, rows, cols, cutoff, cap] :: mat :: decs =>
    some (match d.toNat?, rows.toNat?, cols.toNat?, parseRat? cutoff, parseCap? cap, parseGRats? mat, mapAll? parseDec? decs with
      | some d, some rows, some cols, some cutoff, some cap, some xs, some decs =>
        if xs.length ≠ rows * cols then "bad-op" else
        match inferN d rows cols with
        | none => "ValueError"
        | some n =>
          if decs.length ≠ n - 1 then "bad-op" else
          let M := mkMat rows cols xs.toArray
          let xsM := fromMatrixXs d cutoff cap (n - 1) 1 (remOfMat M) decs
          let ts := fromMatrixGo d cutoff cap (n - 1) 1 (remOfMat M) decs
          joinWith " " (xsM.map showMatM ++ ts.map showSiteT)
      | _, _, _, _, _, _, _ => "bad-op")
  | ["sweep", dir, tol, cap] :: rest =>
    some (
      let dir? : Option Dir := if dir = "lr" then some .lr else if dir = "rl" then some .rl else none
      let sites := rest.takeWhile (· ≠ ["decs"])
      let decs := (rest.dropWhile (· ≠ ["decs"])).drop 1
      match dir?, parseRat? tol, parseCap? cap, mapAll? parseSite? sites, mapAll? parseDec? decs with
      | some dir, some tol, some cap, some ts, some decs =>
        if decs.length ≠ ts.length - 1 then "bad-op" else
        let th := compressThetas tol cap ts (sweepOrder dir ts.length) decs
        let out := compressSweep dir tol cap ts decs
        joinWith " " (th.map showMatM ++ out.map showSiteT)
      | _, _, _, _, _ => "bad-op")
  | [["plan", n, dirs]] =>
    some (match n.toInt? with
      | some n =>
        (match compressPlan n dirs with
          | none => "ValueError"
          | some [] => "empty"
          | some ds => joinWith " " (ds.map Dir.toString))
      | none => "bad-op")
  | [["rotate", cj], site] =>
    some (match parseBool? cj, parseSite? site with
      | some cj, some t => showSiteT (rotateSite (if cj then GRat.conj else id) t)
      | _, _ => "bad-op")
  | [["custom", d, dl, dr], raw] =>
    some (match d.toNat?, dl.toNat?, dr.toNat?, parseGRats? raw with
      | some d, some dl, some dr, some xs =>
        if xs.length ≠ dl * dr * d * d then "bad-op" else
        let arr := xs.toArray
        showSiteT (customSite d dl dr fun l r a b =>
          if l < dl ∧ r < dr ∧ a < d ∧ b < d then arr.getD (((l * dr + r) * d + a) * d + b) 0 else 0)
      | _, _, _, _ => "bad-op")
  | [["identity", l, d]] =>
    some (match l.toNat?, d.toNat? with
      | some l, some d =>
        let ts : List (Site GRat) := identityMpo l d
        if ts.isEmpty then "empty" else joinWith " " (ts.map showSiteT)
      | _, _ => "bad-op")
  | [["tomps"], site] =>
    some (match parseSite? site with
      | some t =>
        joinWith " " (["p", toString (t.d * t.d), toString t.dl, toString t.dr] ++
          ((List.range (t.d * t.d)).flatMap fun p => (List.range t.dl).flatMap fun l =>
            (List.range t.dr).map fun r => showG (toMpsEntry t p l r)))
      | none => "bad-op")
  | ["valid"] :: shapes =>
    some (
      let sh? := mapAll? (fun ws => match ws with
        | [d, dl, dr] => do pure ((⟨← d.toNat?, ← dl.toNat?, ← dr.toNat?, fun _ _ _ _ => 0⟩ : Site GRat))
        | _ => none) shapes
      match sh? with
      | some ts => (match checkValid ts with | none => "IndexError" | some true => "1" | some false => "AssertionError")
      | none => "bad-op")
  | _ => none

/-! ## Fermi–Hubbard generators and Jordan–Wigner terms (extension xh07 of C07; model `Model/TrotterHubbard.lean`)

  request grammar
    fhgens 1d L n | u t mu dt        → generators of one sub-step of `create_1d_fermi_hubbard_circuit` in circuit order: `c STRING ; …`
    fhgens 2d Lx Ly n | u t mu dt    → the same for `create_2d_fermi_hubbard_circuit`
    fhmerged 1d L n | u t mu dt      → one entry per distinct Pauli string (sorted by string) with the sum of its coefficients
    fhmerged 2d Lx Ly n | u t mu dt
    fhterms 1d L | u t mu            → the Jordan–Wigner Pauli terms of the documented Hamiltonian, merged and sorted
    fhterms 2d Lx Ly | u t mu
    hopgens L i j | alpha            → generators of the block `add_hopping_term(circ, i, j, alpha)` appends (`IndexError` if `i ≥ j`)
    lrigen L i j P | alpha           → generator of the block of `add_long_range_interaction(∅, i, j, P, alpha)`
    gategens L name q… | theta       → generators of one `p` / `cp` / rotation gate
-/
def opsStr (l : List Op) : String := String.join (l.map Op.toString)

def showGens (gs : List (List Op × Rat)) : String :=
  if gs.isEmpty then "empty" else joinWith " ; " (gs.map fun g => showRat g.2 ++ " " ++ opsStr g.1)

def sortGens (gs : List (List Op × Rat)) : List (List Op × Rat) :=
  (gs.toArray.qsort fun a b => opsStr a.1 < opsStr b.1).toList

def parseGName? : String → Option GName
  | "rx" => some .rx | "ry" => some .ry | "rz" => some .rz | "rxx" => some .rxx | "ryy" => some .ryy | "rzz" => some .rzz
  | "p" => some .p | "cp" => some .cp | _ => none

def handleHub (line : String) : Option String :=
  match splitBar (words line) with
  | [["fhgens", "1d", l, n], ps] =>
    some (match l.toNat?, n.toNat?, parseAll? parseRat? ps with
      | some l, some n, some [u, t, mu, dt] => showGens (fh1dGens l u t mu dt n)
      | _, _, _ => "bad-op")
  | [["fhgens", "2d", lx, ly, n], ps] =>
    some (match lx.toNat?, ly.toNat?, n.toNat?, parseAll? parseRat? ps with
      | some lx, some ly, some n, some [u, t, mu, dt] => showGens (fh2dGens lx ly u t mu dt n)
      | _, _, _, _ => "bad-op")
  | [["fhmerged", "1d", l, n], ps] =>
    some (match l.toNat?, n.toNat?, parseAll? parseRat? ps with
      | some l, some n, some [u, t, mu, dt] => showGens (sortGens (mergeGens (fh1dGens l u t mu dt n)))
      | _, _, _ => "bad-op")
  | [["fhmerged", "2d", lx, ly, n], ps] =>
    some (match lx.toNat?, ly.toNat?, n.toNat?, parseAll? parseRat? ps with
      | some lx, some ly, some n, some [u, t, mu, dt] => showGens (sortGens (mergeGens (fh2dGens lx ly u t mu dt n)))
      | _, _, _, _ => "bad-op")
  | [["fhterms", "1d", l], ps] =>
    some (match l.toNat?, parseAll? parseRat? ps with
      | some l, some [u, t, mu] => showGens (sortGens (mergeGens (hubbard1dTerms l u t mu)))
      | _, _ => "bad-op")
  | [["fhterms", "2d", lx, ly], ps] =>
    some (match lx.toNat?, ly.toNat?, parseAll? parseRat? ps with
      | some lx, some ly, some [u, t, mu] => showGens (sortGens (mergeGens (hubbard2dTerms lx ly u t mu)))
      | _, _, _ => "bad-op")
  | [["hopgens", l, i, j], [al]] =>
    some (match l.toNat?, i.toNat?, j.toNat?, parseRat? al with
      | some l, some i, some j, some al =>
        (match addHopping [] i j al with
          | .ok _ => showGens (hopGens l i j al)
          | .error .index => "IndexError"
          | .error .value => "ValueError")
      | _, _, _, _ => "bad-op")
  | [["lrigen", l, i, j, op], [al]] =>
    some (match l.toNat?, i.toNat?, j.toNat?, parseRat? al with
      | some l, some i, some j, some al =>
        let outer := if op = "X" ∨ op = "x" then some true else if op = "Y" ∨ op = "y" then some false else none
        (match addLongRange [] i j outer al, outer with
          | .ok _, some isX => showGens [(hopString l i j (if isX then .X else .Y), rotCoeff al)]
          | .ok _, none => "ValueError"
          | .error .index, _ => "IndexError"
          | .error .value, _ => "ValueError")
      | _, _, _, _ => "bad-op")
  | [("gategens" :: l :: nm :: qs), [th]] =>
    some (match l.toNat?, parseGName? nm, parseAll? String.toNat? qs, parseRat? th with
      | some l, some nm, some qs, some th => showGens (gateGens l ⟨nm, qs, .q th⟩)
      | _, _, _, _ => "bad-op")
  | _ => none

def handleAll (line : String) : String :=
  match handleHub line with
  | some r => r
  | none =>
    match handleMpo line with
    | some r => r
    | none => handle line

def main : IO Unit := do lineLoop (← IO.getStdin) handleAll
