import YaqsModel.Basic.Parse
import YaqsModel.Model.Rank
/-! line protocol for the rank rules:  `<rule> <params…> | s0 s1 …`  →  kept rank (or `err`) -/
open Yaqs Yaqs.Rank

def parseCap? (w : String) : Option (Option Nat) :=
  if w = "none" then some none else (w.toNat?).map some

def handle (line : String) : String :=
  match splitBar (words line) with
  | [hd, sp] =>
    match parseAll? parseRat? sp with
    | none => "bad-op"
    | some s =>
      match hd with
      | ["dw", thr, mn, mx] =>
        match parseRat? thr, mn.toNat?, mx.toNat? with
        | some t, some a, some b => toString (keepDW s t a b)
        | _, _, _ => "bad-op"
      | ["dwold", thr, mn, mx, dyn] =>
        match parseRat? thr, mn.toNat?, mx.toNat? with
        | some t, some a, some b => toString (keepDWOld s t a b (dyn = "1"))
        | _, _, _ => "bad-op"
      | ["rel", thr, mn, mx] =>
        match parseRat? thr, mn.toNat?, mx.toNat? with
        | some t, some a, some b =>
          match keepRel s t a b with
          | some k => toString k
          | none => "err"
        | _, _, _ => "bad-op"
      | ["two", thr, mx] =>
        match parseRat? thr, parseCap? mx with
        | some t, some c =>
          let k := keepTwoSite s t c
          if k > s.length then "err" else toString k
        | _, _ => "bad-op"
      | ["rsvd", thr, mx] =>
        match parseRat? thr, parseCap? mx with
        | some t, some c => toString (min (keepRightSvd s t c) s.length)
        | _, _ => "bad-op"
      | ["compress", tol, mx] =>
        match parseRat? tol, parseCap? mx with
        | some t, some c => toString (min (keepCompress s t c) s.length)
        | _, _ => "bad-op"
      | ["frommat", cutoff, mx] =>
        match parseRat? cutoff, parseCap? mx with
        | some t, some c => toString (min (keepFromMatrix s t c) s.length)
        | _, _ => "bad-op"
      | ["dtheta", thr] =>
        match parseRat? thr with
        | some t => toString (keepTheta s t)
        | none => "bad-op"
      | _ => "bad-op"
  | _ => "bad-op"

def main : IO Unit := do lineLoop (← IO.getStdin) handle
