import YaqsModel.Basic.Parse
import YaqsModel.Model.Rank
import YaqsModel.Model.Bonds
import YaqsModel.Model.SweepBonds
/-! line protocol for the rank rules:  `<rule> <params…> | s0 s1 …`  →  kept rank (or `err`) -/
open Yaqs Yaqs.Rank Yaqs.Bonds Yaqs.SweepBonds

def parseCap? (w : String) : Option (Option Nat) :=
  if w = "none" then some none else (w.toNat?).map some

/-- `inv <maxB> <minB> | init bonds | observed bonds` → `ok` or the indices violating `Bonds.bound`;
    `invfull …` uses the bound of the property proper (without the floor 2 of the SVD shift). -/
def handleInv (full : Bool) (mx mn : Nat) (init obs : List Nat) : String :=
  let c : Cfg := { mode := .dw, thr := 0, minB := mn, maxB := mx }
  let idx := (List.range obs.length).filter (fun i =>
    let b := if full then max (max mx mn) (init.getD i 1) else bound c init i
    obs.getD i 1 > b)
  if obs.length ≠ init.length then "len-mismatch"
  else if idx.isEmpty then "ok" else "viol " ++ joinWith " " (idx.map toString)

def handleRank (line : String) : String :=
  match splitBar (words line) with
  | [["qr", d, l, b]] =>
    match d.toNat?, l.toNat?, b.toNat? with
    | some d, some l, some b => toString (min (d * l) b)
    | _, _, _ => "bad-op"
  | [[tag, mx, mn], ini, ob] =>
    if tag = "inv" ∨ tag = "invfull" then
      match mx.toNat?, mn.toNat?, parseAll? String.toNat? ini, parseAll? String.toNat? ob with
      | some mx, some mn, some i, some o => handleInv (tag = "invfull") mx mn i o
      | _, _, _, _ => "bad-op"
    else "bad-op"
  | [hd, sp] =>
    match parseAll? parseRat? sp with
    | none => "bad-op"
    | some s =>
      match hd with
      | ["dw", thr, mn, mx] =>
        match parseRat? thr, mn.toNat?, mx.toNat? with
        | some t, some a, some b => toString (keepDW s t a b)
        | _, _, _ => "bad-op"
      | ["dwold", thr, mn, mx, dyn] =>
        match parseRat? thr, mn.toNat?, mx.toNat? with
        | some t, some a, some b => toString (keepDWOld s t a b (dyn = "1"))
        | _, _, _ => "bad-op"
      | ["rel", thr, mn, mx] =>
        match parseRat? thr, mn.toNat?, mx.toNat? with
        | some t, some a, some b =>
          match keepRel s t a b with
          | some k => toString k
          | none => "err"
        | _, _, _ => "bad-op"
      | ["two", thr, mx] =>
        match parseRat? thr, parseCap? mx with
        | some t, some c =>
          let k := keepTwoSite s t c
          if k > s.length then "err" else toString k
        | _, _ => "bad-op"
      | ["rsvd", thr, mx] =>
        match parseRat? thr, parseCap? mx with
        | some t, some c => toString (min (keepRightSvd s t c) s.length)
        | _, _ => "bad-op"
      | ["compress", tol, mx] =>
        match parseRat? tol, parseCap? mx with
        | some t, some c => toString (min (keepCompress s t c) s.length)
        | _, _ => "bad-op"
      | ["frommat", cutoff, mx] =>
        match parseRat? cutoff, parseCap? mx with
        | some t, some c => toString (min (keepFromMatrix s t c) s.length)
        | _, _ => "bad-op"
      | ["dtheta", thr] =>
        match parseRat? thr with
        | some t => toString (keepTheta s t)
        | none => "bad-op"
      | _ => "bad-op"
  | _ => "bad-op"

/-! `sweepbonds <fn> <args…> | <L> <dw|rel> <thr> <min> <max> | phys… | init bonds… | n2… | e0 | e1 | …`
    replays the op sequence Model.SweepBonds assigns to the call (`fn` ∈ ldtdvp / twosite / singlesite / bug / analog /
    gate) with the external data `e_k` (`x` none, `s spectrum`, `v thr spectrum`, `t spectrum`, `g value`) given per op
    position, and prints every op with the value its bond takes, then the final bond vector. -/

def parseExt? : List String → Option Ext
  | ["x"] => some ⟨[], 0, 0⟩
  | "s" :: sp => (parseAll? parseRat? sp).map fun s => ⟨s, 0, 0⟩
  | "v" :: thr :: sp =>
    match parseRat? thr, parseAll? parseRat? sp with
    | some t, some s => some ⟨s, t, 0⟩
    | _, _ => none
  | "t" :: sp => (parseAll? parseRat? sp).map fun s => ⟨s, 0, 0⟩
  | ["g", v] => v.toNat?.map fun n => ⟨[], 0, n⟩
  | _ => none

def parseJump? : List String → Option Jump
  | ["none"] => some .none
  | ["stoch", "-"] => some (.stoch Option.none)
  | ["stoch", p] => p.toNat?.map fun n => .stoch (some n)
  | "sched" :: ps => (parseAll? String.toNat? ps).map .sched
  | _ => none

def parseEvo? (w : String) : Option Evo :=
  if w = "auto" then some .auto
  else match w.splitOn ":" with
    | ["bug", c0] => c0.toNat?.map .bug
    | _ => none

def showOp (o : XOp) (v : Nat) : String :=
  match o with
  | .base (.split i _) => s!"split:{i}={v}"
  | .base (.qr i d) => s!"qr:{i}:{d}={v}"
  | .base (.svd i _ _) => s!"svd:{i}={v}"
  | .base (.trunc i _ _ m) => s!"trunc:{i}:{m}={v}"
  | .qrl i d => s!"qrl:{i}:{d}={v}"
  | .grow i _ => s!"grow:{i}={v}"

def replay (c : Cfg) (bs : List Nat) (ops : List XOp) (next : Nat) : String :=
  let (fin, toks) := ops.foldl (fun (st : List Nat × List String) o =>
    let b := applyX c st.1 o
    (b, showOp o (b.getD o.bond 1) :: st.2)) (bs, [])
  let okFinal := fin = runX c bs ops
  let body := joinWith " " (toks.reverse ++ ["->"] ++ fin.map toString)
  if ¬ okFinal then "internal-mismatch"
  else if ops.length ≠ next then body ++ s!" ext-count:{next}/{ops.length}" else body

def handleSweepBonds (secs : List (List String)) : String :=
  match secs with
  | ("sweepbonds" :: fn) :: [l, mode, thr, mn, mx] :: physS :: initS :: n2S :: extS =>
    match l.toNat?, parseRat? thr, mn.toNat?, mx.toNat?, parseAll? String.toNat? physS,
      parseAll? String.toNat? initS, parseAll? String.toNat? n2S, extS.mapM parseExt? with
    | some L, some t, some a, some b, some physL, some init, some n2L, some exts =>
      if mode ≠ "dw" ∧ mode ≠ "rel" then "bad-op"
      else
        let c : Cfg := { mode := if mode = "dw" then .dw else .rel, thr := t, minB := a, maxB := b }
        let phys : Nat → Nat := fun i => physL.getD i 0
        let n2 : Nat → Nat := fun i => n2L.getD i 0
        let ext : Nat → Ext := fun k => exts.getD k ⟨[], 0, 0⟩
        let flag? : String → Option Bool := fun w => if w = "1" then some true else if w = "0" then some false else none
        let out := fun (ops : List XOp) => replay c init ops exts.length
        match fn with
        | ["ldtdvp", d] =>
          match flag? d with
          | some dg => out (ldtdvpAuto c L phys dg ext init)
          | none => "bad-op"
        | ["twosite", d] =>
          match flag? d with
          | some dg =>
            match twoSiteSk L phys dg with
            | some sk => out (fillFrom ext 0 sk)
            | none => "err"
          | none => "bad-op"
        | ["singlesite", d] =>
          match flag? d with
          | some dg => out (fillFrom ext 0 (singleSiteSk L phys dg))
          | none => "bad-op"
        | ["bug", c0] =>
          match c0.toNat? with
          | some c0 => out (fillFrom ext 0 (bugSk c L c0))
          | none => "bad-op"
        | "analog" :: evo :: noisy :: jump =>
          match parseEvo? evo, flag? noisy, parseJump? jump with
          | some e, some nzy, some j => out (analogStep c L phys e ⟨nzy, n2, j⟩ ext init)
          | _, _, _ => "bad-op"
        | ["gate", f, la, "nonoise"] =>
          match f.toNat?, la.toNat? with
          | some f, some la => out (gateStep L phys f la Option.none ext)
          | _, _ => "bad-op"
        | "gate" :: f :: la :: "noise" :: noisy :: jump =>
          match f.toNat?, la.toNat?, flag? noisy, parseJump? jump with
          | some f, some la, some nzy, some j => out (gateStep L phys f la (some ⟨nzy, n2, j⟩) ext)
          | _, _, _, _ => "bad-op"
        | _ => "bad-op"
    | _, _, _, _, _, _, _, _ => "bad-op"
  | _ => "bad-op"

def handle (line : String) : String :=
  let secs := splitBar (words line)
  match secs with
  | ("sweepbonds" :: _) :: _ => handleSweepBonds secs
  | _ => handleRank line

def main : IO Unit := do lineLoop (← IO.getStdin) handle
