import YaqsModel.Basic.Parse
import YaqsModel.Model.Rank
import YaqsModel.Model.Bonds
/-! line protocol for the rank rules:  `<rule> <params…> | s0 s1 …`  →  kept rank (or `err`) -/
open Yaqs Yaqs.Rank Yaqs.Bonds

def parseCap? (w : String) : Option (Option Nat) :=
  if w = "none" then some none else (w.toNat?).map some

/-- `inv <maxB> <minB> | init bonds | observed bonds` → `ok` or the indices violating `Bonds.bound`;
    `invfull …` uses the bound of the property proper (without the floor 2 of the SVD shift). -/
def handleInv (full : Bool) (mx mn : Nat) (init obs : List Nat) : String :=
  let c : Cfg := { mode := .dw, thr := 0, minB := mn, maxB := mx }
  let idx := (List.range obs.length).filter (fun i =>
    let b := if full then max (max mx mn) (init.getD i 1) else bound c init i
    obs.getD i 1 > b)
  if obs.length ≠ init.length then "len-mismatch"
  else if idx.isEmpty then "ok" else "viol " ++ joinWith " " (idx.map toString)

def handle (line : String) : String :=
  match splitBar (words line) with
  | [["qr", d, l, b]] =>
    match d.toNat?, l.toNat?, b.toNat? with
    | some d, some l, some b => toString (min (d * l) b)
    | _, _, _ => "bad-op"
  | [[tag, mx, mn], ini, ob] =>
    if tag = "inv" ∨ tag = "invfull" then
      match mx.toNat?, mn.toNat?, parseAll? String.toNat? ini, parseAll? String.toNat? ob with
      | some mx, some mn, some i, some o => handleInv (tag = "invfull") mx mn i o
      | _, _, _, _ => "bad-op"
    else "bad-op"
  | [hd, sp] =>
    match parseAll? parseRat? sp with
    | none => "bad-op"
    | some s =>
      match hd with
      | ["dw", thr, mn, mx] =>
        match parseRat? thr, mn.toNat?, mx.toNat? with
        | some t, some a, some b => toString (keepDW s t a b)
        | _, _, _ => "bad-op"
      | ["dwold", thr, mn, mx, dyn] =>
        match parseRat? thr, mn.toNat?, mx.toNat? with
        | some t, some a, some b => toString (keepDWOld s t a b (dyn = "1"))
        | _, _, _ => "bad-op"
      | ["rel", thr, mn, mx] =>
        match parseRat? thr, mn.toNat?, mx.toNat? with
        | some t, some a, some b =>
          match keepRel s t a b with
          | some k => toString k
          | none => "err"
        | _, _, _ => "bad-op"
      | ["two", thr, mx] =>
        match parseRat? thr, parseCap? mx with
        | some t, some c =>
          let k := keepTwoSite s t c
          if k > s.length then "err" else toString k
        | _, _ => "bad-op"
      | ["rsvd", thr, mx] =>
        match parseRat? thr, parseCap? mx with
        | some t, some c => toString (min (keepRightSvd s t c) s.length)
        | _, _ => "bad-op"
      | ["compress", tol, mx] =>
        match parseRat? tol, parseCap? mx with
        | some t, some c => toString (min (keepCompress s t c) s.length)
        | _, _ => "bad-op"
      | ["frommat", cutoff, mx] =>
        match parseRat? cutoff, parseCap? mx with
        | some t, some c => toString (min (keepFromMatrix s t c) s.length)
        | _, _ => "bad-op"
      | ["dtheta", thr] =>
        match parseRat? thr with
        | some t => toString (keepTheta s t)
        | none => "bad-op"
      | _ => "bad-op"
  | _ => "bad-op"

def main : IO Unit := do lineLoop (← IO.getStdin) handle
